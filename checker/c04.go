package main

import (
	"fmt"
	"go/ast"
	"go/types"
	"sort"
	"strings"
)

func init() {
	register("C04",
		"C04 (who-may-write, def-before-use, value identity — structural): (a) compile-phase data is immutable during scanning — the closure returned by makeDataConditionFilter and everything it can call inside package index (prepare, find, nested closures) contain no store to a field or element of regexVariant, regex or dataConditionsContainer, and no element store into the shared prefix/suffix byte slices; this tree's defect (prepare wrote root.prefix/root.suffix) was repaired in 544ff03 and is re-detected in the thorough tier; (b) per-evaluation state is reset before use — every read of progressGroup.{variantResults,successes,fails} is preceded on all paths from closure entry by the reset loop over progressGroups, and every read of progressGroup.variants is preceded, on all paths from the data-source call, by the per-source reset loop; (c) shortcut facts come from the same expression — at each place that fills (regex, prefix, suffix, acceptedLength) the arguments of binaryregexp.Compile, regexanalysis.AcceptedLength and regexanalysis.ConstantSuffix are the same expression, LiteralPrefix is taken from the regex just compiled, and all four facts are stored into the same variant; (d) ConstantSuffix does not let two alternation branches extend one array (FRESH ownership of the branch accumulator). Agreement of the shortcuts in find() with a plain regular-expression scan is NOT decided.",
		ruleC04)
}

func ruleC04(p *Prog, r *Res) {
	// ---------- (a) ----------
	const ruleA = "C04-a compile-phase-immutable"
	r.Rule(ruleA + ": no store to compiled regex variants from scan-phase code")
	maker := p.Fn("index.makeDataConditionFilter")
	if maker == nil {
		return
	}
	var rootClosure *Fn
	for _, l := range maker.Lits {
		// the returned closure: the literal in the return statement
		inspectShallow(maker.Body(), func(x ast.Node) bool {
			if rs, ok := x.(*ast.ReturnStmt); ok && len(rs.Results) == 1 && rs.Results[0] == ast.Expr(l.Lit) {
				rootClosure = l
			}
			return true
		})
	}
	if rootClosure == nil {
		p.anchorFail("closure returned by index.makeDataConditionFilter")
		return
	}
	// scan-phase functions: reachable from the closure via static calls inside package index + nested literals
	scan := map[*Fn]bool{rootClosure: true}
	work := []*Fn{rootClosure}
	for len(work) > 0 {
		f := work[0]
		work = work[1:]
		for _, l := range f.Lits {
			if !scan[l] {
				scan[l] = true
				work = append(work, l)
			}
		}
		for _, c := range callsIn(f.Body()) {
			if fn := p.Callee(f.Pkg, c); fn != nil {
				if tf := p.FnOfObj(fn); tf != nil && tf.Short == "index" && !scan[tf] {
					scan[tf] = true
					work = append(work, tf)
				}
			}
		}
	}
	var scanNames []string
	for f := range scan {
		scanNames = append(scanNames, f.Key())
	}
	sort.Strings(scanNames)
	r.Note("%s: scan-phase functions: %s", ruleA, strings.Join(scanNames, ", "))
	r.Floor(ruleA+" scan-phase functions", 3, len(scan))
	compileTypes := map[string]bool{"regexVariant": true, "regex": true, "dataConditionsContainer": true}
	nStores := 0
	for _, name := range scanNames {
		f := p.Fns[name]
		info := f.Pkg.TypesInfo
		inspectShallow(f.Body(), func(x ast.Node) bool {
			var lhss []ast.Expr
			switch s := x.(type) {
			case *ast.AssignStmt:
				lhss = s.Lhs
			case *ast.IncDecStmt:
				lhss = []ast.Expr{s.X}
			}
			for _, l := range lhss {
				nStores++
				bad := ""
				// walk down the LHS: any selector/index whose base has a compile-phase type
				cur := ast.Unparen(l)
				for cur != nil {
					switch e := cur.(type) {
					case *ast.SelectorExpr:
						if n := namedOf(info.TypeOf(e.X)); n != nil && n.Obj().Pkg() == f.Pkg.Types && compileTypes[n.Obj().Name()] {
							bad = n.Obj().Name() + "." + e.Sel.Name
						}
						cur = ast.Unparen(e.X)
					case *ast.IndexExpr:
						// element of a slice of compile-phase structs, or of a shared prefix/suffix byte slice
						if t := info.TypeOf(e.X); t != nil {
							if sl, ok := t.Underlying().(*types.Slice); ok {
								if n := namedOf(sl.Elem()); n != nil && n.Obj().Pkg() == f.Pkg.Types && compileTypes[n.Obj().Name()] {
									bad = "element of []" + n.Obj().Name()
								}
							}
						}
						if se, ok := ast.Unparen(e.X).(*ast.SelectorExpr); ok && (se.Sel.Name == "prefix" || se.Sel.Name == "suffix") {
							bad = "element of shared " + se.Sel.Name + " bytes"
						}
						cur = ast.Unparen(e.X)
					case *ast.StarExpr:
						if n := namedOf(info.TypeOf(e.X)); n != nil && n.Obj().Pkg() == f.Pkg.Types && compileTypes[n.Obj().Name()] {
							bad = "*" + n.Obj().Name()
						}
						cur = ast.Unparen(e.X)
					default:
						cur = nil
					}
				}
				if bad != "" {
					r.Bad(ruleA, fmt.Sprintf("%s store to %s (%s)", f.Key(), types.ExprString(l), bad), p.Pos(x), "scan-phase code writes compile-phase data that is shared by all streams and data sources: what one stream binds (a variable's literal prefix/suffix, accepted lengths) is used to skip or cut matches in every later stream")
				}
			}
			return true
		})
	}
	r.OkTrivial(ruleA, fmt.Sprintf("%d assignment targets in %d scan-phase functions examined", nStores, len(scan)), p.Pos(rootClosure.Node()), "none has a compile-phase type on its access path")
	r.Floor(ruleA+" assignment targets examined", 40, nStores)

	// ---------- (b) ----------
	const ruleB = "C04-b reset-before-use"
	r.Rule(ruleB + ": per-evaluation progress state is reset before it is read")
	{
		f := rootClosure
		info := f.Pkg.TypesInfo
		fl := p.Flow(f)
		pg := p.Named("index", "progressGroup")
		isPGField := func(e ast.Expr, name string) bool {
			se, ok := ast.Unparen(e).(*ast.SelectorExpr)
			if !ok || se.Sel.Name != name {
				return false
			}
			n := namedOf(info.TypeOf(se.X))
			return n != nil && pg != nil && n.Obj() == pg.Obj()
		}
		// reset loops: RangeStmt over progressGroups whose body assigns the field
		resetX := map[string][]ast.Node{}
		ast.Inspect(f.Body(), func(x ast.Node) bool {
			rs, ok := x.(*ast.RangeStmt)
			if !ok {
				return true
			}
			// by type, not by name: a range over a slice of progressGroup
			if sl, isSl := info.TypeOf(rs.X).Underlying().(*types.Slice); !isSl || pg == nil || namedOf(sl.Elem()) == nil || namedOf(sl.Elem()).Obj() != pg.Obj() {
				return true
			}
			ast.Inspect(rs.Body, func(y ast.Node) bool {
				if as, ok := y.(*ast.AssignStmt); ok {
					for _, l := range as.Lhs {
						for _, fld := range []string{"variantResults", "successes", "fails", "variants"} {
							if isPGField(l, fld) {
								resetX[fld] = append(resetX[fld], rs.X)
							}
						}
					}
				}
				return true
			})
			return true
		})
		dataSourceCalls := fl.Find(func(n ast.Node) bool {
			as, ok := n.(*ast.AssignStmt)
			if !ok || len(as.Rhs) != 1 {
				return false
			}
			c, ok := as.Rhs[0].(*ast.CallExpr)
			if !ok {
				return false
			}
			// by role, not by name: a call of a local function VALUE (a data source closure) that takes the stream
			id, ok := c.Fun.(*ast.Ident)
			if !ok {
				return false
			}
			v, isVar := info.Uses[id].(*types.Var)
			if !isVar {
				return false
			}
			sig, isSig := v.Type().Underlying().(*types.Signature)
			if !isSig || sig.Params().Len() != 1 || sig.Results().Len() != 3 {
				return false
			}
			pn := namedOf(sig.Params().At(0).Type())
			return pn != nil && pn.Obj().Name() == "stream"
		})
		// helpers of the package that read a field of the progressGroup they are given (a method extracted from the
		// closure): a call of one is a read of that field at the call site
		helperReads := map[string]map[*types.Func]bool{}
		for _, h := range p.FnList {
			if h.Short != "index" || h.Lit != nil || h.Decl == nil || h.Body() == nil {
				continue
			}
			hinfo := h.Pkg.TypesInfo
			ho, _ := hinfo.Defs[h.Decl.Name].(*types.Func)
			if ho == nil {
				continue
			}
			ast.Inspect(h.Body(), func(y ast.Node) bool {
				se, ok := y.(*ast.SelectorExpr)
				if !ok {
					return true
				}
				if n := namedOf(hinfo.TypeOf(se.X)); n == nil || pg == nil || n.Obj() != pg.Obj() {
					return true
				}
				if helperReads[se.Sel.Name] == nil {
					helperReads[se.Sel.Name] = map[*types.Func]bool{}
				}
				helperReads[se.Sel.Name][ho] = true
				return true
			})
		}
		nb := 0
		for _, fld := range []string{"variantResults", "successes", "fails", "variants"} {
			isReset := func(n ast.Node) bool {
				for _, x := range resetX[fld] {
					if n == x {
						return true
					}
				}
				return false
			}
			// reads of the field (not as the target of a plain assignment)
			var reads []Pt
			for _, b := range fl.G.Blocks {
				if !b.Live {
					continue
				}
				for i, n := range b.Nodes {
					isRead := false
					inspectParents(n, func(y ast.Node, parents []ast.Node) bool {
						if e, ok := y.(ast.Expr); ok && isPGField(e, fld) {
							target := false
							if len(parents) > 0 {
								if as, ok := parents[len(parents)-1].(*ast.AssignStmt); ok && as.Tok.String() == "=" {
									for _, l := range as.Lhs {
										if l == e {
											target = true
										}
									}
								}
							}
							// a read inside the reset loop itself (ps.variants[:0]) is part of the reset
							inReset := false
							ast.Inspect(f.Body(), func(z ast.Node) bool {
								if rs, ok := z.(*ast.RangeStmt); ok && isReset(rs.X) && within(y, rs.Body) {
									inReset = true
								}
								return true
							})
							if !target && !inReset {
								isRead = true
							}
						}
						return true
					})
					if !isRead && len(helperReads[fld]) != 0 {
						inspectShallow(n, func(y ast.Node) bool {
							if c, ok := y.(*ast.CallExpr); ok {
								if fn := p.Callee(f.Pkg, c); fn != nil && helperReads[fld][fn.Origin()] {
									isRead = true
								}
							}
							return !isRead
						})
					}
					if isRead {
						reads = append(reads, Pt{b, i})
					}
				}
			}
			nb++
			starts := []Pt{fl.Entry()}
			from := "closure entry"
			if fld == "variants" {
				starts = nil
				for _, d := range dataSourceCalls {
					starts = append(starts, After(d))
				}
				starts = append(starts, fl.Entry())
				from = "closure entry and every data-source call"
			}
			bad := ""
			for _, rd := range reads {
				res := fl.Reach(starts, func(n ast.Node) bool { return n == fl.node(rd) }, isReset)
				if res.Found {
					bad = fmt.Sprintf("read at line %d reachable without the reset (%s)", lineOf(p.Fset, fl.node(rd)), fl.traceString(res))
					break
				}
			}
			r.Check(bad == "" && len(resetX[fld]) > 0 && len(reads) > 0, ruleB, "progressGroup."+fld, p.Pos(f.Node()), fmt.Sprintf("%d read(s), each preceded by the reset loop on every path from %s", len(reads), from),
				"leftovers of the previous stream (or data source) count as progress for this one: "+bad+fmt.Sprintf(" [resets found: %d, reads found: %d]", len(resetX[fld]), len(reads)))
		}
		r.Floor(ruleB, 4, nb)
	}

	// ---------- (c) ----------
	const ruleC = "C04-c facts-from-one-expression"
	r.Rule(ruleC + ": regex, prefix, suffix and accepted length of a variant are computed from the same expression and stored into the same variant")
	nc := 0
	for _, f := range p.FnList {
		if f.Short != "index" {
			continue
		}
		info := f.Pkg.TypesInfo
		type site struct {
			call   *ast.CallExpr
			target string
			arg    string
			stmt   ast.Node
		}
		var compiles, lengths, suffixes, prefixes []site
		helperExpr := map[*ast.CallExpr]string{} // prefix helper call → the expression text passed with the regex
		inspectShallow(f.Body(), func(x ast.Node) bool {
			as, ok := x.(*ast.AssignStmt)
			if !ok || len(as.Rhs) != 1 {
				return true
			}
			c, ok := as.Rhs[0].(*ast.CallExpr)
			if !ok {
				return true
			}
			fn := p.Callee(f.Pkg, c)
			if fn == nil {
				return true
			}
			tgt := ""
			if se, ok := ast.Unparen(as.Lhs[0]).(*ast.SelectorExpr); ok {
				tgt = types.ExprString(se.X)
			}
			switch fn.FullName() {
			case "rsc.io/binaryregexp.Compile":
				compiles = append(compiles, site{c, tgt, types.ExprString(c.Args[0]), as})
			case modPath + "/internal/tools/regexAnalysis.AcceptedLength":
				lengths = append(lengths, site{c, tgt, types.ExprString(c.Args[0]), as})
			case modPath + "/internal/tools/regexAnalysis.ConstantSuffix":
				suffixes = append(suffixes, site{c, tgt, types.ExprString(c.Args[0]), as})
			case "(*rsc.io/binaryregexp.Regexp).LiteralPrefix":
				if se, ok := ast.Unparen(c.Fun).(*ast.SelectorExpr); ok {
					recv := types.ExprString(se.X)
					prefixes = append(prefixes, site{c, strings.TrimSuffix(recv, ".regex"), recv, as})
				}
			default:
				// a helper of the package that asks its *Regexp parameter for the literal prefix (and may test the
				// expression text it is given alongside): the prefix belongs to the argument passed for that parameter
				if h := p.FnOfObj(fn); h != nil && h.Pkg == f.Pkg && h.Decl != nil && h.Body() != nil {
					hinfo := h.Pkg.TypesInfo
					reIdx, exprIdx, i := -1, -1, 0
					for _, fld := range h.Decl.Type.Params.List {
						for _, nm := range fld.Names {
							o := hinfo.Defs[nm]
							if o != nil && types.TypeString(o.Type(), nil) == "*rsc.io/binaryregexp.Regexp" {
								for _, hc := range callsIn(h.Body()) {
									if hf := p.Callee(h.Pkg, hc); hf != nil && hf.FullName() == "(*rsc.io/binaryregexp.Regexp).LiteralPrefix" {
										if se, ok := ast.Unparen(hc.Fun).(*ast.SelectorExpr); ok && identObj(hinfo, se.X) == o {
											reIdx = i
										}
									}
								}
							}
							if o != nil && types.TypeString(o.Type(), nil) == "string" {
								exprIdx = i
							}
							i++
						}
					}
					if reIdx >= 0 && reIdx < len(c.Args) {
						recv := types.ExprString(c.Args[reIdx])
						st := site{c, strings.TrimSuffix(recv, ".regex"), recv, as}
						if exprIdx >= 0 && exprIdx < len(c.Args) {
							helperExpr[c] = types.ExprString(c.Args[exprIdx])
						}
						prefixes = append(prefixes, st)
					}
				}
			}
			_ = info
			return true
		})
		for _, cs := range compiles {
			if cs.target == "" {
				continue
			}
			nc++
			key := fmt.Sprintf("%s compile site %s", f.Key(), cs.target)
			// the nearest following AcceptedLength / ConstantSuffix / LiteralPrefix
			next := func(list []site) *site {
				var best *site
				for i := range list {
					if list[i].call.Pos() > cs.call.Pos() && (best == nil || list[i].call.Pos() < best.call.Pos()) {
						best = &list[i]
					}
				}
				return best
			}
			l, s, pf := next(lengths), next(suffixes), next(prefixes)
			if l == nil || s == nil || pf == nil {
				r.Bad(ruleC, key, p.Pos(cs.call), "a regex is compiled here but its prefix/suffix/length facts are not all computed in this function")
				continue
			}
			ok := l.arg == cs.arg && s.arg == cs.arg && pf.arg == cs.target+".regex" && l.target == cs.target && s.target == cs.target
			if he, has := helperExpr[pf.call]; has && he != cs.arg {
				ok = false // the helper tests another expression than the one that was compiled
			}
			// the prefix store targets: assignments `<target>.prefix = …` following the LiteralPrefix call
			var prefixTargets []string
			limit := f.Body().End()
			for _, other := range compiles {
				if other.call.Pos() > cs.call.Pos() && other.call.Pos() < limit {
					limit = other.call.Pos()
				}
			}
			inspectShallow(f.Body(), func(x ast.Node) bool {
				if as, ok := x.(*ast.AssignStmt); ok && as.Pos() > pf.call.Pos() && as.Pos() < limit {
					for _, lh := range as.Lhs {
						if se, ok := ast.Unparen(lh).(*ast.SelectorExpr); ok && (se.Sel.Name == "prefix" || se.Sel.Name == "suffix") {
							prefixTargets = append(prefixTargets, types.ExprString(se.X))
						}
					}
				}
				return true
			})
			for _, t := range prefixTargets {
				if t != cs.target {
					ok = false
				}
			}
			r.Check(ok, ruleC, key, p.Pos(cs.call), fmt.Sprintf("Compile(%s), AcceptedLength(%s), ConstantSuffix(%s), %s.LiteralPrefix(); all stored into %s", cs.arg, l.arg, s.arg, pf.arg, cs.target),
				fmt.Sprintf("the four facts do not belong together: Compile(%s)→%s, AcceptedLength(%s)→%s, ConstantSuffix(%s)→%s, LiteralPrefix of %s, prefix/suffix stored into %v: the shortcuts would describe another expression than the one that is matched", cs.arg, cs.target, l.arg, l.target, s.arg, s.target, pf.arg, prefixTargets))
		}
	}
	r.Floor(ruleC, 3, nc)

	ruleSuffixBranchOwned("C04-d suffix-branch-owned")(p, r)
}

// ruleSuffixBranchOwned: C04-d / C18-c.
func ruleSuffixBranchOwned(ruleD string) func(*Prog, *Res) {
	return func(p *Prog, r *Res) {
		r.Rule(ruleD + ": the accumulator handed to the first branch of an alternation is an owned copy")
		if f := p.Fn("regexanalysis.ConstantSuffix"); f != nil {
			oc := newOwnCtx(p)
			nd := 0
			for _, l := range f.Lits {
				info := l.Pkg.TypesInfo
				inspectShallow(l.Body(), func(x ast.Node) bool {
					c, ok := x.(*ast.CallExpr)
					if !ok || len(c.Args) == 0 {
						return true
					}
					id, ok := c.Fun.(*ast.Ident)
					if !ok || !isLocalFuncVar(info, id) {
						return true
					}
					u, ok := ast.Unparen(c.Args[0]).(*ast.UnaryExpr)
					if !ok {
						return true // evaluate(s, …): passes the caller's accumulator on (second branch)
					}
					nd++
					okO, why := oc.owned(l, u.X)
					_ = info
					r.Check(okO, ruleD, fmt.Sprintf("%s evaluate(&%s, …)", l.Key(), types.ExprString(u.X)), p.Pos(c), why, "the branch accumulator shares its backing array with the caller's suffix ("+why+"): both alternation branches append into the same array and the computed common suffix is the tail of the second branch only")
					return true
				})
			}
			r.Floor(ruleD, 1, nd)
		}
	}
}
