package main

// c18e.go: C18-e a successful return of the suffix walk has accounted for the rest of the program.
//
// ConstantSuffix walks the compiled program from the start; its accumulator *s holds the bytes every match seen so far
// ends with. `return nil` means "*s is a suffix of everything that can follow from here". That is true at InstMatch
// (nothing follows), after `*s = nil` (no suffix is claimed) and after an alternation has cut *s down to what both
// branches share. Any other successful return claims the bytes accumulated IN FRONT of the current position as the
// suffix of whatever follows — seeded C18l: a walk budget that returns nil when it is exhausted makes
// b(?:(?:ab|cb){17}|zzz) report the suffix "b" although bzzz matches; the payload scan then cuts the data behind the
// last "b" and misses it.
//
// Rule (FLOW): in the walk closure of regexanalysis.ConstantSuffix every `return nil` that is not in the InstMatch case
// is reached only through an assignment that clears *s (nil) or re-slices it.

import (
	"fmt"
	"go/ast"
	"go/token"
	"go/types"
)

func init() {
	register("C18",
		"C18-e (FLOW): in the walk closure of regexanalysis.ConstantSuffix every `return nil` outside the InstMatch case is reached only through an assignment `*s = nil` or `*s = (*s)[…]` (the accumulator cleared, or cut to what both branches of an alternation share). A successful return anywhere else claims the bytes accumulated in front of the current instruction as the suffix of everything that can still follow: a walk budget that returns nil makes b(?:(?:ab|cb){17}|zzz) report the suffix \"b\" although bzzz matches.",
		func(p *Prog, r *Res) {
			const rule = "C18-e successful-return-accounts-for-the-rest"
			r.Rule(rule + ": the suffix walk returns success only at InstMatch or after clearing / cutting the accumulator")
			f := p.Fn("regexanalysis.ConstantSuffix")
			if f == nil {
				p.anchorFail("regexanalysis.ConstantSuffix")
				return
			}
			n := 0
			for _, l := range f.Lits {
				info := l.Pkg.TypesInfo
				// the accumulator: a parameter of type *[]byte
				var acc types.Object
				if l.Lit.Type.Params != nil {
					for _, fld := range l.Lit.Type.Params.List {
						for _, nm := range fld.Names {
							if o := info.Defs[nm]; o != nil && types.TypeString(o.Type(), nil) == "*[]byte" {
								acc = o
							}
						}
					}
				}
				if acc == nil {
					continue
				}
				fl := p.Flow(l)
				setsAcc := func(nd ast.Node) bool {
					as, ok := nd.(*ast.AssignStmt)
					if !ok || as.Tok != token.ASSIGN || len(as.Lhs) != 1 || len(as.Rhs) != 1 {
						return false
					}
					st, ok := ast.Unparen(as.Lhs[0]).(*ast.StarExpr)
					if !ok || identObj(info, st.X) != acc {
						return false
					}
					rhs := ast.Unparen(as.Rhs[0])
					if id, ok := rhs.(*ast.Ident); ok && id.Name == "nil" {
						return true
					}
					if sl, ok := rhs.(*ast.SliceExpr); ok {
						if st2, ok := ast.Unparen(sl.X).(*ast.StarExpr); ok && identObj(info, st2.X) == acc {
							return true
						}
					}
					return false
				}
				inMatchCase := func(ret ast.Node) bool {
					hit := false
					inspectParents(l.Body(), func(x ast.Node, parents []ast.Node) bool {
						if x == ret {
							for _, par := range parents {
								if cc, ok := par.(*ast.CaseClause); ok {
									for _, e := range cc.List {
										if se, ok := ast.Unparen(e).(*ast.SelectorExpr); ok && se.Sel.Name == "InstMatch" && len(cc.List) == 1 {
											hit = true
										}
									}
								}
							}
						}
						return true
					})
					return hit
				}
				for _, pt := range fl.Find(func(nd ast.Node) bool {
					rs, ok := nd.(*ast.ReturnStmt)
					if !ok || len(rs.Results) != 1 {
						return false
					}
					id, ok := ast.Unparen(rs.Results[0]).(*ast.Ident)
					return ok && id.Name == "nil"
				}) {
					ret := fl.node(pt)
					n++
					key := fmt.Sprintf("%s return nil@%s", l.Key(), relLine(p, l, ret))
					if inMatchCase(ret) {
						r.Ok(rule, key, p.Pos(ret), "the end of the program: nothing follows")
						continue
					}
					res := fl.Reach([]Pt{fl.Entry()}, func(nd ast.Node) bool { return nd == ret }, setsAcc)
					r.Check(!res.Found, rule, key, p.Pos(ret), "reached only after the accumulator was cleared or cut", "success is returned with the accumulator as it stood ("+fl.traceString(res)+"): the bytes collected in front of this point are reported as the suffix of everything that can still follow, although the rest of the program was not walked — the payload scan cuts the data behind the last occurrence of that suffix and misses matches that end differently")
				}
			}
			r.Floor(rule, 3, n)
		})
}
