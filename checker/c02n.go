package main

// c02n.go: C02-n the page offset is computed from the limit that is passed.
//
// View.SearchStreams pages through the result of a query: page p of a query shows the streams behind the first
// p·limit ones, where limit is the query's own `limit:` if it has one and the default otherwise. index.SearchStreams
// receives both numbers; they belong together. Seeded C02l computes the offset together with the default limit, before
// the query's own limit replaces it: `sort:id limit:2` on page 1 skips 100 streams instead of 2.
//
// Rule (typed AST + FLOW): at every call of index.SearchStreams outside package index whose skip argument is not the
// constant 0, the skip argument is computed from the variable passed as limit — it mentions that variable directly or
// is a local whose definition does — and that variable is not assigned between the definition and the call.

import (
	"fmt"
	"go/ast"
	"go/types"
)

func init() {
	register("C02",
		"C02-n (typed AST + FLOW): at every call of index.SearchStreams from outside package index with a skip argument other than the constant 0, the skip value is computed from the variable that is passed as limit (directly, or through a local whose definition reads it), and that variable is not assigned on any path between the definition of the skip value and the call. An offset computed from the default limit before the query's own `limit:` is applied shows the wrong page: `sort:id limit:2`, page 1, skips 100 streams instead of 2.",
		func(p *Prog, r *Res) {
			const rule = "C02-n page-offset-from-passed-limit"
			r.Rule(rule + ": skip is computed from the limit variable that is passed, after its last assignment")
			target := p.Fn("index.SearchStreams")
			if target == nil || target.Decl == nil {
				p.anchorFail("index.SearchStreams")
				return
			}
			limitIdx, skipIdx, i := -1, -1, 0
			for _, fld := range target.Decl.Type.Params.List {
				for _, nm := range fld.Names {
					switch nm.Name {
					case "limit":
						limitIdx = i
					case "skip":
						skipIdx = i
					}
					i++
				}
			}
			if limitIdx < 0 || skipIdx < 0 {
				p.anchorFail("parameters limit and skip of index.SearchStreams")
				return
			}
			tobj, _ := target.Pkg.TypesInfo.Defs[target.Decl.Name].(*types.Func)
			n, nCalls := 0, 0
			for _, f := range p.FnList {
				if f.Short == "index" || f.Body() == nil {
					continue
				}
				info := f.Pkg.TypesInfo
				inspectShallow(f.Body(), func(x ast.Node) bool {
					c, ok := x.(*ast.CallExpr)
					if !ok || p.Callee(f.Pkg, c) != tobj || len(c.Args) <= skipIdx {
						return true
					}
					nCalls++
					if k, isConst := constInt(info, c.Args[skipIdx]); isConst && k == 0 {
						return true
					}
					n++
					key := fmt.Sprintf("%s passes skip = %s with limit = %s", f.Key(), exprString(p.Fset, c.Args[skipIdx]), exprString(p.Fset, c.Args[limitIdx]))
					L := identObj(info, c.Args[limitIdx])
					if L == nil {
						r.Undecided(rule, key, p.Pos(c), "the limit argument is not a variable")
						return true
					}
					mentionsL := func(e ast.Node) bool {
						hit := false
						ast.Inspect(e, func(y ast.Node) bool {
							if id, ok := y.(*ast.Ident); ok && info.Uses[id] == L {
								hit = true
							}
							return !hit
						})
						return hit
					}
					fl := p.Flow(f)
					cpt, okc := fl.PointOf(c)
					if !okc {
						r.Undecided(rule, key, p.Pos(c), "call not in the CFG")
						return true
					}
					callNode := fl.node(cpt)
					assignsL := func(nd ast.Node) bool {
						switch s := nd.(type) {
						case *ast.AssignStmt:
							for _, l := range s.Lhs {
								if identObj(info, l) == L {
									return true
								}
							}
						case *ast.IncDecStmt:
							return identObj(info, s.X) == L
						}
						return false
					}
					if mentionsL(c.Args[skipIdx]) {
						r.Ok(rule, key, p.Pos(c), "the skip argument reads the limit variable at the call")
						return true
					}
					S := identObj(info, c.Args[skipIdx])
					if S == nil {
						r.Bad(rule, key, p.Pos(c), "the skip value is not computed from the limit that is passed: the page that is shown does not start at a multiple of the page size in use")
						return true
					}
					// definitions of S
					defs := fl.Find(func(nd ast.Node) bool {
						as, ok := nd.(*ast.AssignStmt)
						if !ok {
							return false
						}
						for _, l := range as.Lhs {
							if identObj(info, l) == S {
								return true
							}
						}
						return false
					})
					if len(defs) == 0 {
						r.Undecided(rule, key, p.Pos(c), "no definition of the skip variable in the function")
						return true
					}
					okAll, why := true, ""
					for _, dpt := range defs {
						as := fl.node(dpt).(*ast.AssignStmt)
						var rhs ast.Expr
						for i, l := range as.Lhs {
							if identObj(info, l) == S && len(as.Lhs) == len(as.Rhs) {
								rhs = as.Rhs[i]
							}
						}
						if rhs == nil || !mentionsL(rhs) {
							okAll, why = false, fmt.Sprintf("%s is defined at line %d without reading %s", S.Name(), lineOf(p.Fset, as), L.Name())
							continue
						}
						// L assigned between this definition and the call
						for _, apt := range fl.Find(func(nd ast.Node) bool { return assignsL(nd) && nd != ast.Node(as) }) {
							an := fl.node(apt)
							if fl.Reach([]Pt{After(dpt)}, func(nd ast.Node) bool { return nd == an }, nil).Found &&
								fl.Reach([]Pt{After(apt)}, func(nd ast.Node) bool { return nd == callNode }, func(nd ast.Node) bool { return nd == ast.Node(as) }).Found {
								okAll, why = false, fmt.Sprintf("%s is assigned at line %d after %s was computed from it at line %d", L.Name(), lineOf(p.Fset, an), S.Name(), lineOf(p.Fset, as))
							}
						}
					}
					r.Check(okAll, rule, key, p.Pos(c), "skip is computed from the limit variable after its last assignment", why+": the offset belongs to another page size than the limit that is passed — a query with its own `limit:` shows the wrong streams on every page but the first")
					return true
				})
			}
			r.Note("%s: %d calls of index.SearchStreams outside package index, %d with a non-zero skip", rule, nCalls, n)
			r.Floor(rule, 1, n)
		})
}
