package main

// c20f.go: C20-f concurrent workers do not write what they capture.
//
// The converter job starts one worker goroutine per conversion from inside its scheduling loop; up to NumCPU of them
// run at the same time, next to the coordinating goroutine. They report through a channel, and the coordinator is the
// sole writer of the job's bookkeeping (the per-converter bitmask of streams, the failed-jobs map). Seeded C20k lets
// the workers unset "already cached" streams in that bitmask themselves: two workers of one converter, or a worker and
// the coordinator, now write the same word without synchronisation.
//
// Rule (typed AST): a function literal started with `go` inside a loop does not write a variable it captures from
// outside that loop — no assignment, ++/--, element or field store, append-assign, and no call of a mutating bitmask
// method (the C06-a mutator list) on it or on one of its elements — unless the statement lies between Lock and Unlock
// of a mutex in the literal.

import (
	"fmt"
	"go/ast"
	"go/token"
	"go/types"
	"strings"
)

func init() {
	register("C20",
		"C20-f (typed AST): in packages manager, builder, converters and index a function literal started with `go` inside a loop — several instances run concurrently with each other and with the spawner — does not write a variable captured from outside the loop: no assignment, ++/--, element/field store or append-assign with that variable as root, and no call of a mutating bitmask method on it or its elements (outside a Lock/Unlock region of the literal). Workers answer through their channel; the coordinating goroutine stays the only writer of the job's bookkeeping.",
		func(p *Prog, r *Res) {
			const rule = "C20-f workers-do-not-write-captured-state"
			r.Rule(rule + ": goroutines started in a loop write only their own variables")
			n := 0
			for _, f := range p.FnList {
				if f.Body() == nil {
					continue
				}
				switch f.Short {
				case "manager", "builder", "converters", "index":
				default:
					continue
				}
				info := f.Pkg.TypesInfo
				inspectParents(f.Body(), func(x ast.Node, parents []ast.Node) bool {
					gs, ok := x.(*ast.GoStmt)
					if !ok {
						return true
					}
					lit, ok := ast.Unparen(gs.Call.Fun).(*ast.FuncLit)
					if !ok {
						return true
					}
					var loop ast.Node
					for _, par := range parents {
						switch par.(type) {
						case *ast.ForStmt, *ast.RangeStmt:
							loop = par
						}
					}
					if loop == nil {
						return true
					}
					n++
					key := fmt.Sprintf("%s worker@%s", f.Key(), relLine(p, f, gs))
					outside := func(o types.Object) bool {
						if o == nil {
							return false
						}
						v, ok := o.(*types.Var)
						if !ok || v.IsField() || v.Pkg() != f.Pkg.Types {
							return false
						}
						// declared inside the loop: one instance per iteration (or per goroutine)
						return !(loop.Pos() <= v.Pos() && v.Pos() < loop.End())
					}
					rootOf := func(e ast.Expr) types.Object {
						id := rootIdentOf(e)
						if id == nil {
							return nil
						}
						return info.Uses[id]
					}
					// Lock/Unlock regions of the literal (coarse: positions between a Lock call and the next Unlock)
					type region struct{ from, to token.Pos }
					var locked []region
					var lastLock token.Pos
					ast.Inspect(lit.Body, func(y ast.Node) bool {
						if c, ok := y.(*ast.CallExpr); ok {
							if se, ok := ast.Unparen(c.Fun).(*ast.SelectorExpr); ok {
								switch se.Sel.Name {
								case "Lock":
									lastLock = c.End()
								case "Unlock":
									if lastLock.IsValid() {
										locked = append(locked, region{lastLock, c.Pos()})
										lastLock = token.NoPos
									}
								}
							}
						}
						return true
					})
					if lastLock.IsValid() {
						locked = append(locked, region{lastLock, lit.End()}) // deferred unlock
					}
					underLock := func(pos token.Pos) bool {
						for _, rg := range locked {
							if rg.from <= pos && pos < rg.to {
								return true
							}
						}
						return false
					}
					bad, what := ast.Node(nil), ""
					// nested literals run here only when they are called on the spot (or deferred / started); a
					// literal that is sent on a channel — a closure posted to the service goroutine — runs elsewhere
					runsHere := map[*ast.FuncLit]bool{}
					ast.Inspect(lit.Body, func(y ast.Node) bool {
						if c, ok := y.(*ast.CallExpr); ok {
							if fl, ok := ast.Unparen(c.Fun).(*ast.FuncLit); ok {
								runsHere[fl] = true
							}
						}
						return true
					})
					ast.Inspect(lit.Body, func(y ast.Node) bool {
						if bad != nil {
							return false
						}
						switch s := y.(type) {
						case *ast.FuncLit:
							return runsHere[s]
						case *ast.AssignStmt:
							if s.Tok == token.DEFINE {
								return true
							}
							for _, l := range s.Lhs {
								if id, ok := l.(*ast.Ident); ok && id.Name == "_" {
									continue
								}
								if o := rootOf(l); outside(o) && !underLock(s.Pos()) {
									bad, what = s, "assigns "+exprString(p.Fset, l)
								}
							}
						case *ast.IncDecStmt:
							if o := rootOf(s.X); outside(o) && !underLock(s.Pos()) {
								bad, what = s, "changes "+exprString(p.Fset, s.X)
							}
						case *ast.CallExpr:
							se, ok := ast.Unparen(s.Fun).(*ast.SelectorExpr)
							if !ok || !bmMutators[se.Sel.Name] {
								return true
							}
							t := info.TypeOf(se.X)
							if t == nil || !strings.Contains(types.TypeString(t, nil), "bitmask.") {
								return true
							}
							if o := rootOf(se.X); outside(o) && !underLock(s.Pos()) {
								bad, what = s, "calls "+exprString(p.Fset, se.X)+"."+se.Sel.Name
							}
						}
						return true
					})
					if bad != nil {
						r.Bad(rule, key, p.Pos(bad), "a worker started in a loop "+what+", which it captures from outside the loop: the instances run concurrently with each other and with the goroutine that started them, and nothing orders these writes — a data race on the job's bookkeeping")
					} else {
						r.Ok(rule, key, p.Pos(gs), "the literal writes only variables of its own iteration (and channels)")
					}
					return true
				})
			}
			r.Floor(rule, 1, n)
		})
}
