package main

// c03d.go: C03-d same-test-agreement (sibling agreement on the identity of a data-condition element).
//
// Two DataConditionElements are either the same test (same direction flags, same converter, same expression, same
// sub-query, same variables) or different tests: there is no arithmetic that merges them. DataCondition.equal states
// which fields make up that identity. Every other place in package query that decides field by field whether two
// elements are "the same" — the sort comparator and the absorption / contradiction loop of cleanDataConditions — must
// look at the same set of fields: a field that equal() distinguishes and the normaliser ignores lets the normaliser
// declare a satisfiable conjunction impossible (`cdata.c1:x -cdata.c2:x`) or drop a conjunct (`cdata.c1:x cdata.c2:x`).

import (
	"fmt"
	"go/ast"
	"go/token"
	"go/types"
	"sort"
	"strings"
)

func init() {
	register("C03",
		"C03-d (sibling agreement, typed AST): the set of DataConditionElement fields that DataCondition.equal compares between two elements is the identity of a payload test. Every other function of package query that compares two elements field by field (two locals of that type with at least two `x.F op y.F` comparisons: the sort comparator and the absorption loop of cleanDataConditions) compares every field of that identity; the same for DataConditionElementVariable. Absorption or contradiction between tests that differ in an ignored field (the converter whose output is searched) changes what the query means.",
		ruleC03SameTest)
}

func ruleC03SameTest(p *Prog, r *Res) {
	const rule = "C03-d same-test-agreement"
	r.Rule(rule + ": field-wise comparisons of data-condition elements agree with DataCondition.equal")
	pk := p.By["query"]
	if pk == nil {
		p.anchorFail("package query")
		return
	}
	type site struct {
		f      *Fn
		a, b   types.Object
		fields map[string]bool
		pos    ast.Node
		whole  bool
	}
	elemType := func(t types.Type) string {
		if pt, ok := t.Underlying().(*types.Pointer); ok {
			t = pt.Elem()
		}
		if nt := namedOf(t); nt != nil && nt.Obj().Pkg() != nil && nt.Obj().Pkg().Name() == "query" {
			switch nt.Obj().Name() {
			case "DataConditionElement", "DataConditionElementVariable":
				return nt.Obj().Name()
			}
		}
		return ""
	}
	wholeElem := map[string]bool{} // element types compared as whole values through slices.Equal
	sitesOf := func(f *Fn) []*site {
		info := f.Pkg.TypesInfo
		var out []*site
		find := func(a, b types.Object) *site {
			for _, s := range out {
				if (s.a == a && s.b == b) || (s.a == b && s.b == a) {
					return s
				}
			}
			s := &site{f: f, a: a, b: b, fields: map[string]bool{}}
			out = append(out, s)
			return s
		}
		// x.F (possibly under len(…) or indexed) → (x, F)
		var fieldOf func(e ast.Expr) (types.Object, string)
		fieldOf = func(e ast.Expr) (types.Object, string) {
			e = ast.Unparen(e)
			switch x := e.(type) {
			case *ast.CallExpr:
				if isBuiltin(info, x, "len") && len(x.Args) == 1 {
					return fieldOf(x.Args[0])
				}
			case *ast.IndexExpr:
				return fieldOf(x.X)
			case *ast.SelectorExpr:
				if o := identObj(info, x.X); o != nil && elemType(o.Type()) != "" {
					return o, x.Sel.Name
				}
			}
			return nil, ""
		}
		inspectShallow(f.Body(), func(x ast.Node) bool {
			// slices.Equal(a.F, b.F) compares the field (and, element-wise, whole values of the element type)
			if c, ok := x.(*ast.CallExpr); ok && len(c.Args) >= 2 {
				if fn := p.Callee(f.Pkg, c); fn != nil && fn.Pkg() != nil && (fn.FullName() == "slices.Equal" || fn.FullName() == "slices.EqualFunc" || fn.FullName() == "reflect.DeepEqual" || fn.FullName() == "bytes.Equal") {
					ox, fx := fieldOf(c.Args[0])
					oy, fy := fieldOf(c.Args[1])
					if ox != nil && oy != nil && ox != oy && fx == fy && elemType(ox.Type()) == elemType(oy.Type()) {
						st := find(ox, oy)
						st.fields[fx] = true
						if st.pos == nil {
							st.pos = c
						}
						if fn.FullName() != "slices.EqualFunc" {
							if sl, ok := info.TypeOf(c.Args[0]).Underlying().(*types.Slice); ok && elemType(sl.Elem()) != "" {
								wholeElem[elemType(sl.Elem())] = true
							}
						}
					}
				}
				return true
			}
			be, ok := x.(*ast.BinaryExpr)
			if !ok {
				return true
			}
			switch be.Op {
			case token.EQL, token.NEQ, token.LSS, token.GTR, token.LEQ, token.GEQ:
			default:
				return true
			}
			// whole-struct comparison of two values of the type
			if tx := info.TypeOf(be.X); tx != nil && elemType(tx) != "" && elemType(info.TypeOf(be.Y)) == elemType(tx) {
				if _, isPtr := tx.Underlying().(*types.Pointer); !isPtr {
					ox, oy := rootIdentOf(be.X), rootIdentOf(be.Y)
					if ox != nil && oy != nil && info.Uses[ox] != info.Uses[oy] {
						s := find(info.Uses[ox], info.Uses[oy])
						s.whole = true
						if s.pos == nil {
							s.pos = be
						}
					}
				}
				return true
			}
			ox, fx := fieldOf(be.X)
			oy, fy := fieldOf(be.Y)
			if ox == nil || oy == nil || ox == oy || fx != fy || elemType(ox.Type()) != elemType(oy.Type()) {
				return true
			}
			s := find(ox, oy)
			s.fields[fx] = true
			if s.pos == nil {
				s.pos = be
			}
			return true
		})
		return out
	}
	// the reference: DataCondition.equal
	ref := map[string]map[string]bool{} // element type -> identity fields
	allFields := func(tn string) map[string]bool {
		m := map[string]bool{}
		if o := pk.Types.Scope().Lookup(tn); o != nil {
			if st, ok := o.Type().Underlying().(*types.Struct); ok {
				for i := 0; i < st.NumFields(); i++ {
					m[st.Field(i).Name()] = true
				}
			}
		}
		return m
	}
	eq := p.Fn("query.DataCondition.equal")
	if eq == nil {
		p.anchorFail("query.DataCondition.equal")
		return
	}
	for _, s := range sitesOf(eq) {
		tn := elemType(s.a.Type())
		if s.whole {
			ref[tn] = allFields(tn)
		} else {
			if ref[tn] == nil {
				ref[tn] = map[string]bool{}
			}
			for k := range s.fields {
				ref[tn][k] = true
			}
		}
	}
	for tn := range wholeElem {
		if ref[tn] == nil {
			ref[tn] = allFields(tn)
		}
	}
	// whole-struct comparison of variables through an index expression (ce.Variables[j] != oe.Variables[j])
	if ref["DataConditionElementVariable"] == nil {
		info := eq.Pkg.TypesInfo
		inspectShallow(eq.Body(), func(x ast.Node) bool {
			if be, ok := x.(*ast.BinaryExpr); ok && (be.Op == token.NEQ || be.Op == token.EQL) {
				if t := info.TypeOf(be.X); t != nil && elemType(t) == "DataConditionElementVariable" {
					ref["DataConditionElementVariable"] = allFields("DataConditionElementVariable")
				}
			}
			return true
		})
	}
	if len(ref["DataConditionElement"]) < 2 {
		p.anchorFail("field-wise element comparison in query.DataCondition.equal")
		return
	}
	names := func(m map[string]bool) string {
		var l []string
		for k := range m {
			l = append(l, k)
		}
		sort.Strings(l)
		return strings.Join(l, ", ")
	}
	r.Note("%s: identity of DataConditionElement per equal(): {%s}; of DataConditionElementVariable: {%s}", rule, names(ref["DataConditionElement"]), names(ref["DataConditionElementVariable"]))
	n := 0
	for _, f := range p.FnList {
		if f.Short != "query" || f.Body() == nil || f == eq {
			continue
		}
		for _, s := range sitesOf(f) {
			tn := elemType(s.a.Type())
			want := ref[tn]
			if want == nil || s.whole || len(s.fields) < 2 {
				continue
			}
			n++
			var missing []string
			for k := range want {
				if !s.fields[k] {
					missing = append(missing, k)
				}
			}
			sort.Strings(missing)
			key := fmt.Sprintf("%s compares %s %s/%s", f.Key(), tn, s.a.Name(), s.b.Name())
			r.Check(len(missing) == 0, rule, key, p.Pos(s.pos), "compares {"+names(s.fields)+"}: the identity equal() uses", "two "+tn+" values are treated as the same test although "+strings.Join(missing, ", ")+" — which DataCondition.equal distinguishes — is not compared: tests that differ only there absorb or contradict each other in the normal form")
		}
	}
	r.Floor(rule, 2, n)
}
