package main

// c06f.go: C06-f invalidation-class table.
//
// When an import completes, invalidateTags decides per tag — from the feature classes of its definition — which of
// the three stream sets (updated, reset, added) have to be re-evaluated. The decision is a pure function of two small
// bit sets (features of the main query, features of sub-queries). The rule evaluates the loop body of invalidateTags
// for EVERY value of the main-query feature set (2^8) and for empty / non-empty sub-query features, by constant
// folding of the if-conditions, and compares the stream sets that are OR-ed into the tag's Uncertain with what the
// feature classes require:
//
//   added   streams: every tag (a new stream can satisfy any definition, also an id range such as id:5:)
//   reset   streams: every tag with a feature other than ID (a re-created stream keeps its id, nothing else)
//   updated streams: every tag with a Data or Time feature (more packets change payload, byte counts and times;
//                    hosts, ports, protocol and id of an existing stream do not change)
//   sub-query features: everything
//   the Tags class (references in the main query) requires nothing by itself: inheritTagUncertainty, which the
//   rule requires to be called after the loop, ORs in whatever was re-opened for the referenced tags
//
// The shape of the conditions is free (masks, &^, ==, switch-like chains); what is compared is the resulting table.

import (
	"fmt"
	"go/ast"
	"go/constant"
	"go/token"
	"go/types"
	"sort"
	"strings"
)

func init() {
	register("C06",
		"C06-f (exhaustive evaluation over a finite domain): the per-tag decision in invalidateTags is evaluated, by constant folding of its conditions, for all 256 feature sets of a tag's main query and for empty/non-empty sub-query features; the stream sets OR-ed into the tag's Uncertain must contain the added streams for every tag, the reset streams for every tag with a feature other than ID, the updated streams for every tag with a Data or Time feature, and all three when sub-queries are used; references to other tags in the main query require nothing by themselves because inheritTagUncertainty — required after the loop on every path — ORs in what was re-opened for the referenced tags. A narrower table leaves a class of tags decided although streams they may match have arrived or changed.",
		ruleC06Table)
}

func ruleC06Table(p *Prog, r *Res) {
	const rule = "C06-f invalidation-class-table"
	r.Rule(rule + ": invalidateTags re-opens, per feature class, every stream set that can change the tag's answer")
	f := p.Fn("manager.Manager.invalidateTags")
	if f == nil {
		p.anchorFail("manager.Manager.invalidateTags")
		return
	}
	info := f.Pkg.TypesInfo
	mainF := p.Field("query", "FeatureSet", "MainFeatures")
	subF := p.Field("query", "FeatureSet", "SubQueryFeatures")
	uncF := p.Field("query", "TagDetails", "Uncertain")
	allF := p.Field("manager", "Manager", "allStreams")
	featT := p.Named("query", "Feature")
	if mainF == nil || subF == nil || uncF == nil || featT == nil {
		p.anchorFail("query.FeatureSet.MainFeatures/SubQueryFeatures, query.TagDetails.Uncertain, query.Feature")
		return
	}
	feats := constsOfType(featT)
	bit := func(name string) uint64 {
		v, ok := feats[name]
		if !ok {
			return 0
		}
		u, _ := constant.Uint64Val(constant.ToInt(v))
		return u
	}
	idBit := bit("FeatureFilterID")
	volatile := bit("FeatureFilterData") | bit("FeatureFilterTimeAbsolute") | bit("FeatureFilterTimeRelative")
	tagsBit := bit("FeatureFilterTags")
	if idBit == 0 || volatile == 0 || tagsBit == 0 {
		p.anchorFail("constants FeatureFilterID / FeatureFilterData / FeatureFilterTimeAbsolute / FeatureFilterTimeRelative")
		return
	}
	var allBits uint64
	for _, v := range feats {
		u, _ := constant.Uint64Val(constant.ToInt(v))
		allBits |= u
	}
	// parameters: the three stream sets, by position
	params := map[types.Object]int{}
	var pnames []string
	for i := 0; ; i++ {
		o := paramObj(f, i)
		if o == nil {
			break
		}
		params[o] = i
		pnames = append(pnames, o.Name())
	}
	if len(pnames) != 3 {
		r.Undecided(rule, "invalidateTags parameters", p.Pos(f.Node()), "expected the three stream sets (updated, reset, added) as parameters")
		return
	}
	const (
		pUpdated = 0
		pReset   = 1
		pAdded   = 2
	)
	// the per-tag loop
	var loop *ast.RangeStmt
	inspectShallow(f.Body(), func(x ast.Node) bool {
		if rs, ok := x.(*ast.RangeStmt); ok && loop == nil {
			loop = rs
		}
		return true
	})
	if loop == nil {
		r.Undecided(rule, "invalidateTags per-tag loop", p.Pos(f.Node()), "no range loop found")
		return
	}
	// the Tags class relies on inheritance: inheritTagUncertainty must run after the loop on every path
	if inh := p.Method("manager", "Manager", "inheritTagUncertainty"); inh != nil {
		fl := p.Flow(f)
		res := fl.MustPass(func(n ast.Node) bool {
			return n.Pos() > loop.End() && fl.hasCall(n, func(c *ast.CallExpr) bool { return p.Callee(f.Pkg, c) == inh })
		})
		r.Check(!res.Found, rule, "invalidateTags propagates to referencing tags after the per-tag decisions", p.Pos(f.Node()), "inheritTagUncertainty is called after the loop on every path", "tags that only reference other tags are not re-opened by the loop; without inheritTagUncertainty after it they keep their old answer")
	}
	type env struct{ main, sub uint64 }
	var evalErr string
	var eval func(e ast.Expr, en env) (uint64, bool, bool) // value, isBool(bool value in value!=0), ok
	evalDepth := 0
	eval = func(e ast.Expr, en env) (uint64, bool, bool) {
		e = ast.Unparen(e)
		if tv, ok := info.Types[e]; ok && tv.Value != nil {
			switch tv.Value.Kind() {
			case constant.Int:
				u, _ := constant.Uint64Val(tv.Value)
				return u, false, true
			case constant.Bool:
				if constant.BoolVal(tv.Value) {
					return 1, true, true
				}
				return 0, true, true
			}
		}
		switch x := e.(type) {
		case *ast.Ident:
			// a local with one definition (`mainFeatures := ti.features.MainFeatures`, a named boolean): its definition
			if o := info.Uses[x]; o != nil && evalDepth < 8 {
				var defs []ast.Expr
				ast.Inspect(f.Body(), func(n ast.Node) bool {
					if as, ok := n.(*ast.AssignStmt); ok {
						for i, l := range as.Lhs {
							if identObj(info, l) == o {
								if len(as.Lhs) == len(as.Rhs) {
									defs = append(defs, as.Rhs[i])
								} else {
									defs = append(defs, nil)
								}
							}
						}
					}
					return true
				})
				if len(defs) == 1 && defs[0] != nil {
					evalDepth++
					v, b, ok := eval(defs[0], en)
					evalDepth--
					return v, b, ok
				}
			}
		case *ast.SelectorExpr:
			switch info.Uses[x.Sel] {
			case types.Object(mainF):
				return en.main, false, true
			case types.Object(subF):
				return en.sub, false, true
			}
		case *ast.UnaryExpr:
			if x.Op == token.NOT {
				v, _, ok := eval(x.X, en)
				if ok {
					if v == 0 {
						return 1, true, true
					}
					return 0, true, true
				}
			}
		case *ast.CallExpr:
			// <stream set>.IsZero(): the question is what happens WHEN streams arrive — the sets are non-empty
			if se, ok := x.Fun.(*ast.SelectorExpr); ok && se.Sel.Name == "IsZero" && len(x.Args) == 0 {
				if o := identObj(info, se.X); o != nil {
					if _, isParam := params[o]; isParam {
						return 0, true, true
					}
				}
			}
			// conversions such as query.Feature(x)
			if len(x.Args) == 1 {
				if tv, ok := info.Types[x.Fun]; ok && tv.IsType() {
					return eval(x.Args[0], en)
				}
			}
		case *ast.BinaryExpr:
			a, _, ok1 := eval(x.X, en)
			if !ok1 {
				return 0, false, false
			}
			// short circuit
			if x.Op == token.LAND && a == 0 {
				return 0, true, true
			}
			if x.Op == token.LOR && a != 0 {
				return 1, true, true
			}
			b, _, ok2 := eval(x.Y, en)
			if !ok2 {
				return 0, false, false
			}
			bv := func(c bool) (uint64, bool, bool) {
				if c {
					return 1, true, true
				}
				return 0, true, true
			}
			switch x.Op {
			case token.AND:
				return a & b, false, true
			case token.OR:
				return a | b, false, true
			case token.AND_NOT:
				return a &^ b, false, true
			case token.XOR:
				return a ^ b, false, true
			case token.EQL:
				return bv(a == b)
			case token.NEQ:
				return bv(a != b)
			case token.LAND:
				return bv(a != 0 && b != 0)
			case token.LOR:
				return bv(a != 0 || b != 0)
			}
		}
		evalErr = "cannot fold " + types.ExprString(e)
		return 0, false, false
	}
	// interpret a statement list; returns the applied classes and whether the iteration ended (continue)
	type result struct {
		applied [3]bool
		all     bool
	}
	var run func(list []ast.Stmt, en env, res *result) (stop bool, ok bool)
	run = func(list []ast.Stmt, en env, res *result) (bool, bool) {
		for _, st := range list {
			switch s := st.(type) {
			case *ast.IfStmt:
				if s.Init != nil {
					if stop, ok := run([]ast.Stmt{s.Init}, en, res); !ok || stop {
						return stop, ok
					}
				}
				v, _, ok := eval(s.Cond, en)
				if !ok {
					return false, false
				}
				if v != 0 {
					if stop, ok := run(s.Body.List, en, res); !ok || stop {
						return stop, ok
					}
				} else if s.Else != nil {
					var els []ast.Stmt
					switch e := s.Else.(type) {
					case *ast.BlockStmt:
						els = e.List
					default:
						els = []ast.Stmt{e}
					}
					if stop, ok := run(els, en, res); !ok || stop {
						return stop, ok
					}
				}
			case *ast.BlockStmt:
				if stop, ok := run(s.List, en, res); !ok || stop {
					return stop, ok
				}
			case *ast.BranchStmt:
				if s.Tok == token.CONTINUE {
					return true, true
				}
				if s.Tok == token.BREAK && s.Label == nil {
					// leaves the enclosing switch clause: nothing further in this clause
					return false, true
				}
				evalErr = "unsupported branch " + s.Tok.String()
				return false, false
			case *ast.SwitchStmt:
				if s.Init != nil {
					if stop, ok := run([]ast.Stmt{s.Init}, en, res); !ok || stop {
						return stop, ok
					}
				}
				var tagV uint64
				if s.Tag != nil {
					v, _, ok := eval(s.Tag, en)
					if !ok {
						return false, false
					}
					tagV = v
				}
				var chosen, def *ast.CaseClause
				for _, c := range s.Body.List {
					cc := c.(*ast.CaseClause)
					if cc.List == nil {
						def = cc
						continue
					}
					for _, e := range cc.List {
						v, _, ok := eval(e, en)
						if !ok {
							return false, false
						}
						if (s.Tag == nil && v != 0) || (s.Tag != nil && v == tagV) {
							chosen = cc
							break
						}
					}
					if chosen != nil {
						break
					}
				}
				if chosen == nil {
					chosen = def
				}
				if chosen != nil {
					for _, st2 := range chosen.Body {
						if b, isB := st2.(*ast.BranchStmt); isB && b.Tok == token.FALLTHROUGH {
							evalErr = "fallthrough in the per-tag decision"
							return false, false
						}
					}
					if stop, ok := run(chosen.Body, en, res); !ok || stop {
						return stop, ok
					}
				}
			case *ast.ForStmt, *ast.RangeStmt, *ast.ReturnStmt:
				evalErr = fmt.Sprintf("unsupported statement %T in the per-tag decision", st)
				return false, false
			case *ast.ExprStmt:
				if c, ok := s.X.(*ast.CallExpr); ok && len(c.Args) == 1 {
					if se, ok := c.Fun.(*ast.SelectorExpr); ok && se.Sel.Name == "Or" {
						if inner, ok := ast.Unparen(se.X).(*ast.SelectorExpr); ok && info.Uses[inner.Sel] == types.Object(uncF) {
							a := ast.Unparen(c.Args[0])
							if star, ok := a.(*ast.StarExpr); ok {
								a = ast.Unparen(star.X)
							}
							if o := identObj(info, a); o != nil {
								if i, isParam := params[o]; isParam {
									res.applied[i] = true
								}
							}
						}
					}
				}
			case *ast.AssignStmt:
				for i, l := range s.Lhs {
					if se, ok := ast.Unparen(l).(*ast.SelectorExpr); ok && info.Uses[se.Sel] == types.Object(uncF) && i < len(s.Rhs) {
						if rs, ok := ast.Unparen(s.Rhs[i]).(*ast.SelectorExpr); ok && allF != nil && info.Uses[rs.Sel] == types.Object(allF) {
							res.all = true
						}
						// X.Uncertain = X.Uncertain.OrCopy(param)
						if c, ok := ast.Unparen(s.Rhs[i]).(*ast.CallExpr); ok && len(c.Args) == 1 {
							if cs, ok := c.Fun.(*ast.SelectorExpr); ok && cs.Sel.Name == "OrCopy" {
								if o := identObj(info, c.Args[0]); o != nil {
									if pi, isParam := params[o]; isParam {
										res.applied[pi] = true
									}
								}
							}
						}
					}
				}
			}
		}
		return false, true
	}
	featNames := func(v uint64) string {
		var out []string
		for n, c := range feats {
			u, _ := constant.Uint64Val(constant.ToInt(c))
			if u != 0 && v&u == u {
				out = append(out, strings.TrimPrefix(n, "FeatureFilter"))
			}
		}
		sort.Strings(out)
		if len(out) == 0 {
			return "{}"
		}
		return "{" + strings.Join(out, ",") + "}"
	}
	missing := map[string][]string{}
	nEval := 0
	for _, sub := range []uint64{0, allBits} {
		for mainV := uint64(0); mainV <= allBits; mainV++ {
			if mainV&^allBits != 0 {
				continue
			}
			var res result
			_, ok := run(loop.Body.List, env{mainV, sub}, &res)
			if !ok {
				r.Undecided(rule, "invalidateTags per-tag decision", p.Pos(loop), "the decision is not a pure function of the feature sets that this rule can fold: "+evalErr)
				return
			}
			nEval++
			// references to other tags in the main query are served by inheritTagUncertainty (called at the end of
			// invalidateTags): the tag inherits whatever is re-opened for the tags it references, so the Tags class
			// itself requires nothing here; a tag that has ONLY that class may be skipped altogether
			own := mainV &^ tagsBit
			need := [3]bool{}
			need[pAdded] = sub != 0 || own != 0 || mainV == 0
			need[pReset] = sub != 0 || own&^idBit != 0
			need[pUpdated] = sub != 0 || own&volatile != 0
			for i := 0; i < 3; i++ {
				if need[i] && !(res.applied[i] || res.all) {
					label := featNames(mainV)
					if sub != 0 {
						label += "+sub-query"
					}
					missing[pnames[i]] = append(missing[pnames[i]], label)
				}
			}
		}
	}
	why := map[int]string{
		pAdded:   "a new stream can satisfy any definition (also an id range such as id:5:); a tag skipped here stays decided and never reports the new streams",
		pReset:   "a re-created stream keeps only its id; every other feature class has to be re-evaluated on it",
		pUpdated: "more packets change payload, byte counts and times of an existing stream",
	}
	for i, n := range pnames {
		key := fmt.Sprintf("invalidateTags re-opens %s for every feature class that depends on it", n)
		if m := missing[n]; len(m) > 0 {
			ex := m
			if len(ex) > 6 {
				ex = append(append([]string{}, m[:6]...), fmt.Sprintf("… %d feature sets in all", len(m)))
			}
			r.Bad(rule, key, p.Pos(loop), fmt.Sprintf("tags with features %s are not marked uncertain for %s: %s", strings.Join(ex, " "), n, why[i]))
		} else {
			r.Ok(rule, key, p.Pos(loop), fmt.Sprintf("holds for all %d evaluated feature sets", nEval))
		}
	}
	r.Floor(rule, 3, len(pnames))
}
