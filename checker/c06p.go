package main

// c06p.go: C06-p converter output for some streams re-opens a sub-query data tag for all streams.
//
// A tag such as `sport:@s:sport@ @s:cdata:"FOO"` (the pattern the built-in help advertises for flag re-use) selects a
// stream because of what ANOTHER stream contains. When a converter produces output for stream 0 the answer may change
// for every stream. converterOutputAdded and the closing block of convertStreamJob raised Uncertain only for the
// converted streams: `tag:likefoo` found [0], its definition [0 1 2 3], with nothing pending and the service idle
// (#78, probes/c06_subquery_data_tag_after_conversion). invalidateTags and converterOutputDropped already raise all
// streams for this kind of tag.
//
// Rule (typed AST, sibling agreement): in package manager a loop over Manager.tags that raises a tag's Uncertain by a
// partial mask — `T.Uncertain = ….OrCopy(M)` with M not Manager.allStreams — also contains an assignment of
// Manager.allStreams (directly or through OrCopy) to T.Uncertain below a condition that reads features.SubQueryFeatures.

import (
	"fmt"
	"go/ast"
	"go/types"
)

func init() {
	register("C06",
		"C06-p (typed AST, sibling agreement): in package manager a loop over Manager.tags that raises a tag's Uncertain by a partial mask — `T.Uncertain = ….OrCopy(M)` with M other than Manager.allStreams — also assigns Manager.allStreams to T.Uncertain (directly or through OrCopy) below a condition that reads features.SubQueryFeatures. A tag with a data filter in a sub query selects a stream because of what another stream contains; new converter output for one stream can change its answer for all of them. invalidateTags and converterOutputDropped do so; the two places that announce new converter output raised the converted streams only.",
		func(p *Prog, r *Res) {
			const rule = "C06-p subquery-data-tag-reopened-for-all-streams"
			r.Rule(rule + ": a partial raise of Uncertain in a loop over the tags has a full raise for sub-query features")
			tags := p.Field("manager", "Manager", "tags")
			all := p.Field("manager", "Manager", "allStreams")
			unc := p.Field("query", "TagDetails", "Uncertain")
			sqf := p.Field("query", "FeatureSet", "SubQueryFeatures")
			if tags == nil || all == nil || unc == nil || sqf == nil {
				p.anchorFail("manager.Manager.tags / allStreams / tag.Uncertain")
				return
			}
			mentionsField := func(info *types.Info, n ast.Node, fld *types.Var, name string) bool {
				hit := false
				ast.Inspect(n, func(x ast.Node) bool {
					if se, ok := x.(*ast.SelectorExpr); ok {
						if fld != nil && info.Uses[se.Sel] == types.Object(fld) {
							hit = true
						}
						if fld == nil && se.Sel.Name == name {
							if v, ok := info.Uses[se.Sel].(*types.Var); ok && v.IsField() {
								hit = true
							}
						}
					}
					return !hit
				})
				return hit
			}
			n := 0
			for _, f := range p.FnList {
				if f.Short != "manager" || f.Body() == nil {
					continue
				}
				info := f.Pkg.TypesInfo
				inspectShallow(f.Body(), func(x ast.Node) bool {
					rs, ok := x.(*ast.RangeStmt)
					if !ok || !isFieldOf(info, rs.X, tags) {
						return true
					}
					// partial raises in the loop body
					var partial []*ast.AssignStmt
					fullUnderSubQuery := false
					var walk func(n ast.Node, underSQ bool)
					walk = func(n ast.Node, underSQ bool) {
						inspectShallow(n, func(y ast.Node) bool {
							switch s := y.(type) {
							case *ast.IfStmt:
								if y == n {
									return true
								}
								u := underSQ || mentionsField(info, s.Cond, sqf, "SubQueryFeatures")
								walk(s.Body, u)
								if s.Else != nil {
									walk(s.Else, underSQ)
								}
								return false
							case *ast.AssignStmt:
								if len(s.Lhs) != 1 || len(s.Rhs) != 1 || !isFieldOf(info, s.Lhs[0], unc) {
									return true
								}
								if mentionsField(info, s.Rhs[0], all, "") || mentionsCopyOf(info, f, s.Rhs[0], all) {
									if underSQ {
										fullUnderSubQuery = true
									}
									return true
								}
								if c, ok := ast.Unparen(s.Rhs[0]).(*ast.CallExpr); ok {
									if se, ok := ast.Unparen(c.Fun).(*ast.SelectorExpr); ok && se.Sel.Name == "OrCopy" && mentionsField(info, se.X, unc, "") {
										partial = append(partial, s)
									}
								}
							}
							return true
						})
					}
					walk(rs.Body, false)
					for _, as := range partial {
						n++
						key := fmt.Sprintf("%s raises Uncertain by %s", f.Key(), types.ExprString(as.Rhs[0].(*ast.CallExpr).Args[0]))
						r.Check(fullUnderSubQuery, rule, key, p.Pos(as), "the loop raises all streams for tags with sub-query features", "the loop raises Uncertain for these streams only and has no branch on features.SubQueryFeatures that raises Manager.allStreams: a tag whose data filter sits in a sub query (`sport:@s:sport@ @s:cdata:\"FOO\"`) keeps its old answer for every other stream although the new converter output changed what the sub query finds — `tag:X` and its definition disagree with nothing pending")
					}
					return true
				})
			}
			r.Floor(rule, 2, n)
		})
}

// mentionsCopyOf: the expression mentions a local whose only definition reads the field (allStreams := mgr.allStreams).
func mentionsCopyOf(info *types.Info, f *Fn, e ast.Node, fld *types.Var) bool {
	hit := false
	ast.Inspect(e, func(x ast.Node) bool {
		id, ok := x.(*ast.Ident)
		if !ok || hit {
			return !hit
		}
		v, ok := info.Uses[id].(*types.Var)
		if !ok || v.IsField() {
			return true
		}
		nDef, fromField := 0, false
		seen := map[*ast.AssignStmt]bool{} // the body of a literal is part of the bodies of its parents
		for g := f; g != nil; g = g.Parent {
			ast.Inspect(g.Body(), func(y ast.Node) bool {
				as, ok := y.(*ast.AssignStmt)
				if !ok || len(as.Lhs) != len(as.Rhs) || seen[as] {
					return true
				}
				seen[as] = true
				for i, l := range as.Lhs {
					if identObj(info, l) == types.Object(v) {
						nDef++
						ast.Inspect(as.Rhs[i], func(z ast.Node) bool {
							if se, ok := z.(*ast.SelectorExpr); ok && info.Uses[se.Sel] == types.Object(fld) {
								fromField = true
							}
							return true
						})
					}
				}
				return true
			})
			if g.Lit == nil {
				break
			}
		}
		if nDef == 1 && fromField {
			hit = true
		}
		return true
	})
	return hit
}
