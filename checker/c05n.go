package main

// c05n.go: C05-n / C08-m a packet that is taken from its queue and then postponed is put back.
//
// FromPcap merges the packets of the captures it re-reads (oldPackets) with those of the new captures (newPackets) in
// time order: it takes the earlier of the two heads — `packet = &Q[c]; c++` — and, when that packet may only be
// processed after the next capture was loaded, leaves the loop WITHOUT processing it. The taken packet must go back:
// the new queue's cursor is decremented, the old queue is cut at c-1. Seeded C05p "unified" the two branches to
// `oldPackets = oldPackets[oldPacketIndex:]`: the old packet that triggered the stop never reached the reassemblers —
// a request at the end of one capture with the same timestamp as the reply at the start of the next was lost, and
// all server data was listed before the remaining client data.
//
// Rule (typed AST, pairing): in package builder, where an if/else on a boolean K takes an element by cursor
// (`… = &Q[c]`, one cursor per branch), every later `if … { …; break }` in the same loop body either comes before the
// cursor is advanced (peek, test, then advance) or compensates for it (`c--`, or an expression `c-1`) in the branch of K
// that took the element.

import (
	"fmt"
	"go/ast"
	"go/token"
	"go/types"
)

func ruleUntake(id string) func(p *Prog, r *Res) {
	return func(p *Prog, r *Res) {
		rule := id + " postponed-packet-is-put-back"
		r.Rule(rule + ": every cursor advanced when a packet is taken is restored when the packet is postponed")
		n := 0
		for _, f := range p.FnList {
			if f.Short != "builder" || f.Body() == nil {
				continue
			}
			info := f.Pkg.TypesInfo
			inspectShallow(f.Body(), func(x ast.Node) bool {
				loop, ok := x.(*ast.ForStmt)
				if !ok {
					return true
				}
				// takes: if K { … = &Q[c]; c++ } else { … = &Q2[c2]; c2++ } as a direct statement of the loop body
				type take struct {
					cursor types.Object
					k      types.Object
					pol    bool
				}
				var takes []take
				var takeStmt *ast.IfStmt
				cursorOf := func(b *ast.BlockStmt) types.Object {
					var taken, inc types.Object
					for _, st := range b.List {
						switch s := st.(type) {
						case *ast.AssignStmt:
							if len(s.Rhs) == 1 {
								if u, ok := ast.Unparen(s.Rhs[0]).(*ast.UnaryExpr); ok && u.Op == token.AND {
									if ix, ok := ast.Unparen(u.X).(*ast.IndexExpr); ok {
										taken = identObj(info, ix.Index)
									}
								}
							}
						case *ast.IncDecStmt:
							if s.Tok == token.INC {
								inc = identObj(info, s.X)
							}
						}
					}
					_ = inc
					return taken
				}
				for _, st := range loop.Body.List {
					ifs, ok := st.(*ast.IfStmt)
					if !ok || ifs.Else == nil {
						continue
					}
					k := identObj(info, ifs.Cond)
					eb, ok := ifs.Else.(*ast.BlockStmt)
					if k == nil || !ok {
						continue
					}
					c1, c2 := cursorOf(ifs.Body), cursorOf(eb)
					if c1 != nil && c2 != nil && c1 != c2 {
						takes = []take{{c1, k, true}, {c2, k, false}}
						takeStmt = ifs
					}
				}
				if takeStmt == nil {
					return true
				}
				// compensation of cursor c inside node nd
				compensates := func(nd ast.Node, c types.Object) bool {
					hit := false
					ast.Inspect(nd, func(y ast.Node) bool {
						switch s := y.(type) {
						case *ast.IncDecStmt:
							if s.Tok == token.DEC && identObj(info, s.X) == c {
								hit = true
							}
						case *ast.BinaryExpr:
							if s.Op == token.SUB && identObj(info, s.X) == c {
								if tv, ok := info.Types[s.Y]; ok && tv.Value != nil && tv.Value.String() == "1" {
									hit = true
								}
							}
						case *ast.AssignStmt:
							if s.Tok == token.SUB_ASSIGN && len(s.Lhs) == 1 && identObj(info, s.Lhs[0]) == c {
								hit = true
							}
						}
						return !hit
					})
					return hit
				}
				for _, st := range loop.Body.List {
					guard, ok := st.(*ast.IfStmt)
					if !ok || guard.Pos() < takeStmt.End() || len(guard.Body.List) == 0 {
						continue
					}
					br, ok := guard.Body.List[len(guard.Body.List)-1].(*ast.BranchStmt)
					if !ok || br.Tok != token.BREAK {
						continue
					}
					// only guards that concern the merge: the break is taken on a condition about the packet at hand
					// (every guard behind the take counts; a guard that neither compensates nor is followed by the advance
					// of a cursor it would have to compensate is still an obligation)
					for _, t := range takes {
						// where is the cursor advanced: in a statement of the loop body in front of the guard, or behind it?
						advancedBefore := false
						for _, st2 := range loop.Body.List {
							if st2.Pos() >= guard.Pos() {
								break
							}
							ast.Inspect(st2, func(y ast.Node) bool {
								switch s := y.(type) {
								case *ast.IncDecStmt:
									if s.Tok == token.INC && identObj(info, s.X) == t.cursor {
										advancedBefore = true
									}
								case *ast.AssignStmt:
									if s.Tok == token.ADD_ASSIGN && len(s.Lhs) == 1 && identObj(info, s.Lhs[0]) == t.cursor {
										advancedBefore = true
									}
								}
								return true
							})
						}
						n++
						if !advancedBefore {
							r.Ok(rule, fmt.Sprintf("%s postponement puts back what was taken with %s", f.Key(), t.cursor.Name()), p.Pos(guard), "the cursor is advanced only behind the stop test: a postponed packet was never taken")
							continue
						}
						// the compensation lies in the branch of K that took the element (or outside any test of K)
						okC := false
						var walk func(nd ast.Node, known map[bool]bool)
						walk = func(nd ast.Node, known map[bool]bool) {
							switch s := nd.(type) {
							case *ast.BlockStmt:
								for _, st2 := range s.List {
									walk(st2, known)
								}
							case *ast.IfStmt:
								pol, isK := true, false
								c := ast.Unparen(s.Cond)
								if u, ok := c.(*ast.UnaryExpr); ok && u.Op == token.NOT {
									c, pol = ast.Unparen(u.X), false
								}
								if identObj(info, c) == t.k {
									isK = true
								}
								if isK {
									walk(s.Body, map[bool]bool{pol: true})
									if s.Else != nil {
										walk(s.Else, map[bool]bool{!pol: true})
									}
								} else {
									walk(s.Body, known)
									if s.Else != nil {
										walk(s.Else, known)
									}
								}
							default:
								if compensates(nd, t.cursor) && (len(known) == 0 || known[t.pol]) {
									okC = true
								}
							}
						}
						walk(guard.Body, map[bool]bool{})
						key := fmt.Sprintf("%s postponement puts back what was taken with %s", f.Key(), t.cursor.Name())
						r.Check(okC, rule, key, p.Pos(guard), "the cursor is restored (c-- or c-1) in the branch that took the packet", "the loop is left with a packet taken from its queue ("+t.cursor.Name()+" was advanced) and nothing puts it back: the packet that made the import wait for the next capture is never handed to the reassemblers — its payload is missing and the order of direction changes around it is wrong")
					}
				}
				return true
			})
		}
		r.Floor(rule, 2, n)
	}
}

func init() {
	const expl = " (typed AST, pairing): in package builder, where an if/else on a boolean K takes an element by cursor (`… = &Q[c]`, one cursor per branch), every later `if … { …; break }` of the same loop body either lies in front of the statement that advances the cursor or compensates for it (`c--`, `c -= 1`, or an expression `c-1`) in the branch of K that took the element. FromPcap takes the earlier head of two packet queues and leaves the loop without processing it when the next capture has to be loaded first; a packet that is not put back never reaches the reassemblers."
	register("C05", "C05-n"+expl, ruleUntake("C05-n"))
	register("C08", "C08-m"+expl, ruleUntake("C08-m"))
}
