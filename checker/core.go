package main

// core.go: loading /repo, naming and resolving anchors, per-function CFGs.

import (
	"fmt"
	"go/ast"
	"go/token"
	"go/types"
	"os"
	"path/filepath"
	"sort"
	"strings"

	"golang.org/x/tools/go/cfg"
	"golang.org/x/tools/go/packages"
	"golang.org/x/tools/go/ssa"
	"golang.org/x/tools/go/ssa/ssautil"
	"golang.org/x/tools/go/types/typeutil"
)

const modPath = "github.com/spq/pkappa2"

// short names of the packages rules refer to
var pkgShort = map[string]string{
	modPath + "/cmd/pkappa2":                  "main",
	modPath + "/internal/index":               "index",
	modPath + "/internal/index/builder":       "builder",
	modPath + "/internal/index/converters":    "converters",
	modPath + "/internal/index/manager":       "manager",
	modPath + "/internal/index/streams":       "streams",
	modPath + "/internal/index/udpreassembly": "udpreassembly",
	modPath + "/internal/query":               "query",
	modPath + "/internal/tools":               "tools",
	modPath + "/internal/tools/bitmask":       "bitmask",
	modPath + "/internal/tools/pcapMetadata":  "pcapmetadata",
	modPath + "/internal/tools/regexAnalysis": "regexanalysis",
	modPath + "/internal/tools/seekbufio":     "seekbufio",
}

// Fn is a function declaration or function literal with a body.
type Fn struct {
	Pkg    *packages.Package
	Decl   *ast.FuncDecl // enclosing declaration (always set)
	Lit    *ast.FuncLit  // nil for declarations
	Parent *Fn           // enclosing function for literals
	Name   string        // e.g. "Manager.AddTag", "Manager.AddTag$1", "New$2$1"
	Short  string        // package short name
	Lits   []*Fn         // direct child literals in source order
	cfg    *cfg.CFG
}

func (f *Fn) Body() *ast.BlockStmt {
	if f.Lit != nil {
		return f.Lit.Body
	}
	return f.Decl.Body
}
func (f *Fn) Type() *ast.FuncType {
	if f.Lit != nil {
		return f.Lit.Type
	}
	return f.Decl.Type
}
func (f *Fn) Node() ast.Node {
	if f.Lit != nil {
		return f.Lit
	}
	return f.Decl
}
func (f *Fn) Key() string { return f.Short + "." + f.Name }

// Root returns the enclosing declaration's Fn.
func (f *Fn) Root() *Fn {
	for f.Parent != nil {
		f = f.Parent
	}
	return f
}

type Prog struct {
	Fset    *token.FileSet
	Pkgs    []*packages.Package
	By      map[string]*packages.Package // by short name
	Fns     map[string]*Fn               // by Key()
	FnList  []*Fn                        // all, deterministic order
	byLit   map[*ast.FuncLit]*Fn
	byDecl  map[*ast.FuncDecl]*Fn
	byObj   map[*types.Func]*Fn
	Repo    string
	SSA     *ssa.Program
	SSAPkgs []*ssa.Package

	anchorErrs []string
	ctx        *CtxInfo
	ssaFnByAst map[ast.Node]*ssa.Function

	paramFreshBusy map[string]bool // recursion guard of paramFreshAtEveryCall (per program: programs are analysed in parallel)
}

func (p *Prog) anchorFail(format string, a ...any) {
	p.anchorErrs = append(p.anchorErrs, fmt.Sprintf(format, a...))
}

// Load type-checks ./cmd/... and ./internal/... of the repository at dir.
// overlay maps absolute file names to replacement contents (selftest only).
func Load(dir string, overlay map[string][]byte) (*Prog, error) {
	os.Unsetenv("GOWORK")
	fset := token.NewFileSet()
	cfgp := &packages.Config{
		Mode:    packages.LoadSyntax,
		Dir:     dir,
		Fset:    fset,
		Overlay: overlay,
		Env:     append(os.Environ(), "GOWORK=off", "GOFLAGS=-mod=mod", "GOPROXY=off"),
	}
	pkgs, err := packages.Load(cfgp, "./cmd/...", "./internal/...")
	if err != nil {
		return nil, fmt.Errorf("packages.Load: %w", err)
	}
	if len(pkgs) == 0 {
		return nil, fmt.Errorf("no packages loaded from %s", dir)
	}
	p := &Prog{Fset: fset, Pkgs: pkgs, By: map[string]*packages.Package{}, Fns: map[string]*Fn{},
		byLit: map[*ast.FuncLit]*Fn{}, byDecl: map[*ast.FuncDecl]*Fn{}, byObj: map[*types.Func]*Fn{}, Repo: dir}
	sort.Slice(pkgs, func(i, j int) bool { return pkgs[i].PkgPath < pkgs[j].PkgPath })
	var errs []string
	for _, pk := range pkgs {
		for _, e := range pk.Errors {
			// the one pre-existing condition of a checkout without the built front end
			if strings.HasSuffix(pk.PkgPath, "/web") && strings.Contains(e.Msg, "pattern dist/*") {
				fmt.Printf("note: whitelisted load error in %s: %s\n", pk.PkgPath, e.Msg)
				continue
			}
			errs = append(errs, fmt.Sprintf("%s: %s", pk.PkgPath, e.Error()))
		}
		if pk.Types == nil || pk.TypesInfo == nil {
			errs = append(errs, fmt.Sprintf("%s: no type information", pk.PkgPath))
		}
		if s, ok := pkgShort[pk.PkgPath]; ok {
			p.By[s] = pk
		}
	}
	// errors in dependencies (a root is marked IllTyped when a dependency has errors)
	packages.Visit(pkgs, nil, func(pk *packages.Package) {
		if _, isRoot := pkgShort[pk.PkgPath]; isRoot {
			return
		}
		for _, e := range pk.Errors {
			// the one pre-existing condition of a checkout without the built front end
			if pk.PkgPath == modPath+"/web" && strings.Contains(e.Msg, "pattern dist/*") {
				continue
			}
			errs = append(errs, fmt.Sprintf("dependency %s: %s", pk.PkgPath, e.Error()))
		}
	})
	if len(errs) > 0 {
		return nil, fmt.Errorf("load/type errors:\n  %s", strings.Join(errs, "\n  "))
	}
	for path, s := range pkgShort {
		if p.By[s] == nil {
			return nil, fmt.Errorf("expected package %s not loaded", path)
		}
	}
	// index functions
	for _, pk := range pkgs {
		short, ok := pkgShort[pk.PkgPath]
		if !ok {
			short = filepath.Base(pk.PkgPath)
		}
		for _, file := range pk.Syntax {
			for _, d := range file.Decls {
				fd, ok := d.(*ast.FuncDecl)
				if !ok || fd.Body == nil {
					continue
				}
				name := fd.Name.Name
				if fd.Recv != nil && len(fd.Recv.List) == 1 {
					name = recvTypeName(fd.Recv.List[0].Type) + "." + name
				}
				root := &Fn{Pkg: pk, Decl: fd, Name: name, Short: short}
				p.addFn(root)
				p.indexLits(root)
			}
		}
	}
	sort.Slice(p.FnList, func(i, j int) bool { return p.FnList[i].Key() < p.FnList[j].Key() })
	return p, nil
}

func recvTypeName(e ast.Expr) string {
	for {
		switch t := e.(type) {
		case *ast.StarExpr:
			e = t.X
		case *ast.ParenExpr:
			e = t.X
		case *ast.IndexExpr:
			e = t.X
		case *ast.Ident:
			return t.Name
		default:
			return "?"
		}
	}
}

func (p *Prog) addFn(f *Fn) {
	// init functions and duplicate names (e.g. several func init) get suffixes
	k := f.Key()
	for i := 2; p.Fns[k] != nil; i++ {
		f.Name = fmt.Sprintf("%s#%d", strings.SplitN(f.Name, "#", 2)[0], i)
		k = f.Key()
	}
	p.Fns[k] = f
	p.FnList = append(p.FnList, f)
	if f.Lit != nil {
		p.byLit[f.Lit] = f
	} else {
		p.byDecl[f.Decl] = f
		if o, ok := f.Pkg.TypesInfo.Defs[f.Decl.Name].(*types.Func); ok {
			p.byObj[o] = f
		}
	}
}

// indexLits numbers function literals the way go/ssa does (parent$N, depth first in source order).
func (p *Prog) indexLits(parent *Fn) {
	n := 0
	var walk func(node ast.Node)
	walk = func(node ast.Node) {
		ast.Inspect(node, func(x ast.Node) bool {
			if x == nil {
				return false
			}
			if lit, ok := x.(*ast.FuncLit); ok {
				n++
				child := &Fn{Pkg: parent.Pkg, Decl: parent.Decl, Lit: lit, Parent: parent,
					Name: fmt.Sprintf("%s$%d", parent.Name, n), Short: parent.Short}
				parent.Lits = append(parent.Lits, child)
				p.addFn(child)
				p.indexLits(child)
				return false
			}
			return true
		})
	}
	walk(parent.Body())
}

func (p *Prog) Pos(n ast.Node) string {
	if n == nil {
		return ""
	}
	return p.PosOf(n.Pos())
}

func (p *Prog) PosOf(pos token.Pos) string {
	if !pos.IsValid() {
		return ""
	}
	ps := p.Fset.Position(pos)
	rel, err := filepath.Rel(p.Repo, ps.Filename)
	if err != nil {
		rel = ps.Filename
	}
	return fmt.Sprintf("%s:%d", rel, ps.Line)
}

// Fn returns the function with the given key ("manager.Manager.saveState"), recording an
// unresolved anchor if it does not exist.
func (p *Prog) Fn(key string) *Fn {
	f := p.Fns[key]
	if f == nil {
		p.anchorFail("function %s not found", key)
	}
	return f
}

func (p *Prog) HasFn(key string) bool { return p.Fns[key] != nil }

func (p *Prog) FnOfLit(l *ast.FuncLit) *Fn   { return p.byLit[l] }
func (p *Prog) FnOfObj(o *types.Func) *Fn    { return p.byObj[o.Origin()] }
func (p *Prog) FnOfDecl(d *ast.FuncDecl) *Fn { return p.byDecl[d] }

// EnclosingFn returns the innermost Fn containing pos in the given package.
func (p *Prog) EnclosingFn(pk *packages.Package, pos token.Pos) *Fn {
	var best *Fn
	for _, f := range p.FnList {
		if f.Pkg != pk {
			continue
		}
		n := f.Node()
		if n.Pos() <= pos && pos < n.End() {
			if best == nil || (best.Node().Pos() <= n.Pos() && n.End() <= best.Node().End()) {
				best = f
			}
		}
	}
	return best
}

// Type looks up a package-level named type.
func (p *Prog) Named(pkg, name string) *types.Named {
	pk := p.By[pkg]
	if pk == nil {
		p.anchorFail("package %s not found", pkg)
		return nil
	}
	o := pk.Types.Scope().Lookup(name)
	if o == nil {
		p.anchorFail("type %s.%s not found", pkg, name)
		return nil
	}
	n, ok := o.Type().(*types.Named)
	if !ok {
		if a, ok2 := o.Type().(*types.Alias); ok2 {
			if n2, ok3 := types.Unalias(a).(*types.Named); ok3 {
				return n2
			}
		}
		p.anchorFail("%s.%s is not a named type", pkg, name)
		return nil
	}
	return n
}

// Field looks up a struct field (searching embedded structs one level for promoted fields).
func (p *Prog) Field(pkg, typ, field string) *types.Var {
	n := p.Named(pkg, typ)
	if n == nil {
		return nil
	}
	st, ok := n.Underlying().(*types.Struct)
	if !ok {
		p.anchorFail("%s.%s is not a struct", pkg, typ)
		return nil
	}
	for i := 0; i < st.NumFields(); i++ {
		if st.Field(i).Name() == field {
			return st.Field(i)
		}
	}
	for i := 0; i < st.NumFields(); i++ {
		f := st.Field(i)
		if !f.Embedded() {
			continue
		}
		t := f.Type()
		if pt, ok := t.(*types.Pointer); ok {
			t = pt.Elem()
		}
		if est, ok := t.Underlying().(*types.Struct); ok {
			for j := 0; j < est.NumFields(); j++ {
				if est.Field(j).Name() == field {
					return est.Field(j)
				}
			}
		}
	}
	p.anchorFail("field %s.%s.%s not found", pkg, typ, field)
	return nil
}

// Method looks up a method object of a named type (pointer or value receiver).
func (p *Prog) Method(pkg, typ, name string) *types.Func {
	n := p.Named(pkg, typ)
	if n == nil {
		return nil
	}
	for i := 0; i < n.NumMethods(); i++ {
		if n.Method(i).Name() == name {
			return n.Method(i)
		}
	}
	p.anchorFail("method %s.%s.%s not found", pkg, typ, name)
	return nil
}

// Func looks up a package-level function object.
func (p *Prog) Func(pkg, name string) *types.Func {
	pk := p.By[pkg]
	if pk == nil {
		p.anchorFail("package %s not found", pkg)
		return nil
	}
	o, _ := pk.Types.Scope().Lookup(name).(*types.Func)
	if o == nil {
		p.anchorFail("func %s.%s not found", pkg, name)
	}
	return o
}

// Callee resolves the static callee of a call (function, method, or nil).
func (p *Prog) Callee(pk *packages.Package, call *ast.CallExpr) *types.Func {
	if f, ok := typeutil.Callee(pk.TypesInfo, call).(*types.Func); ok {
		return f.Origin()
	}
	return nil
}

// isBuiltin reports whether call is a call of the named builtin.
func isBuiltin(info *types.Info, call *ast.CallExpr, name string) bool {
	id, ok := ast.Unparen(call.Fun).(*ast.Ident)
	if !ok || id.Name != name {
		return false
	}
	_, ok = info.Uses[id].(*types.Builtin)
	return ok
}

// fullName gives "pkgpath.Func" or "(pkgpath.T).Method" for stdlib / third-party matching.
func fullName(f *types.Func) string {
	if f == nil {
		return ""
	}
	return f.FullName()
}

// CFG returns the control-flow graph of fn (cached).
func (p *Prog) CFG(f *Fn) *cfg.CFG {
	if f.cfg == nil {
		info := f.Pkg.TypesInfo
		f.cfg = cfg.New(f.Body(), func(call *ast.CallExpr) bool {
			if isBuiltin(info, call, "panic") {
				return false
			}
			if fn, ok := typeutil.Callee(info, call).(*types.Func); ok {
				switch fn.FullName() {
				case "log.Fatal", "log.Fatalf", "log.Fatalln", "os.Exit", "log.Panic", "log.Panicf", "log.Panicln",
					"(*log.Logger).Fatal", "(*log.Logger).Fatalf", "(*log.Logger).Fatalln", "runtime.Goexit":
					return false
				}
			}
			return true
		})
		expandNamedBooleans(info, f.cfg)
	}
	return f.cfg
}

// expandNamedBooleans rewrites the condition nodes of the graph so that a boolean local that was defined in the same
// block, just in front of the test, stands for its definition: `fresh := a == b; unchanged := c.IsZero(); if fresh &&
// !unchanged` is analysed as `if (a == b) && !(c.IsZero())`. Path rules prune edges by what a condition establishes;
// "split a long condition into named booleans" is among the commonest clean-ups and must not blind them. Only the spine
// of the condition (&&, ||, !, parentheses) is rebuilt, the definitions themselves stay the original syntax nodes with
// their type information. Conservative: the definition is a one-to-one `:=`/`=` in the same basic block, the local has
// no other definition in that block behind it, and every node between the definition and the test is itself a
// definition of fresh locals (`:=`) — nothing in between can change what the definition read.
func expandNamedBooleans(info *types.Info, g *cfg.CFG) {
	for _, b := range g.Blocks {
		if len(b.Succs) != 2 || len(b.Nodes) < 2 {
			continue
		}
		last := len(b.Nodes) - 1
		cond, ok := b.Nodes[last].(ast.Expr)
		if !ok {
			continue
		}
		// defOf: the definition of the boolean local id in this block in front of node index upto, and its index
		defOf := func(id *ast.Ident, upto int) (ast.Expr, int) {
			o, _ := info.Uses[id].(*types.Var)
			if o == nil || o.IsField() {
				return nil, 0
			}
			if bt, isB := o.Type().Underlying().(*types.Basic); !isB || bt.Kind() != types.Bool {
				return nil, 0
			}
			for j := upto - 1; j >= 0; j-- {
				as, isAs := b.Nodes[j].(*ast.AssignStmt)
				if !isAs || as.Tok != token.DEFINE {
					return nil, 0 // something else stands between the definition and the test
				}
				for k, l := range as.Lhs {
					if lid, isId := l.(*ast.Ident); isId && info.ObjectOf(lid) == types.Object(o) {
						if len(as.Lhs) != len(as.Rhs) {
							return nil, 0
						}
						return as.Rhs[k], j
					}
				}
			}
			return nil, 0
		}
		var expand func(e ast.Expr, upto int) (ast.Expr, bool)
		expand = func(e ast.Expr, upto int) (ast.Expr, bool) {
			switch x := e.(type) {
			case *ast.ParenExpr:
				if n, ch := expand(x.X, upto); ch {
					return &ast.ParenExpr{Lparen: x.Lparen, X: n, Rparen: x.Rparen}, true
				}
			case *ast.UnaryExpr:
				if x.Op == token.NOT {
					if n, ch := expand(x.X, upto); ch {
						return &ast.UnaryExpr{OpPos: x.OpPos, Op: x.Op, X: n}, true
					}
				}
			case *ast.BinaryExpr:
				if x.Op == token.LAND || x.Op == token.LOR {
					l, c1 := expand(x.X, upto)
					r, c2 := expand(x.Y, upto)
					if c1 || c2 {
						return &ast.BinaryExpr{X: l, OpPos: x.OpPos, Op: x.Op, Y: r}, true
					}
				}
			case *ast.Ident:
				if d, at := defOf(x, upto); d != nil {
					// named booleans built from named booleans
					d2, _ := expand(d, at)
					return &ast.ParenExpr{Lparen: x.Pos(), X: d2, Rparen: x.End()}, true
				}
			}
			return e, false
		}
		if n, ch := expand(cond, last); ch {
			b.Nodes[last] = n
		}
	}
}

// inspectShallow walks n without descending into function literals
// (the literal node itself is visited).
func inspectShallow(n ast.Node, f func(ast.Node) bool) {
	ast.Inspect(n, func(x ast.Node) bool {
		if x == nil {
			return false
		}
		if !f(x) {
			return false
		}
		if _, ok := x.(*ast.FuncLit); ok {
			return false
		}
		return true
	})
}

// callsIn returns all call expressions in n (shallow).
func callsIn(n ast.Node) []*ast.CallExpr {
	var out []*ast.CallExpr
	inspectShallow(n, func(x ast.Node) bool {
		if c, ok := x.(*ast.CallExpr); ok {
			out = append(out, c)
		}
		return true
	})
	return out
}

// BuildSSA builds SSA for the loaded packages (bodies for the 13 roots only).
func (p *Prog) BuildSSA() {
	if p.SSA != nil {
		return
	}
	prog, spkgs := ssautil.Packages(p.Pkgs, ssa.InstantiateGenerics)
	prog.Build()
	p.SSA = prog
	p.SSAPkgs = spkgs
	p.ssaFnByAst = map[ast.Node]*ssa.Function{}
	for fn := range ssautil.AllFunctions(prog) {
		if fn.Syntax() != nil {
			p.ssaFnByAst[fn.Syntax()] = fn
		}
	}
}

// SSAFn returns the ssa.Function for a source function.
func (p *Prog) SSAFn(f *Fn) *ssa.Function {
	p.BuildSSA()
	if f == nil {
		return nil
	}
	return p.ssaFnByAst[f.Node()]
}

// FnOfSSA maps an ssa.Function back to the source Fn, if it has syntax in the roots.
func (p *Prog) FnOfSSA(sf *ssa.Function) *Fn {
	if sf == nil || sf.Syntax() == nil {
		return nil
	}
	switch n := sf.Syntax().(type) {
	case *ast.FuncDecl:
		return p.byDecl[n]
	case *ast.FuncLit:
		return p.byLit[n]
	}
	return nil
}

func exprString(fset *token.FileSet, e ast.Node) string {
	if e == nil {
		return ""
	}
	if ex, ok := e.(ast.Expr); ok {
		return types.ExprString(ex)
	}
	return fmt.Sprintf("%T", e)
}

// inspectParents walks root (not descending into nested function literals) and calls f with each node
// and the stack of its ancestors (innermost last). f's result decides whether children are visited.
func inspectParents(root ast.Node, f func(n ast.Node, parents []ast.Node) bool) {
	var stack []ast.Node
	ast.Inspect(root, func(n ast.Node) bool {
		if n == nil {
			stack = stack[:len(stack)-1]
			return false
		}
		if _, isLit := n.(*ast.FuncLit); isLit && n != root {
			return false
		}
		desc := f(n, stack)
		if desc {
			stack = append(stack, n)
		}
		return desc
	})
}
