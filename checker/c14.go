package main

import (
	"fmt"
	"go/ast"
	"go/constant"
	"go/token"
	"go/types"
	"regexp/syntax"
	"sort"
	"strings"

	"golang.org/x/tools/go/cfg"
)

// C14-a: no stationary iteration. A non-range loop that has a path from its header back to its
// header on which nothing changes (no store to state that outlives the iteration, no impure call,
// no channel operation, no nondeterministic range) repeats forever once taken.

func init() {
	register("C14",
		"C14-a (FLOW): for every non-range loop of every function in package query (everything query.Parse can reach is in that package; participle itself is trusted), the loop's CFG blocks that contain no state change are collected — a state change being an assignment/inc-dec to a variable declared outside the loop body or through a pointer/field/index, a call that is not proven pure by a bottom-up effect summary, a channel operation, go/defer, or a range over a map — and the rule reports the loop if the header lies on a cycle made only of such unchanged blocks: once such a path is taken the state at the header is identical and it is taken forever. Range loops terminate by construction. Panic freedom, promptness and equivalence of two parses are NOT decided.",
		func(p *Prog, r *Res) { ruleStationary(p, r, "C14-a stationary-loop", []string{"query"}, 40) })
}

var pureExternal = map[string]bool{
	"strings.HasPrefix": true, "strings.HasSuffix": true, "strings.Contains": true, "strings.Index": true, "strings.IndexByte": true,
	"strings.TrimPrefix": true, "strings.TrimSuffix": true, "strings.ToLower": true, "strings.Count": true, "strings.EqualFold": true,
	"bytes.Equal": true, "bytes.Compare": true, "bytes.HasPrefix": true, "bytes.Index": true, "bytes.IndexByte": true,
	"math/bits.OnesCount64": true, "math/bits.TrailingZeros64": true, "math/bits.LeadingZeros64": true, "math/bits.Len64": true,
	"math/bits.OnesCount16": true, "math/bits.TrailingZeros16": true, "math/bits.Len": true, "math/bits.OnesCount": true, "math/bits.TrailingZeros": true,
	"(time.Time).Before": true, "(time.Time).After": true, "(time.Time).Equal": true, "(time.Time).IsZero": true, "(time.Time).Sub": true, "(time.Time).Add": true,
	"(net.IP).Equal": true, "(net.IP).To4": true, "(net.IP).To16": true, "(net.IP).Mask": true,
	"slices.Contains": true, "slices.Index": true, "unicode.IsSpace": true, "unicode.IsDigit": true,
	"(time.Duration).Nanoseconds": true,
}

type purity struct {
	p     *Prog
	state map[*Fn]int // 0 unknown, 1 in progress, 2 pure, 3 impure
}

func (pu *purity) pureFn(f *Fn) bool {
	switch pu.state[f] {
	case 1:
		return false // recursion: assume impure
	case 2:
		return true
	case 3:
		return false
	}
	pu.state[f] = 1
	ok := true
	info := f.Pkg.TypesInfo
	body := f.Body()
	inspectShallow(body, func(x ast.Node) bool {
		if !ok {
			return false
		}
		switch s := x.(type) {
		case *ast.FuncLit:
			ok = false // closures: give up
		case *ast.GoStmt, *ast.DeferStmt, *ast.SendStmt, *ast.SelectStmt:
			ok = false
		case *ast.UnaryExpr:
			if s.Op == token.ARROW {
				ok = false
			}
		case *ast.AssignStmt:
			for _, l := range s.Lhs {
				if !pu.localLHS(info, l, body) {
					ok = false
				}
			}
		case *ast.IncDecStmt:
			if !pu.localLHS(info, s.X, body) {
				ok = false
			}
		case *ast.RangeStmt:
			if t := info.TypeOf(s.X); t != nil {
				if _, isMap := t.Underlying().(*types.Map); isMap {
					ok = false
				}
				if _, isChan := t.Underlying().(*types.Chan); isChan {
					ok = false
				}
			}
		case *ast.CallExpr:
			if !pu.pureCall(f, s) {
				ok = false
			}
		}
		return true
	})
	if ok {
		pu.state[f] = 2
	} else {
		pu.state[f] = 3
	}
	return ok
}

// localLHS: the assignment target is a plain identifier declared inside scope (or the blank identifier).
func (pu *purity) localLHS(info *types.Info, l ast.Expr, scope ast.Node) bool {
	id, ok := ast.Unparen(l).(*ast.Ident)
	if !ok {
		return false
	}
	if id.Name == "_" {
		return true
	}
	o := info.ObjectOf(id)
	if o == nil {
		return false
	}
	return scope.Pos() <= o.Pos() && o.Pos() < scope.End()
}

func (pu *purity) pureCall(f *Fn, c *ast.CallExpr) bool {
	info := f.Pkg.TypesInfo
	if tv, ok := info.Types[c.Fun]; ok && tv.IsType() {
		return true // conversion
	}
	if id, ok := ast.Unparen(c.Fun).(*ast.Ident); ok {
		if _, isB := info.Uses[id].(*types.Builtin); isB {
			switch id.Name {
			case "len", "cap", "min", "max", "real", "imag", "complex", "new", "make":
				return true
			}
			return false // append, copy, delete, close, panic, print…
		}
	}
	callee := pu.p.Callee(f.Pkg, c)
	if callee == nil {
		return false
	}
	if sig, ok := callee.Type().(*types.Signature); ok && sig.Recv() != nil {
		if types.IsInterface(sig.Recv().Type()) {
			return false
		}
	}
	if pureExternal[callee.FullName()] {
		return true
	}
	if tf := pu.p.FnOfObj(callee); tf != nil {
		return pu.pureFn(tf)
	}
	return false
}

// ruleStationary applies the stationary-iteration rule to all functions of the given packages.
func ruleStationary(p *Prog, r *Res, rule string, pkgs []string, floor int) {
	r.Rule(rule + ": a non-range loop must not have a header-to-header path without any state change")
	pu := &purity{p: p, state: map[*Fn]int{}}
	want := map[string]bool{}
	for _, s := range pkgs {
		want[s] = true
	}
	analysed, rangeLoops := 0, 0
	for _, f := range p.FnList {
		if !want[f.Short] {
			continue
		}
		fl := p.Flow(f)
		info := f.Pkg.TypesInfo
		idx := 0
		for _, lp := range fl.Loops() {
			fs, ok := lp.Stmt.(*ast.ForStmt)
			if !ok {
				rangeLoops++
				continue
			}
			idx++
			analysed++
			key := fmt.Sprintf("%s loop#%d", f.Key(), idx)
			header := lp.Header
			if header == nil {
				r.Undecided(rule, key, p.Pos(fs), "loop header block not found in CFG")
				continue
			}
			dirty := map[*cfg.Block]bool{}
			for b := range lp.Blocks {
				for _, n := range b.Nodes {
					if changesState(pu, f, info, n, fs) {
						dirty[b] = true
						break
					}
				}
			}
			// cycle through header using only clean blocks inside the loop
			if dirty[header] {
				r.Ok(rule, key, p.Pos(fs), "loop condition/header changes state on every iteration")
				continue
			}
			seen := map[*cfg.Block]bool{}
			var witness []*cfg.Block
			var dfs func(b *cfg.Block, path []*cfg.Block) bool
			// a range over X whose body never comes back to the range (it leaves on every path) is left over its `done` edge
			// only when X is empty; inside `for len(X) != 0 { … }` that cannot happen on a path that changes no state
			infeasible := func(b *cfg.Block, si int) bool {
				if b.Kind != cfg.KindRangeLoop || si != 1 || len(b.Succs) != 2 || fs.Cond == nil {
					return false
				}
				rs, ok := b.Stmt.(*ast.RangeStmt)
				if !ok {
					return false
				}
				xs := exprString(p.Fset, ast.Unparen(rs.X))
				nonEmpty := false
				for _, c := range conjuncts(fs.Cond) {
					be, ok := ast.Unparen(c).(*ast.BinaryExpr)
					if !ok {
						continue
					}
					isLenX := func(e ast.Expr) bool {
						c, ok := ast.Unparen(e).(*ast.CallExpr)
						return ok && isBuiltin(info, c, "len") && len(c.Args) == 1 && exprString(p.Fset, ast.Unparen(c.Args[0])) == xs
					}
					lit := func(e ast.Expr) string {
						if bl, ok := ast.Unparen(e).(*ast.BasicLit); ok {
							return bl.Value
						}
						return ""
					}
					switch {
					case isLenX(be.X) && lit(be.Y) == "0" && (be.Op == token.NEQ || be.Op == token.GTR):
						nonEmpty = true
					case isLenX(be.X) && lit(be.Y) == "1" && be.Op == token.GEQ:
						nonEmpty = true
					case isLenX(be.Y) && lit(be.X) == "0" && (be.Op == token.NEQ || be.Op == token.LSS):
						nonEmpty = true
					}
				}
				if !nonEmpty {
					return false
				}
				// the body never returns to the range header
				seenB := map[*cfg.Block]bool{}
				work := []*cfg.Block{b.Succs[0]}
				for len(work) > 0 {
					x := work[0]
					work = work[1:]
					if seenB[x] {
						continue
					}
					seenB[x] = true
					if x == b {
						return false
					}
					if x == header {
						continue
					}
					work = append(work, x.Succs...)
				}
				return true
			}
			// a boolean declared false inside the loop body and set to true only in blocks that change state is false on every
			// path that changes no state: the true edge of `if flag` (false edge of `if !flag`) is not part of such a path
			falseOnCleanPaths := func(v types.Object) bool {
				if v == nil || v.Pos() < fs.Body.Pos() || v.Pos() > fs.Body.End() {
					return false
				}
				okAll, declFalse := true, false
				for b := range lp.Blocks {
					for _, n := range b.Nodes {
						as, isAs := n.(*ast.AssignStmt)
						if !isAs {
							if vs, ok := n.(*ast.ValueSpec); ok {
								for i, id := range vs.Names {
									if info.Defs[id] == v {
										if i >= len(vs.Values) {
											declFalse = true // zero value
										} else if id2, ok := ast.Unparen(vs.Values[i]).(*ast.Ident); ok && id2.Name == "false" {
											declFalse = true
										} else {
											okAll = false
										}
									}
								}
							}
							continue
						}
						for i, l := range as.Lhs {
							if identObj(info, l) != v {
								continue
							}
							isFalse := false
							if i < len(as.Rhs) && len(as.Lhs) == len(as.Rhs) {
								if id2, ok := ast.Unparen(as.Rhs[i]).(*ast.Ident); ok && id2.Name == "false" {
									isFalse = true
								}
							}
							switch {
							case isFalse && as.Tok == token.DEFINE:
								declFalse = true
							case isFalse:
							case dirty[b]:
							default:
								okAll = false
							}
						}
					}
				}
				return okAll && declFalse
			}
			flagEdgeInfeasible := func(b *cfg.Block, si int) bool {
				if len(b.Succs) != 2 || len(b.Nodes) == 0 {
					return false
				}
				cond, ok := b.Nodes[len(b.Nodes)-1].(ast.Expr)
				if !ok {
					return false
				}
				cond = ast.Unparen(cond)
				neg := false
				if ue, ok := cond.(*ast.UnaryExpr); ok && ue.Op == token.NOT {
					neg = true
					cond = ast.Unparen(ue.X)
				}
				id, ok := cond.(*ast.Ident)
				if !ok || !falseOnCleanPaths(info.Uses[id]) {
					return false
				}
				return (!neg && si == 0) || (neg && si == 1)
			}
			dfs = func(b *cfg.Block, path []*cfg.Block) bool {
				for si, s := range b.Succs {
					if infeasible(b, si) || flagEdgeInfeasible(b, si) {
						continue
					}
					if s == header {
						witness = append(append([]*cfg.Block(nil), path...), b)
						return true
					}
					if !lp.Blocks[s] || dirty[s] || seen[s] {
						continue
					}
					seen[s] = true
					if dfs(s, append(path, b)) {
						return true
					}
				}
				return false
			}
			if dfs(header, nil) {
				lines := ""
				for _, b := range witness {
					for _, n := range b.Nodes {
						lines += fmt.Sprintf("%d ", lineOf(p.Fset, n))
					}
				}
				r.Bad(rule, key, p.Pos(fs), "stationary iteration: a path from the loop header back to itself changes no state (lines "+lines+"); once taken it repeats forever")
			} else {
				r.Ok(rule, key, p.Pos(fs), fmt.Sprintf("every header-to-header path passes a state change (%d of %d loop blocks change state)", len(dirty), len(lp.Blocks)))
			}
		}
	}
	r.Note("%s: %d non-range loops analysed, %d range loops exempt by construction", rule, analysed, rangeLoops)
	r.Floor(rule, floor, analysed)
}

// changesState: CFG node n (inside loop fs of function f) may change state that outlives one iteration.
func changesState(pu *purity, f *Fn, info *types.Info, n ast.Node, loop *ast.ForStmt) bool {
	changed := false
	local := func(l ast.Expr) bool { return pu.localLHS(info, l, loop.Body) }
	inspectShallow(n, func(x ast.Node) bool {
		if changed {
			return false
		}
		switch s := x.(type) {
		case *ast.FuncLit:
			// creating a closure changes nothing by itself
			return false
		case *ast.GoStmt, *ast.DeferStmt, *ast.SendStmt:
			changed = true
		case *ast.UnaryExpr:
			if s.Op == token.ARROW {
				changed = true
			}
		case *ast.AssignStmt:
			for _, l := range s.Lhs {
				if !local(l) {
					changed = true
				}
			}
		case *ast.IncDecStmt:
			if !local(s.X) {
				changed = true
			}
		case *ast.CallExpr:
			if !pu.pureCall(f, s) {
				changed = true
			}
		}
		return true
	})
	if changed {
		return true
	}
	// a range over a map or channel inside the loop: nondeterministic / consuming; the RangeStmt's X is the node
	if e, ok := n.(ast.Expr); ok {
		if t := info.TypeOf(e); t != nil {
			switch t.Underlying().(type) {
			case *types.Chan:
				return true
			}
		}
	}
	return false
}

func init() {
	if false {
		register("CXX", "", nil)
	}
}

// C14-b: trimming delimiters off an input token with s[a:len(s)-b] panics when the token is shorter than a+b.
func init() {
	register("C14",
		"C14-b (guarded delimiter stripping): every slice expression x[a : len(x)-b] on a string in package query (the token-trimming idiom, a+b ≥ 1) is justified by a guard that implies len(x) ≥ a+b — a conjunct len(x) ≥ k, or a HasPrefix/HasSuffix pair whose literals cannot overlap to a shorter string (HasPrefix(x, `\"`) && HasSuffix(x, `\"`) only implies len ≥ 1) — or by the participle lexer rule that produced the token: the struct-tag token name of the capturing field is looked up in the lexer rule tables and the minimum match length of its pattern is computed with regexp/syntax. Found the parseValue panic on `tag:\"`.",
		ruleC14Trim)
}

func minOverlapLen(p, q string) int {
	// shortest string having prefix p and suffix q
	best := len(p) + len(q)
	for k := 1; k <= len(p) && k <= len(q); k++ {
		if p[len(p)-k:] == q[:k] {
			if l := len(p) + len(q) - k; l < best {
				best = l
			}
		}
	}
	if len(p) >= len(q) && strings.HasSuffix(p, q) && len(p) < best {
		best = len(p)
	}
	if len(q) >= len(p) && strings.HasPrefix(q, p) && len(q) < best {
		best = len(q)
	}
	return best
}

func ruleC14Trim(p *Prog, r *Res) {
	const rule = "C14-b guarded-trim"
	r.Rule(rule + ": x[a:len(x)-b] on strings is guarded by a length fact")
	// lexer rule name -> minimal match length (from composite literals {Name: "...", Pattern: `...`})
	ruleMin := map[string]int{}
	for _, file := range p.By["query"].Syntax {
		ast.Inspect(file, func(x ast.Node) bool {
			cl, ok := x.(*ast.CompositeLit)
			if !ok {
				return true
			}
			var name, pat string
			for _, el := range cl.Elts {
				if kv, ok := el.(*ast.KeyValueExpr); ok {
					if tv, ok := p.By["query"].TypesInfo.Types[kv.Value]; ok && tv.Value != nil && tv.Value.Kind() == constant.String {
						switch types.ExprString(kv.Key) {
						case "Name":
							name = constant.StringVal(tv.Value)
						case "Pattern":
							pat = constant.StringVal(tv.Value)
						}
					}
				}
			}
			if name != "" && pat != "" {
				if re, err := syntax.Parse(pat, syntax.Perl); err == nil {
					ml := regexMinLen(re.Simplify())
					if old, ok := ruleMin[name]; !ok || ml < old {
						ruleMin[name] = ml
					}
				}
			}
			return true
		})
	}
	n := 0
	for _, f := range p.FnList {
		if f.Short != "query" {
			continue
		}
		info := f.Pkg.TypesInfo
		inspectParents(f.Body(), func(x ast.Node, parents []ast.Node) bool {
			sl, ok := x.(*ast.SliceExpr)
			if !ok || sl.High == nil {
				return true
			}
			t := info.TypeOf(sl.X)
			if t == nil {
				return true
			}
			if b, ok := t.Underlying().(*types.Basic); !ok || b.Info()&types.IsString == 0 {
				return true
			}
			// High == len(X) - b
			be, ok := ast.Unparen(sl.High).(*ast.BinaryExpr)
			if !ok || be.Op != token.SUB {
				return true
			}
			lc, ok := ast.Unparen(be.X).(*ast.CallExpr)
			if !ok || !isBuiltin(info, lc, "len") || types.ExprString(lc.Args[0]) != types.ExprString(sl.X) {
				return true
			}
			bv, okb := info.Types[be.Y]
			if !okb || bv.Value == nil {
				return true
			}
			b64, _ := constant.Int64Val(bv.Value)
			a64 := int64(0)
			if sl.Low != nil {
				av, oka := info.Types[sl.Low]
				if !oka || av.Value == nil {
					return true
				}
				a64, _ = constant.Int64Val(av.Value)
			}
			need := int(a64 + b64)
			if need < 1 {
				return true
			}
			n++
			xs := types.ExprString(sl.X)
			key := fmt.Sprintf("%s %s[%d:len-%d]", f.Key(), xs, a64, b64)
			// facts from enclosing if conditions
			known := 0
			why := "no guard"
			for _, pn := range parents {
				ifs, ok := pn.(*ast.IfStmt)
				if !ok || !within(sl, ifs.Body) {
					continue
				}
				var conj []ast.Expr
				var split func(e ast.Expr)
				split = func(e ast.Expr) {
					e = ast.Unparen(e)
					if b2, ok := e.(*ast.BinaryExpr); ok && b2.Op == token.LAND {
						split(b2.X)
						split(b2.Y)
						return
					}
					conj = append(conj, e)
				}
				split(ifs.Cond)
				// the sliced expression, or — when it is a local defined inside this if body from an expression whose
				// variables are not assigned between the guard and the definition (`sub := s[0]`) — that expression
				isX := func(e ast.Expr) bool {
					t := types.ExprString(e)
					if t == xs {
						return true
					}
					id, ok := ast.Unparen(sl.X).(*ast.Ident)
					if !ok {
						return false
					}
					o := info.Uses[id]
					var defs []*ast.AssignStmt
					var rhs ast.Expr
					ast.Inspect(f.Body(), func(y ast.Node) bool {
						if as, ok := y.(*ast.AssignStmt); ok && len(as.Lhs) == len(as.Rhs) {
							for i, l := range as.Lhs {
								if identObj(info, l) == o {
									defs = append(defs, as)
									rhs = as.Rhs[i]
								}
							}
						}
						return true
					})
					if len(defs) != 1 || !within(defs[0], ifs.Body) || types.ExprString(rhs) != t {
						return false
					}
					// nothing the definition reads is assigned between the guard and the definition
					clean := true
					roots := map[types.Object]bool{}
					ast.Inspect(rhs, func(y ast.Node) bool {
						if rid, ok := y.(*ast.Ident); ok {
							if ro := info.Uses[rid]; ro != nil {
								roots[ro] = true
							}
						}
						return true
					})
					ast.Inspect(ifs.Body, func(y ast.Node) bool {
						if as, ok := y.(*ast.AssignStmt); ok && as.Pos() < defs[0].Pos() {
							for _, l := range as.Lhs {
								if roots[identObj(info, l)] {
									clean = false
								}
							}
						}
						return true
					})
					return clean
				}
				pre, suf := "", ""
				hasPre, hasSuf := false, false
				for _, c := range conj {
					switch cc := c.(type) {
					case *ast.BinaryExpr:
						// len(X) >= k / > k / != 0
						if l2, ok := ast.Unparen(cc.X).(*ast.CallExpr); ok && isBuiltin(info, l2, "len") && isX(l2.Args[0]) {
							if kv, ok := info.Types[cc.Y]; ok && kv.Value != nil {
								k, _ := constant.Int64Val(kv.Value)
								switch cc.Op {
								case token.GEQ:
									known = max(known, int(k))
								case token.GTR:
									known = max(known, int(k)+1)
								case token.NEQ:
									if k == 0 {
										known = max(known, 1)
									}
								}
							}
						}
					case *ast.CallExpr:
						if fn := p.Callee(f.Pkg, cc); fn != nil && len(cc.Args) == 2 && isX(cc.Args[0]) {
							if lv, ok := info.Types[cc.Args[1]]; ok && lv.Value != nil && lv.Value.Kind() == constant.String {
								switch fn.FullName() {
								case "strings.HasPrefix":
									pre, hasPre = constant.StringVal(lv.Value), true
								case "strings.HasSuffix":
									suf, hasSuf = constant.StringVal(lv.Value), true
								}
							}
						}
					}
				}
				switch {
				case hasPre && hasSuf:
					known = max(known, minOverlapLen(pre, suf))
					why = fmt.Sprintf("HasPrefix(%q) && HasSuffix(%q) imply len ≥ %d", pre, suf, minOverlapLen(pre, suf))
				case hasPre:
					known = max(known, len(pre))
				case hasSuf:
					known = max(known, len(suf))
				}
			}
			if known >= need {
				r.Ok(rule, key, p.Pos(sl), fmt.Sprintf("guards imply len ≥ %d ≥ %d", known, need))
				return true
			}
			// token produced by a lexer rule: Capture(s []string) of a type used in a field tagged `@<Rule>`
			if f.Decl.Name.Name == "Capture" && f.Decl.Recv != nil {
				recv := recvTypeName(f.Decl.Recv.List[0].Type)
				tokens := captureTokens(p, recv)
				if len(tokens) > 0 {
					minTok := -1
					unknown := ""
					for _, tk := range tokens {
						ml, ok := ruleMin[tk]
						if !ok {
							unknown = tk
							continue
						}
						if minTok == -1 || ml < minTok {
							minTok = ml
						}
					}
					if unknown == "" && minTok >= need {
						r.Ok(rule, key, p.Pos(sl), fmt.Sprintf("token of lexer rule(s) %v, minimal match length %d ≥ %d", tokens, minTok, need))
						return true
					}
					why = fmt.Sprintf("%s; captured lexer rules %v have minimal length %d (unknown rule: %q)", why, tokens, minTok, unknown)
				}
			}
			r.Bad(rule, key, p.Pos(sl), fmt.Sprintf("the slice needs len(%s) ≥ %d but the guards only establish len ≥ %d (%s): a shorter token makes the parser panic with slice bounds out of range", xs, need, known, why))
			return true
		})
	}
	r.Floor(rule, 3, n)
}

// regexMinLen: minimal length (in bytes, lower bound) of a string matched by re.
func regexMinLen(re *syntax.Regexp) int {
	switch re.Op {
	case syntax.OpLiteral:
		return len(string(re.Rune))
	case syntax.OpCharClass, syntax.OpAnyCharNotNL, syntax.OpAnyChar:
		return 1
	case syntax.OpCapture:
		return regexMinLen(re.Sub[0])
	case syntax.OpConcat:
		s := 0
		for _, x := range re.Sub {
			s += regexMinLen(x)
		}
		return s
	case syntax.OpAlternate:
		m := -1
		for _, x := range re.Sub {
			if l := regexMinLen(x); m == -1 || l < m {
				m = l
			}
		}
		if m < 0 {
			m = 0
		}
		return m
	case syntax.OpPlus:
		return regexMinLen(re.Sub[0])
	case syntax.OpRepeat:
		return re.Min * regexMinLen(re.Sub[0])
	}
	return 0 // star, quest, empty, anchors
}

// captureTokens: the lexer token names captured into fields of the given participle node type
// (struct tags `parser:"… @Name …"` on fields whose type is *T / T / []T).
func captureTokens(p *Prog, typeName string) []string {
	var out []string
	seen := map[string]bool{}
	pk := p.By["query"]
	for _, file := range pk.Syntax {
		ast.Inspect(file, func(x ast.Node) bool {
			fld, ok := x.(*ast.Field)
			if !ok || fld.Tag == nil {
				return true
			}
			if !strings.Contains(types.ExprString(fld.Type), typeName) {
				return true
			}
			tag := fld.Tag.Value
			i := strings.Index(tag, `parser:"`)
			if i < 0 {
				return true
			}
			body := tag[i+len(`parser:"`):]
			for j := 0; j < len(body); j++ {
				if body[j] == '@' && j+1 < len(body) && body[j+1] != '@' {
					k := j + 1
					if body[k] == '(' {
						k++
					}
					e := k
					for e < len(body) && (body[e] == '_' || body[e] >= 'A' && body[e] <= 'Z' || body[e] >= 'a' && body[e] <= 'z' || body[e] >= '0' && body[e] <= '9') {
						e++
					}
					if e > k && !seen[body[k:e]] {
						seen[body[k:e]] = true
						out = append(out, body[k:e])
					}
				}
			}
			return true
		})
	}
	sort.Strings(out)
	return out
}
