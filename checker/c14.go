package main

import (
	"fmt"
	"go/ast"
	"go/token"
	"go/types"

	"golang.org/x/tools/go/cfg"
)

// C14-a: no stationary iteration. A non-range loop that has a path from its header back to its
// header on which nothing changes (no store to state that outlives the iteration, no impure call,
// no channel operation, no nondeterministic range) repeats forever once taken.

func init() {
	register("C14",
		"C14-a (FLOW): for every non-range loop of every function in package query (everything query.Parse can reach is in that package; participle itself is trusted), the loop's CFG blocks that contain no state change are collected — a state change being an assignment/inc-dec to a variable declared outside the loop body or through a pointer/field/index, a call that is not proven pure by a bottom-up effect summary, a channel operation, go/defer, or a range over a map — and the rule reports the loop if the header lies on a cycle made only of such unchanged blocks: once such a path is taken the state at the header is identical and it is taken forever. Range loops terminate by construction. Panic freedom, promptness and equivalence of two parses are NOT decided.",
		func(p *Prog, r *Res) { ruleStationary(p, r, "C14-a stationary-loop", []string{"query"}, 40) })
}

var pureExternal = map[string]bool{
	"strings.HasPrefix": true, "strings.HasSuffix": true, "strings.Contains": true, "strings.Index": true, "strings.IndexByte": true,
	"strings.TrimPrefix": true, "strings.TrimSuffix": true, "strings.ToLower": true, "strings.Count": true, "strings.EqualFold": true,
	"bytes.Equal": true, "bytes.Compare": true, "bytes.HasPrefix": true, "bytes.Index": true, "bytes.IndexByte": true,
	"math/bits.OnesCount64": true, "math/bits.TrailingZeros64": true, "math/bits.LeadingZeros64": true, "math/bits.Len64": true,
	"math/bits.OnesCount16": true, "math/bits.TrailingZeros16": true, "math/bits.Len": true, "math/bits.OnesCount": true, "math/bits.TrailingZeros": true,
	"(time.Time).Before": true, "(time.Time).After": true, "(time.Time).Equal": true, "(time.Time).IsZero": true, "(time.Time).Sub": true, "(time.Time).Add": true,
	"(net.IP).Equal": true, "(net.IP).To4": true, "(net.IP).To16": true, "(net.IP).Mask": true,
	"slices.Contains": true, "slices.Index": true, "unicode.IsSpace": true, "unicode.IsDigit": true,
	"(time.Duration).Nanoseconds": true,
}

type purity struct {
	p     *Prog
	state map[*Fn]int // 0 unknown, 1 in progress, 2 pure, 3 impure
}

func (pu *purity) pureFn(f *Fn) bool {
	switch pu.state[f] {
	case 1:
		return false // recursion: assume impure
	case 2:
		return true
	case 3:
		return false
	}
	pu.state[f] = 1
	ok := true
	info := f.Pkg.TypesInfo
	body := f.Body()
	inspectShallow(body, func(x ast.Node) bool {
		if !ok {
			return false
		}
		switch s := x.(type) {
		case *ast.FuncLit:
			ok = false // closures: give up
		case *ast.GoStmt, *ast.DeferStmt, *ast.SendStmt, *ast.SelectStmt:
			ok = false
		case *ast.UnaryExpr:
			if s.Op == token.ARROW {
				ok = false
			}
		case *ast.AssignStmt:
			for _, l := range s.Lhs {
				if !pu.localLHS(info, l, body) {
					ok = false
				}
			}
		case *ast.IncDecStmt:
			if !pu.localLHS(info, s.X, body) {
				ok = false
			}
		case *ast.RangeStmt:
			if t := info.TypeOf(s.X); t != nil {
				if _, isMap := t.Underlying().(*types.Map); isMap {
					ok = false
				}
				if _, isChan := t.Underlying().(*types.Chan); isChan {
					ok = false
				}
			}
		case *ast.CallExpr:
			if !pu.pureCall(f, s) {
				ok = false
			}
		}
		return true
	})
	if ok {
		pu.state[f] = 2
	} else {
		pu.state[f] = 3
	}
	return ok
}

// localLHS: the assignment target is a plain identifier declared inside scope (or the blank identifier).
func (pu *purity) localLHS(info *types.Info, l ast.Expr, scope ast.Node) bool {
	id, ok := ast.Unparen(l).(*ast.Ident)
	if !ok {
		return false
	}
	if id.Name == "_" {
		return true
	}
	o := info.ObjectOf(id)
	if o == nil {
		return false
	}
	return scope.Pos() <= o.Pos() && o.Pos() < scope.End()
}

func (pu *purity) pureCall(f *Fn, c *ast.CallExpr) bool {
	info := f.Pkg.TypesInfo
	if tv, ok := info.Types[c.Fun]; ok && tv.IsType() {
		return true // conversion
	}
	if id, ok := ast.Unparen(c.Fun).(*ast.Ident); ok {
		if _, isB := info.Uses[id].(*types.Builtin); isB {
			switch id.Name {
			case "len", "cap", "min", "max", "real", "imag", "complex", "new", "make":
				return true
			}
			return false // append, copy, delete, close, panic, print…
		}
	}
	callee := pu.p.Callee(f.Pkg, c)
	if callee == nil {
		return false
	}
	if sig, ok := callee.Type().(*types.Signature); ok && sig.Recv() != nil {
		if types.IsInterface(sig.Recv().Type()) {
			return false
		}
	}
	if pureExternal[callee.FullName()] {
		return true
	}
	if tf := pu.p.FnOfObj(callee); tf != nil {
		return pu.pureFn(tf)
	}
	return false
}

// ruleStationary applies the stationary-iteration rule to all functions of the given packages.
func ruleStationary(p *Prog, r *Res, rule string, pkgs []string, floor int) {
	r.Rule(rule + ": a non-range loop must not have a header-to-header path without any state change")
	pu := &purity{p: p, state: map[*Fn]int{}}
	want := map[string]bool{}
	for _, s := range pkgs {
		want[s] = true
	}
	analysed, rangeLoops := 0, 0
	for _, f := range p.FnList {
		if !want[f.Short] {
			continue
		}
		fl := p.Flow(f)
		info := f.Pkg.TypesInfo
		idx := 0
		for _, lp := range fl.Loops() {
			fs, ok := lp.Stmt.(*ast.ForStmt)
			if !ok {
				rangeLoops++
				continue
			}
			idx++
			analysed++
			key := fmt.Sprintf("%s loop#%d", f.Key(), idx)
			header := lp.Header
			if header == nil {
				r.Undecided(rule, key, p.Pos(fs), "loop header block not found in CFG")
				continue
			}
			dirty := map[*cfg.Block]bool{}
			for b := range lp.Blocks {
				for _, n := range b.Nodes {
					if changesState(pu, f, info, n, fs) {
						dirty[b] = true
						break
					}
				}
			}
			// cycle through header using only clean blocks inside the loop
			if dirty[header] {
				r.Ok(rule, key, p.Pos(fs), "loop condition/header changes state on every iteration")
				continue
			}
			seen := map[*cfg.Block]bool{}
			var witness []*cfg.Block
			var dfs func(b *cfg.Block, path []*cfg.Block) bool
			dfs = func(b *cfg.Block, path []*cfg.Block) bool {
				for _, s := range b.Succs {
					if s == header {
						witness = append(append([]*cfg.Block(nil), path...), b)
						return true
					}
					if !lp.Blocks[s] || dirty[s] || seen[s] {
						continue
					}
					seen[s] = true
					if dfs(s, append(path, b)) {
						return true
					}
				}
				return false
			}
			if dfs(header, nil) {
				lines := ""
				for _, b := range witness {
					for _, n := range b.Nodes {
						lines += fmt.Sprintf("%d ", lineOf(p.Fset, n))
					}
				}
				r.Bad(rule, key, p.Pos(fs), "stationary iteration: a path from the loop header back to itself changes no state (lines "+lines+"); once taken it repeats forever")
			} else {
				r.Ok(rule, key, p.Pos(fs), fmt.Sprintf("every header-to-header path passes a state change (%d of %d loop blocks change state)", len(dirty), len(lp.Blocks)))
			}
		}
	}
	r.Note("%s: %d non-range loops analysed, %d range loops exempt by construction", rule, analysed, rangeLoops)
	r.Floor(rule, floor, analysed)
}

// changesState: CFG node n (inside loop fs of function f) may change state that outlives one iteration.
func changesState(pu *purity, f *Fn, info *types.Info, n ast.Node, loop *ast.ForStmt) bool {
	changed := false
	local := func(l ast.Expr) bool { return pu.localLHS(info, l, loop.Body) }
	inspectShallow(n, func(x ast.Node) bool {
		if changed {
			return false
		}
		switch s := x.(type) {
		case *ast.FuncLit:
			// creating a closure changes nothing by itself
			return false
		case *ast.GoStmt, *ast.DeferStmt, *ast.SendStmt:
			changed = true
		case *ast.UnaryExpr:
			if s.Op == token.ARROW {
				changed = true
			}
		case *ast.AssignStmt:
			for _, l := range s.Lhs {
				if !local(l) {
					changed = true
				}
			}
		case *ast.IncDecStmt:
			if !local(s.X) {
				changed = true
			}
		case *ast.CallExpr:
			if !pu.pureCall(f, s) {
				changed = true
			}
		}
		return true
	})
	if changed {
		return true
	}
	// a range over a map or channel inside the loop: nondeterministic / consuming; the RangeStmt's X is the node
	if e, ok := n.(ast.Expr); ok {
		if t := info.TypeOf(e); t != nil {
			switch t.Underlying().(type) {
			case *types.Chan:
				return true
			}
		}
	}
	return false
}

func init() {
	if false {
		register("CXX", "", nil)
	}
}
