package main

// bounds.go: a small path-based bound checker for index expressions (used by C14-h and C15-i / C17-k).
//
// For an index expression B[E] with E = v div c (v an integer variable of the enclosing function; c ≥ 1 a constant
// from /c or >>s) it decides the two obligations
//
//	upper:  v < K       K = k·c with k the constant length of B, or K = len(B)·c (symbolic)
//	lower:  v ≥ 0       (only for signed v)
//
// without computing values. An obligation holds at the index when no path leads to it from a statement that may
// invalidate it (a "kill" definition of v, or — symbolically — a shrinking assignment to B) without crossing something
// that establishes it afterwards:
//
//	an edge       the true edge of a conjunct `v < K'` (K' ≤ K), `v/c < len(B)`, …, the false edge of a disjunct
//	              `v >= K'`, …; for lower bounds `v >= L'` / `v < L'` correspondingly;
//	a definition  v := constant in range; `for v := range B` / `range <k ≤ K>`; for lower bounds also v++ and v += c
//	              (they keep a lower bound) and v := w + C when w ≥ L − C holds at that definition (recursively);
//	a statement   B = append(B, make(T, v+1−len(B))...) establishes v < len(B).
//
// Appending to B keeps every established upper bound (len only grows). Anything the vocabulary cannot express
// makes the site "not decidable here": it is counted and reported in a note, never as a violation.

import (
	"go/ast"
	"go/constant"
	"go/token"
	"go/types"
	"reflect"
	"strings"

	"golang.org/x/tools/go/cfg"
)

type idxForm struct {
	v   *types.Var
	div int64
}

func stripConv(info *types.Info, e ast.Expr) ast.Expr {
	for {
		e = ast.Unparen(e)
		c, ok := e.(*ast.CallExpr)
		if !ok || len(c.Args) != 1 {
			return e
		}
		if tv, ok := info.Types[c.Fun]; !ok || !tv.IsType() {
			return e
		}
		e = c.Args[0]
	}
}

func constInt(info *types.Info, e ast.Expr) (int64, bool) {
	if tv, ok := info.Types[e]; ok && tv.Value != nil && tv.Value.Kind() == constant.Int {
		return constant.Int64Val(tv.Value)
	}
	return 0, false
}

// indexForm: e = v div c
func indexForm(info *types.Info, e ast.Expr) (idxForm, bool) {
	e = stripConv(info, e)
	switch x := e.(type) {
	case *ast.Ident:
		if v, ok := info.Uses[x].(*types.Var); ok && !v.IsField() {
			if b, ok := v.Type().Underlying().(*types.Basic); ok && b.Info()&types.IsInteger != 0 {
				return idxForm{v, 1}, true
			}
		}
	case *ast.BinaryExpr:
		if x.Op == token.QUO || x.Op == token.SHR {
			c, ok := constInt(info, x.Y)
			if !ok || c < 0 || (x.Op == token.QUO && c == 0) || (x.Op == token.SHR && c > 30) {
				return idxForm{}, false
			}
			f, ok := indexForm(info, x.X)
			if !ok {
				return idxForm{}, false
			}
			if x.Op == token.SHR {
				c = 1 << uint(c)
			}
			return idxForm{f.v, f.div * c}, true
		}
	}
	return idxForm{}, false
}

// bnd is a bound value: a constant k, or len(B)·mult.
type bnd struct {
	sym  bool
	k    int64
	mult int64
}

type boundSite struct {
	p    *Prog
	f    *Fn
	info *types.Info
	fl   *Flow
	B    ast.Expr // the indexed expression (for symbolic bounds)
	bStr string

	caseTags map[ast.Expr]ast.Expr
	// estCalls: calls of grower helpers that leave v < len(B) behind (symbolic bounds)
	estCalls []*ast.CallExpr
}

func (s *boundSite) sameB(e ast.Expr) bool {
	if s.B == nil {
		return false
	}
	e = ast.Unparen(e)
	if exprString(s.p.Fset, e) != s.bStr {
		return false
	}
	r1, r2 := rootIdentOf(e), rootIdentOf(s.B)
	if r1 == nil || r2 == nil {
		return r1 == nil && r2 == nil
	}
	o1, o2 := s.info.Uses[r1], s.info.Uses[r2]
	if o1 == nil {
		o1 = s.info.Defs[r1]
	}
	if o2 == nil {
		o2 = s.info.Defs[r2]
	}
	return o1 == o2
}

// boundExpr: e is a constant or len(B)·m
func (s *boundSite) boundExpr(e ast.Expr) (bnd, bool) {
	if k, ok := constInt(s.info, e); ok {
		return bnd{k: k}, true
	}
	e = stripConv(s.info, e)
	switch x := e.(type) {
	case *ast.Ident:
		// a local with a single definition that is such a bound (have := len(B))
		if o, ok := s.info.Uses[x].(*types.Var); ok && !o.IsField() && s.B != nil {
			var def ast.Expr
			nDefs := 0
			ast.Inspect(s.f.Body(), func(y ast.Node) bool {
				if as, ok := y.(*ast.AssignStmt); ok && len(as.Lhs) == len(as.Rhs) {
					for i, l := range as.Lhs {
						if identObj(s.info, l) == types.Object(o) {
							nDefs++
							def = as.Rhs[i]
						}
					}
				}
				return true
			})
			if nDefs == 1 && def != nil {
				if _, isId := stripConv(s.info, def).(*ast.Ident); !isId {
					return s.boundExpr(def)
				}
			}
		}
	case *ast.CallExpr:
		if isBuiltin(s.info, x, "len") && len(x.Args) == 1 && s.sameB(x.Args[0]) {
			return bnd{sym: true, mult: 1}, true
		}
	case *ast.BinaryExpr:
		switch x.Op {
		case token.MUL:
			if b, ok := s.boundExpr(x.X); ok && b.sym {
				if c, ok := constInt(s.info, x.Y); ok && c > 0 {
					return bnd{sym: true, mult: b.mult * c}, true
				}
			}
			if b, ok := s.boundExpr(x.Y); ok && b.sym {
				if c, ok := constInt(s.info, x.X); ok && c > 0 {
					return bnd{sym: true, mult: b.mult * c}, true
				}
			}
		case token.SHL:
			if b, ok := s.boundExpr(x.X); ok && b.sym {
				if c, ok := constInt(s.info, x.Y); ok && c >= 0 && c < 30 {
					return bnd{sym: true, mult: b.mult << uint(c)}, true
				}
			}
		}
	}
	return bnd{}, false
}

// upperFrom: what upper bound on v (v < result) does taking the given edge of comparison c establish?
func (s *boundSite) upperFrom(c ast.Expr, v *types.Var, trueEdge bool) (bnd, bool) {
	be, ok := ast.Unparen(c).(*ast.BinaryExpr)
	if !ok {
		return bnd{}, false
	}
	op := be.Op
	l, r := be.X, be.Y
	lf, lok := indexForm(s.info, l)
	if !lok || lf.v != v {
		// mirrored: bound op v
		rf, rok := indexForm(s.info, r)
		if !rok || rf.v != v {
			return bnd{}, false
		}
		l, r, lf = r, l, rf
		switch op {
		case token.LSS:
			op = token.GTR
		case token.GTR:
			op = token.LSS
		case token.LEQ:
			op = token.GEQ
		case token.GEQ:
			op = token.LEQ
		}
	}
	_ = l
	b, ok := s.boundExpr(r)
	if !ok {
		return bnd{}, false
	}
	if !trueEdge {
		switch op {
		case token.GEQ:
			op = token.LSS
		case token.GTR:
			op = token.LEQ
		case token.NEQ:
			op = token.EQL
		default:
			return bnd{}, false
		}
	}
	switch op {
	case token.LSS: // v/a < R  ⇒ v < R·a
		if b.sym {
			return bnd{sym: true, mult: b.mult * lf.div}, true
		}
		return bnd{k: b.k * lf.div}, true
	case token.LEQ, token.EQL: // v/a ≤ R ⇒ v < (R+1)·a
		if b.sym {
			return bnd{}, false
		}
		return bnd{k: (b.k + 1) * lf.div}, true
	}
	return bnd{}, false
}

// lowerFrom: what lower bound on v (v ≥ result) does taking the given edge of comparison c establish?
func (s *boundSite) lowerFrom(c ast.Expr, v *types.Var, trueEdge bool) (int64, bool) {
	be, ok := ast.Unparen(c).(*ast.BinaryExpr)
	if !ok {
		return 0, false
	}
	op := be.Op
	r := be.Y
	lf, lok := indexForm(s.info, be.X)
	if !lok || lf.v != v || lf.div != 1 {
		rf, rok := indexForm(s.info, be.Y)
		if !rok || rf.v != v || rf.div != 1 {
			return 0, false
		}
		r = be.X
		switch op {
		case token.LSS:
			op = token.GTR
		case token.GTR:
			op = token.LSS
		case token.LEQ:
			op = token.GEQ
		case token.GEQ:
			op = token.LEQ
		}
	}
	k, ok := constInt(s.info, r)
	if !ok {
		return 0, false
	}
	if !trueEdge {
		switch op {
		case token.LSS:
			op = token.GEQ
		case token.LEQ:
			op = token.GTR
		case token.NEQ:
			op = token.EQL
		default:
			return 0, false
		}
	}
	switch op {
	case token.GEQ, token.EQL:
		return k, true
	case token.GTR:
		return k + 1, true
	}
	return 0, false
}

func bndLE(a, b bnd) bool {
	if a.sym != b.sym {
		return false
	}
	if a.sym {
		return a.mult <= b.mult
	}
	return a.k <= b.k
}

// defsOf: the CFG nodes that define v in this function, and the range statements whose key/value is v.
// ok=false when v is defined somewhere the analysis cannot follow (captured and assigned in a literal, address taken,
// or declared outside this function and assigned anywhere).
func (s *boundSite) defsOf(v *types.Var) (nodes []Pt, ranges []*ast.RangeStmt, ok bool) {
	ok = true
	body := s.f.Body()
	declaredHere := body.Pos() <= v.Pos() && v.Pos() < body.End()
	isParam := false
	if ft := s.f.Type(); ft != nil && ft.Params != nil {
		for _, fld := range ft.Params.List {
			for _, nm := range fld.Names {
				if s.info.Defs[nm] == types.Object(v) {
					isParam = true
				}
			}
		}
	}
	if !declaredHere && !isParam {
		// a captured variable: fine only if it is never assigned after its declaration … which this function cannot see
		return nil, nil, false
	}
	// assignments inside nested literals, address-of
	ast.Inspect(body, func(x ast.Node) bool {
		switch y := x.(type) {
		case *ast.FuncLit:
			ast.Inspect(y.Body, func(z ast.Node) bool {
				switch w := z.(type) {
				case *ast.AssignStmt:
					for _, l := range w.Lhs {
						if identObj(s.info, l) == types.Object(v) {
							ok = false
						}
					}
				case *ast.IncDecStmt:
					if identObj(s.info, w.X) == types.Object(v) {
						ok = false
					}
				}
				return true
			})
			return false
		case *ast.UnaryExpr:
			if y.Op == token.AND && identObj(s.info, y.X) == types.Object(v) {
				ok = false
			}
		case *ast.RangeStmt:
			if identObj(s.info, y.Key) == types.Object(v) || (y.Value != nil && identObj(s.info, y.Value) == types.Object(v)) {
				ranges = append(ranges, y)
			}
		}
		return true
	})
	nodes = s.fl.Find(func(nd ast.Node) bool {
		switch w := nd.(type) {
		case *ast.AssignStmt:
			for _, l := range w.Lhs {
				if identObj(s.info, l) == types.Object(v) {
					return true
				}
			}
		case *ast.IncDecStmt:
			return identObj(s.info, w.X) == types.Object(v)
		case *ast.DeclStmt:
			if gd, ok := w.Decl.(*ast.GenDecl); ok {
				for _, sp := range gd.Specs {
					if vs, ok := sp.(*ast.ValueSpec); ok {
						for _, nm := range vs.Names {
							if s.info.Defs[nm] == types.Object(v) {
								return true
							}
						}
					}
				}
			}
		}
		return false
	})
	return nodes, ranges, ok
}

// rhsOf: the value assigned to v by definition node nd (nil for ++/--/op-assign/zero declarations); kind tells which.
func (s *boundSite) rhsOf(nd ast.Node, v *types.Var) (rhs ast.Expr, kind string) {
	switch w := nd.(type) {
	case *ast.IncDecStmt:
		if w.Tok == token.INC {
			return nil, "inc"
		}
		return nil, "dec"
	case *ast.AssignStmt:
		if w.Tok != token.ASSIGN && w.Tok != token.DEFINE {
			if w.Tok == token.ADD_ASSIGN && len(w.Rhs) == 1 {
				if c, ok := constInt(s.info, w.Rhs[0]); ok && c >= 0 {
					return nil, "inc"
				}
			}
			return nil, "other"
		}
		if len(w.Lhs) != len(w.Rhs) {
			return nil, "other"
		}
		for i, l := range w.Lhs {
			if identObj(s.info, l) == types.Object(v) {
				return w.Rhs[i], "value"
			}
		}
	case *ast.DeclStmt:
		if gd, ok := w.Decl.(*ast.GenDecl); ok {
			for _, sp := range gd.Specs {
				if vs, ok := sp.(*ast.ValueSpec); ok {
					for i, nm := range vs.Names {
						if s.info.Defs[nm] == types.Object(v) {
							if i < len(vs.Values) {
								return vs.Values[i], "value"
							}
							return nil, "zero"
						}
					}
				}
			}
		}
	}
	return nil, "other"
}

// rangeBodyBlock: the block that starts the body of rs.
func (s *boundSite) rangeBodyBlock(rs *ast.RangeStmt) *cfg.Block {
	for _, b := range s.fl.G.Blocks {
		if b.Kind == cfg.KindRangeBody && b.Stmt == ast.Stmt(rs) {
			return b
		}
	}
	return nil
}

// search: is target reachable from a start without crossing an establishing edge / node / range entry?
func (s *boundSite) search(target ast.Node, starts []Pt, edgeEst func(c ast.Expr, trueEdge bool) bool, nodeEst func(ast.Node) bool, estRanges map[*ast.RangeStmt]bool) pathResult {
	fl := s.p.Flow(s.f)
	fl.EdgeOK = func(b *cfg.Block, succ int) bool {
		if succ < len(b.Succs) {
			nb := b.Succs[succ]
			if nb.Kind == cfg.KindRangeBody {
				if rs, ok := nb.Stmt.(*ast.RangeStmt); ok && estRanges[rs] {
					return false
				}
			}
		}
		if len(b.Succs) != 2 || len(b.Nodes) == 0 {
			return true
		}
		cond, ok := b.Nodes[len(b.Nodes)-1].(ast.Expr)
		if !ok {
			return true
		}
		if tag := s.switchTagOf(cond); tag != nil {
			// a case value of `switch tag { case cond: }`: the edge into the case body means tag == cond
			if succ == 0 && edgeEst(&ast.BinaryExpr{X: tag, Op: token.EQL, Y: cond}, true) {
				return false
			}
			return true
		}
		if succ == 0 {
			for _, c := range conjuncts(cond) {
				if edgeEst(c, true) {
					return false
				}
			}
		} else {
			for _, c := range disjuncts(cond) {
				if edgeEst(c, false) {
					return false
				}
			}
		}
		return true
	}
	// re-map the start points and the target into the fresh Flow (same CFG object: points are shared)
	return fl.Reach(starts, func(nd ast.Node) bool { return nd == target }, nodeEst)
}

// upperHolds decides v < K at the CFG node target. reason explains an "undecidable here".
func (s *boundSite) upperHolds(target ast.Node, v *types.Var, K bnd) (holds bool, decidable bool, res pathResult) {
	if b, ok := v.Type().Underlying().(*types.Basic); ok && !K.sym {
		// every value of a narrow unsigned type is below the bound
		if (b.Kind() == types.Uint8 && 1<<8 <= K.k) || (b.Kind() == types.Uint16 && 1<<16 <= K.k) {
			return true, true, pathResult{}
		}
	}
	defs, ranges, ok := s.defsOf(v)
	if !ok {
		return false, false, pathResult{}
	}
	var starts []Pt
	estNodes := map[ast.Node]bool{}
	estRanges := map[*ast.RangeStmt]bool{}
	for _, pt := range defs {
		nd := s.fl.node(pt)
		rhs, kind := s.rhsOf(nd, v)
		est := false
		switch kind {
		case "zero":
			est = !K.sym && 0 < K.k
		case "value":
			if c, ok := constInt(s.info, rhs); ok && !K.sym && c < K.k {
				est = true
			}
		}
		if est {
			estNodes[nd] = true
		} else {
			starts = append(starts, After(pt))
		}
	}
	for _, rs := range ranges {
		est := false
		if identObj(s.info, rs.Key) == types.Object(v) {
			if s.sameB(rs.X) {
				est = true // v < len(B) ≤ len(B)·c
			} else if c, ok := constInt(s.info, rs.X); ok && !K.sym && c <= K.k {
				est = true
			} else if k, ok := constLenOfExpr(s.p, s.f, rs.X, map[types.Object]bool{}); ok && !K.sym && int64(k) <= K.k {
				est = true
			} else if at, ok := s.info.TypeOf(rs.X).Underlying().(*types.Array); ok && !K.sym && at.Len() <= K.k {
				est = true
			} else if m, ok := s.grammarMax(rs.X); ok && !K.sym && int64(m) <= K.k {
				est = true // a list filled by the query grammar with at most m captures
			} else if !K.sym && s.lenBoundedAt(rs, K.k) {
				est = true // len(X) ≤ K has been established where the loop starts
			}
		}
		if est {
			estRanges[rs] = true
		} else if b := s.rangeBodyBlock(rs); b != nil {
			starts = append(starts, Pt{b, 0})
		}
	}
	if isParamOf(s.f, s.info, v) {
		starts = append(starts, s.fl.Entry())
	}
	if K.sym {
		// assignments to B other than appends to itself may shrink it
		for _, pt := range s.fl.Find(func(nd ast.Node) bool {
			as, ok := nd.(*ast.AssignStmt)
			if !ok {
				return false
			}
			for i, l := range as.Lhs {
				if !s.sameB(l) {
					continue
				}
				if i < len(as.Rhs) && len(as.Lhs) == len(as.Rhs) {
					if c, ok := ast.Unparen(as.Rhs[i]).(*ast.CallExpr); ok && isBuiltin(s.info, c, "append") && len(c.Args) >= 1 && s.sameB(c.Args[0]) {
						// grows; an exact growth to v+1 elements establishes the bound
						if s.growsToCover(c, v) && K.mult >= 1 {
							estNodes[nd] = true
						}
						continue
					}
				}
				return true
			}
			return false
		}) {
			starts = append(starts, After(pt))
		}
		// B itself starts out with unknown length
		starts = append(starts, s.fl.Entry())
	}
	edgeEst := func(c ast.Expr, trueEdge bool) bool {
		b, ok := s.upperFrom(c, v, trueEdge)
		return ok && bndLE(b, K)
	}
	isEstNode := func(nd ast.Node) bool {
		if estNodes[nd] {
			return true
		}
		if K.sym {
			for _, c := range s.estCalls {
				if containsNode(nd, c) {
					return true
				}
			}
		}
		return false
	}
	res = s.search(target, starts, edgeEst, isEstNode, estRanges)
	return !res.Found, true, res
}

// ensuresOnExit: on every way out of the function (return or falling off the end) v < K has been established since the
// entry — used to summarise grower helpers. v is a parameter.
func (s *boundSite) ensuresOnExit(v *types.Var, K bnd) bool {
	defs, ranges, ok := s.defsOf(v)
	if !ok || len(ranges) != 0 || len(defs) != 0 {
		return false // the parameter is reassigned: keep it simple
	}
	estNode := func(nd ast.Node) bool {
		as, ok := nd.(*ast.AssignStmt)
		if !ok {
			return false
		}
		for i, l := range as.Lhs {
			if s.sameB(l) && i < len(as.Rhs) && len(as.Lhs) == len(as.Rhs) {
				if c, ok := ast.Unparen(as.Rhs[i]).(*ast.CallExpr); ok && isBuiltin(s.info, c, "append") && len(c.Args) >= 1 && s.sameB(c.Args[0]) && s.growsToCoverVia(c, v) {
					return true
				}
			}
		}
		return false
	}
	edgeEst := func(c ast.Expr, trueEdge bool) bool {
		b, ok := s.upperFrom(c, v, trueEdge)
		return ok && bndLE(b, K)
	}
	type st struct {
		b *cfg.Block
		i int
	}
	seen := map[st]bool{}
	work := []st{{s.fl.G.Blocks[0], 0}}
	for len(work) > 0 {
		x := work[0]
		work = work[1:]
		if seen[x] {
			continue
		}
		seen[x] = true
		if x.i < len(x.b.Nodes) {
			nd := x.b.Nodes[x.i]
			if estNode(nd) {
				continue
			}
			if isReturn(nd) {
				return false
			}
			work = append(work, st{x.b, x.i + 1})
			continue
		}
		if len(x.b.Succs) == 0 {
			if x.b.Kind == cfg.KindSelectAfterCase {
				continue
			}
			return false
		}
		for si, nb := range x.b.Succs {
			if len(x.b.Succs) == 2 && len(x.b.Nodes) > 0 {
				if cond, ok := x.b.Nodes[len(x.b.Nodes)-1].(ast.Expr); ok {
					pruned := false
					if si == 0 {
						for _, c := range conjuncts(cond) {
							if edgeEst(c, true) {
								pruned = true
							}
						}
					} else {
						for _, c := range disjuncts(cond) {
							if edgeEst(c, false) {
								pruned = true
							}
						}
					}
					if pruned {
						continue
					}
				}
			}
			work = append(work, st{nb, 0})
		}
	}
	return true
}

// growsToCoverVia: like growsToCover, and also accepts len(B) held in a local defined just before (have := len(B))
func (s *boundSite) growsToCoverVia(c *ast.CallExpr, v *types.Var) bool {
	if s.growsToCover(c, v) {
		return true
	}
	if len(c.Args) != 2 || !c.Ellipsis.IsValid() {
		return false
	}
	mk, ok := ast.Unparen(c.Args[1]).(*ast.CallExpr)
	if !ok || !isBuiltin(s.info, mk, "make") || len(mk.Args) != 2 {
		return false
	}
	sub, ok := stripConv(s.info, mk.Args[1]).(*ast.BinaryExpr)
	if !ok || sub.Op != token.SUB {
		return false
	}
	// the subtrahend: a local all of whose definitions are len(B) (possibly converted)
	lo := identObj(s.info, stripConv(s.info, sub.Y))
	if lo == nil {
		return false
	}
	nDefs, all := 0, true
	ast.Inspect(s.f.Body(), func(x ast.Node) bool {
		if as, ok := x.(*ast.AssignStmt); ok && len(as.Lhs) == len(as.Rhs) {
			for i, l := range as.Lhs {
				if identObj(s.info, l) == lo {
					nDefs++
					if b, ok := s.boundExpr(as.Rhs[i]); !ok || !b.sym || b.mult != 1 {
						all = false
					}
				}
			}
		}
		return true
	})
	if nDefs == 0 || !all {
		return false
	}
	add, ok := stripConv(s.info, sub.X).(*ast.BinaryExpr)
	if !ok || add.Op != token.ADD {
		return false
	}
	for _, pair := range [][2]ast.Expr{{add.X, add.Y}, {add.Y, add.X}} {
		if f, ok := indexForm(s.info, pair[0]); ok && f.v == v && f.div == 1 {
			if one, ok := constInt(s.info, pair[1]); ok && one >= 1 {
				return true
			}
		}
	}
	return false
}

// growsToCover: append(B, make(T, v+1-len(B))...) — afterwards len(B) = v+1
func (s *boundSite) growsToCover(c *ast.CallExpr, v *types.Var) bool {
	if len(c.Args) != 2 || !c.Ellipsis.IsValid() {
		return false
	}
	mk, ok := ast.Unparen(c.Args[1]).(*ast.CallExpr)
	if !ok || !isBuiltin(s.info, mk, "make") || len(mk.Args) != 2 {
		return false
	}
	sub, ok := stripConv(s.info, mk.Args[1]).(*ast.BinaryExpr)
	if !ok || sub.Op != token.SUB {
		return false
	}
	if b, ok := s.boundExpr(sub.Y); !ok || !b.sym || b.mult != 1 {
		return false
	}
	add, ok := stripConv(s.info, sub.X).(*ast.BinaryExpr)
	if !ok || add.Op != token.ADD {
		return false
	}
	for _, pair := range [][2]ast.Expr{{add.X, add.Y}, {add.Y, add.X}} {
		if f, ok := indexForm(s.info, pair[0]); ok && f.v == v && f.div == 1 {
			if one, ok := constInt(s.info, pair[1]); ok && one >= 1 {
				return true
			}
		}
	}
	return false
}

func isParamOf(f *Fn, info *types.Info, v *types.Var) bool {
	ft := f.Type()
	if ft == nil || ft.Params == nil {
		return false
	}
	for _, fld := range ft.Params.List {
		for _, nm := range fld.Names {
			if info.Defs[nm] == types.Object(v) {
				return true
			}
		}
	}
	return false
}

// lowerHolds decides v ≥ L at the CFG node target (target == nil: at the point pt itself, used for definitions).
func (s *boundSite) lowerHolds(target ast.Node, v *types.Var, L int64, depth int) (holds bool, decidable bool, res pathResult) {
	if b, ok := v.Type().Underlying().(*types.Basic); ok && b.Info()&types.IsUnsigned != 0 && L <= 0 {
		return true, true, pathResult{}
	}
	if depth < 0 {
		return false, false, pathResult{}
	}
	defs, ranges, ok := s.defsOf(v)
	if !ok {
		return false, false, pathResult{}
	}
	var starts []Pt
	estNodes := map[ast.Node]bool{}
	estRanges := map[*ast.RangeStmt]bool{}
	for _, pt := range defs {
		nd := s.fl.node(pt)
		rhs, kind := s.rhsOf(nd, v)
		switch kind {
		case "inc":
			continue // keeps a lower bound: neither kills nor establishes
		case "zero":
			if 0 >= L {
				estNodes[nd] = true
				continue
			}
		case "value":
			if c, ok := constInt(s.info, rhs); ok {
				if c >= L {
					estNodes[nd] = true
					continue
				}
			} else if w, off, ok := s.varPlusConst(rhs); ok {
				// v := w + off  needs  w ≥ L − off  here
				if h, d, _ := s.lowerHolds(nd, w, L-off, depth-1); h && d {
					estNodes[nd] = true
					continue
				}
			} else if c, ok := stripConv(s.info, rhs).(*ast.CallExpr); ok && (isBuiltin(s.info, c, "len") || isBuiltin(s.info, c, "cap")) && L <= 0 {
				estNodes[nd] = true
				continue
			}
		}
		starts = append(starts, After(pt))
	}
	for _, rs := range ranges {
		if identObj(s.info, rs.Key) == types.Object(v) && L <= 0 {
			if _, isMap := s.info.TypeOf(rs.X).Underlying().(*types.Map); !isMap {
				estRanges[rs] = true
				continue
			}
		}
		if b := s.rangeBodyBlock(rs); b != nil {
			starts = append(starts, Pt{b, 0})
		}
	}
	if isParamOf(s.f, s.info, v) {
		starts = append(starts, s.fl.Entry())
	}
	edgeEst := func(c ast.Expr, trueEdge bool) bool {
		k, ok := s.lowerFrom(c, v, trueEdge)
		return ok && k >= L
	}
	res = s.search(target, starts, edgeEst, func(nd ast.Node) bool { return estNodes[nd] }, estRanges)
	return !res.Found, true, res
}

// varPlusConst: e = w, w + C, w − C, C + w (conversions stripped)
func (s *boundSite) varPlusConst(e ast.Expr) (*types.Var, int64, bool) {
	e = stripConv(s.info, e)
	if f, ok := indexForm(s.info, e); ok && f.div == 1 {
		return f.v, 0, true
	}
	be, ok := e.(*ast.BinaryExpr)
	if !ok {
		return nil, 0, false
	}
	switch be.Op {
	case token.ADD:
		if f, ok := indexForm(s.info, be.X); ok && f.div == 1 {
			if c, ok := constInt(s.info, be.Y); ok {
				return f.v, c, true
			}
		}
		if f, ok := indexForm(s.info, be.Y); ok && f.div == 1 {
			if c, ok := constInt(s.info, be.X); ok {
				return f.v, c, true
			}
		}
	case token.SUB:
		if f, ok := indexForm(s.info, be.X); ok && f.div == 1 {
			if c, ok := constInt(s.info, be.Y); ok {
				return f.v, -c, true
			}
		}
	}
	return nil, 0, false
}

// sameNodeGuard: the index sits in the right operand of && / || whose left operands establish the bound
func (s *boundSite) sameNodeGuard(node ast.Node, ix *ast.IndexExpr, est func(c ast.Expr, trueEdge bool) bool) bool {
	found := false
	inspectParents(node, func(x ast.Node, parents []ast.Node) bool {
		if x != ast.Node(ix) {
			return true
		}
		var child ast.Node = x
		for i := len(parents) - 1; i >= 0; i-- {
			if be, ok := parents[i].(*ast.BinaryExpr); ok && (be.Op == token.LAND || be.Op == token.LOR) && containsNode(be.Y, child) {
				if be.Op == token.LAND {
					for _, c := range conjuncts(be.X) {
						if est(c, true) {
							found = true
						}
					}
				} else {
					for _, c := range disjuncts(be.X) {
						if est(c, false) {
							found = true
						}
					}
				}
			}
			child = parents[i]
		}
		return false
	})
	return found
}

func containsNode(root ast.Node, x ast.Node) bool {
	return root.Pos() <= x.Pos() && x.End() <= root.End()
}

// switchTagOf: e is a case value of a tagged switch statement of this function → the tag expression
func (s *boundSite) switchTagOf(e ast.Expr) ast.Expr {
	if s.caseTags == nil {
		s.caseTags = map[ast.Expr]ast.Expr{}
		inspectShallow(s.f.Body(), func(x ast.Node) bool {
			if sw, ok := x.(*ast.SwitchStmt); ok && sw.Tag != nil {
				for _, st := range sw.Body.List {
					if cc, ok := st.(*ast.CaseClause); ok {
						for _, ce := range cc.List {
							s.caseTags[ce] = sw.Tag
						}
					}
				}
			}
			return true
		})
	}
	return s.caseTags[e]
}

// grammarMax: x is a field filled by the participle grammar of package query; the number of captures in its
// `parser` tag bounds the number of elements unless the tag repeats (* or +).
func (s *boundSite) grammarMax(x ast.Expr) (int, bool) {
	se, ok := ast.Unparen(x).(*ast.SelectorExpr)
	if !ok {
		return 0, false
	}
	sel, ok := s.info.Selections[se]
	if !ok || sel.Kind() != types.FieldVal {
		return 0, false
	}
	st, ok := derefType(sel.Recv()).Underlying().(*types.Struct)
	if !ok {
		return 0, false
	}
	for i := 0; i < st.NumFields(); i++ {
		if st.Field(i) != sel.Obj() {
			continue
		}
		tag, ok := reflect.StructTag(st.Tag(i)).Lookup("parser")
		if !ok || strings.ContainsAny(tag, "*+") {
			return 0, false
		}
		if _, isSl := st.Field(i).Type().Underlying().(*types.Slice); !isSl {
			return 0, false
		}
		// captures: @@ (a nested struct) or @Token
		n := 0
		for j := 0; j < len(tag); j++ {
			if tag[j] == '@' {
				n++
				if j+1 < len(tag) && tag[j+1] == '@' {
					j++
				}
			}
		}
		return n, n > 0
	}
	return 0, false
}

// lenBoundedAt: on every path to the loop rs, after the last assignment to the ranged expression X, an edge has
// established len(X) ≤ K.
func (s *boundSite) lenBoundedAt(rs *ast.RangeStmt, K int64) bool {
	xStr := exprString(s.p.Fset, ast.Unparen(rs.X))
	root := rootIdentOf(rs.X)
	if root == nil {
		return false
	}
	rootObj := s.info.Uses[root]
	if rootObj == nil {
		return false
	}
	sameX := func(e ast.Expr) bool {
		if exprString(s.p.Fset, ast.Unparen(e)) != xStr {
			return false
		}
		r := rootIdentOf(e)
		return r != nil && s.info.Uses[r] == rootObj
	}
	target, ok := s.fl.PointOf(rs.X)
	if !ok {
		return false
	}
	starts := []Pt{s.fl.Entry()}
	for _, pt := range s.fl.Find(func(nd ast.Node) bool {
		as, ok := nd.(*ast.AssignStmt)
		if !ok {
			return false
		}
		for _, l := range as.Lhs {
			ls := exprString(s.p.Fset, ast.Unparen(l))
			r := rootIdentOf(l)
			if r == nil {
				continue
			}
			lo := s.info.Uses[r]
			if lo == nil {
				lo = s.info.Defs[r]
			}
			if lo == rootObj && (ls == xStr || strings.HasPrefix(xStr, ls+".")) {
				return true
			}
		}
		return false
	}) {
		starts = append(starts, After(pt))
	}
	// range statements that (re)define the root variable per iteration
	inspectShallow(s.f.Body(), func(x ast.Node) bool {
		if r2, ok := x.(*ast.RangeStmt); ok {
			for _, kv := range []ast.Expr{r2.Key, r2.Value} {
				if kv != nil && identObj(s.info, kv) == rootObj {
					if b := s.rangeBodyBlock(r2); b != nil {
						starts = append(starts, Pt{b, 0})
					}
				}
			}
		}
		return true
	})
	edgeEst := func(c ast.Expr, trueEdge bool) bool {
		be, ok := ast.Unparen(c).(*ast.BinaryExpr)
		if !ok {
			return false
		}
		op, l, r := be.Op, be.X, be.Y
		isLenX := func(e ast.Expr) bool {
			c, ok := stripConv(s.info, e).(*ast.CallExpr)
			return ok && isBuiltin(s.info, c, "len") && len(c.Args) == 1 && sameX(c.Args[0])
		}
		if !isLenX(l) {
			if !isLenX(r) {
				return false
			}
			l, r = r, l
			switch op {
			case token.LSS:
				op = token.GTR
			case token.GTR:
				op = token.LSS
			case token.LEQ:
				op = token.GEQ
			case token.GEQ:
				op = token.LEQ
			}
		}
		k, ok := constInt(s.info, r)
		if !ok {
			return false
		}
		if !trueEdge {
			switch op {
			case token.GTR:
				op = token.LEQ
			case token.GEQ:
				op = token.LSS
			case token.NEQ:
				op = token.EQL
			default:
				return false
			}
		}
		switch op {
		case token.EQL, token.LEQ:
			return k <= K
		case token.LSS:
			return k-1 <= K
		}
		return false
	}
	tn := s.fl.node(target)
	res := s.search(tn, starts, edgeEst, func(ast.Node) bool { return false }, nil)
	return !res.Found
}
