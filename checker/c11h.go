package main

// c11h.go: C11-h a slice is not compacted in place while it is being ranged over.
//
// `for _, c := range t.converters { detach(t, c) }` where detach does
// `t.converters = append(t.converters[:i], t.converters[i+1:]...)`: the range statement keeps the old slice header, the
// removal shifts the elements of the same backing array to the left, and the loop skips the element that moved into
// the slot just visited. Setting an empty converter list on a tag with three converters leaves the middle one
// attached — the call reports success and applied only part of the change.
// Rule (typed AST, one level of package functions): a function "compacts field F of parameter P in place" when it
// assigns P.F = append(P.F[:…], P.F[…:]...) or P.F = slices.Delete*(P.F, …). No range loop over Y.F has a body that
// does so for the same Y, directly or by calling such a function with Y as P.

import (
	"fmt"
	"go/ast"
	"go/types"

	"golang.org/x/tools/go/cfg"
)

func init() {
	register("C11",
		"C11-h (typed AST, callee summaries one level deep): in package manager no `range Y.F` loop has a body that compacts Y.F in place — an assignment Y.F = append(Y.F[:i], Y.F[j:]...) or slices.Delete/DeleteFunc on Y.F, in the body itself or in a package function that does it to the field F of the parameter (or receiver) Y is passed as. The range keeps the old slice header while the elements shift under it, so every removal makes the loop skip the next element: an API call that is to detach all converters of a tag detaches every other one and reports success.",
		func(p *Prog, r *Res) {
			const rule = "C11-h no-compaction-under-range"
			r.Rule(rule + ": a ranged-over slice field is not compacted in place by the loop body")
			// summaries: function -> (param index or -1 for receiver) -> set of fields compacted in place
			type key struct {
				fn  *types.Func
				idx int
			}
			compacts := map[key]map[*types.Var]bool{}
			fieldSel := func(info *types.Info, e ast.Expr) (types.Object, *types.Var) {
				for {
					if sl, ok := ast.Unparen(e).(*ast.SliceExpr); ok {
						e = sl.X
						continue
					}
					break
				}
				se, ok := ast.Unparen(e).(*ast.SelectorExpr)
				if !ok {
					return nil, nil
				}
				fld, ok := info.Uses[se.Sel].(*types.Var)
				if !ok || !fld.IsField() {
					return nil, nil
				}
				if _, isSl := fld.Type().Underlying().(*types.Slice); !isSl {
					return nil, nil
				}
				return identObj(info, se.X), fld
			}
			// compaction sites in a body: returns (base object, field, node)
			type site struct {
				base types.Object
				fld  *types.Var
				node ast.Node
			}
			sitesIn := func(f *Fn, body ast.Node) []site {
				info := f.Pkg.TypesInfo
				var out []site
				inspectShallow(body, func(x ast.Node) bool {
					as, ok := x.(*ast.AssignStmt)
					if !ok || len(as.Lhs) != len(as.Rhs) {
						return true
					}
					for i, l := range as.Lhs {
						base, fld := fieldSel(info, l)
						if base == nil {
							continue
						}
						c, ok := ast.Unparen(as.Rhs[i]).(*ast.CallExpr)
						if !ok || len(c.Args) == 0 {
							continue
						}
						b0, f0 := fieldSel(info, c.Args[0])
						if b0 != base || f0 != fld {
							continue
						}
						if isBuiltin(info, c, "append") {
							// append(P.F[:i], …): only a PREFIX as destination moves elements
							if _, isSlice := ast.Unparen(c.Args[0]).(*ast.SliceExpr); isSlice {
								out = append(out, site{base, fld, as})
							}
							continue
						}
						if fn := p.Callee(f.Pkg, c); fn != nil && fn.Pkg() != nil && fn.Pkg().Path() == "slices" {
							switch fn.Name() {
							case "Delete", "DeleteFunc", "Compact", "CompactFunc":
								out = append(out, site{base, fld, as})
							}
						}
					}
					return true
				})
				return out
			}
			for _, f := range p.FnList {
				if f.Short != "manager" || f.Body() == nil || f.Lit != nil {
					continue
				}
				fobj, _ := f.Pkg.TypesInfo.Defs[f.Decl.Name].(*types.Func)
				if fobj == nil {
					continue
				}
				for _, s := range sitesIn(f, f.Body()) {
					idx := paramIndex(f, s.base)
					if idx < 0 {
						if f.Decl.Recv != nil && len(f.Decl.Recv.List[0].Names) == 1 && f.Pkg.TypesInfo.Defs[f.Decl.Recv.List[0].Names[0]] == s.base {
							idx = -1
						} else {
							continue
						}
					}
					k := key{fobj, idx}
					if compacts[k] == nil {
						compacts[k] = map[*types.Var]bool{}
					}
					compacts[k][s.fld] = true
				}
			}
			n := 0
			for _, f := range p.FnList {
				if f.Short != "manager" || f.Body() == nil {
					continue
				}
				info := f.Pkg.TypesInfo
				inspectShallow(f.Body(), func(x ast.Node) bool {
					rs, ok := x.(*ast.RangeStmt)
					if !ok {
						return true
					}
					base, fld := fieldSel(info, rs.X)
					if base == nil {
						return true
					}
					if _, whole := ast.Unparen(rs.X).(*ast.SelectorExpr); !whole {
						return true // a range over a copy / sub-slice expression is judged by what it is
					}
					n++
					k := fmt.Sprintf("%s range %s@%s", f.Key(), exprString(p.Fset, rs.X), relLine(p, f, rs))
					bad := ""
					fl := p.Flow(f)
					// the removal matters only if the loop can go on afterwards (find-remove-break is fine)
					iteratesAgain := func(nd ast.Node) bool {
						pt, ok := fl.PointOf(nd)
						if !ok {
							return true
						}
						// go/cfg evaluates key and value once in front of the loop; the next iteration is the (empty) RangeLoop block
						seen := map[*cfg.Block]bool{}
						work := []*cfg.Block{}
						// rest of the current block is straight-line code: continue with its successors
						work = append(work, pt.B.Succs...)
						for _, nd := range pt.B.Nodes[pt.I+1:] {
							if isReturn(nd) {
								work = nil
							}
						}
						res := pathResult{}
						for len(work) > 0 {
							b := work[0]
							work = work[1:]
							if seen[b] {
								continue
							}
							seen[b] = true
							if b.Kind == cfg.KindRangeLoop && b.Stmt == ast.Stmt(rs) {
								res.Found = true
								break
							}
							stop := false
							for _, nd := range b.Nodes {
								if isReturn(nd) {
									stop = true
								}
							}
							if !stop {
								work = append(work, b.Succs...)
							}
						}
						return res.Found
					}
					for _, s := range sitesIn(f, rs.Body) {
						if s.base == base && s.fld == fld && iteratesAgain(s.node) {
							bad = fmt.Sprintf("the body compacts it in place at line %d and goes on iterating", lineOf(p.Fset, s.node))
						}
					}
					for _, c := range callsIn(rs.Body) {
						fn := p.Callee(f.Pkg, c)
						if fn == nil {
							continue
						}
						for i, a := range c.Args {
							if identObj(info, a) == base && compacts[key{fn, i}][fld] && iteratesAgain(c) {
								bad = fmt.Sprintf("the body calls %s, which compacts the %s of its argument in place", fn.Name(), fld.Name())
							}
						}
						if se, ok := ast.Unparen(c.Fun).(*ast.SelectorExpr); ok && identObj(info, se.X) == base && compacts[key{fn, -1}][fld] && iteratesAgain(c) {
							bad = fmt.Sprintf("the body calls %s, which compacts the %s of its receiver in place", fn.Name(), fld.Name())
						}
					}
					r.Check(bad == "", rule, k, p.Pos(rs), "the loop body does not compact the ranged-over field in place", bad+": the range statement keeps the old slice header while the elements shift to the left, so the element after each removed one is skipped — the change is applied to every other element only, and the call still reports success")
					return true
				})
			}
			r.Note("%s: %d functions compact a slice field of a parameter or receiver in place", rule, len(compacts))
			r.Floor(rule, 3, n)
		})
}
