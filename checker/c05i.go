package main

// c05i.go: C05-i what was derived from a packet is derived again when the packet is replaced.
//
// The importer parses every packet once (parsed := packet.Parsed()). For IPv4 fragments it reassembles the datagram,
// builds a NEW packet from it and replaces `packet` — and went on to take the transport layer from `parsed`, the layers
// of the last fragment: a fragment has no transport layer, so every fragmented datagram was dropped before it reached
// the TCP/UDP assemblers (#53, probes/c05_ipv4_fragments: 3200 bytes of UDP payload indexed as 0 bytes).
//
// Rule (FLOW): in package builder a local defined as a method result of a local pointer variable X (d := X.M(…)) is
// not used after an assignment to X that is reachable from the definition, unless d is redefined in between.

import (
	"fmt"
	"go/ast"
	"go/token"
	"go/types"
)

func init() {
	register("C05",
		"C05-i (FLOW): in package builder a local d defined as a method result of a local pointer variable X (d := X.M(…)) is not used after an assignment to X reachable from that definition unless d is redefined first. The importer replaces `packet` by the reassembled datagram of an IPv4 fragment train; what it had parsed from the last fragment (`parsed`) describes another packet — a fragment has no transport layer, and the datagram never reached the stream assemblers (found #53).",
		func(p *Prog, r *Res) {
			const rule = "C05-i derived-from-the-current-packet"
			r.Rule(rule + ": no use of a value derived from a variable after the variable was replaced")
			n := 0
			for _, f := range p.FnList {
				if f.Short != "builder" || f.Body() == nil {
					continue
				}
				info := f.Pkg.TypesInfo
				fl := p.Flow(f)
				for _, pt := range fl.Find(func(nd ast.Node) bool { _, ok := nd.(*ast.AssignStmt); return ok }) {
					as := fl.node(pt).(*ast.AssignStmt)
					if as.Tok != token.DEFINE || len(as.Lhs) != 1 || len(as.Rhs) != 1 {
						continue
					}
					d := identObj(info, as.Lhs[0])
					c, ok := ast.Unparen(as.Rhs[0]).(*ast.CallExpr)
					if !ok || d == nil {
						continue
					}
					se, ok := ast.Unparen(c.Fun).(*ast.SelectorExpr)
					if !ok {
						continue
					}
					X, ok := info.Uses[identOf(se.X)].(*types.Var)
					if !ok || X.IsField() {
						continue
					}
					if _, isPtr := X.Type().Underlying().(*types.Pointer); !isPtr {
						continue
					}
					if sel, ok := info.Selections[se]; !ok || sel.Kind() != types.MethodVal {
						continue
					}
					// X is reassigned somewhere in this function?
					assignsX := func(nd ast.Node) bool {
						a2, ok := nd.(*ast.AssignStmt)
						if !ok || a2 == as {
							return false
						}
						for _, l := range a2.Lhs {
							if identObj(info, l) == types.Object(X) {
								return true
							}
						}
						return false
					}
					xDefs := fl.Find(assignsX)
					if len(xDefs) == 0 {
						continue
					}
					n++
					key := fmt.Sprintf("%s %s := %s.%s()", f.Key(), d.Name(), X.Name(), se.Sel.Name)
					redef := func(nd ast.Node) bool {
						a2, ok := nd.(*ast.AssignStmt)
						if !ok {
							return false
						}
						for _, l := range a2.Lhs {
							if identObj(info, l) == d {
								return true
							}
						}
						return false
					}
					uses := func(nd ast.Node) bool {
						found := false
						// the left-hand side of a plain re-assignment of d is not a use
						if a2, ok := nd.(*ast.AssignStmt); ok {
							for _, rh := range a2.Rhs {
								inspectShallow(rh, func(x ast.Node) bool {
									if id, ok := x.(*ast.Ident); ok && info.Uses[id] == d {
										found = true
									}
									return !found
								})
							}
							for _, l := range a2.Lhs {
								if identObj(info, l) != d {
									inspectShallow(l, func(x ast.Node) bool {
										if id, ok := x.(*ast.Ident); ok && info.Uses[id] == d {
											found = true
										}
										return !found
									})
								}
							}
							return found
						}
						inspectShallow(nd, func(x ast.Node) bool {
							if id, ok := x.(*ast.Ident); ok && info.Uses[id] == d {
								found = true
							}
							return !found
						})
						return found
					}
					bad := false
					for _, xpt := range xDefs {
						xn := fl.node(xpt)
						if !fl.Reach([]Pt{After(pt)}, func(nd ast.Node) bool { return nd == xn }, redef).Found {
							continue
						}
						if res := fl.Reach([]Pt{After(xpt)}, uses, redef); res.Found {
							bad = true
							r.Bad(rule, key, p.Pos(res.End), fmt.Sprintf("%s was taken from %s at line %d, %s is replaced at line %d, and %s is used afterwards without being taken again: it describes the packet that was replaced", d.Name(), X.Name(), lineOf(p.Fset, as), X.Name(), lineOf(p.Fset, xn), d.Name()))
							break
						}
					}
					if !bad {
						r.Ok(rule, key, p.Pos(as), "not used after "+X.Name()+" is replaced (or taken again first)")
					}
				}
			}
			r.Floor(rule, 1, n)
		})
}
