package main

// c07k.go: C07-k / C12-l a merged index is named after its inputs.
//
// Manager.indexes is ordered by installation: a later element supersedes the versions of a stream in earlier ones.
// manager.New rebuilds the list in the order of tools.ListFiles — os.ReadDir, i.e. by file name. Both orders agree for
// files that are appended (an import creates its files after everything that is in the list when it starts, and imports
// run one at a time). A merge, however, INSERTS its outputs at the position of its inputs, in front of whatever was
// appended while it ran. A name made from the wall clock at the time the output is created sorts behind an import's
// file that was created earlier and appended later: after a restart the merged file supersedes the import, and the
// old versions of the streams the import extended are visible again (#46, probes/c12_restart_order).
//
// Rule: while manager.New restores the list in ListFiles order, the file name index.Merge gives to NewWriter is
// computed from the merged readers (value flow from the parameter through locals and package helpers) and not from
// tools.MakeFilename.

import (
	"go/ast"
	"go/token"
	"go/types"
)

func init() {
	const expl = "(typed AST, value flow): manager.New restores Manager.indexes in file-name order (tools.ListFiles), while at run time a merge inserts its outputs at the position of its inputs. The name index.Merge passes to NewWriter is therefore derived from the merged readers (the parameter flows into it through locals and package helpers) and no tools.MakeFilename — the wall clock — flows into it: a clock name sorts behind an import's file that was created before the merge started and appended while it ran, and after a restart the merged file's old stream versions win (#46)."
	register("C07", "C07-k "+expl, func(p *Prog, r *Res) { ruleMergedName(p, r, "C07-k merged-index-named-after-inputs") })
	register("C12", "C12-l "+expl, func(p *Prog, r *Res) { ruleMergedName(p, r, "C12-l merged-index-named-after-inputs") })
}

func ruleMergedName(p *Prog, r *Res, rule string) {
	r.Rule(rule + ": the outputs of index.Merge are named after their inputs, not after the clock")
	newF := p.Fn("manager.New")
	merge := p.Fn("index.Merge")
	if newF == nil || merge == nil {
		p.anchorFail("manager.New / index.Merge")
		return
	}
	// premise: New appends readers to Manager.indexes while ranging over the result of tools.ListFiles
	idxFld := p.Field("manager", "Manager", "indexes")
	ninfo := newF.Pkg.TypesInfo
	premise := false
	listVars := map[types.Object]bool{}
	inspectShallow(newF.Body(), func(x ast.Node) bool {
		if as, ok := x.(*ast.AssignStmt); ok && len(as.Rhs) == 1 {
			if c, ok := ast.Unparen(as.Rhs[0]).(*ast.CallExpr); ok {
				if fn := p.Callee(newF.Pkg, c); fn != nil && fn.FullName() == "github.com/spq/pkappa2/internal/tools.ListFiles" {
					if o := identObj(ninfo, as.Lhs[0]); o != nil {
						listVars[o] = true
					}
				}
			}
		}
		return true
	})
	inspectShallow(newF.Body(), func(x ast.Node) bool {
		rs, ok := x.(*ast.RangeStmt)
		if !ok || !listVars[identObj(ninfo, rs.X)] {
			return true
		}
		inspectShallow(rs.Body, func(y ast.Node) bool {
			if as, ok := y.(*ast.AssignStmt); ok {
				for _, l := range as.Lhs {
					if idxFld != nil && isFieldOf(ninfo, l, idxFld) {
						premise = true
					}
				}
			}
			return true
		})
		return true
	})
	if !premise {
		r.Note("%s: manager.New does not restore Manager.indexes in tools.ListFiles order any more; the naming obligation does not apply", rule)
		r.OkTrivial(rule, "manager.New restores the index list in file-name order", p.Pos(newF.Node()), "premise absent: nothing to check")
		return
	}
	// the premise rests on the listing being in name order: os.ReadDir, fs.ReadDir, filepath.Glob and WalkDir sort;
	// (*os.File).ReadDir / Readdir / Readdirnames return directory order and need a sort of the result
	if lf := p.Fn("tools.ListFiles"); lf != nil && lf.Body() != nil {
		linfo := lf.Pkg.TypesInfo
		unsorted, sorts := "", false
		for _, c := range callsIn(lf.Body()) {
			fn := p.Callee(lf.Pkg, c)
			if fn == nil {
				continue
			}
			switch fn.FullName() {
			case "(*os.File).ReadDir", "(*os.File).Readdir", "(*os.File).Readdirnames":
				unsorted = fn.FullName()
			case "sort.Strings", "sort.Slice", "sort.SliceStable", "slices.Sort", "slices.SortFunc", "slices.SortStableFunc", "sort.Sort", "sort.Stable":
				sorts = true
			}
		}
		_ = linfo
		r.Check(unsorted == "" || sorts, rule, "tools.ListFiles returns the names in name order", p.Pos(lf.Node()), "the listing comes from a call that sorts by file name (or is sorted afterwards)", "the directory is listed with "+unsorted+", which returns the entries in directory order, and the result is not sorted: manager.New stacks the index files in that order, so after a restart an older file can supersede a newer one")
	} else {
		p.anchorFail("tools.ListFiles")
	}
	info := merge.Pkg.TypesInfo
	var param types.Object
	for _, fld := range merge.Decl.Type.Params.List {
		for _, nm := range fld.Names {
			if o := info.Defs[nm]; o != nil {
				if sl, ok := o.Type().Underlying().(*types.Slice); ok {
					if nt := namedOf(derefType(sl.Elem())); nt != nil && nt.Obj().Name() == "Reader" {
						param = o
					}
				}
			}
		}
	}
	newWriter := p.Fn("index.NewWriter")
	if param == nil || newWriter == nil {
		p.anchorFail("the reader list parameter of index.Merge / index.NewWriter")
		return
	}
	// value flow inside Merge (its literals included): which locals are derived from the reader list, which from the clock
	type flow struct{ fromInputs, fromClock bool }
	memo := map[types.Object]*flow{}
	var flowOfExpr func(e ast.Node, depth int) flow
	var flowOfVar func(o types.Object, depth int) flow
	flowOfExpr = func(e ast.Node, depth int) flow {
		var f flow
		if depth < 0 || e == nil {
			return f
		}
		ast.Inspect(e, func(x ast.Node) bool {
			switch y := x.(type) {
			case *ast.FuncLit:
				return false
			case *ast.Ident:
				o := info.Uses[y]
				if o == nil {
					return true
				}
				if o == param {
					f.fromInputs = true
				} else if v, ok := o.(*types.Var); ok && !v.IsField() && v.Pkg() == merge.Pkg.Types {
					g := flowOfVar(o, depth-1)
					f.fromInputs = f.fromInputs || g.fromInputs
					f.fromClock = f.fromClock || g.fromClock
				}
			case *ast.CallExpr:
				if fn := p.Callee(merge.Pkg, y); fn != nil {
					// a helper of the package passes on only the arguments its results are computed from
					if h := p.FnOfObj(fn); h != nil && h.Pkg == merge.Pkg && h.Body() != nil && h != merge && h.Decl != nil {
						used := paramsFlowingToResults(h)
						g := flowOfExpr(y.Fun, depth-1)
						f.fromInputs, f.fromClock = f.fromInputs || g.fromInputs, f.fromClock || g.fromClock
						for i, a := range y.Args {
							if i < len(used) && !used[i] {
								continue
							}
							g := flowOfExpr(a, depth-1)
							f.fromInputs, f.fromClock = f.fromInputs || g.fromInputs, f.fromClock || g.fromClock
						}
						for _, c := range callsIn(h.Body()) {
							if hf := p.Callee(h.Pkg, c); hf != nil && (hf.FullName() == "github.com/spq/pkappa2/internal/tools.MakeFilename" || hf.FullName() == "time.Now") {
								f.fromClock = true
							}
						}
						return false
					}
					if fn.FullName() == "github.com/spq/pkappa2/internal/tools.MakeFilename" || fn.FullName() == "time.Now" {
						f.fromClock = true
					}
				}
			}
			return true
		})
		return f
	}
	flowOfVar = func(o types.Object, depth int) flow {
		if m, ok := memo[o]; ok {
			return *m
		}
		m := &flow{}
		memo[o] = m
		if depth < 0 {
			return *m
		}
		ast.Inspect(merge.Body(), func(x ast.Node) bool {
			switch s := x.(type) {
			case *ast.AssignStmt:
				for i, l := range s.Lhs {
					if identObj(info, l) != o {
						continue
					}
					var rhs ast.Node
					if len(s.Lhs) == len(s.Rhs) {
						rhs = s.Rhs[i]
					} else if len(s.Rhs) == 1 {
						rhs = s.Rhs[0]
					}
					g := flowOfExpr(rhs, depth)
					m.fromInputs = m.fromInputs || g.fromInputs
					m.fromClock = m.fromClock || g.fromClock
				}
			case *ast.RangeStmt:
				for _, kv := range []ast.Expr{s.Key, s.Value} {
					if kv != nil && identObj(info, kv) == o {
						g := flowOfExpr(s.X, depth)
						m.fromInputs = m.fromInputs || g.fromInputs
						m.fromClock = m.fromClock || g.fromClock
					}
				}
			}
			return true
		})
		return *m
	}
	n := 0
	ast.Inspect(merge.Body(), func(x ast.Node) bool {
		c, ok := x.(*ast.CallExpr)
		if !ok || len(c.Args) != 1 {
			return true
		}
		if fn := p.Callee(merge.Pkg, c); fn == nil || p.FnOfObj(fn) != newWriter {
			return true
		}
		n++
		fl := flowOfExpr(c.Args[0], 6)
		// which input: every element of the reader list that is read anywhere in Merge for the name is the last one
		youngest := true
		var other ast.Node
		ast.Inspect(merge.Body(), func(y ast.Node) bool {
			call, ok := y.(*ast.CallExpr)
			if !ok {
				return true
			}
			fn := p.Callee(merge.Pkg, call)
			if fn == nil {
				return true
			}
			h := p.FnOfObj(fn)
			if h == nil || h.Pkg != merge.Pkg || h == newWriter {
				return true
			}
			// a naming helper: a package function with a string result that receives an element of the list
			sig, _ := fn.Type().(*types.Signature)
			if sig == nil || sig.Results().Len() != 1 || types.TypeString(sig.Results().At(0).Type(), nil) != "string" {
				return true
			}
			for _, a := range call.Args {
				ix, ok := ast.Unparen(a).(*ast.IndexExpr)
				if !ok || identObj(info, ix.X) != param {
					continue
				}
				be, ok := ast.Unparen(ix.Index).(*ast.BinaryExpr)
				isLast := false
				if ok && be.Op == token.SUB {
					if lc, ok := ast.Unparen(be.X).(*ast.CallExpr); ok && isBuiltin(info, lc, "len") && len(lc.Args) == 1 && identObj(info, lc.Args[0]) == param {
						if k, ok := constInt(info, be.Y); ok && k == 1 {
							isLast = true
						}
					}
				}
				if !isLast {
					youngest, other = false, ix
				}
			}
			return true
		})
		if !youngest {
			r.Bad(rule, "index.Merge names its output after the youngest input", p.Pos(other), "the name is made from "+exprString(p.Fset, other)+", not from the last (youngest) element of the merged list: an input that is still on disk at the next start — a view held it when the process ended — then sorts behind the merged index and supersedes it with old versions of its streams")
		} else {
			r.Ok(rule, "index.Merge names its output after the youngest input", p.Pos(c), "the element of the reader list the name is made from is the last one")
		}
		key := "index.Merge names its output " + relLine(p, merge, c)
		// every definition of the name variable, not just one of them, comes from the readers: a second assignment that
		// replaces the name on some path (a fallback, an override) decides where the file sorts on that path
		var strayDef ast.Node
		// does the definition reach the call without being overwritten (a placeholder `name := ""` does not)
		reachesCall := func(def *ast.AssignStmt, o types.Object) bool {
			host := merge
			for _, l := range merge.Lits {
				if l.Lit.Pos() <= c.Pos() && c.End() <= l.Lit.End() && (host == merge || (host.Lit.Pos() <= l.Lit.Pos() && l.Lit.End() <= host.Lit.End())) {
					host = l
				}
			}
			hfl := p.Flow(host)
			dpt, ok1 := hfl.PointOf(def)
			cpt, ok2 := hfl.PointOf(c)
			if !ok1 || !ok2 {
				return true // not in one graph: be conservative
			}
			target := hfl.node(cpt)
			res := hfl.Reach([]Pt{After(dpt)}, func(nd ast.Node) bool { return nd == target }, func(nd ast.Node) bool {
				as, ok := nd.(*ast.AssignStmt)
				if !ok || nd == target {
					return false
				}
				for _, l := range as.Lhs {
					if identObj(info, l) == o {
						return true
					}
				}
				return false
			})
			return res.Found
		}
		if o := identObj(info, c.Args[0]); o != nil {
			ast.Inspect(merge.Body(), func(y ast.Node) bool {
				as, ok := y.(*ast.AssignStmt)
				if !ok || len(as.Lhs) != len(as.Rhs) {
					return true
				}
				for i, l := range as.Lhs {
					if identObj(info, l) == o && !flowOfExpr(as.Rhs[i], 6).fromInputs && strayDef == nil && reachesCall(as, o) {
						strayDef = as
					}
				}
				return true
			})
		}
		switch {
		case strayDef != nil:
			r.Bad(rule, "index.Merge output name is derived from the merged readers", p.Pos(strayDef), "one of the assignments to the name of a merged index ("+exprString(p.Fset, strayDef.(*ast.AssignStmt).Rhs[0])+") does not depend on the merged readers: on that path nothing places the file where its inputs stood in the file-name order manager.New restores")
		case fl.fromClock:
			r.Bad(rule, "index.Merge output name is not made from the clock", p.Pos(c), "the name of a merged index comes from tools.MakeFilename / time.Now ("+exprString(p.Fset, c.Args[0])+"): the file is inserted at the position of its inputs, but after a restart it sorts behind every index that was created before the merge started and appended while it ran — the old versions of the streams that import extended are visible again")
		case !fl.fromInputs:
			r.Bad(rule, "index.Merge output name is derived from the merged readers", p.Pos(c), "the name of a merged index ("+exprString(p.Fset, c.Args[0])+") does not depend on the merged readers: nothing places it where its inputs stood in the file-name order manager.New restores")
		default:
			r.Ok(rule, "index.Merge output name is derived from the merged readers", p.Pos(c), "the name flows from the reader list parameter and not from the clock")
		}
		_ = key
		return true
	})
	r.Floor(rule, 1, n)
}

// paramsFlowingToResults: for a declared function, which parameters (by position) can reach a returned value through
// expressions and local assignments (flow-insensitive, intraprocedural; calls pass all their arguments on).
func paramsFlowingToResults(h *Fn) []bool {
	info := h.Pkg.TypesInfo
	var params []types.Object
	for _, fld := range h.Decl.Type.Params.List {
		if len(fld.Names) == 0 {
			params = append(params, nil)
		}
		for _, nm := range fld.Names {
			params = append(params, info.Defs[nm])
		}
	}
	reach := map[types.Object]bool{}
	var mark func(e ast.Node)
	mark = func(e ast.Node) {
		ast.Inspect(e, func(x ast.Node) bool {
			if id, ok := x.(*ast.Ident); ok {
				if o := info.Uses[id]; o != nil {
					if _, isVar := o.(*types.Var); isVar && !reach[o] {
						reach[o] = true
						// everything assigned to o
						ast.Inspect(h.Body(), func(y ast.Node) bool {
							if as, ok := y.(*ast.AssignStmt); ok {
								for i, l := range as.Lhs {
									if identObj(info, l) == o {
										if len(as.Lhs) == len(as.Rhs) {
											mark(as.Rhs[i])
										} else if len(as.Rhs) == 1 {
											mark(as.Rhs[0])
										}
									}
								}
							}
							return true
						})
					}
				}
			}
			return true
		})
	}
	ast.Inspect(h.Body(), func(x ast.Node) bool {
		if rs, ok := x.(*ast.ReturnStmt); ok {
			for _, e := range rs.Results {
				mark(e)
			}
		}
		return true
	})
	// named results assigned in the body
	if h.Decl.Type.Results != nil {
		for _, fld := range h.Decl.Type.Results.List {
			for _, nm := range fld.Names {
				if o := info.Defs[nm]; o != nil {
					mark(nm)
					_ = o
				}
			}
		}
	}
	out := make([]bool, len(params))
	for i, o := range params {
		out[i] = o != nil && reach[o]
	}
	return out
}
