package main

// c20g.go: C20-g / C03-j Conditions.clean takes a private copy of everything the cleaners write through.
//
// The parsed conditions of a tag are shared: every view gets the same ConditionsSet (View.fetch copies TagDetails by
// value), and request goroutines evaluate pending tags concurrently — SearchStreams → InlineTagFilters → Clean.
// Conditions.clean copies every condition VALUE into per-kind lists and hands the lists to the cleaners, which sort,
// compact and mask in place. The slices inside a copied value (Host, HostConditionSources, Summands, SubQueries,
// Elements) still point into the shared condition: cleanHostConditions masked the shared Host bytes, and two concurrent
// searches with a pending `chost:1.2.3.4` tag raced on them (#57, -race reports write/write and write/read).
//
// Rule (effect agreement): let W be the slice-typed fields of the condition structs of package query through which some
// function of the package writes — an element store x.F[i] = v / op= / ++, an in-place sort of x.F (sort.*, slices.Sort*),
// or a compaction x.F = append(x.F[:i], …). Conditions.clean assigns every field of W, on the private copy it makes of a
// condition, a clone of that field (slices.Clone, append(T(nil), x.F...), a make+copy) before the copy enters a list.

import (
	"fmt"
	"go/ast"
	"go/token"
	"go/types"
	"sort"
	"strings"
)

func init() {
	const expl = "(effect agreement): every slice-typed field of a condition struct of package query that some function of the package writes through — element store, in-place sort, in-place compaction — is replaced by a clone in Conditions.clean, on the private copy of the condition that enters the per-kind lists the cleaners work on. The conditions of a tag are shared by all views and are cleaned again by every search that inlines the pending tag, concurrently on request goroutines: a cleaner that writes through a slice of the shared condition is a data race and changes the stored tag."
	register("C20", "C20-g "+expl, func(p *Prog, r *Res) { ruleCleanClonesWhatIsWritten(p, r, "C20-g clean-copies-what-cleaners-write") })
	register("C03", "C03-j "+expl, func(p *Prog, r *Res) { ruleCleanClonesWhatIsWritten(p, r, "C03-j clean-copies-what-cleaners-write") })
}

func ruleCleanClonesWhatIsWritten(p *Prog, r *Res, rule string) {
	r.Rule(rule + ": Conditions.clean clones every condition field the package writes through")
	clean := p.Fn("query.Conditions.clean")
	if clean == nil {
		p.anchorFail("query.Conditions.clean")
		return
	}
	// condition struct types: the types clean's type switch copies
	cinfo := clean.Pkg.TypesInfo
	condTypes := map[*types.Named]bool{}
	inspectShallow(clean.Body(), func(x ast.Node) bool {
		if cc, ok := x.(*ast.CaseClause); ok {
			for _, e := range cc.List {
				if nt := namedOf(derefType(cinfo.TypeOf(e))); nt != nil {
					if _, isStruct := nt.Underlying().(*types.Struct); isStruct {
						condTypes[nt] = true
					}
				}
			}
		}
		return true
	})
	if len(condTypes) < 5 {
		p.anchorFail("the type switch over condition kinds in query.Conditions.clean")
		return
	}
	isCondField := func(info *types.Info, e ast.Expr) *types.Var {
		se, ok := ast.Unparen(e).(*ast.SelectorExpr)
		if !ok {
			return nil
		}
		v, ok := info.Uses[se.Sel].(*types.Var)
		if !ok || !v.IsField() {
			return nil
		}
		if _, isSl := v.Type().Underlying().(*types.Slice); !isSl {
			return nil
		}
		if nt := namedOf(derefType(info.TypeOf(se.X))); nt != nil && condTypes[nt] {
			return v
		}
		return nil
	}
	// W: fields written through, with one witness each
	written := map[*types.Var]string{}
	for _, f := range p.FnList {
		if f.Short != "query" || f.Body() == nil {
			continue
		}
		info := f.Pkg.TypesInfo
		note := func(v *types.Var, at ast.Node, how string) {
			if v != nil && written[v] == "" {
				written[v] = fmt.Sprintf("%s in %s (line %d)", how, f.Key(), lineOf(p.Fset, at))
			}
		}
		elemBase := func(e ast.Expr) ast.Expr {
			base := ast.Unparen(e)
			for {
				if se, ok := base.(*ast.SelectorExpr); ok {
					if _, isIx := ast.Unparen(se.X).(*ast.IndexExpr); isIx {
						base = ast.Unparen(se.X)
						continue
					}
				}
				break
			}
			if ix, ok := base.(*ast.IndexExpr); ok {
				return ix.X
			}
			return nil
		}
		inspectShallow(f.Body(), func(x ast.Node) bool {
			switch s := x.(type) {
			case *ast.AssignStmt:
				if s.Tok == token.DEFINE {
					return true
				}
				for i, l := range s.Lhs {
					if b := elemBase(l); b != nil {
						note(isCondField(info, b), s, "element store")
					}
					// x.F = append(x.F[:i], …): compaction in place
					if v := isCondField(info, l); v != nil && i < len(s.Rhs) {
						if c, ok := ast.Unparen(s.Rhs[i]).(*ast.CallExpr); ok && isBuiltin(info, c, "append") && len(c.Args) >= 1 {
							if sl, ok := ast.Unparen(c.Args[0]).(*ast.SliceExpr); ok && isCondField(info, sl.X) == v {
								note(v, s, "in-place compaction")
							}
						}
					}
				}
			case *ast.IncDecStmt:
				if b := elemBase(s.X); b != nil {
					note(isCondField(info, b), s, "element store")
				}
			case *ast.CallExpr:
				if fn := p.Callee(f.Pkg, s); fn != nil && len(s.Args) >= 1 {
					switch fn.FullName() {
					case "sort.Slice", "sort.SliceStable", "sort.Strings", "sort.Ints", "slices.Sort", "slices.SortFunc", "slices.SortStableFunc", "slices.Reverse":
						note(isCondField(info, s.Args[0]), s, "in-place sort")
					}
				}
			}
			return true
		})
	}
	// cloned in clean: assignments `<copy>.F = clone(<something>.F)`
	cloned := map[*types.Var]bool{}
	isCloneOf := func(e ast.Expr, v *types.Var) bool {
		c, ok := ast.Unparen(e).(*ast.CallExpr)
		if !ok {
			return false
		}
		if fn := p.Callee(clean.Pkg, c); fn != nil && (fn.FullName() == "slices.Clone" || fn.FullName() == "bytes.Clone") && len(c.Args) == 1 {
			return isCondField(cinfo, c.Args[0]) == v
		}
		if isBuiltin(cinfo, c, "append") && len(c.Args) == 2 && c.Ellipsis.IsValid() && isCondField(cinfo, c.Args[1]) == v {
			// append(T(nil), x.F...) / append([]T(nil), x.F...) / append([]T{}, x.F...)
			a0 := ast.Unparen(c.Args[0])
			if conv, ok := a0.(*ast.CallExpr); ok && len(conv.Args) == 1 {
				if id, ok := ast.Unparen(conv.Args[0]).(*ast.Ident); ok && id.Name == "nil" {
					return true
				}
			}
			if cl, ok := a0.(*ast.CompositeLit); ok && len(cl.Elts) == 0 {
				return true
			}
		}
		return false
	}
	inspectShallow(clean.Body(), func(x ast.Node) bool {
		switch s := x.(type) {
		case *ast.AssignStmt:
			for i, l := range s.Lhs {
				if v := isCondField(cinfo, l); v != nil && i < len(s.Rhs) && isCloneOf(s.Rhs[i], v) {
					cloned[v] = true
				}
			}
		case *ast.KeyValueExpr:
			if id, ok := s.Key.(*ast.Ident); ok {
				if v, ok := cinfo.Uses[id].(*types.Var); ok && v.IsField() && isCloneOf(s.Value, v) {
					cloned[v] = true
				}
			}
		}
		return true
	})
	var fields []*types.Var
	for v := range written {
		fields = append(fields, v)
	}
	sort.Slice(fields, func(i, j int) bool { return fields[i].Pos() < fields[j].Pos() })
	n := 0
	for _, v := range fields {
		n++
		owner := ""
		for nt := range condTypes {
			st := nt.Underlying().(*types.Struct)
			for i := 0; i < st.NumFields(); i++ {
				if st.Field(i) == v {
					owner = nt.Obj().Name()
				}
			}
		}
		key := fmt.Sprintf("query.Conditions.clean clones %s.%s", owner, v.Name())
		r.Check(cloned[v], rule, key, p.PosOf(v.Pos()), "written through ("+written[v]+") and cloned by clean", "package query writes through "+owner+"."+v.Name()+" ("+written[v]+") but Conditions.clean hands the cleaners a copy of the condition whose "+v.Name()+" still points into the condition it was given: for the stored conditions of a tag, which every view shares and every search that inlines the pending tag cleans again, that is a data race between request goroutines and a change of the stored tag")
	}
	r.Note("%s: fields written through: %s", rule, strings.Join(func() []string {
		var out []string
		for _, v := range fields {
			out = append(out, v.Name())
		}
		return out
	}(), ", "))
	r.Floor(rule, 3, n)
}
