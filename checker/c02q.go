package main

// c02q.go: C02-q every sub-query the query needs is evaluated.
//
// SearchStreams evaluates the sub-queries in the order ConditionsSet.SubQueries() returns, and buildSearchObjects skips
// every condition that refers to a sub-query without results. SubQueries() collected all sub-queries the wanted one
// needs — and then kept the resolution order of only ONE of them ("the best", ties decided by map iteration order):
// `@a:id:0 @b:id:1 cport:@a:cport@ sport:@b:sport@` returned [1 2] instead of [2], the relation to one sub-query was
// dropped without an error, and which one depended on the run (#56).
//
// Rule (FLOW in the resolve closure): in ConditionsSet.SubQueries the loop over the needed sub-queries records the
// result of every recursive resolution — every path from the recursive call to the next iteration passes an append
// (to the order itself or to a collection of results) — and the variable whose value is returned as the order is,
// inside loops, only ever extended by appending to itself, never replaced.

import (
	"fmt"
	"go/ast"
	"go/types"

	"golang.org/x/tools/go/cfg"
)

func init() {
	register("C02",
		"C02-q (FLOW): in ConditionsSet.SubQueries the resolution of every needed sub-query is kept: in the loop over the needed sub-queries every path from the recursive resolve call to the next iteration passes an append that stores its result, and the variable returned as the order is, inside loops, only extended by appends to itself — never replaced by the result of one iteration. SearchStreams evaluates exactly the sub-queries in that list and skips conditions on the others: with one resolution kept, a query that relates the stream to two sub-queries silently loses one relation, and which one depends on map iteration order.",
		func(p *Prog, r *Res) {
			const rule = "C02-q every-needed-sub-query-is-resolved"
			r.Rule(rule + ": SubQueries keeps the resolution of every needed sub-query")
			f := p.Fn("query.ConditionsSet.SubQueries")
			if f == nil {
				p.anchorFail("query.ConditionsSet.SubQueries")
				return
			}
			n := 0
			for _, l := range f.Lits {
				info := l.Pkg.TypesInfo
				// the recursive closure: a literal assigned to a local that it calls itself
				var self types.Object
				inspectShallow(f.Body(), func(x ast.Node) bool {
					if as, ok := x.(*ast.AssignStmt); ok && len(as.Lhs) == 1 && len(as.Rhs) == 1 && ast.Unparen(as.Rhs[0]) == ast.Expr(l.Lit) {
						self = identObj(info, as.Lhs[0])
					}
					return true
				})
				if self == nil {
					continue
				}
				var recCalls []*ast.CallExpr
				inspectShallow(l.Body(), func(x ast.Node) bool {
					if c, ok := x.(*ast.CallExpr); ok && identObj(info, c.Fun) == self {
						recCalls = append(recCalls, c)
					}
					return true
				})
				if len(recCalls) == 0 {
					continue
				}
				fl := p.Flow(l)
				isAppendStore := func(nd ast.Node) bool {
					as, ok := nd.(*ast.AssignStmt)
					if !ok || len(as.Lhs) != len(as.Rhs) {
						return false
					}
					for i, lh := range as.Lhs {
						c, ok := ast.Unparen(as.Rhs[i]).(*ast.CallExpr)
						if ok && isBuiltin(info, c, "append") && len(c.Args) >= 2 && identObj(info, c.Args[0]) != nil && identObj(info, c.Args[0]) == identObj(info, lh) {
							return true
						}
					}
					return false
				}
				for _, rc := range recCalls {
					// the loop around the recursive call
					var loop *ast.RangeStmt
					inspectParents(l.Body(), func(x ast.Node, parents []ast.Node) bool {
						if x == ast.Node(rc) {
							for _, par := range parents {
								if rs, ok := par.(*ast.RangeStmt); ok {
									loop = rs
								}
							}
						}
						return true
					})
					if loop == nil {
						continue
					}
					n++
					key := fmt.Sprintf("%s keeps every resolution@%s", l.Key(), relLine(p, l, rc))
					pt, ok := fl.PointOf(rc)
					if !ok {
						r.Undecided(rule, key, p.Pos(rc), "recursive call not in the CFG")
						continue
					}
					var head *cfg.Block
					for _, b := range fl.G.Blocks {
						if b.Kind == cfg.KindRangeLoop && b.Stmt == ast.Stmt(loop) {
							head = b
						}
					}
					type st struct {
						b *cfg.Block
						i int
					}
					seen := map[st]bool{}
					work := []st{{pt.B, pt.I + 1}}
					dropped := false
					for len(work) > 0 && !dropped {
						s := work[0]
						work = work[1:]
						if seen[s] {
							continue
						}
						seen[s] = true
						if s.b == head {
							dropped = true
							break
						}
						if s.i < len(s.b.Nodes) {
							nd := s.b.Nodes[s.i]
							if isAppendStore(nd) || isReturn(nd) {
								continue
							}
							work = append(work, st{s.b, s.i + 1})
							continue
						}
						for _, nb := range s.b.Succs {
							if nb.Kind == cfg.KindRangeDone && nb.Stmt == ast.Stmt(loop) {
								continue
							}
							work = append(work, st{nb, 0})
						}
					}
					r.Check(!dropped, rule, key, p.Pos(rc), "every path to the next needed sub-query stores the resolution", "an iteration over the needed sub-queries can end without storing the resolution it computed: the sub-query is not in the list SearchStreams evaluates, and every condition that relates the stream to it is skipped silently")
				}
				// collections the resolutions are stored in are consumed as a whole
				stores := map[types.Object]bool{}
				inspectShallow(l.Body(), func(x ast.Node) bool {
					as, ok := x.(*ast.AssignStmt)
					if !ok || !isAppendStore(as) {
						return true
					}
					usesRec := false
					for _, rh := range as.Rhs {
						ast.Inspect(rh, func(y ast.Node) bool {
							if id, ok := y.(*ast.Ident); ok {
								if o := info.Uses[id]; o != nil {
									for _, rc := range recCalls {
										inspectParents(l.Body(), func(z ast.Node, parents []ast.Node) bool {
											if z == ast.Node(rc) && len(parents) > 0 {
												if ras, ok := parents[len(parents)-1].(*ast.AssignStmt); ok {
													for _, rl := range ras.Lhs {
														if identObj(info, rl) == o {
															usesRec = true
														}
													}
												}
											}
											return true
										})
									}
								}
							}
							return true
						})
					}
					if usesRec {
						for _, lh := range as.Lhs {
							if o := identObj(info, lh); o != nil {
								if _, isSlice := o.Type().Underlying().(*types.Slice); isSlice {
									stores[o] = true
								}
							}
						}
					}
					return true
				})
				for o := range stores {
					n++
					key := fmt.Sprintf("%s the stored resolutions %s are consumed as a whole", l.Key(), o.Name())
					var bad ast.Node
					why := ""
					inspectParents(l.Body(), func(x ast.Node, parents []ast.Node) bool {
						switch e := x.(type) {
						case *ast.SliceExpr:
							if identObj(info, e.X) == o && (e.Low != nil || e.High != nil) {
								bad, why = e, "a part of the list ("+exprString(p.Fset, e)+") is used"
							}
						case *ast.IndexExpr:
							if identObj(info, e.X) == o {
								if tv, ok := info.Types[e.Index]; ok && tv.Value != nil {
									bad, why = e, "one element ("+exprString(p.Fset, e)+") is picked"
								}
							}
						case *ast.BranchStmt:
							if e.Tok.String() == "break" {
								// the innermost loop / switch / select around the break
								for i := len(parents) - 1; i >= 0; i-- {
									switch par := parents[i].(type) {
									case *ast.RangeStmt:
										if identObj(info, par.X) == o && e.Label == nil {
											bad, why = e, "the loop over the list is left early"
										}
										return true
									case *ast.ForStmt, *ast.SwitchStmt, *ast.TypeSwitchStmt, *ast.SelectStmt:
										return true
									}
								}
							}
						}
						return true
					})
					if bad != nil {
						r.Bad(rule, key, p.Pos(bad), "of the resolutions stored in "+o.Name()+" "+why+": the sub-queries of the others are not in the list SearchStreams evaluates, and every condition that relates the stream to them is skipped silently")
					} else {
						r.Ok(rule, key, p.Pos(l.Node()), "no part, single element or early exit")
					}
				}
				// the returned order is only extended inside loops
				var orderVar types.Object
				inspectShallow(l.Body(), func(x ast.Node) bool {
					if rs, ok := x.(*ast.ReturnStmt); ok && len(rs.Results) == 2 {
						if c, ok := ast.Unparen(rs.Results[1]).(*ast.CallExpr); ok && isBuiltin(info, c, "append") && len(c.Args) >= 1 {
							if o := identObj(info, c.Args[0]); o != nil {
								orderVar = o
							}
						}
					}
					return true
				})
				if orderVar != nil {
					n++
					key := fmt.Sprintf("%s the returned order %s is only extended inside loops", l.Key(), orderVar.Name())
					var bad ast.Node
					inspectParents(l.Body(), func(x ast.Node, parents []ast.Node) bool {
						as, ok := x.(*ast.AssignStmt)
						if !ok || len(as.Lhs) != len(as.Rhs) {
							return true
						}
						inLoop := false
						for _, par := range parents {
							switch par.(type) {
							case *ast.RangeStmt, *ast.ForStmt:
								inLoop = true
							}
						}
						if !inLoop {
							return true
						}
						for i, lh := range as.Lhs {
							if identObj(info, lh) != orderVar {
								continue
							}
							c, ok := ast.Unparen(as.Rhs[i]).(*ast.CallExpr)
							if !(ok && isBuiltin(info, c, "append") && len(c.Args) >= 1 && identObj(info, c.Args[0]) == orderVar) {
								bad = as
							}
						}
						return true
					})
					if bad != nil {
						r.Bad(rule, key, p.Pos(bad), "the order that is returned is REPLACED inside a loop ("+exprString(p.Fset, bad.(*ast.AssignStmt).Rhs[0])+"): of all needed sub-queries only the resolution of the last (or 'best') one survives")
					} else {
						r.Ok(rule, key, p.Pos(l.Node()), "only self-appends inside loops")
					}
				}
			}
			r.Floor(rule, 3, n)
		})
}
