package main

// c20b.go: C20-b slice-handed-to-goroutine-is-given-up.
//
// A slice value passed to `go f(s)` shares its backing array with the caller's variable. The spawning code may keep
// its VARIABLE, but must not touch that ARRAY again: before the next read, append or re-slice it has to assign the
// variable a value that does not derive from it (nil, make, a literal, a copy).

import (
	"fmt"
	"go/ast"
	"go/token"
	"go/types"
)

func init() {
	register("C20",
		"C20-b (FLOW): when a local slice variable is passed as an argument to a go statement, or captured by the function literal a go statement starts, no write through the variable (append, element store, copy into it, re-slice of itself) is reachable from the go statement unless an assignment of a value not derived from it (nil, make, literal, clone) comes first; `s = s[:0]` keeps the backing array, so later appends write into memory the spawned goroutine is still reading.",
		ruleC20Handoff)
}

func ruleC20Handoff(p *Prog, r *Res) {
	const rule = "C20-b handoff-gives-up-slice"
	r.Rule(rule + ": a slice handed to a goroutine is not used again by the spawner before it is replaced by a fresh value")
	n := 0
	for _, f := range p.FnList {
		switch f.Short {
		case "manager", "main", "converters", "builder", "index", "pcapmetadata":
		default:
			continue
		}
		if f.Body() == nil {
			continue
		}
		info := f.Pkg.TypesInfo
		fl := p.Flow(f)
		for _, gpt := range fl.Find(func(x ast.Node) bool { _, ok := x.(*ast.GoStmt); return ok }) {
			gs := fl.node(gpt).(*ast.GoStmt)
			handed := map[types.Object]string{}
			isLocalSlice := func(o types.Object) bool {
				v, ok := o.(*types.Var)
				if !ok || v.IsField() || v.Pkg() == nil || v.Parent() == v.Pkg().Scope() {
					return false
				}
				_, isSlice := v.Type().Underlying().(*types.Slice)
				// declared inside this function (or an enclosing literal's body), not a package var
				return isSlice
			}
			for _, a := range gs.Call.Args {
				if o := identObj(info, a); o != nil && isLocalSlice(o) {
					handed[o] = "argument"
				}
			}
			if lit, ok := gs.Call.Fun.(*ast.FuncLit); ok {
				params := map[types.Object]bool{}
				for _, fld := range lit.Type.Params.List {
					for _, id := range fld.Names {
						params[info.Defs[id]] = true
					}
				}
				ast.Inspect(lit.Body, func(y ast.Node) bool {
					if id, ok := y.(*ast.Ident); ok {
						if o := info.Uses[id]; o != nil && !params[o] && isLocalSlice(o) && o.Pos() < lit.Pos() && handed[o] == "" {
							// captured: declared before the literal, outside it
							if o.Pos() < gs.Pos() {
								handed[o] = "captured"
							}
						}
					}
					return true
				})
			}
			for o, how := range handed {
				// only variables declared in f itself are the spawner's to give up
				if o.Pos() < f.Node().Pos() || o.Pos() > f.Node().End() {
					continue
				}
				n++
				key := fmt.Sprintf("%s go … %s (%s)", f.Key(), o.Name(), how)
				fresh := func(x ast.Node) bool {
					as, ok := x.(*ast.AssignStmt)
					if !ok || len(as.Lhs) != len(as.Rhs) {
						return false
					}
					for i, l := range as.Lhs {
						if !sameObj(info, l, o) {
							continue
						}
						derived := false
						ast.Inspect(as.Rhs[i], func(y ast.Node) bool {
							if id, ok := y.(*ast.Ident); ok && info.Uses[id] == o {
								derived = true
							}
							return true
						})
						return !derived
					}
					return false
				}
				// uses that write the shared backing array or keep it alive for later writes: append(o, …), o[i] = …,
				// copy(o, …), o = <derived from o>. Reads (len, range, o[i]) do not race with a reading goroutine.
				uses := func(x ast.Node) bool {
					if x == ast.Node(gs) {
						return false
					}
					found := false
					inspectShallow(x, func(y ast.Node) bool {
						switch s := y.(type) {
						case *ast.CallExpr:
							if (isBuiltin(info, s, "append") || isBuiltin(info, s, "copy")) && len(s.Args) > 0 {
								base := ast.Unparen(s.Args[0])
								if se, ok := base.(*ast.SliceExpr); ok {
									base = ast.Unparen(se.X)
								}
								if sameObj(info, base, o) {
									found = true
								}
							}
						case *ast.AssignStmt:
							for i, l := range s.Lhs {
								if ix, ok := ast.Unparen(l).(*ast.IndexExpr); ok && sameObj(info, ix.X, o) {
									found = true
								}
								if sameObj(info, l, o) && len(s.Lhs) == len(s.Rhs) {
									ast.Inspect(s.Rhs[i], func(z ast.Node) bool {
										if id, ok := z.(*ast.Ident); ok && info.Uses[id] == o {
											found = true
										}
										return true
									})
								}
							}
						}
						return !found
					})
					return found
				}
				res := fl.Reach([]Pt{After(gpt)}, func(x ast.Node) bool { return !fresh(x) && uses(x) }, fresh)
				if res.Found {
					r.Bad(rule, key, p.Pos(res.End), fmt.Sprintf("%s is %s the goroutine started at line %d and written or re-sliced at line %d without being replaced by a fresh value first: both goroutines work on one backing array", o.Name(), map[string]string{"argument": "passed to", "captured": "captured by"}[how], lineOf(p.Fset, gs), lineOf(p.Fset, res.End)))
				} else {
					r.Ok(rule, key, p.Pos(gs), "replaced by a value not derived from it (or never used again) after the hand-off")
				}
			}
		}
	}
	r.Floor(rule, 1, n)
}

// ---- C20-c: a published PcapInfo is immutable ----

func init() {
	register("C20",
		"C20-c (AST, typed): *pcapmetadata.PcapInfo objects are published in Builder.knownPcaps and read from there by the service goroutine and, through KnownPcaps and JSON encoding, by request goroutines — reads the confinement analysis cannot see. The importer may therefore write the fields of a PcapInfo only while the object is still its own: every assignment to (or ++ of) a PcapInfo field through a pointer variable is either dominated by an assignment of a fresh composite literal to that variable, or lies in an if-branch guarded by the same never-reassigned boolean that guards that fresh assignment (`updateInfo := info == nil; if updateInfo { info = &PcapInfo{…} } … if updateInfo { info.X = … }`).",
		func(p *Prog, r *Res) {
			const rule = "C20-c published-pcapinfo-immutable"
			r.Rule(rule + ": PcapInfo fields are written only on objects created in the same function")
			pi := p.Named("pcapmetadata", "PcapInfo")
			if pi == nil {
				p.anchorFail("pcapmetadata.PcapInfo")
				return
			}
			n := 0
			for _, f := range p.FnList {
				if f.Body() == nil || (f.Short != "builder" && f.Short != "manager" && f.Short != "pcapmetadata" && f.Short != "main") {
					continue
				}
				info := f.Pkg.TypesInfo
				var fl *Flow
				// fresh assignments: v = &PcapInfo{…} / v := &PcapInfo{…}, with the boolean guards they sit under
				type fresh struct {
					v      types.Object
					node   ast.Node
					guards map[types.Object]bool
				}
				var freshes []fresh
				guardsOf := func(parents []ast.Node, self ast.Node) map[types.Object]bool {
					g := map[types.Object]bool{}
					for i, par := range parents {
						is, ok := par.(*ast.IfStmt)
						if !ok {
							continue
						}
						var child ast.Node = self
						if i+1 < len(parents) {
							child = parents[i+1]
						}
						if child != ast.Node(is.Body) {
							continue
						}
						if o := identObj(info, is.Cond); o != nil {
							g[o] = true
						}
					}
					return g
				}
				inspectParents(f.Body(), func(x ast.Node, parents []ast.Node) bool {
					as, ok := x.(*ast.AssignStmt)
					if !ok || len(as.Lhs) != len(as.Rhs) {
						return true
					}
					for i, rh := range as.Rhs {
						ue, ok := ast.Unparen(rh).(*ast.UnaryExpr)
						if !ok || ue.Op != token.AND {
							continue
						}
						cl, ok := ast.Unparen(ue.X).(*ast.CompositeLit)
						if !ok {
							continue
						}
						if nt := namedOf(info.TypeOf(cl)); nt == nil || nt.Obj() != pi.Obj() {
							continue
						}
						if o := identObj(info, as.Lhs[i]); o != nil {
							freshes = append(freshes, fresh{o, as, guardsOf(parents, as)})
						}
					}
					return true
				})
				reassigned := func(o types.Object) int {
					c := 0
					ast.Inspect(f.Body(), func(y ast.Node) bool {
						if as, ok := y.(*ast.AssignStmt); ok {
							for _, l := range as.Lhs {
								if sameObj(info, l, o) {
									c++
								}
							}
						}
						return true
					})
					return c
				}
				inspectParents(f.Body(), func(x ast.Node, parents []ast.Node) bool {
					var target ast.Expr
					switch s := x.(type) {
					case *ast.AssignStmt:
						for _, l := range s.Lhs {
							if se, ok := ast.Unparen(l).(*ast.SelectorExpr); ok {
								if v, ok := info.Uses[se.Sel].(*types.Var); ok && v.IsField() {
									if nt := namedOf(info.TypeOf(se.X)); nt != nil && nt.Obj() == pi.Obj() {
										target = se
									}
								}
							}
						}
					case *ast.IncDecStmt:
						if se, ok := ast.Unparen(s.X).(*ast.SelectorExpr); ok {
							if v, ok := info.Uses[se.Sel].(*types.Var); ok && v.IsField() {
								if nt := namedOf(info.TypeOf(se.X)); nt != nil && nt.Obj() == pi.Obj() {
									target = se
								}
							}
						}
					}
					if target == nil {
						return true
					}
					se := target.(*ast.SelectorExpr)
					vo := identObj(info, se.X)
					n++
					key := fmt.Sprintf("%s write of PcapInfo.%s (line +%d)", f.Key(), se.Sel.Name, lineOf(p.Fset, x)-lineOf(p.Fset, f.Node()))
					if vo == nil {
						r.Bad(rule, key, p.Pos(x), "the PcapInfo is reached through "+types.ExprString(se.X)+", not through a local pointer whose freshness can be established")
						return true
					}
					if _, isPtr := vo.Type().Underlying().(*types.Pointer); !isPtr {
						r.Ok(rule, key, p.Pos(x), "write to a local value (a copy)")
						return true
					}
					// the pointer is a parameter of an unexported helper: every call in the package passes a variable that is
					// fresh at the call (accountPacket(info, ts) inside `if updateInfo { … }`)
					hasFreshHere := false
					for _, fr := range freshes {
						if fr.v == vo {
							hasFreshHere = true
						}
					}
					if !hasFreshHere && f.Lit == nil && f.Decl != nil && !ast.IsExported(f.Decl.Name.Name) {
						if idx := paramIndex(f, vo); idx >= 0 {
							fobj, _ := info.Defs[f.Decl.Name].(*types.Func)
							sites, good, lastWhy := 0, 0, ""
							for _, g := range p.FnList {
								if g.Pkg != f.Pkg || g.Body() == nil || fobj == nil {
									continue
								}
								inspectParents(g.Body(), func(y ast.Node, ps []ast.Node) bool {
									c, isC := y.(*ast.CallExpr)
									if !isC || p.Callee(g.Pkg, c) != fobj || idx >= len(c.Args) {
										return true
									}
									sites++
									ao := identObj(g.Pkg.TypesInfo, c.Args[idx])
									if ao == nil {
										lastWhy = "the call at " + p.Pos(c) + " does not pass a plain variable"
										return true
									}
									if okS, w := pcapInfoFreshAt(p, pi, g, ao, c, ps); okS {
										good++
									} else {
										lastWhy = "the call at " + p.Pos(c) + ": " + w
									}
									return true
								})
							}
							if sites > 0 && sites == good {
								r.Ok(rule, key, p.Pos(x), fmt.Sprintf("write through a parameter of a helper; each of its %d calls passes a PcapInfo that is fresh there", sites))
								return true
							}
							if sites > 0 {
								r.Check(false, rule, key, p.Pos(x), "", "a PcapInfo that may already be published is written through the parameter "+vo.Name()+" ("+lastWhy+")")
								return true
							}
						}
					}
					ok, why := false, "no assignment of a fresh &PcapInfo{…} to "+vo.Name()+" in this function"
					myGuards := guardsOf(parents, x)
					for _, fr := range freshes {
						if fr.v != vo {
							continue
						}
						if len(fr.guards) == 0 {
							if fl == nil {
								fl = p.Flow(f)
							}
							res := fl.Reach([]Pt{fl.Entry()}, func(n ast.Node) bool { return n == x }, func(n ast.Node) bool { return n == fr.node })
							if !res.Found {
								ok, why = true, "dominated by "+vo.Name()+" = &PcapInfo{…}"
							} else {
								why = "a path reaches the write without the fresh assignment (" + fl.traceString(res) + ")"
							}
							continue
						}
						for g := range fr.guards {
							if myGuards[g] && reassigned(g) == 1 {
								ok, why = true, "both the fresh assignment and the write are guarded by `"+g.Name()+"`, which is assigned once"
							}
						}
						if !ok {
							why = "the fresh assignment is conditional (guarded by a boolean) and this write is not under the same guard"
						}
					}
					r.Check(ok, rule, key, p.Pos(x), why, "a PcapInfo that may already be published in Builder.knownPcaps is written by the importer ("+why+"): the service goroutine and request goroutines read the same object without synchronisation")
					return true
				})
			}
			r.Floor(rule, 4, n)
		})
}

// pcapInfoFreshAt: in function g the pointer variable vo holds, at node x (with the given parents), a PcapInfo that was
// created in g: the node is dominated by `vo = &PcapInfo{…}`, or both lie under the same once-assigned boolean guard.
func pcapInfoFreshAt(p *Prog, pi *types.Named, g *Fn, vo types.Object, x ast.Node, parents []ast.Node) (bool, string) {
	info := g.Pkg.TypesInfo
	guardsOf := func(parents []ast.Node, self ast.Node) map[types.Object]bool {
		gs := map[types.Object]bool{}
		for i, par := range parents {
			is, ok := par.(*ast.IfStmt)
			if !ok {
				continue
			}
			var child ast.Node = self
			if i+1 < len(parents) {
				child = parents[i+1]
			}
			if child != ast.Node(is.Body) {
				continue
			}
			if o := identObj(info, is.Cond); o != nil {
				gs[o] = true
			}
		}
		return gs
	}
	type fresh struct {
		node   ast.Node
		guards map[types.Object]bool
	}
	var freshes []fresh
	inspectParents(g.Body(), func(y ast.Node, ps []ast.Node) bool {
		as, ok := y.(*ast.AssignStmt)
		if !ok || len(as.Lhs) != len(as.Rhs) {
			return true
		}
		for i, rh := range as.Rhs {
			ue, ok := ast.Unparen(rh).(*ast.UnaryExpr)
			if !ok || ue.Op != token.AND {
				continue
			}
			cl, ok := ast.Unparen(ue.X).(*ast.CompositeLit)
			if !ok {
				continue
			}
			if nt := namedOf(info.TypeOf(cl)); nt == nil || nt.Obj() != pi.Obj() {
				continue
			}
			if identObj(info, as.Lhs[i]) == vo {
				freshes = append(freshes, fresh{as, guardsOf(ps, as)})
			}
		}
		return true
	})
	reassigned := func(o types.Object) int {
		c := 0
		ast.Inspect(g.Body(), func(y ast.Node) bool {
			if as, ok := y.(*ast.AssignStmt); ok {
				for _, l := range as.Lhs {
					if sameObj(info, l, o) {
						c++
					}
				}
			}
			return true
		})
		return c
	}
	ok, why := false, "no assignment of a fresh &PcapInfo{…} to "+vo.Name()+" in "+g.Key()
	myGuards := guardsOf(parents, x)
	var fl *Flow
	for _, fr := range freshes {
		if len(fr.guards) == 0 {
			if fl == nil {
				fl = p.Flow(g)
			}
			// the CFG node that contains x
			target := x
			if _, okPt := fl.at[x]; !okPt {
				for i := len(parents) - 1; i >= 0; i-- {
					if _, okPt := fl.at[parents[i]]; okPt {
						target = parents[i]
						break
					}
				}
			}
			res := fl.Reach([]Pt{fl.Entry()}, func(n ast.Node) bool { return n == target }, func(n ast.Node) bool { return n == fr.node })
			if !res.Found {
				ok, why = true, "dominated by "+vo.Name()+" = &PcapInfo{…}"
			} else {
				why = "a path reaches it without the fresh assignment (" + fl.traceString(res) + ")"
			}
			continue
		}
		for gd := range fr.guards {
			if myGuards[gd] && reassigned(gd) == 1 {
				ok, why = true, "both the fresh assignment and this point are guarded by `"+gd.Name()+"`, which is assigned once"
			}
		}
		if !ok {
			why = "the fresh assignment is conditional (guarded by a boolean) and this point is not under the same guard"
		}
	}
	return ok, why
}
