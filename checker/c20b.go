package main

// c20b.go: C20-b slice-handed-to-goroutine-is-given-up.
//
// A slice value passed to `go f(s)` shares its backing array with the caller's variable. The spawning code may keep
// its VARIABLE, but must not touch that ARRAY again: before the next read, append or re-slice it has to assign the
// variable a value that does not derive from it (nil, make, a literal, a copy).

import (
	"fmt"
	"go/ast"
	"go/types"
)

func init() {
	register("C20",
		"C20-b (FLOW): when a local slice variable is passed as an argument to a go statement, or captured by the function literal a go statement starts, no write through the variable (append, element store, copy into it, re-slice of itself) is reachable from the go statement unless an assignment of a value not derived from it (nil, make, literal, clone) comes first; `s = s[:0]` keeps the backing array, so later appends write into memory the spawned goroutine is still reading.",
		ruleC20Handoff)
}

func ruleC20Handoff(p *Prog, r *Res) {
	const rule = "C20-b handoff-gives-up-slice"
	r.Rule(rule + ": a slice handed to a goroutine is not used again by the spawner before it is replaced by a fresh value")
	n := 0
	for _, f := range p.FnList {
		switch f.Short {
		case "manager", "main", "converters", "builder", "index", "pcapmetadata":
		default:
			continue
		}
		if f.Body() == nil {
			continue
		}
		info := f.Pkg.TypesInfo
		fl := p.Flow(f)
		for _, gpt := range fl.Find(func(x ast.Node) bool { _, ok := x.(*ast.GoStmt); return ok }) {
			gs := fl.node(gpt).(*ast.GoStmt)
			handed := map[types.Object]string{}
			isLocalSlice := func(o types.Object) bool {
				v, ok := o.(*types.Var)
				if !ok || v.IsField() || v.Pkg() == nil || v.Parent() == v.Pkg().Scope() {
					return false
				}
				_, isSlice := v.Type().Underlying().(*types.Slice)
				// declared inside this function (or an enclosing literal's body), not a package var
				return isSlice
			}
			for _, a := range gs.Call.Args {
				if o := identObj(info, a); o != nil && isLocalSlice(o) {
					handed[o] = "argument"
				}
			}
			if lit, ok := gs.Call.Fun.(*ast.FuncLit); ok {
				params := map[types.Object]bool{}
				for _, fld := range lit.Type.Params.List {
					for _, id := range fld.Names {
						params[info.Defs[id]] = true
					}
				}
				ast.Inspect(lit.Body, func(y ast.Node) bool {
					if id, ok := y.(*ast.Ident); ok {
						if o := info.Uses[id]; o != nil && !params[o] && isLocalSlice(o) && o.Pos() < lit.Pos() && handed[o] == "" {
							// captured: declared before the literal, outside it
							if o.Pos() < gs.Pos() {
								handed[o] = "captured"
							}
						}
					}
					return true
				})
			}
			for o, how := range handed {
				// only variables declared in f itself are the spawner's to give up
				if o.Pos() < f.Node().Pos() || o.Pos() > f.Node().End() {
					continue
				}
				n++
				key := fmt.Sprintf("%s go … %s (%s)", f.Key(), o.Name(), how)
				fresh := func(x ast.Node) bool {
					as, ok := x.(*ast.AssignStmt)
					if !ok || len(as.Lhs) != len(as.Rhs) {
						return false
					}
					for i, l := range as.Lhs {
						if !sameObj(info, l, o) {
							continue
						}
						derived := false
						ast.Inspect(as.Rhs[i], func(y ast.Node) bool {
							if id, ok := y.(*ast.Ident); ok && info.Uses[id] == o {
								derived = true
							}
							return true
						})
						return !derived
					}
					return false
				}
				// uses that write the shared backing array or keep it alive for later writes: append(o, …), o[i] = …,
				// copy(o, …), o = <derived from o>. Reads (len, range, o[i]) do not race with a reading goroutine.
				uses := func(x ast.Node) bool {
					if x == ast.Node(gs) {
						return false
					}
					found := false
					inspectShallow(x, func(y ast.Node) bool {
						switch s := y.(type) {
						case *ast.CallExpr:
							if (isBuiltin(info, s, "append") || isBuiltin(info, s, "copy")) && len(s.Args) > 0 {
								base := ast.Unparen(s.Args[0])
								if se, ok := base.(*ast.SliceExpr); ok {
									base = ast.Unparen(se.X)
								}
								if sameObj(info, base, o) {
									found = true
								}
							}
						case *ast.AssignStmt:
							for i, l := range s.Lhs {
								if ix, ok := ast.Unparen(l).(*ast.IndexExpr); ok && sameObj(info, ix.X, o) {
									found = true
								}
								if sameObj(info, l, o) && len(s.Lhs) == len(s.Rhs) {
									ast.Inspect(s.Rhs[i], func(z ast.Node) bool {
										if id, ok := z.(*ast.Ident); ok && info.Uses[id] == o {
											found = true
										}
										return true
									})
								}
							}
						}
						return !found
					})
					return found
				}
				res := fl.Reach([]Pt{After(gpt)}, func(x ast.Node) bool { return !fresh(x) && uses(x) }, fresh)
				if res.Found {
					r.Bad(rule, key, p.Pos(res.End), fmt.Sprintf("%s is %s the goroutine started at line %d and written or re-sliced at line %d without being replaced by a fresh value first: both goroutines work on one backing array", o.Name(), map[string]string{"argument": "passed to", "captured": "captured by"}[how], lineOf(p.Fset, gs), lineOf(p.Fset, res.End)))
				} else {
					r.Ok(rule, key, p.Pos(gs), "replaced by a value not derived from it (or never used again) after the hand-off")
				}
			}
		}
	}
	r.Floor(rule, 1, n)
}
