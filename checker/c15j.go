package main

// c15j.go: C15-j "not cached" is the only nil answer of the cache.
//
// CachedConverter.Data asks the cache file first and takes a nil list for "this stream is not cached": it then runs the
// converter and appends a new record. cacheFile.data must therefore answer nil exactly when the stream has no entry —
// a stream whose stored output has no chunks (a converter may print nothing) has to come back as an EMPTY list.
// Seeded C15k (`var data []index.Data` instead of `data := []index.Data{}`) makes such a stream look uncached:
// every read re-runs the converter, reports wasCached=false and appends another record, while Contains and the search
// path say it is cached — the cache no longer behaves like a map.
//
// Rule (typed AST): in cacheFile.data every successful return (nil error) gives as its first result either the literal
// nil under the failed comma-ok lookup in streamInfos, or a local that is non-nil by construction: every definition is a
// composite literal, make(…), or an append to itself.

import (
	"fmt"
	"go/ast"
	"go/token"
	"go/types"
)

func init() {
	register("C15",
		"C15-j (typed AST): in converters.cacheFile.data — whose nil result CachedConverter.Data reads as 'not cached' — every return without an error gives either the literal nil under the failed comma-ok lookup in streamInfos, or a local that is non-nil by construction (every definition a composite literal, make, or an append to itself). A stored stream whose output has no chunks must read back as an empty list, or every read converts it again and appends another record while Contains says it is cached.",
		func(p *Prog, r *Res) {
			const rule = "C15-j nil-means-not-cached"
			r.Rule(rule + ": cacheFile.data answers nil only for a stream without an entry")
			f := p.Fn("converters.cacheFile.data")
			infos := p.Field("converters", "cacheFile", "streamInfos")
			if f == nil || infos == nil {
				p.anchorFail("converters.cacheFile.data / cacheFile.streamInfos")
				return
			}
			info := f.Pkg.TypesInfo
			// the comma-ok variable of the lookup
			var okVar types.Object
			inspectShallow(f.Body(), func(x ast.Node) bool {
				if as, ok := x.(*ast.AssignStmt); ok && len(as.Lhs) == 2 && len(as.Rhs) == 1 {
					if ix, ok := ast.Unparen(as.Rhs[0]).(*ast.IndexExpr); ok && isFieldOf(info, ix.X, infos) {
						okVar = identObj(info, as.Lhs[1])
					}
				}
				return true
			})
			nonNilLocal := func(o types.Object) (bool, string) {
				nDefs := 0
				why := ""
				ast.Inspect(f.Body(), func(x ast.Node) bool {
					switch s := x.(type) {
					case *ast.AssignStmt:
						if len(s.Lhs) != len(s.Rhs) {
							for _, l := range s.Lhs {
								if identObj(info, l) == o {
									nDefs++
									why = "assigned from a multi-value expression"
								}
							}
							return true
						}
						for i, l := range s.Lhs {
							if identObj(info, l) != o {
								continue
							}
							nDefs++
							rhs := ast.Unparen(s.Rhs[i])
							switch v := rhs.(type) {
							case *ast.CompositeLit:
							case *ast.CallExpr:
								if isBuiltin(info, v, "make") {
									break
								}
								if isBuiltin(info, v, "append") && len(v.Args) >= 1 && identObj(info, v.Args[0]) == o {
									break
								}
								why = "defined by " + exprString(p.Fset, rhs)
							default:
								why = "defined by " + exprString(p.Fset, rhs)
							}
						}
					case *ast.ValueSpec:
						for i, nm := range s.Names {
							if info.Defs[nm] == o {
								nDefs++
								if i >= len(s.Values) {
									why = "declared without a value (nil)"
								} else if _, ok := ast.Unparen(s.Values[i]).(*ast.CompositeLit); !ok {
									if c, ok := ast.Unparen(s.Values[i]).(*ast.CallExpr); !ok || !isBuiltin(info, c, "make") {
										why = "declared with " + exprString(p.Fset, s.Values[i])
									}
								}
							}
						}
					}
					return true
				})
				return nDefs > 0 && why == "", why
			}
			n := 0
			inspectParents(f.Body(), func(x ast.Node, parents []ast.Node) bool {
				rs, ok := x.(*ast.ReturnStmt)
				if !ok || len(rs.Results) < 2 {
					return true
				}
				if id, ok := ast.Unparen(rs.Results[len(rs.Results)-1]).(*ast.Ident); !ok || id.Name != "nil" {
					return true // a failing return
				}
				n++
				key := fmt.Sprintf("%s successful return@%s", f.Key(), relLine(p, f, rs))
				first := ast.Unparen(rs.Results[0])
				if id, ok := first.(*ast.Ident); ok && id.Name == "nil" {
					under := false
					for _, par := range parents {
						if ifs, ok := par.(*ast.IfStmt); ok {
							if u, ok := ast.Unparen(ifs.Cond).(*ast.UnaryExpr); ok && u.Op == token.NOT && okVar != nil && identObj(info, u.X) == okVar {
								under = true
							}
						}
					}
					r.Check(under, rule, key, p.Pos(rs), "nil is answered under the failed lookup in streamInfos", "nil is answered although the stream has an entry: CachedConverter.Data reads nil as 'not cached', converts the stream again and appends another record")
					return true
				}
				o := identObj(info, first)
				if o == nil {
					r.Undecided(rule, key, p.Pos(rs), "the first result is neither nil nor a local")
					return true
				}
				okNN, why := nonNilLocal(o)
				r.Check(okNN, rule, key, p.Pos(rs), o.Name()+" is non-nil by construction", o.Name()+" can be nil for a stored stream ("+why+"): a stream whose output has no chunks reads back as 'not cached' — every read converts it again, reports wasCached=false and appends another record, while Contains and the search path say it is cached")
				return true
			})
			r.Floor(rule, 2, n)
		})
}
