package main

import (
	"fmt"
	"go/ast"
	"go/token"
	"go/types"
	"slices"
	"strings"
)

func init() {
	register("C06",
		"C06-a (FRESH, copy-on-write of published bitmasks): every in-place bitmask mutation in package manager (Set/Unset/Flip/Or/And/Xor/Sub/Shrink/Inject/Extract on a LongBitmask value path) must act on words this function allocated since the value was last shared: a forward path query on the CFG requires that no path leads from function entry (for values that come from outside), from a non-copy assignment, from a struct copy, from a range rebinding or from an escape (store, send, capture, by-value call) to the mutation without passing an assignment of a fresh copy (Copy/…Copy/empty literal) to exactly that access path. TagDetails are copied by value into views and tagging jobs, so this is what keeps their answers stable.",
		func(p *Prog, r *Res) { ruleFreshBitmasks(p, r, "C06-a cow-published-bitmask", []string{"manager"}, 30) })
}

// ---- C06-c: invalidations that arrive while a tagging job runs are re-applied by its completion ----

func init() {
	register("C06",
		"C06-c (FLOW, sibling agreement): the tagging completion installs the job's result with an empty Uncertain and must then re-apply what arrived meanwhile. Checked: (1) every closure on the service goroutine that calls invalidateTags(u, r, a) with masks that are not themselves the During-masks also ORs the same three values into updated/reset/addedStreamsDuringTaggingJob on every path through that call; converter completion ORs its converted streams into updatedStreamsDuringTaggingJob wherever it raises a tag's Uncertain; (2) in the tagging completion the guard of the re-apply call mentions every During-mask that is passed as an argument (a mask passed but not tested is an invalidation class that is silently lost when it arrives alone), the re-apply follows the installation of the job's result on every path on which the result is installed, and the three arguments are the three During-masks in the callee's parameter order; (3) startTaggingJobIfNeeded resets all three masks on every path that starts a job, before the go statement.",
		ruleC06During)
}

func ruleC06During(p *Prog, r *Res) {
	const rule = "C06-c during-job-masks"
	r.Rule(rule + ": invalidations arriving during a tagging job are recorded and re-applied completely")
	ctx := p.Contexts()
	inval := p.Method("manager", "Manager", "invalidateTags")
	names := []string{"updatedStreamsDuringTaggingJob", "resetStreamsDuringTaggingJob", "addedStreamsDuringTaggingJob"}
	var flds []*types.Var
	for _, n := range names {
		flds = append(flds, p.Field("manager", "Manager", n))
	}
	if inval == nil || flds[0] == nil || flds[1] == nil || flds[2] == nil {
		return
	}
	fieldOf := func(info *types.Info, e ast.Expr) *types.Var {
		if se, ok := ast.Unparen(e).(*ast.SelectorExpr); ok {
			for _, f := range flds {
				if info.Uses[se.Sel] == types.Object(f) {
					return f
				}
			}
		}
		return nil
	}
	stripStar := func(e ast.Expr) string {
		e = ast.Unparen(e)
		if s, ok := e.(*ast.StarExpr); ok {
			e = s.X
		}
		if u, ok := e.(*ast.UnaryExpr); ok && u.Op == token.AND {
			e = u.X
		}
		return types.ExprString(e)
	}
	n := 0
	for _, f := range p.FnList {
		if f.Short != "manager" || !(ctx.Has(f, ctxLOOP) || ctx.Has(f, ctxINIT)) {
			continue
		}
		info := f.Pkg.TypesInfo
		fl := p.Flow(f)
		for _, b := range fl.G.Blocks {
			if !b.Live {
				continue
			}
			for i, node := range b.Nodes {
				for _, c := range callsIn(node) {
					if p.Callee(f.Pkg, c) != inval || len(c.Args) != 3 {
						continue
					}
					n++
					key := fmt.Sprintf("%s invalidateTags@%s", f.Key(), relLine(p, f, c))
					if fieldOf(info, c.Args[0]) != nil || fieldOf(info, c.Args[1]) != nil || fieldOf(info, c.Args[2]) != nil {
						// re-apply call: arguments must be exactly the three masks, in parameter order
						okOrder := true
						for k := 0; k < 3; k++ {
							if fieldOf(info, c.Args[k]) != flds[k] {
								okOrder = false
							}
						}
						r.Check(okOrder, rule, key+" re-apply passes the three During-masks in parameter order", p.Pos(c), "updated, reset, added", "the re-apply call does not pass (updated, reset, added)StreamsDuringTaggingJob in the callee's parameter order: invalidation classes are swapped or dropped")
						// guard covers the arguments
						var guard *ast.IfStmt
						inspectShallow(f.Body(), func(x ast.Node) bool {
							if ifs, ok := x.(*ast.IfStmt); ok && within(c, ifs.Body) {
								if guard == nil || within(ifs, guard) {
									guard = ifs
								}
							}
							return true
						})
						if guard != nil {
							tested := map[*types.Var]bool{}
							ast.Inspect(guard.Cond, func(x ast.Node) bool {
								if e, ok := x.(ast.Expr); ok {
									if fv := fieldOf(info, e); fv != nil {
										tested[fv] = true
									}
								}
								return true
							})
							mentionsAny := len(tested) > 0
							for k := 0; k < 3 && mentionsAny; k++ {
								r.Check(tested[flds[k]], rule, key+" guard tests "+names[k], p.Pos(guard), "mask is part of the guard", "the guard of the re-apply tests some During-masks but not "+names[k]+": an invalidation that sets only this mask while the job runs is overwritten by the job's empty Uncertain and never re-applied")
							}
						}
						continue
					}
					// primary invalidation: the same three values must be OR-ed into the During-masks on every path through the call
					for k := 0; k < 3; k++ {
						want := stripStar(c.Args[k])
						isRecord := func(m ast.Node) bool {
							return fl.hasCall(m, func(cc *ast.CallExpr) bool {
								se, ok := ast.Unparen(cc.Fun).(*ast.SelectorExpr)
								if !ok || se.Sel.Name != "Or" || len(cc.Args) != 1 {
									return false
								}
								return fieldOf(info, se.X) == flds[k] && stripStar(cc.Args[0]) == want
							})
						}
						before := fl.Reach([]Pt{fl.Entry()}, func(m ast.Node) bool { return m == node }, isRecord)
						after := fl.ExitAvoiding([]Pt{{b, i + 1}}, isRecord)
						r.Check(!before.Found || !after.Found, rule, fmt.Sprintf("%s records arg#%d in %s", key, k+1, names[k]), p.Pos(c), "OR-ed into the During-mask on every path through the invalidation",
							fmt.Sprintf("invalidateTags is called with %s but that value is not OR-ed into Manager.%s on every path: if a tagging job is running, its completion resets Uncertain and this invalidation is lost", want, names[k]))
					}
				}
			}
		}
	}
	r.Floor(rule+" invalidateTags call sites", 2, n)

	// direct calls of inheritTagUncertainty (raising Uncertain of tags that reference a changed tag) outside
	// invalidateTags: the raise must be recorded for a tagging job that may be in flight
	inherit := p.Method("manager", "Manager", "inheritTagUncertainty")
	ni := 0
	for _, f := range p.FnList {
		if f.Short != "manager" || !ctx.Has(f, ctxLOOP) || f.Key() == "manager.Manager.invalidateTags" {
			continue
		}
		info := f.Pkg.TypesInfo
		fl := p.Flow(f)
		idx := 0
		// only closures that install a changed tag are subject: elsewhere (converter completion) inheritance only
		// propagates raises that were themselves recorded, and the re-apply re-derives the propagation
		installs := false
		tagsFld0 := p.Field("manager", "Manager", "tags")
		inspectShallow(f.Body(), func(x ast.Node) bool {
			if as, ok := x.(*ast.AssignStmt); ok {
				for _, l := range as.Lhs {
					if ix, ok := ast.Unparen(l).(*ast.IndexExpr); ok && isFieldOf(info, ix.X, tagsFld0) {
						installs = true
					}
				}
			}
			return true
		})
		if !installs {
			continue
		}
		for _, b := range fl.G.Blocks {
			if !b.Live {
				continue
			}
			for i, node := range b.Nodes {
				for _, c := range callsIn(node) {
					if p.Callee(f.Pkg, c) != inherit {
						continue
					}
					idx++
					ni++
					key := fmt.Sprintf("%s inheritTagUncertainty#%d", f.Key(), idx)
					isRecord := func(m ast.Node) bool {
						return fl.hasCall(m, func(cc *ast.CallExpr) bool {
							se, ok := ast.Unparen(cc.Fun).(*ast.SelectorExpr)
							return ok && se.Sel.Name == "Or" && fieldOf(info, se.X) != nil
						})
					}
					before := fl.Reach([]Pt{fl.Entry()}, func(m ast.Node) bool { return m == node }, isRecord)
					after := fl.ExitAvoiding([]Pt{{b, i + 1}}, isRecord)
					r.Check(!before.Found || !after.Found, rule, key+" recorded for a running tagging job", p.Pos(c), "a During-mask is OR-ed on every path through the raise",
						"inheritTagUncertainty raises Uncertain of tags referencing a changed tag, but nothing is recorded in the During-masks: if a tagging job for such a referencing tag is in flight, its completion installs Uncertain = {} and the tag stays decided with matches computed against the old definition/marks")
				}
			}
		}
	}
	r.Floor(rule+" direct inheritTagUncertainty calls in installing closures", 2, ni)

	// converter completion: where it raises Uncertain it records the same streams as updated
	if jf := p.Fns["manager.Manager.convertStreamJob"]; jf != nil {
		for _, comp := range ctx.completionsIn(jf) {
			info := comp.Pkg.TypesInfo
			fl := p.Flow(comp)
			unc := p.Field("query", "TagDetails", "Uncertain")
			for _, b := range fl.G.Blocks {
				for i, node := range b.Nodes {
					as, ok := node.(*ast.AssignStmt)
					if !ok || len(as.Lhs) != 1 || !isFieldOf(info, as.Lhs[0], unc) {
						continue
					}
					// value OR-ed in: the argument of OrCopy
					arg := ""
					for _, c := range callsIn(as.Rhs[0]) {
						if se, ok := ast.Unparen(c.Fun).(*ast.SelectorExpr); ok && se.Sel.Name == "OrCopy" && len(c.Args) == 1 {
							arg = stripStar(c.Args[0])
						}
					}
					if arg == "" && isFieldOf(info, as.Rhs[0], p.Field("manager", "Manager", "allStreams")) {
						// a raise to all streams (sub-query data tags, #78): the re-apply raises all streams for such a tag whenever
						// it runs (invalidateTags, SubQueryFeatures != 0), and it runs when anything was recorded
						isAnyRecord := func(m ast.Node) bool {
							return fl.hasCall(m, func(cc *ast.CallExpr) bool {
								se, ok := ast.Unparen(cc.Fun).(*ast.SelectorExpr)
								return ok && se.Sel.Name == "Or" && len(cc.Args) == 1 && fieldOf(info, se.X) == flds[0]
							})
						}
						after := fl.ExitAvoiding([]Pt{{b, i + 1}}, isAnyRecord)
						r.Check(!after.Found, rule, comp.Key()+" records something when it raises all streams", p.Pos(as), "a record in updatedStreamsDuringTaggingJob follows on every path", "converter completion raises Uncertain to all streams without recording anything for a running tagging job: "+fl.traceString(after))
						continue
					}
					if arg == "" {
						r.Undecided(rule, comp.Key()+" raise of Uncertain", p.Pos(as), "cannot identify the streams being raised")
						continue
					}
					isRecord := func(m ast.Node) bool {
						return fl.hasCall(m, func(cc *ast.CallExpr) bool {
							se, ok := ast.Unparen(cc.Fun).(*ast.SelectorExpr)
							return ok && se.Sel.Name == "Or" && len(cc.Args) == 1 && fieldOf(info, se.X) == flds[0] && stripStar(cc.Args[0]) == arg
						})
					}
					after := fl.ExitAvoiding([]Pt{{b, i + 1}}, isRecord)
					r.Check(!after.Found, rule, comp.Key()+" records converted streams as updated", p.Pos(as), "OR-ed into updatedStreamsDuringTaggingJob after the raise on every path", "converter completion raises Uncertain for "+arg+" without recording it for a running tagging job: "+fl.traceString(after))
				}
			}
		}
	}

	// tagging completion: re-apply after install
	if jf := p.Fns["manager.Manager.updateTagJob"]; jf != nil {
		for _, comp := range ctx.completionsIn(jf) {
			info := comp.Pkg.TypesInfo
			fl := p.Flow(comp)
			tagsFld := p.Field("manager", "Manager", "tags")
			install := fl.Find(func(m ast.Node) bool {
				as, ok := m.(*ast.AssignStmt)
				if !ok || len(as.Lhs) != 1 {
					return false
				}
				ix, ok := ast.Unparen(as.Lhs[0]).(*ast.IndexExpr)
				return ok && isFieldOf(info, ix.X, tagsFld)
			})
			r.Floor(rule+" install sites in tagging completion", 1, len(install))
			for _, pt := range install {
				// after the install every path either calls invalidateTags or passes the guard's condition
				res := fl.ExitAvoiding([]Pt{After(pt)}, func(m ast.Node) bool {
					if fl.hasCall(m, func(c *ast.CallExpr) bool { return p.Callee(comp.Pkg, c) == inval }) {
						return true
					}
					// the guard condition node itself (tests the masks)
					if e, ok := m.(ast.Expr); ok {
						found := false
						ast.Inspect(e, func(x ast.Node) bool {
							if ex, ok := x.(ast.Expr); ok && fieldOf(info, ex) != nil {
								found = true
							}
							return true
						})
						return found
					}
					return false
				})
				r.Check(!res.Found, rule, comp.Key()+" re-applies after installing the job's result", p.Pos(fl.node(pt)), "every path after the install tests the During-masks / re-applies them", "a path installs the job's result (Uncertain = {}) and returns without re-applying invalidations that arrived during the job: "+fl.traceString(res))
			}
		}
	}

	// startTaggingJobIfNeeded resets all three masks before starting a job
	if f := p.Fns["manager.Manager.startTaggingJobIfNeeded"]; f != nil {
		info := f.Pkg.TypesInfo
		fl := p.Flow(f)
		gos := fl.Find(func(m ast.Node) bool { _, ok := m.(*ast.GoStmt); return ok })
		r.Floor(rule+" go sites in startTaggingJobIfNeeded", 1, len(gos))
		for k := 0; k < 3; k++ {
			isReset := func(m ast.Node) bool {
				as, ok := m.(*ast.AssignStmt)
				if !ok || len(as.Lhs) != 1 || len(as.Rhs) != 1 {
					return false
				}
				cl, ok := ast.Unparen(as.Rhs[0]).(*ast.CompositeLit)
				return ok && len(cl.Elts) == 0 && fieldOf(info, as.Lhs[0]) == flds[k]
			}
			for _, g := range gos {
				res := fl.Reach([]Pt{fl.Entry()}, func(m ast.Node) bool { return m == fl.node(g) }, isReset)
				r.Check(!res.Found, rule, "manager.Manager.startTaggingJobIfNeeded resets "+names[k]+" before go", p.Pos(fl.node(g)), "reset dominates the go statement", "a tagging job can start without "+names[k]+" being reset: stale invalidations of the previous job would be re-applied to (or masked for) the new one")
			}
		}
	}
}

// ---- C06-d: a tag is evaluated only after the tags it references are decided ----

func init() {
	register("C06",
		"C06-d (dependency order): a tag's definition is evaluated only when every tag it references is decided — in startTaggingJobIfNeeded the go statement that starts updateTagJob, and in View.prefetchTags the SearchStreams call, are dominated within their loop iteration by a range over the tag's references whose body skips the tag (continue) when a referenced tag is still uncertain. Otherwise the evaluation inlines a stale or undecided answer of the referenced tag and the result is published as decided.",
		ruleC06Order)
}

func ruleC06Order(p *Prog, r *Res) {
	const rule = "C06-d dependency-order"
	r.Rule(rule + ": evaluation of a tag waits for the tags it references")
	refTags := p.Method("manager", "tag", "referencedTags")
	n := 0
	check := func(fkey string, isEval func(f *Fn, n ast.Node) bool, wantGuards int, what string) {
		f := p.Fn(fkey)
		if f == nil {
			return
		}
		info := f.Pkg.TypesInfo
		fl := p.Flow(f)
		// guards: constructs that skip the iteration (continue) while a referenced tag is undecided. Two idioms:
		// (A) a range over a reference list whose body continues the outer loop under an uncertainty test;
		// (B) an if statement whose condition asks slices.ContainsFunc/slices.Contains…(<reference list>, …) and whose
		//     body ends in continue. Each guard covers the main-query references, the sub-query references, or both
		//     (referencedTags()).
		type guard struct {
			node   ast.Node
			covers map[string]bool
		}
		var guards []guard
		refKind := func(e ast.Expr) map[string]bool {
			xe := ast.Unparen(e)
			if c, ok := xe.(*ast.CallExpr); ok && p.Callee(f.Pkg, c) == refTags {
				return map[string]bool{"main": true, "sub": true}
			}
			if se, ok := xe.(*ast.SelectorExpr); ok {
				switch se.Sel.Name {
				case "MainTags":
					return map[string]bool{"main": true}
				case "SubQueryTags":
					return map[string]bool{"sub": true}
				}
			}
			if obj := identObj(info, xe); obj != nil {
				var out map[string]bool
				ast.Inspect(f.Body(), func(y ast.Node) bool {
					if as, ok := y.(*ast.AssignStmt); ok {
						for i, l := range as.Lhs {
							if sameObj(info, l, obj) && i < len(as.Rhs) {
								if c, ok := ast.Unparen(as.Rhs[i]).(*ast.CallExpr); ok && p.Callee(f.Pkg, c) == refTags {
									out = map[string]bool{"main": true, "sub": true}
								}
							}
						}
					}
					return true
				})
				return out
			}
			return nil
		}
		ast.Inspect(f.Body(), func(x ast.Node) bool {
			switch s := x.(type) {
			case *ast.RangeStmt:
				cov := refKind(s.X)
				if cov == nil {
					return true
				}
				skips := false
				ast.Inspect(s.Body, func(y ast.Node) bool {
					if ifs, ok := y.(*ast.IfStmt); ok {
						cond := types.ExprString(ifs.Cond)
						if strings.Contains(cond, "Uncertain") || strings.Contains(cond, "uncertainTags") || strings.Contains(cond, "ok") {
							ast.Inspect(ifs.Body, func(z ast.Node) bool {
								if b, ok := z.(*ast.BranchStmt); ok && b.Tok == token.CONTINUE && b.Label != nil {
									skips = true
								}
								return true
							})
						}
					}
					return true
				})
				if skips {
					guards = append(guards, guard{s.X, cov})
				}
			case *ast.IfStmt:
				if len(s.Body.List) == 0 {
					return true
				}
				if b, ok := s.Body.List[len(s.Body.List)-1].(*ast.BranchStmt); !ok || b.Tok != token.CONTINUE {
					return true
				}
				cov := map[string]bool{}
				// only disjuncts count: `A || B` skips when either list has an undecided tag
				for _, d := range disjuncts(s.Cond) {
					if c, ok := ast.Unparen(d).(*ast.CallExpr); ok && len(c.Args) == 2 {
						if fn := p.Callee(f.Pkg, c); fn != nil && fn.Pkg() != nil && fn.Pkg().Path() == "slices" && (fn.Name() == "ContainsFunc" || fn.Name() == "IndexFunc") {
							for k := range refKind(c.Args[0]) {
								cov[k] = true
							}
						}
					}
				}
				// (C) a predicate — a local closure or a function of the package — that ranges over its parameter and
				// answers true under an uncertainty test: anyPending(f.MainTags) || anyPending(f.SubQueryTags)
				for _, d := range disjuncts(s.Cond) {
					c, ok := ast.Unparen(d).(*ast.CallExpr)
					if !ok || len(c.Args) != 1 {
						continue
					}
					var body *ast.BlockStmt
					var ftype *ast.FuncType
					if o := identObj(info, c.Fun); o != nil {
						ast.Inspect(f.Body(), func(y ast.Node) bool {
							if as, ok := y.(*ast.AssignStmt); ok && len(as.Lhs) == len(as.Rhs) {
								for i, l := range as.Lhs {
									if identObj(info, l) == o {
										if lit, ok := ast.Unparen(as.Rhs[i]).(*ast.FuncLit); ok {
											body, ftype = lit.Body, lit.Type
										}
									}
								}
							}
							return true
						})
					}
					if body == nil {
						if fn := p.Callee(f.Pkg, c); fn != nil {
							if h := p.FnOfObj(fn); h != nil && h.Short == "manager" && h.Body() != nil {
								body, ftype = h.Body(), h.Type()
							}
						}
					}
					if body == nil || ftype.Params == nil || len(ftype.Params.List) != 1 || len(ftype.Params.List[0].Names) != 1 {
						continue
					}
					param := info.Defs[ftype.Params.List[0].Names[0]]
					answers := false
					ast.Inspect(body, func(y ast.Node) bool {
						rs, ok := y.(*ast.RangeStmt)
						if !ok || identObj(info, rs.X) != param || param == nil {
							return true
						}
						ast.Inspect(rs.Body, func(z ast.Node) bool {
							ifs, ok := z.(*ast.IfStmt)
							if !ok {
								return true
							}
							cond := types.ExprString(ifs.Cond)
							if !(strings.Contains(cond, "Uncertain") || strings.Contains(cond, "uncertainTags") || strings.Contains(cond, "ok")) {
								return true
							}
							for _, st := range ifs.Body.List {
								if ret, ok := st.(*ast.ReturnStmt); ok && len(ret.Results) == 1 && types.ExprString(ret.Results[0]) == "true" {
									answers = true
								}
							}
							return true
						})
						return true
					})
					if answers {
						for k := range refKind(c.Args[0]) {
							cov[k] = true
						}
					}
				}
				if len(cov) > 0 {
					guards = append(guards, guard{s.Cond, cov})
				}
			}
			return true
		})
		// (D) the flag form: ranges over reference lists set a boolean local under the uncertainty test, `if flag { continue }`
		// follows. A range that is itself below `if !flag` counts (when it is skipped the flag is already set).
		flagCov := map[types.Object]map[string]bool{}
		flagBad := map[types.Object]bool{}
		inspectParents(f.Body(), func(x ast.Node, parents []ast.Node) bool {
			as, ok := x.(*ast.AssignStmt)
			if !ok || len(as.Lhs) != 1 || len(as.Rhs) != 1 {
				return true
			}
			o := identObj(info, as.Lhs[0])
			v, _ := o.(*types.Var)
			if v == nil || v.IsField() || types.TypeString(v.Type(), nil) != "bool" {
				return true
			}
			rhs := types.ExprString(as.Rhs[0])
			if as.Tok == token.DEFINE && rhs == "false" {
				return true
			}
			if rhs != "true" {
				flagBad[o] = true
				return true
			}
			// innermost reference range around the assignment, with an uncertainty test between it and the assignment
			for i := len(parents) - 1; i >= 0; i-- {
				rs, ok := parents[i].(*ast.RangeStmt)
				if !ok {
					continue
				}
				cov := refKind(rs.X)
				if cov == nil {
					break
				}
				tested := false
				for _, par := range parents[i+1:] {
					if ifs, ok := par.(*ast.IfStmt); ok {
						cond := types.ExprString(ifs.Cond)
						if ifs.Init != nil {
							cond += " " + exprString(p.Fset, ifs.Init)
						}
						if strings.Contains(cond, "Uncertain") || strings.Contains(cond, "uncertainTags") || strings.Contains(cond, "ok") {
							tested = true
						}
					}
				}
				// what encloses the range up to the loop iteration: only `if !flag`
				for j := i - 1; j >= 0 && tested; j-- {
					switch par := parents[j].(type) {
					case *ast.BlockStmt:
					case *ast.IfStmt:
						u, isNot := ast.Unparen(par.Cond).(*ast.UnaryExpr)
						if !isNot || u.Op != token.NOT || identObj(info, u.X) != o || !within(rs, par.Body) {
							tested = false
						}
					case *ast.RangeStmt, *ast.ForStmt:
						j = -1
					default:
						tested = false
					}
				}
				if tested {
					if flagCov[o] == nil {
						flagCov[o] = map[string]bool{}
					}
					for k := range cov {
						flagCov[o][k] = true
					}
				}
				break
			}
			return true
		})
		ast.Inspect(f.Body(), func(x ast.Node) bool {
			ifs, ok := x.(*ast.IfStmt)
			if !ok || len(ifs.Body.List) == 0 {
				return true
			}
			if b, ok := ifs.Body.List[len(ifs.Body.List)-1].(*ast.BranchStmt); !ok || b.Tok != token.CONTINUE {
				return true
			}
			for _, d := range disjuncts(ifs.Cond) {
				if o := identObj(info, d); o != nil && flagCov[o] != nil && !flagBad[o] {
					guards = append(guards, guard{ifs.Cond, flagCov[o]})
				}
			}
			return true
		})
		evals := fl.Find(func(nd ast.Node) bool { return isEval(f, nd) })
		for _, e := range evals {
			n++
			// every path from the head of the enclosing outer loop iteration to the evaluation passes the guard range(s)
			var starts []Pt
			for _, lp := range fl.Loops() {
				if lp.Header != nil && lp.Blocks[e.B] {
					if _, isRange := lp.Stmt.(*ast.RangeStmt); isRange {
						for _, s := range lp.Header.Succs {
							if lp.Blocks[s] {
								starts = append(starts, Pt{s, 0})
							}
						}
					}
				}
			}
			if len(starts) == 0 {
				starts = []Pt{fl.Entry()}
			}
			covered := map[string]bool{}
			for _, g := range guards {
				gx := g.node
				res := fl.Reach(starts, func(m ast.Node) bool { return m == fl.node(e) }, func(m ast.Node) bool { return m == gx })
				if !res.Found {
					for k := range g.covers {
						covered[k] = true
					}
				}
			}
			_ = wantGuards
			r.Check(covered["main"] && covered["sub"], rule, fkey+" "+what, p.Pos(fl.node(e)), "guards over the main-query and the sub-query references dominate the evaluation within the iteration",
				fmt.Sprintf("the evaluation is not guarded for all references (main-query references guarded: %v, sub-query references guarded: %v): a tag can be evaluated while a tag it references is still undecided, and the answer computed from the stale reference is published as decided", covered["main"], covered["sub"]))
		}
	}
	check("manager.Manager.startTaggingJobIfNeeded", func(f *Fn, nd ast.Node) bool {
		g, ok := nd.(*ast.GoStmt)
		if !ok {
			return false
		}
		fn := p.Callee(f.Pkg, g.Call)
		return fn != nil && fn.Name() == "updateTagJob"
	}, 1, "starts updateTagJob")
	check("manager.View.prefetchTags", func(f *Fn, nd ast.Node) bool {
		return nodeCalls(p, f, nd, func(fn *types.Func, _ *ast.CallExpr) bool {
			return fn.Name() == "SearchStreams" && fn.Pkg() != nil && strings.HasSuffix(fn.Pkg().Path(), "/index")
		})
	}, 2, "evaluates a tag")
	r.Floor(rule, 2, n)
}

// ---- C06-e: a bit-level change of a tag's match set marks the stream uncertain ----

func init() {
	register("C06",
		"C06-e (AST, typed): outside the evaluation idiom (Matches.Sub(Uncertain) followed by Set for the streams a tagging job found), every bit-level change of a tag's match set — X.Matches.Set(s) / X.Matches.Unset(s) — has a sibling statement X.Uncertain.Set(s) in the same block: inheritTagUncertainty carries a change of a (mark) tag to the tags that reference it only through that bit; without it dependants keep their old answer and report no uncertain streams.",
		ruleC06MatchChange)
}

func ruleC06MatchChange(p *Prog, r *Res) {
	const rule = "C06-e match-change-marks-uncertain"
	r.Rule(rule + ": X.Matches.Set/Unset(s) outside tag evaluation is paired with X.Uncertain.Set(s)")
	matches := p.Field("query", "TagDetails", "Matches")
	unc := p.Field("query", "TagDetails", "Uncertain")
	if matches == nil || unc == nil {
		p.anchorFail("query.TagDetails.Matches / Uncertain")
		return
	}
	n := 0
	for _, f := range p.FnList {
		if f.Short != "manager" {
			continue
		}
		info := f.Pkg.TypesInfo
		// bitCall returns (base expr text, arg text) for `base.<fld>.<method>(arg)`
		bitCall := func(x ast.Node, fld *types.Var, methods ...string) (string, string, bool) {
			es, ok := x.(*ast.ExprStmt)
			if !ok {
				return "", "", false
			}
			c, ok := es.X.(*ast.CallExpr)
			if !ok || len(c.Args) != 1 {
				return "", "", false
			}
			se, ok := c.Fun.(*ast.SelectorExpr)
			if !ok || !slices.Contains(methods, se.Sel.Name) {
				return "", "", false
			}
			inner, ok := ast.Unparen(se.X).(*ast.SelectorExpr)
			if !ok || info.Uses[inner.Sel] != types.Object(fld) {
				return "", "", false
			}
			return types.ExprString(inner.X), exprString(p.Fset, c.Args[0]), true
		}
		// evaluation idiom: base.Matches.Sub(<re-evaluated streams>) in this function, followed by Set for the streams found
		evalBases := map[string]bool{}
		inspectShallow(f.Body(), func(x ast.Node) bool {
			if base, _, ok := bitCall(x, matches, "Sub"); ok {
				evalBases[base] = true
			}
			return true
		})
		inspectShallow(f.Body(), func(x ast.Node) bool {
			blk, ok := x.(*ast.BlockStmt)
			if !ok {
				return true
			}
			for _, st := range blk.List {
				base, arg, ok := bitCall(st, matches, "Set", "Unset")
				if !ok {
					continue
				}
				n++
				key := fmt.Sprintf("%s %s.Matches bit change (%s)", f.Key(), base, arg)
				if evalBases[base] {
					r.Exempt(rule, key, p.Pos(st), "tag evaluation: the uncertain streams were removed from Matches (Matches.Sub(Uncertain)) and are re-added from the job's result")
					continue
				}
				paired := false
				for _, st2 := range blk.List {
					if b2, a2, ok := bitCall(st2, unc, "Set"); ok && b2 == base && a2 == arg {
						paired = true
					}
				}
				r.Check(paired, rule, key, p.Pos(st), "sibling "+base+".Uncertain.Set("+arg+") in the same block", "the match bit of stream "+arg+" changes but the stream is not marked uncertain: inheritTagUncertainty has nothing to propagate, tags referencing this tag keep a stale answer with UncertainCount 0")
			}
			return true
		})
	}
	r.Floor(rule, 4, n)
}
