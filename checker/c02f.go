package main

// c02f.go: C02-f caller-inputs-survive-the-loop.
//
// SearchStreams evaluates the sub-queries first and the main query last, in one loop, and the callers' restrictions
// (limitIDs, limit, sorting …) are parameters. Inside a loop a parameter may serve as a cursor (x = x[1:], n--), but
// it must not be overwritten with a value that does not derive from itself while other iterations of the same loop
// still read it: those iterations silently run without the caller's input.

import (
	"fmt"
	"go/ast"
	"go/token"
	"go/types"

	"golang.org/x/tools/go/cfg"
)

func init() {
	register("C02",
		"C02-f (FLOW): in package index no function parameter is overwritten, inside a loop, with a value that does not derive from the parameter itself (x = nil, x = other) while the loop also reads the parameter on a path from the loop head that does not pass that assignment: a later iteration (SearchStreams runs the main query after the sub-queries) would otherwise lose the caller's restriction. Per-iteration shadow copies (`x := x`) and cursor updates (x = x[1:], x--) are fine.",
		ruleC02Inputs)
}

func ruleC02Inputs(p *Prog, r *Res) {
	const rule = "C02-f caller-inputs-survive-the-loop"
	r.Rule(rule + ": parameters are not clobbered inside a loop that still needs them")
	nParams, nLoops := 0, 0
	for _, f := range p.FnList {
		if f.Short != "index" || f.Body() == nil || f.Type().Params == nil {
			continue
		}
		info := f.Pkg.TypesInfo
		var params []types.Object
		for i := 0; ; i++ {
			o := paramObj(f, i)
			if o == nil {
				break
			}
			params = append(params, o)
		}
		if len(params) == 0 {
			continue
		}
		nParams += len(params)
		var fl *Flow
		inspectParents(f.Body(), func(x ast.Node, parents []ast.Node) bool {
			as, ok := x.(*ast.AssignStmt)
			if !ok || as.Tok != token.ASSIGN || len(as.Lhs) != len(as.Rhs) {
				return true
			}
			var loop ast.Stmt
			for i := len(parents) - 1; i >= 0 && loop == nil; i-- {
				switch s := parents[i].(type) {
				case *ast.ForStmt:
					loop = s
				case *ast.RangeStmt:
					loop = s
				}
			}
			if loop == nil {
				return true
			}
			for i, l := range as.Lhs {
				po := identObj(info, l)
				isParam := false
				for _, q := range params {
					if q == po {
						isParam = true
					}
				}
				if !isParam {
					continue
				}
				derived := false
				ast.Inspect(as.Rhs[i], func(y ast.Node) bool {
					if id, ok := y.(*ast.Ident); ok && info.Uses[id] == po {
						derived = true
					}
					return true
				})
				if derived {
					continue
				}
				nLoops++
				if fl == nil {
					fl = p.Flow(f)
				}
				var body *ast.BlockStmt
				switch s := loop.(type) {
				case *ast.ForStmt:
					body = s.Body
				case *ast.RangeStmt:
					body = s.Body
				}
				// a read of the parameter inside the loop body, reachable from the start of the body without passing this assignment
				var starts []Pt
				for _, b := range fl.G.Blocks {
					for k, n := range b.Nodes {
						if len(starts) == 0 && len(body.List) > 0 && n.Pos() >= body.List[0].Pos() && n.End() <= body.List[0].End() {
							starts = append(starts, Pt{b, k})
						}
					}
				}
				reads := func(n ast.Node) bool {
					if n == ast.Node(as) || !within(n, body) {
						return false
					}
					found := false
					inspectShallow(n, func(y ast.Node) bool {
						if id, ok := y.(*ast.Ident); ok && info.Uses[id] == po {
							// not as a plain assignment target
							found = true
						}
						return !found
					})
					if a2, ok := n.(*ast.AssignStmt); ok && found {
						onlyTarget := true
						for _, rh := range a2.Rhs {
							ast.Inspect(rh, func(y ast.Node) bool {
								if id, ok := y.(*ast.Ident); ok && info.Uses[id] == po {
									onlyTarget = false
								}
								return true
							})
						}
						if onlyTarget {
							return false
						}
					}
					return found
				}
				key := fmt.Sprintf("%s parameter %s overwritten in a loop", f.Key(), po.Name())
				res := fl.Reach(starts, reads, func(n ast.Node) bool { return n == ast.Node(as) || !within(n, body) })
				r.Check(!res.Found, rule, key, p.Pos(as), "no iteration reads the parameter without passing this assignment", fmt.Sprintf("parameter %s is overwritten with %s inside the loop at line %d, but the loop also reads it on a path that does not pass the assignment (%s): later iterations run without the caller's value", po.Name(), types.ExprString(as.Rhs[i]), lineOf(p.Fset, loop), fl.traceString(res)))
			}
			return true
		})
	}
	r.Note("%s: %d parameters of package index examined, %d non-derived overwrites inside loops", rule, nParams, nLoops)
	r.Floor(rule+" parameters examined", 50, nParams)
}

// ---- C02-g: early exit needs a sorted iteration ----

func init() {
	register("C02",
		"C02-g (FLOW): the result-owner closure reports 'the limit is reached and nothing better can follow' as its first result. A scan may act on that report (bind it to a variable and break/return) only when it visits candidates in sort order, i.e. when its candidate list comes from the sorted-section lookup: every call site of the closure that binds the first result is unreachable from the entry of searchStreams without passing a call of the function-typed lookup parameter. A scan in file order that stops at the first 'limit reached' never sees better matches stored later in the file.",
		func(p *Prog, r *Res) {
			const rule = "C02-g early-exit-needs-sorted-scan"
			r.Rule(rule + ": scans that stop early iterate in sort order")
			f := p.Fn("index.Reader.searchStreams")
			if f == nil {
				return
			}
			info := f.Pkg.TypesInfo
			// the closure variable and the function-typed lookup parameter
			var clo types.Object
			inspectShallow(f.Body(), func(x ast.Node) bool {
				if as, ok := x.(*ast.AssignStmt); ok && len(as.Lhs) == 1 && len(as.Rhs) == 1 && clo == nil {
					if lit, ok := as.Rhs[0].(*ast.FuncLit); ok {
						writes := false
						ast.Inspect(lit.Body, func(y ast.Node) bool {
							if a2, ok := y.(*ast.AssignStmt); ok {
								for _, l := range a2.Lhs {
									if isFieldSel(info, l, "resultData", "streams") {
										writes = true
									}
								}
							}
							return true
						})
						if writes {
							clo = identObj(info, as.Lhs[0])
						}
					}
				}
				return true
			})
			var lookups []types.Object
			for i := 0; ; i++ {
				o := paramObj(f, i)
				if o == nil {
					break
				}
				if sig, ok := o.Type().Underlying().(*types.Signature); ok && sig.Params().Len() == 0 && sig.Results().Len() == 2 {
					lookups = append(lookups, o)
				}
			}
			if clo == nil || len(lookups) == 0 {
				p.anchorFail("result-owner closure / sorted lookup parameter of index.Reader.searchStreams")
				return
			}
			fl := p.Flow(f)
			callsLookup := func(n ast.Node) bool {
				return fl.hasCall(n, func(c *ast.CallExpr) bool {
					o := identObj(info, c.Fun)
					for _, l := range lookups {
						if o == l {
							return true
						}
					}
					return false
				})
			}
			n := 0
			for _, pt := range fl.Find(func(nd ast.Node) bool {
				as, ok := nd.(*ast.AssignStmt)
				if !ok || len(as.Rhs) != 1 {
					return false
				}
				c, ok := as.Rhs[0].(*ast.CallExpr)
				return ok && identObj(info, c.Fun) == clo
			}) {
				as := fl.node(pt).(*ast.AssignStmt)
				n++
				key := fmt.Sprintf("%s scan@%s", f.Key(), relLine(p, f, as))
				id, isID := as.Lhs[0].(*ast.Ident)
				if isID && id.Name == "_" {
					r.Ok(rule, key, p.Pos(as), "ignores the limit report: visits every candidate")
					continue
				}
				// bound but never consulted in a condition (logged, counted): does not stop early
				if isID {
					lo := info.Defs[id]
					if lo == nil {
						lo = info.Uses[id]
					}
					inCond := false
					usedElsewhere := false
					if lo != nil {
						inspectParents(f.Body(), func(y ast.Node, parents []ast.Node) bool {
							yid, ok := y.(*ast.Ident)
							if !ok || info.Uses[yid] != lo {
								return true
							}
							cls := "other"
							for i := len(parents) - 1; i >= 0; i-- {
								var child ast.Node = y
								if i+1 < len(parents) {
									child = parents[i+1]
								}
								switch par := parents[i].(type) {
								case *ast.IfStmt:
									if child == ast.Node(par.Cond) {
										cls = "cond"
									}
								case *ast.ForStmt:
									if par.Cond != nil && child == ast.Node(par.Cond) {
										cls = "cond"
									}
								case *ast.SwitchStmt:
									if par.Tag != nil && child == ast.Node(par.Tag) {
										cls = "cond"
									}
								case *ast.CaseClause:
									for _, e := range par.List {
										if child == ast.Node(e) {
											cls = "cond"
										}
									}
								case *ast.AssignStmt:
									// `_ = x` keeps the compiler quiet and nothing else
									if len(par.Lhs) == 1 && len(par.Rhs) == 1 && child == ast.Node(par.Rhs[0]) {
										if l, ok := par.Lhs[0].(*ast.Ident); ok && l.Name == "_" {
											cls = "discard"
										}
									}
								case *ast.CallExpr:
									if fn := p.Callee(f.Pkg, par); fn != nil && fn.Pkg() != nil && (fn.Pkg().Path() == "log" || fn.Pkg().Path() == "fmt") && cls == "other" {
										cls = "discard"
									}
								}
								if cls != "other" {
									break
								}
							}
							switch cls {
							case "cond":
								inCond = true
							case "other":
								usedElsewhere = true
							}
							return true
						})
						if !inCond && !usedElsewhere {
							r.Ok(rule, key, p.Pos(as), "binds the limit report but never consults it: visits every candidate")
							continue
						}
					}
				}
				res := fl.Reach([]Pt{fl.Entry()}, func(x ast.Node) bool { return x == ast.Node(as) }, callsLookup)
				r.Check(!res.Found, rule, key, p.Pos(as), "acts on the limit report; reachable only after the sorted-section lookup", "this scan stops when the closure reports the limit as reached, but it can run without the sorted-section lookup ("+fl.traceString(res)+"): in file order a better match stored later is never looked at, the page holds the wrong streams")
			}
			r.Floor(rule, 3, n)
		})
}

// ---- C02-h: file-relative values are compared only within one file ----

func init() {
	register("C02",
		"C02-h (AST, typed): host-table indexes (HostGroup, ClientHost, ServerHost), packet/data offsets and the nanosecond time fields of a stream are relative to the index file the stream was read from. In every function of package index that takes two streams, a comparison of such a field of one stream with the same field of the other is guarded by the identity of their readers (`a.r == b.r` as a conjunct of the same condition or of an enclosing if): across files equal indexes name different hosts, so an unguarded shortcut makes streams with different addresses compare equal and the sort order — and with a limit the page — wrong.",
		ruleC02FileRelative)
}

func ruleC02FileRelative(p *Prog, r *Res) {
	const rule = "C02-h file-relative-compare-guarded"
	r.Rule(rule + ": file-relative stream fields of two streams are compared only under a.r == b.r")
	relative := map[string]bool{"HostGroup": true, "ClientHost": true, "ServerHost": true, "FirstPacketTimeNS": true, "LastPacketTimeNS": true, "PacketInfoStart": true, "DataStart": true, "index": true, "Index()": true}
	n := 0
	// every function body of package index, including literals in package-level variable initialisers (the comparator table)
	type body struct {
		name string
		typ  *ast.FuncType
		blk  *ast.BlockStmt
	}
	var bodies []body
	pk := p.By["index"]
	if pk == nil {
		return
	}
	info := pk.TypesInfo
	for _, file := range pk.Syntax {
		nLit := 0
		var encl string
		inspectAllParents(file, func(x ast.Node, parents []ast.Node) bool {
			switch fd := x.(type) {
			case *ast.FuncDecl:
				encl = fd.Name.Name
				nLit = 0
				if fd.Body != nil {
					bodies = append(bodies, body{"index." + fd.Name.Name, fd.Type, fd.Body})
				}
			case *ast.FuncLit:
				name := ""
				if len(parents) > 0 {
					if kv, ok := parents[len(parents)-1].(*ast.KeyValueExpr); ok && kv.Value == ast.Expr(fd) {
						name = "index comparator[" + types.ExprString(kv.Key) + "]"
					}
				}
				if name == "" {
					nLit++
					name = fmt.Sprintf("index.%s literal#%d", encl, nLit)
				}
				bodies = append(bodies, body{name, fd.Type, fd.Body})
			}
			return true
		})
	}
	for _, bd := range bodies {
		var streams []types.Object
		for _, fld := range bd.typ.Params.List {
			for _, id := range fld.Names {
				o := info.Defs[id]
				// only the reader-bound Stream (it carries the reader it was read from); raw `stream` records are compared
				// inside one file by construction (writer-side lookups)
				if o != nil {
					if nt := namedOf(o.Type()); nt != nil && nt.Obj().Name() == "Stream" {
						streams = append(streams, o)
					}
				}
			}
		}
		if len(streams) < 2 {
			continue
		}
		fieldOfStream := func(e ast.Expr) (types.Object, string) {
			e = ast.Unparen(e)
			if c, ok := e.(*ast.CallExpr); ok && len(c.Args) == 0 {
				// accessor of a file-relative value: X.Index()
				if se, ok := ast.Unparen(c.Fun).(*ast.SelectorExpr); ok && se.Sel.Name == "Index" {
					o := identObj(info, se.X)
					for _, s := range streams {
						if s == o {
							return o, "Index()"
						}
					}
				}
				return nil, ""
			}
			se, ok := e.(*ast.SelectorExpr)
			if !ok {
				return nil, ""
			}
			o := identObj(info, se.X)
			for _, s := range streams {
				if s == o {
					return o, se.Sel.Name
				}
			}
			return nil, ""
		}
		sameReader := func(cond ast.Expr) bool {
			for _, c := range conjuncts(cond) {
				be, ok := ast.Unparen(c).(*ast.BinaryExpr)
				if !ok || be.Op != token.EQL {
					continue
				}
				ox, fx := fieldOfStream(be.X)
				oy, fy := fieldOfStream(be.Y)
				if ox != nil && oy != nil && ox != oy && fx == "r" && fy == "r" {
					return true
				}
			}
			return false
		}
		inspectParents(bd.blk, func(x ast.Node, parents []ast.Node) bool {
			be, ok := x.(*ast.BinaryExpr)
			if !ok {
				return true
			}
			switch be.Op {
			case token.EQL, token.NEQ, token.LSS, token.GTR, token.LEQ, token.GEQ:
			default:
				return true
			}
			ox, fx := fieldOfStream(be.X)
			oy, fy := fieldOfStream(be.Y)
			if ox == nil || oy == nil || ox == oy || fx != fy || !relative[fx] {
				return true
			}
			n++
			key := fmt.Sprintf("%s compares %s of two streams (+%d)", bd.name, fx, lineOf(p.Fset, be)-lineOf(p.Fset, bd.blk))
			guarded := false
			// same condition (walk up through && chains) or an enclosing if
			for i := len(parents) - 1; i >= 0 && !guarded; i-- {
				switch par := parents[i].(type) {
				case *ast.BinaryExpr:
					if par.Op == token.LAND && sameReader(par) {
						guarded = true
					}
				case *ast.IfStmt:
					var child ast.Node = x
					if i+1 < len(parents) {
						child = parents[i+1]
					}
					if sameReader(par.Cond) && (child == ast.Node(par.Body) || child == ast.Node(par.Cond)) {
						guarded = true
					}
				}
			}
			if !guarded {
				// path form: every path from the entry of the function to the comparison takes an edge that establishes
				// a.r == b.r (true edge of a condition with that conjunct, false edge of one with the disjunct a.r != b.r,
				// possibly through a local boolean)
				g := cfg.New(bd.blk, func(*ast.CallExpr) bool { return true })
				gfl := &Flow{P: p, G: g, at: map[ast.Node]Pt{}}
				resolve := func(c ast.Expr) ast.Expr {
					c = ast.Unparen(c)
					if id, ok := c.(*ast.Ident); ok {
						if o := info.Uses[id]; o != nil {
							var def ast.Expr
							nDef := 0
							ast.Inspect(bd.blk, func(y ast.Node) bool {
								if as, ok := y.(*ast.AssignStmt); ok && len(as.Lhs) == len(as.Rhs) {
									for i, l := range as.Lhs {
										if identObj(info, l) == o {
											nDef++
											def = as.Rhs[i]
										}
									}
								}
								return true
							})
							if nDef == 1 {
								return ast.Unparen(def)
							}
						}
					}
					return c
				}
				readerCmp := func(c ast.Expr, op token.Token) bool {
					c = resolve(c)
					if ue, ok := c.(*ast.UnaryExpr); ok && ue.Op == token.NOT {
						c = resolve(ue.X)
						if op == token.EQL {
							op = token.NEQ
						} else {
							op = token.EQL
						}
					}
					b2, ok := c.(*ast.BinaryExpr)
					if !ok || b2.Op != op {
						return false
					}
					o1, f1 := fieldOfStream(b2.X)
					o2, f2 := fieldOfStream(b2.Y)
					return o1 != nil && o2 != nil && o1 != o2 && f1 == "r" && f2 == "r"
				}
				establishes := false
				gfl.EdgeOK = func(b *cfg.Block, succ int) bool {
					if len(b.Succs) != 2 || len(b.Nodes) == 0 {
						return true
					}
					cond, ok := b.Nodes[len(b.Nodes)-1].(ast.Expr)
					if !ok {
						return true
					}
					if succ == 0 {
						for _, c := range conjuncts(cond) {
							if readerCmp(c, token.EQL) {
								establishes = true
								return false
							}
						}
					} else {
						for _, c := range disjuncts(cond) {
							if readerCmp(c, token.NEQ) {
								establishes = true
								return false
							}
						}
					}
					return true
				}
				res := gfl.Reach([]Pt{gfl.Entry()}, func(nd ast.Node) bool { return nd.Pos() <= be.Pos() && be.End() <= nd.End() }, nil)
				if !res.Found && establishes {
					guarded = true
				}
			}
			r.Check(guarded, rule, key, p.Pos(be), "under a.r == b.r", "the "+fx+" values of two streams are compared without knowing that both come from the same index file: "+fx+" is relative to the file, equal values in different files mean different things")
			return true
		})
	}
	r.Floor(rule, 4, n)
}

// inspectAllParents walks root (descending into function literals too) and calls f with each node and its ancestors.
func inspectAllParents(root ast.Node, f func(n ast.Node, parents []ast.Node) bool) {
	var stack []ast.Node
	ast.Inspect(root, func(n ast.Node) bool {
		if n == nil {
			stack = stack[:len(stack)-1]
			return true
		}
		ok := f(n, stack)
		if !ok {
			return false
		}
		stack = append(stack, n)
		return true
	})
}

// comparatorDelegate: the comparator literal is `return h(a, b, …)` (or h(b, a, …)) for a declared function h of the
// same package; returns h, and whether the operands are passed in order. (A method of Prog: the thorough tier analyses
// many programs in parallel, nothing about one of them may live in a package-level variable.)
func (p *Prog) comparatorDelegate(info *types.Info, lit *ast.FuncLit, a, b types.Object) (*Fn, bool, bool) {
	if len(lit.Body.List) != 1 {
		return nil, false, false
	}
	ret, ok := lit.Body.List[0].(*ast.ReturnStmt)
	if !ok || len(ret.Results) != 1 {
		return nil, false, false
	}
	c, ok := ast.Unparen(ret.Results[0]).(*ast.CallExpr)
	if !ok || len(c.Args) < 2 {
		return nil, false, false
	}
	var owner *Fn
	for _, f := range p.FnList {
		if f.Short == "index" && f.Pkg.TypesInfo == info {
			owner = f
			break
		}
	}
	if owner == nil {
		return nil, false, false
	}
	fn := p.Callee(owner.Pkg, c)
	if fn == nil {
		return nil, false, false
	}
	h := p.FnOfObj(fn)
	if h == nil || h.Lit != nil || h.Body() == nil {
		return nil, false, false
	}
	x, y := identObj(info, c.Args[0]), identObj(info, c.Args[1])
	switch {
	case x == a && y == b:
		return h, true, true
	case x == b && y == a:
		return h, false, true
	}
	return nil, false, false
}
