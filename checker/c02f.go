package main

// c02f.go: C02-f caller-inputs-survive-the-loop.
//
// SearchStreams evaluates the sub-queries first and the main query last, in one loop, and the callers' restrictions
// (limitIDs, limit, sorting …) are parameters. Inside a loop a parameter may serve as a cursor (x = x[1:], n--), but
// it must not be overwritten with a value that does not derive from itself while other iterations of the same loop
// still read it: those iterations silently run without the caller's input.

import (
	"fmt"
	"go/ast"
	"go/token"
	"go/types"
)

func init() {
	register("C02",
		"C02-f (FLOW): in package index no function parameter is overwritten, inside a loop, with a value that does not derive from the parameter itself (x = nil, x = other) while the loop also reads the parameter on a path from the loop head that does not pass that assignment: a later iteration (SearchStreams runs the main query after the sub-queries) would otherwise lose the caller's restriction. Per-iteration shadow copies (`x := x`) and cursor updates (x = x[1:], x--) are fine.",
		ruleC02Inputs)
}

func ruleC02Inputs(p *Prog, r *Res) {
	const rule = "C02-f caller-inputs-survive-the-loop"
	r.Rule(rule + ": parameters are not clobbered inside a loop that still needs them")
	nParams, nLoops := 0, 0
	for _, f := range p.FnList {
		if f.Short != "index" || f.Body() == nil || f.Type().Params == nil {
			continue
		}
		info := f.Pkg.TypesInfo
		var params []types.Object
		for i := 0; ; i++ {
			o := paramObj(f, i)
			if o == nil {
				break
			}
			params = append(params, o)
		}
		if len(params) == 0 {
			continue
		}
		nParams += len(params)
		var fl *Flow
		inspectParents(f.Body(), func(x ast.Node, parents []ast.Node) bool {
			as, ok := x.(*ast.AssignStmt)
			if !ok || as.Tok != token.ASSIGN || len(as.Lhs) != len(as.Rhs) {
				return true
			}
			var loop ast.Stmt
			for i := len(parents) - 1; i >= 0 && loop == nil; i-- {
				switch s := parents[i].(type) {
				case *ast.ForStmt:
					loop = s
				case *ast.RangeStmt:
					loop = s
				}
			}
			if loop == nil {
				return true
			}
			for i, l := range as.Lhs {
				po := identObj(info, l)
				isParam := false
				for _, q := range params {
					if q == po {
						isParam = true
					}
				}
				if !isParam {
					continue
				}
				derived := false
				ast.Inspect(as.Rhs[i], func(y ast.Node) bool {
					if id, ok := y.(*ast.Ident); ok && info.Uses[id] == po {
						derived = true
					}
					return true
				})
				if derived {
					continue
				}
				nLoops++
				if fl == nil {
					fl = p.Flow(f)
				}
				var body *ast.BlockStmt
				switch s := loop.(type) {
				case *ast.ForStmt:
					body = s.Body
				case *ast.RangeStmt:
					body = s.Body
				}
				// a read of the parameter inside the loop body, reachable from the start of the body without passing this assignment
				var starts []Pt
				for _, b := range fl.G.Blocks {
					for k, n := range b.Nodes {
						if len(starts) == 0 && len(body.List) > 0 && n.Pos() >= body.List[0].Pos() && n.End() <= body.List[0].End() {
							starts = append(starts, Pt{b, k})
						}
					}
				}
				reads := func(n ast.Node) bool {
					if n == ast.Node(as) || !within(n, body) {
						return false
					}
					found := false
					inspectShallow(n, func(y ast.Node) bool {
						if id, ok := y.(*ast.Ident); ok && info.Uses[id] == po {
							// not as a plain assignment target
							found = true
						}
						return !found
					})
					if a2, ok := n.(*ast.AssignStmt); ok && found {
						onlyTarget := true
						for _, rh := range a2.Rhs {
							ast.Inspect(rh, func(y ast.Node) bool {
								if id, ok := y.(*ast.Ident); ok && info.Uses[id] == po {
									onlyTarget = false
								}
								return true
							})
						}
						if onlyTarget {
							return false
						}
					}
					return found
				}
				key := fmt.Sprintf("%s parameter %s overwritten in a loop", f.Key(), po.Name())
				res := fl.Reach(starts, reads, func(n ast.Node) bool { return n == ast.Node(as) || !within(n, body) })
				r.Check(!res.Found, rule, key, p.Pos(as), "no iteration reads the parameter without passing this assignment", fmt.Sprintf("parameter %s is overwritten with %s inside the loop at line %d, but the loop also reads it on a path that does not pass the assignment (%s): later iterations run without the caller's value", po.Name(), types.ExprString(as.Rhs[i]), lineOf(p.Fset, loop), fl.traceString(res)))
			}
			return true
		})
	}
	r.Note("%s: %d parameters of package index examined, %d non-derived overwrites inside loops", rule, nParams, nLoops)
	r.Floor(rule+" parameters examined", 50, nParams)
}
