package main

// c11i.go: C11-i the places that recognise a mark-type tag agree on what one is.
//
// parseTagName defines it: the prefixes `mark/` and `generated/` both denote a tag whose definition is a list of
// stream ids and whose matches are read off that list without a search. AddTag and the state loader restrict the
// definition of both kinds to id filters. A site that tests only `mark/` (the query path of UpdateTag did) lets a
// `generated/` tag be given an arbitrary query: the next mark operation rewrites its definition textually
// ("tag:a,2"), and at the next start the state loader — which does apply the restriction — rejects the whole state
// file. Rule: in package manager every condition that contains strings.HasPrefix(x, "mark/") also contains
// strings.HasPrefix(x, "generated/") for the same x in the same disjunction (or conjunction, when negated), and the
// reverse; sites that use parseTagName's third result are right by construction.

import (
	"fmt"
	"go/ast"
	"go/constant"
	"go/types"
)

func init() {
	register("C11",
		"C11-i (sibling agreement, typed AST): parseTagName treats the prefixes `mark/` and `generated/` alike (a tag defined by a list of stream ids). Every condition in package manager that tests a name with strings.HasPrefix(x, \"mark/\") also tests strings.HasPrefix(x, \"generated/\") on the same x, and the reverse. A site that knows only one of the two applies the id-filter restriction to one kind only: UpdateTag accepted an arbitrary query for a generated/ tag, the next mark operation corrupted its definition and the next start rejected the whole state file.",
		func(p *Prog, r *Res) {
			const rule = "C11-i mark-type-tests-agree"
			r.Rule(rule + ": mark/ and generated/ are tested together")
			n := 0
			for _, f := range p.FnList {
				if f.Short != "manager" || f.Body() == nil {
					continue
				}
				info := f.Pkg.TypesInfo
				prefixTest := func(e ast.Expr) (string, string) {
					c, ok := ast.Unparen(e).(*ast.CallExpr)
					if !ok || len(c.Args) != 2 {
						return "", ""
					}
					fn := p.Callee(f.Pkg, c)
					if fn == nil || fn.FullName() != "strings.HasPrefix" {
						return "", ""
					}
					tv, ok := info.Types[c.Args[1]]
					if !ok || tv.Value == nil || tv.Value.Kind() != constant.String {
						return "", ""
					}
					return exprString(p.Fset, c.Args[0]), constant.StringVal(tv.Value)
				}
				// maximal boolean expressions: conditions of if/for/switch-case and boolean assignments
				var visit func(e ast.Expr)
				seen := map[ast.Expr]bool{}
				visit = func(e ast.Expr) {
					if seen[e] {
						return
					}
					seen[e] = true
					tests := map[string]map[string]bool{} // subject -> prefixes
					ast.Inspect(e, func(y ast.Node) bool {
						if ex, ok := y.(ast.Expr); ok {
							if subj, pre := prefixTest(ex); subj != "" {
								if tests[subj] == nil {
									tests[subj] = map[string]bool{}
								}
								tests[subj][pre] = true
							}
						}
						return true
					})
					for subj, pres := range tests {
						if !pres["mark/"] && !pres["generated/"] {
							continue
						}
						n++
						key := fmt.Sprintf("%s test of %s@%s", f.Key(), subj, relLine(p, f, e))
						r.Check(pres["mark/"] && pres["generated/"], rule, key, p.Pos(e), "tests mark/ and generated/", fmt.Sprintf("the name %s is tested for %s only: parseTagName, AddTag and the state loader treat mark/ and generated/ alike, so whatever this condition guards (the id-filter restriction, the mark operations) applies to one of the two kinds only", subj, map[bool]string{true: "mark/", false: "generated/"}[pres["mark/"]]))
					}
				}
				inspectShallow(f.Body(), func(x ast.Node) bool {
					switch s := x.(type) {
					case *ast.IfStmt:
						visit(s.Cond)
					case *ast.ForStmt:
						if s.Cond != nil {
							visit(s.Cond)
						}
					case *ast.AssignStmt:
						for _, rh := range s.Rhs {
							if t := info.TypeOf(rh); t != nil {
								if b, ok := t.Underlying().(*types.Basic); ok && b.Info()&types.IsBoolean != 0 {
									visit(rh)
								}
							}
						}
					case *ast.ReturnStmt:
						for _, rh := range s.Results {
							if t := info.TypeOf(rh); t != nil {
								if b, ok := t.Underlying().(*types.Basic); ok && b.Info()&types.IsBoolean != 0 {
									visit(rh)
								}
							}
						}
					}
					return true
				})
			}
			r.Floor(rule, 2, n)
		})
}
