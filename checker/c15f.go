package main

// c15f.go: two bookkeeping rules of the converter cache.
//
// C15-f reset-covers-bookkeeping: Reset() re-initialises every bookkeeping field of cacheFile — every field that
// some other function of the package assigns, and every field NewCacheFile initialises from something other than
// its parameters / the opened file. A forgotten field keeps describing the file that was just emptied.
//
// C15-g no-stale-bookkeeping-snapshot: a local copied from a bookkeeping field is not used after a call that may
// assign that field (e.g. an offset computed before truncateFile() compacts the file).

import (
	"fmt"
	"go/ast"
	"go/token"
	"go/types"
	"sort"
	"strings"
)

func init() {
	const explF = "C15-f (sibling agreement): cacheFile.Reset assigns every bookkeeping field of cacheFile — every field assigned by another function of package converters, and every field NewCacheFile's literal initialises with a value that is not a parameter or the opened file; a field Reset forgets still describes the file that was just truncated (e.g. freeStart beyond the new end: the next compaction parses from the middle of a record)."
	const explG = "C15-g (FLOW + callee effect summaries, depth 2): a local variable defined from a scalar bookkeeping field of cacheFile (fileSize, freeStart, freeSize), or copied from an entry of a bookkeeping map (streamInfos[id]: where the record lies), is not used after a call, reachable from its definition, of a function that may assign that field, unless it is redefined in between: the index entry of a freshly stored record would otherwise be computed from the file layout before compaction."
	register("C15", explF, ruleC15ResetCovers)
	register("C15", explG, ruleC15StaleSnapshot)
	register("C16", "C16-e = "+explG, ruleC15StaleSnapshot)
}

// cacheFieldWrites returns, per function of package converters, the cacheFile fields it assigns directly.
func cacheFieldWrites(p *Prog) (map[*Fn]map[*types.Var]bool, *types.Named) {
	cf := p.Named("converters", "cacheFile")
	out := map[*Fn]map[*types.Var]bool{}
	if cf == nil {
		return out, nil
	}
	isCF := func(info *types.Info, e ast.Expr) *types.Var {
		se, ok := ast.Unparen(e).(*ast.SelectorExpr)
		if !ok {
			return nil
		}
		v, ok := info.Uses[se.Sel].(*types.Var)
		if !ok || !v.IsField() {
			return nil
		}
		if n := namedOf(info.TypeOf(se.X)); n != nil && n.Obj() == cf.Obj() {
			return v
		}
		return nil
	}
	for _, f := range p.FnList {
		if f.Short != "converters" || f.Body() == nil {
			continue
		}
		info := f.Pkg.TypesInfo
		w := map[*types.Var]bool{}
		lhs := func(e ast.Expr) {
			if v := isCF(info, e); v != nil {
				w[v] = true
			}
			if ix, ok := ast.Unparen(e).(*ast.IndexExpr); ok {
				if v := isCF(info, ix.X); v != nil {
					w[v] = true
				}
			}
		}
		inspectShallow(f.Body(), func(x ast.Node) bool {
			switch s := x.(type) {
			case *ast.AssignStmt:
				if s.Tok != token.DEFINE {
					for _, l := range s.Lhs {
						lhs(l)
					}
				}
			case *ast.IncDecStmt:
				lhs(s.X)
			case *ast.CallExpr:
				if isBuiltin(info, s, "delete") && len(s.Args) == 2 {
					lhs(s.Args[0])
				}
			}
			return true
		})
		// nested literals belong to the declared function
		root := f.Root()
		if out[root] == nil {
			out[root] = map[*types.Var]bool{}
		}
		for v := range w {
			out[root][v] = true
		}
	}
	return out, cf
}

func ruleC15ResetCovers(p *Prog, r *Res) {
	const rule = "C15-f reset-covers-bookkeeping"
	r.Rule(rule + ": Reset assigns every cacheFile field that other code assigns or that NewCacheFile initialises")
	writes, cf := cacheFieldWrites(p)
	reset, ctor := p.Fn("converters.cacheFile.Reset"), p.Fn("converters.NewCacheFile")
	if cf == nil || reset == nil || ctor == nil {
		p.anchorFail("converters.cacheFile / Reset / NewCacheFile")
		return
	}
	need := map[*types.Var]string{}
	for _, f := range p.FnList {
		w := writes[f]
		if f == reset || w == nil {
			continue
		}
		for v := range w {
			if need[v] == "" {
				need[v] = "assigned in " + f.Key()
			}
		}
	}
	// literal in NewCacheFile
	info := ctor.Pkg.TypesInfo
	params := map[types.Object]bool{}
	for _, fld := range ctor.Type().Params.List {
		for _, id := range fld.Names {
			params[info.Defs[id]] = true
		}
	}
	inspectShallow(ctor.Body(), func(x ast.Node) bool {
		cl, ok := x.(*ast.CompositeLit)
		if !ok {
			return true
		}
		if n := namedOf(info.TypeOf(cl)); n == nil || n.Obj() != cf.Obj() {
			return true
		}
		for _, el := range cl.Elts {
			kv, ok := el.(*ast.KeyValueExpr)
			if !ok {
				continue
			}
			k, ok := kv.Key.(*ast.Ident)
			if !ok {
				continue
			}
			fv, _ := info.Uses[k].(*types.Var)
			if fv == nil {
				continue
			}
			// values taken from a parameter or a local (the opened file) identify the cache, they are not bookkeeping
			if id, ok := ast.Unparen(kv.Value).(*ast.Ident); ok {
				if _, isVar := info.Uses[id].(*types.Var); isVar {
					continue
				}
			}
			if need[fv] == "" {
				need[fv] = "initialised by NewCacheFile"
			}
		}
		return true
	})
	var fields []*types.Var
	for v := range need {
		fields = append(fields, v)
	}
	sort.Slice(fields, func(i, j int) bool { return fields[i].Name() < fields[j].Name() })
	for _, v := range fields {
		key := "Reset assigns cacheFile." + v.Name()
		r.Check(writes[reset][v], rule, key, p.Pos(reset.Node()), need[v]+"; assigned in Reset", "cacheFile."+v.Name()+" ("+need[v]+") is not re-initialised by Reset: after a reset it still describes the old file contents")
	}
	r.Floor(rule, 4, len(fields))
}

func ruleC15StaleSnapshot(p *Prog, r *Res) {
	const rule = "C15-g no-stale-bookkeeping-snapshot"
	r.Rule(rule + ": a local copy of cacheFile.{fileSize,freeStart,freeSize} is not used after a call that may change the field")
	writes, cf := cacheFieldWrites(p)
	if cf == nil {
		p.anchorFail("converters.cacheFile")
		return
	}
	// transitive effect (depth 2) over static callees inside the package
	effect := func(f *Fn) map[*types.Var]bool {
		out := map[*types.Var]bool{}
		seen := map[*Fn]bool{}
		var walk func(g *Fn, d int)
		walk = func(g *Fn, d int) {
			if g == nil || seen[g] {
				return
			}
			seen[g] = true
			for v := range writes[g.Root()] {
				out[v] = true
			}
			if d == 0 || g.Body() == nil {
				return
			}
			for _, c := range callsIn(g.Body()) {
				if fn := p.Callee(g.Pkg, c); fn != nil {
					if h := p.FnOfObj(fn); h != nil && h.Short == "converters" {
						walk(h, d-1)
					}
				}
			}
		}
		walk(f, 2)
		return out
	}
	nDefs := 0
	for _, f := range p.FnList {
		if f.Short != "converters" || f.Decl == nil || f.Body() == nil {
			continue
		}
		info := f.Pkg.TypesInfo
		fl := p.Flow(f)
		type def struct {
			v     types.Object
			flds  map[*types.Var]bool
			node  ast.Node
			names string
		}
		var defs []def
		for _, pt := range fl.Find(func(n ast.Node) bool { _, ok := n.(*ast.AssignStmt); return ok }) {
			as := fl.node(pt).(*ast.AssignStmt)
			// a copy of an entry of a bookkeeping MAP (`info, ok := cachefile.streamInfos[id]`): the entry describes
			// where the record lies in the file, a compaction moves the record and rewrites the entry
			if len(as.Rhs) == 1 && (len(as.Lhs) == 1 || len(as.Lhs) == 2) {
				if ix, ok := ast.Unparen(as.Rhs[0]).(*ast.IndexExpr); ok {
					if se, ok := ast.Unparen(ix.X).(*ast.SelectorExpr); ok {
						if v, ok := info.Uses[se.Sel].(*types.Var); ok && v.IsField() {
							if n := namedOf(info.TypeOf(se.X)); n != nil && n.Obj() == cf.Obj() {
								if _, isMap := v.Type().Underlying().(*types.Map); isMap {
									if id, ok := as.Lhs[0].(*ast.Ident); ok && id.Name != "_" {
										if o := info.ObjectOf(id); o != nil {
											defs = append(defs, def{o, map[*types.Var]bool{v: true}, as, v.Name() + "[…]"})
										}
									}
									continue
								}
							}
						}
					}
				}
			}
			if len(as.Lhs) != len(as.Rhs) {
				continue
			}
			for i, l := range as.Lhs {
				id, ok := l.(*ast.Ident)
				if !ok || id.Name == "_" {
					continue
				}
				o := info.ObjectOf(id)
				if o == nil {
					continue
				}
				if b, ok := o.Type().Underlying().(*types.Basic); !ok || b.Info()&types.IsNumeric == 0 {
					continue
				}
				flds := map[*types.Var]bool{}
				var names []string
				ast.Inspect(as.Rhs[i], func(x ast.Node) bool {
					if se, ok := x.(*ast.SelectorExpr); ok {
						if v, ok := info.Uses[se.Sel].(*types.Var); ok && v.IsField() {
							if n := namedOf(info.TypeOf(se.X)); n != nil && n.Obj() == cf.Obj() {
								if b, ok := v.Type().Underlying().(*types.Basic); ok && b.Info()&types.IsNumeric != 0 {
									flds[v] = true
									names = append(names, v.Name())
								}
							}
						}
					}
					return true
				})
				if len(flds) > 0 {
					defs = append(defs, def{o, flds, as, strings.Join(names, ",")})
				}
			}
		}
		for _, d := range defs {
			nDefs++
			key := fmt.Sprintf("%s local %s := …%s…", f.Key(), d.v.Name(), d.names)
			redef := func(n ast.Node) bool {
				// searches start behind the definition: meeting it again (in a loop) is a redefinition
				switch s := n.(type) {
				case *ast.AssignStmt:
					for _, l := range s.Lhs {
						if sameObj(info, l, d.v) {
							return true
						}
					}
				case *ast.IncDecStmt:
					return sameObj(info, s.X, d.v)
				}
				return false
			}
			uses := func(n ast.Node) bool {
				found := false
				inspectShallow(n, func(x ast.Node) bool {
					if id, ok := x.(*ast.Ident); ok && info.Uses[id] == d.v {
						found = true
					}
					return !found
				})
				return found
			}
			clobber := func(n ast.Node) (bool, string) {
				hit, what := false, ""
				inspectShallow(n, func(x ast.Node) bool {
					if c, ok := x.(*ast.CallExpr); ok && !hit {
						if fn := p.Callee(f.Pkg, c); fn != nil {
							if g := p.FnOfObj(fn); g != nil && g.Short == "converters" {
								for v := range effect(g) {
									if d.flds[v] {
										hit, what = true, g.Key()+" (assigns "+v.Name()+")"
									}
								}
							}
						}
					}
					return !hit
				})
				return hit, what
			}
			dpt, _ := fl.PointOf(d.node)
			bad := false
			for _, cpt := range fl.Find(func(n ast.Node) bool { h, _ := clobber(n); return h && n != d.node }) {
				cn := fl.node(cpt)
				if !fl.Reach([]Pt{After(dpt)}, func(n ast.Node) bool { return n == cn }, redef).Found {
					continue
				}
				res := fl.Reach([]Pt{After(cpt)}, uses, redef)
				if res.Found {
					_, what := clobber(cn)
					bad = true
					r.Bad(rule, key, p.Pos(res.End), fmt.Sprintf("%s was computed from cacheFile.%s at line %d, then %s is called at line %d and %s is used afterwards: the value describes the file layout before that call", d.v.Name(), d.names, lineOf(p.Fset, d.node), what, lineOf(p.Fset, cn), d.v.Name()))
					break
				}
			}
			if !bad {
				r.Ok(rule, key, p.Pos(d.node), "no use after a call that may assign the field")
			}
		}
	}
	r.Floor(rule, 1, nDefs)
}
