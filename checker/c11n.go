package main

// c11n.go: C11-n / C12-p a definition that is extended as text has been checked to have the form that allows it.
//
// The mark-add path of UpdateTag does not re-parse a long id list: it appends ",<ids>" to the TEXT of the definition.
// That is only a query again if the text is a plain `id:` list. AddTag accepts every definition whose conditions filter
// on ids only — "id:1\n" (an untrimmed request body), `id:"1"`, `id:1 limit:10`, `-id:3` — and the appended text made
// those unparsable: after a restart the loader refused the whole state file and every tag was gone (#55).
//
// Rule (FLOW): in package manager every assignment to tag.definition whose value is built from a tag's previous
// definition by formatting or concatenation is reached only over an edge on which a boolean function of package manager
// applied to that definition holds (a syntactic check of the form), taking conjunctions into account like C11-m.

import (
	"fmt"
	"go/ast"
	"go/token"
	"go/types"

	"golang.org/x/tools/go/cfg"
)

func init() {
	const expl = "(FLOW): in package manager every assignment to tag.definition whose value is built from a previous definition by fmt.Sprintf or string concatenation is reached only over an edge on which a boolean function of the package, applied to a tag's definition, holds — the check that the text has the form the edit assumes. The mark-add path appends `,<ids>` to the text; for a definition that is accepted but not a plain id list (`id:\"1\"`, `id:1 limit:10`, a trailing newline) the result is not a query, and the loader refuses the whole state file after the next restart: every tag is lost."
	register("C11", "C11-n "+expl, func(p *Prog, r *Res) { ruleTextEditChecked(p, r, "C11-n text-edit-of-a-definition-is-checked") })
	register("C12", "C12-p "+expl, func(p *Prog, r *Res) { ruleTextEditChecked(p, r, "C12-p text-edit-of-a-definition-is-checked") })
}

func ruleTextEditChecked(p *Prog, r *Res, rule string) {
	r.Rule(rule + ": a definition is only extended as text where its form was checked")
	defn := p.Field("manager", "tag", "definition")
	if defn == nil {
		p.anchorFail("manager.tag.definition")
		return
	}
	n := 0
	// reachedUnchecked: can target (a CFG node of gf) be reached from the entry of gf without passing the true edge of
	// a check of a definition's form (a boolean function of the package that is handed X.definition)?
	reachedUnchecked := func(gf *Fn, target ast.Node) (pathResult, *Flow) {
		ginfo := gf.Pkg.TypesInfo
		checks := func(c ast.Expr, trueEdge bool) bool {
			c = ast.Unparen(c)
			neg := false
			if u, ok := c.(*ast.UnaryExpr); ok && u.Op == token.NOT {
				c, neg = ast.Unparen(u.X), true
			}
			if id, isId := c.(*ast.Ident); isId {
				// a local boolean that holds the answer of the check: `plain := isPlain(def)`
				if o := ginfo.Uses[id]; o != nil {
					var defs []ast.Expr
					ast.Inspect(gf.Body(), func(x ast.Node) bool {
						if as2, ok := x.(*ast.AssignStmt); ok {
							for i, l := range as2.Lhs {
								if identObj(ginfo, l) == o {
									if len(as2.Lhs) == len(as2.Rhs) {
										defs = append(defs, as2.Rhs[i])
									} else {
										defs = append(defs, nil)
									}
								}
							}
						}
						return true
					})
					if len(defs) == 1 && defs[0] != nil {
						c = ast.Unparen(defs[0])
					}
				}
			}
			call, ok := c.(*ast.CallExpr)
			if !ok {
				return false
			}
			fn := p.Callee(gf.Pkg, call)
			if fn == nil || fn.Pkg() != gf.Pkg.Types {
				return false
			}
			sig, _ := fn.Type().(*types.Signature)
			if sig == nil || sig.Results().Len() != 1 {
				return false
			}
			if b, ok := sig.Results().At(0).Type().Underlying().(*types.Basic); !ok || b.Kind() != types.Bool {
				return false
			}
			arg := false
			for _, a := range call.Args {
				if se, ok := ast.Unparen(a).(*ast.SelectorExpr); ok && ginfo.Uses[se.Sel] == types.Object(defn) {
					arg = true
				}
			}
			return arg && trueEdge != neg
		}
		g := p.Flow(gf)
		g.EdgeOK = func(b *cfg.Block, succ int) bool {
			if len(b.Succs) != 2 || len(b.Nodes) == 0 {
				return true
			}
			cond, ok := b.Nodes[len(b.Nodes)-1].(ast.Expr)
			if !ok {
				return true
			}
			if succ == 0 {
				for _, c := range conjuncts(cond) {
					if checks(c, true) {
						return false
					}
				}
				return true
			}
			for _, c := range disjuncts(cond) {
				if checks(c, false) {
					return false
				}
			}
			// false edge of a conjunction one of whose conjuncts is the failed check together with conditions that
			// hold whenever the edit is reached is not decidable here; the plain forms above are what the tree uses
			if cs := conjuncts(cond); len(cs) > 1 {
				for _, c := range cs {
					if checks(c, false) {
						// `A && !isPlain(def)` is false: either !A or isPlain — fine only if A is implied at the edit;
						// accept when A reads a length the edit branch also tests
						return !editRetests(gf, target, cs, c)
					}
				}
			}
			return true
		}
		res := g.Reach([]Pt{g.Entry()}, func(nd ast.Node) bool { return nd == target }, nil)
		return res, g
	}
	for _, f := range p.FnList {
		if f.Short != "manager" || f.Body() == nil {
			continue
		}
		info := f.Pkg.TypesInfo
		readsDef := func(e ast.Node) bool {
			hit := false
			ast.Inspect(e, func(x ast.Node) bool {
				if se, ok := x.(*ast.SelectorExpr); ok && info.Uses[se.Sel] == types.Object(defn) {
					hit = true
				}
				return !hit
			})
			return hit
		}
		fl := p.Flow(f)
		for _, pt := range fl.Find(func(nd ast.Node) bool {
			as, ok := nd.(*ast.AssignStmt)
			if !ok || len(as.Lhs) != len(as.Rhs) {
				return false
			}
			for i, l := range as.Lhs {
				if !isFieldOf(info, l, defn) {
					continue
				}
				rhs := ast.Unparen(as.Rhs[i])
				switch x := rhs.(type) {
				case *ast.CallExpr:
					if fn := p.Callee(f.Pkg, x); fn != nil && (fn.FullName() == "fmt.Sprintf" || fn.FullName() == "fmt.Sprint" || fn.FullName() == "strings.Join") && readsDef(x) {
						return true
					}
				case *ast.BinaryExpr:
					if x.Op == token.ADD && readsDef(x) {
						return true
					}
				}
			}
			return false
		}) {
			as := fl.node(pt)
			n++
			key := fmt.Sprintf("%s extends a definition as text@%s", f.Key(), relLine(p, f, as))
			res, g := reachedUnchecked(f, as)
			if res.Found && f.Lit == nil && f.Decl != nil && !ast.IsExported(f.Decl.Name.Name) {
				// the edit lives in a helper: the check may stand in front of every call of it
				if fobj, _ := info.Defs[f.Decl.Name].(*types.Func); fobj != nil {
					sites, good := 0, 0
					for _, cg := range p.FnList {
						if cg.Pkg != f.Pkg || cg.Body() == nil {
							continue
						}
						cfl := p.Flow(cg)
						for _, blk := range cfl.G.Blocks {
							for _, nd := range blk.Nodes {
								hit := false
								inspectShallow(nd, func(y ast.Node) bool {
									if c, ok := y.(*ast.CallExpr); ok && p.Callee(cg.Pkg, c) == fobj {
										hit = true
									}
									return !hit
								})
								if !hit {
									continue
								}
								sites++
								if r2, _ := reachedUnchecked(cg, nd); !r2.Found {
									good++
								}
							}
						}
					}
					if sites > 0 && sites == good {
						res.Found = false
					}
				}
			}
			r.Check(!res.Found, rule, key, p.Pos(as), "reached only where the form of the definition was checked", "the definition is extended as text without a check that it has the form the edit assumes ("+g.traceString(res)+"): a definition that was accepted because its CONDITIONS are an id filter, but is written differently, becomes unparsable — the loader refuses the whole state file after the next restart")
		}
	}
	r.Floor(rule, 1, n)
}

// editRetests: the other conjuncts of a guard `A && !check(def)` are tested again (textually) by an if that encloses
// the edit, so on the way to the edit A holds and the guard's false edge means check(def).
func editRetests(f *Fn, edit ast.Node, conj []ast.Expr, check ast.Expr) bool {
	info := f.Pkg.TypesInfo
	// a named boolean stands for its one definition (the CFG's condition nodes have them expanded, the tree has not)
	norm := func(e ast.Expr) string {
		e = ast.Unparen(e)
		if id, isId := e.(*ast.Ident); isId {
			if o := info.Uses[id]; o != nil {
				var defs []ast.Expr
				ast.Inspect(f.Root().Body(), func(x ast.Node) bool {
					if as, ok := x.(*ast.AssignStmt); ok && len(as.Lhs) == len(as.Rhs) {
						for i, l := range as.Lhs {
							if identObj(info, l) == o {
								defs = append(defs, as.Rhs[i])
							}
						}
					}
					return true
				})
				if len(defs) == 1 {
					return types.ExprString(ast.Unparen(defs[0]))
				}
			}
		}
		return types.ExprString(e)
	}
	ok := true
	for _, c := range conj {
		if c == check {
			continue
		}
		want := norm(c)
		found := false
		inspectParents(f.Body(), func(x ast.Node, parents []ast.Node) bool {
			if x == edit {
				for _, par := range parents {
					if ifs, isIf := par.(*ast.IfStmt); isIf {
						for _, cc := range conjuncts(ifs.Cond) {
							if norm(cc) == want {
								found = true
							}
						}
					}
				}
			}
			return true
		})
		if !found {
			ok = false
		}
	}
	return ok
}
