package main

// c01d.go: C01-d import-table-covers-lookups.
//
// Writer.AddStream first registers, for every packet of the stream, the (capture file, offset window) pair in
// Writer.imports and later, when it writes the packet records, reads the id back with a plain single-value map lookup —
// which yields id 0, i.e. another capture file, for a key that was never registered. Three structural conditions:
//   (i)   the key literal of the registration and the key literal of every later lookup are built from the same field
//         expressions,
//   (ii)  the registration loop is total: from the start of the loop body no path reaches the next iteration or leaves
//         the loop without passing the membership test on Writer.imports,
//   (iii) registration and lookup iterate over the same collections (the range expressions of their loop nests agree).

import (
	"fmt"
	"go/ast"
	"go/token"
	"sort"
	"strings"

	"golang.org/x/tools/go/cfg"
)

func init() {
	register("C01",
		"C01-d (typed AST + FLOW): in (*index.Writer).AddStream the table Writer.imports is filled by a registration loop and read back by single-value lookups when the packet records are written; a key that was not registered reads as id 0 (another capture file). (i) the composite-literal key of the registration and of every lookup are built from the same field expressions; (ii) in the registration loop no path from the start of the body to the next iteration, or out of the loop other than by a return, avoids the membership test on Writer.imports; (iii) the loop nests of registration and lookup range over the same expressions.",
		ruleC01ImportTable)
}

func ruleC01ImportTable(p *Prog, r *Res) {
	const rule = "C01-d import-table-covers-lookups"
	r.Rule(rule + ": every key the packet loop looks up in Writer.imports was registered")
	f := p.Fn("index.Writer.AddStream")
	imports := p.Field("index", "Writer", "imports")
	if f == nil || imports == nil {
		return
	}
	info := f.Pkg.TypesInfo
	// key literal → normalised field expressions
	keyOf := func(e ast.Expr) (map[string]string, bool) {
		e = ast.Unparen(e)
		if id, ok := e.(*ast.Ident); ok {
			// single definition
			o := info.Uses[id]
			var def ast.Expr
			n := 0
			inspectShallow(f.Body(), func(x ast.Node) bool {
				if as, ok := x.(*ast.AssignStmt); ok && len(as.Lhs) == len(as.Rhs) {
					for i, l := range as.Lhs {
						if identObj(info, l) == o {
							n++
							def = as.Rhs[i]
						}
					}
				}
				return true
			})
			if n != 1 {
				return nil, false
			}
			e = ast.Unparen(def)
		}
		cl, ok := e.(*ast.CompositeLit)
		if !ok {
			return nil, false
		}
		m := map[string]string{}
		for _, el := range cl.Elts {
			kv, ok := el.(*ast.KeyValueExpr)
			if !ok {
				return nil, false
			}
			m[kv.Key.(*ast.Ident).Name] = exprString(p.Fset, kv.Value)
		}
		return m, true
	}
	render := func(m map[string]string) string {
		var l []string
		for k, v := range m {
			l = append(l, k+": "+v)
		}
		sort.Strings(l)
		return "{" + strings.Join(l, ", ") + "}"
	}
	type site struct {
		ix      *ast.IndexExpr
		parents []ast.Node
	}
	var stores, tests, lookups []site
	inspectAllParents(f.Body(), func(x ast.Node, parents []ast.Node) bool {
		ix, ok := x.(*ast.IndexExpr)
		if !ok || !isFieldOf(info, ix.X, imports) {
			return true
		}
		ps := append([]ast.Node(nil), parents...)
		// classify by the parent statement
		for i := len(ps) - 1; i >= 0; i-- {
			switch par := ps[i].(type) {
			case *ast.FuncLit:
				return true // the undo closure deletes entries: not a lookup of the packet loop
			case *ast.AssignStmt:
				for _, l := range par.Lhs {
					if ast.Unparen(l) == ast.Expr(ix) {
						stores = append(stores, site{ix, ps})
						return true
					}
				}
				if len(par.Lhs) == 2 && len(par.Rhs) == 1 && ast.Unparen(par.Rhs[0]) == ast.Expr(ix) {
					tests = append(tests, site{ix, ps})
					return true
				}
			}
		}
		lookups = append(lookups, site{ix, ps})
		return true
	})
	if len(stores) == 0 || len(lookups) == 0 || len(tests) == 0 {
		p.anchorFail("registration store / membership test / lookup of Writer.imports in index.Writer.AddStream (stores %d, tests %d, lookups %d)", len(stores), len(tests), len(lookups))
		return
	}
	regKey, okr := keyOf(stores[0].ix.Index)
	loopsOf := func(ps []ast.Node) []string {
		var l []string
		for _, par := range ps {
			if rs, ok := par.(*ast.RangeStmt); ok {
				l = append(l, exprString(p.Fset, rs.X))
			}
		}
		return l
	}
	regLoops := loopsOf(stores[0].parents)
	n := 0
	for _, lk := range lookups {
		n++
		k, ok := keyOf(lk.ix.Index)
		key := fmt.Sprintf("%s lookup@%s key agrees with registration", f.Key(), relLine(p, f, lk.ix))
		if !ok || !okr {
			r.Undecided(rule, key, p.Pos(lk.ix), "key is not a composite literal (or a local defined once as one)")
			continue
		}
		r.Check(render(k) == render(regKey), rule, key, p.Pos(lk.ix), "both keys are "+render(regKey), "the packet loop looks up "+render(k)+" but the registration loop stored "+render(regKey)+": the lookup of an unregistered key yields id 0, the packet is attributed to another capture file")
		n++
		lkLoops := loopsOf(lk.parents)
		key2 := fmt.Sprintf("%s lookup@%s iterates like the registration", f.Key(), relLine(p, f, lk.ix))
		r.Check(strings.Join(lkLoops, " > ") == strings.Join(regLoops, " > "), rule, key2, p.Pos(lk.ix), "both nests range over "+strings.Join(regLoops, " > "), "the registration ranges over ["+strings.Join(regLoops, " > ")+"] but the lookup over ["+strings.Join(lkLoops, " > ")+"]: packets the registration never saw are looked up")
	}
	// (ii) totality of the registration loop
	var regLoop *ast.RangeStmt
	for _, par := range stores[0].parents {
		if rs, ok := par.(*ast.RangeStmt); ok {
			regLoop = rs
		}
	}
	if regLoop == nil {
		r.Bad(rule, f.Key()+" registration loop is total", p.Pos(stores[0].ix), "the registration of import entries is not in a loop over the packets")
		return
	}
	n++
	fl := p.Flow(f)
	isTest := func(nd ast.Node) bool {
		for _, t := range tests {
			if within(t.ix, nd) {
				if _, isBlock := nd.(*ast.BlockStmt); !isBlock {
					return true
				}
			}
		}
		return false
	}
	var starts []Pt
	for _, b := range fl.G.Blocks {
		if !b.Live {
			continue
		}
		for i, nd := range b.Nodes {
			if within(nd, regLoop.Body) {
				// entry points of the body: nodes whose block has a predecessor outside the body are found by starting from every
				// first-in-block body node; narrowing to the textually first statement keeps the report readable
				if len(regLoop.Body.List) > 0 && within(nd, regLoop.Body.List[0]) && i == 0 {
					starts = append(starts, Pt{b, i})
				}
			}
		}
	}
	if len(starts) == 0 {
		if len(regLoop.Body.List) > 0 {
			if pt, ok := fl.PointOf(regLoop.Body.List[0]); ok {
				starts = append(starts, pt)
			}
		}
	}
	leaves := func(nd ast.Node) bool {
		if isReturn(nd) {
			return false
		}
		return !within(nd, regLoop.Body)
	}
	// a memo on the FULL key (`if e == last { continue }`) skips only keys that were registered an iteration earlier
	keyObj := identObj(info, stores[0].ix.Index)
	fullKeyHit := func(c ast.Expr, trueEdge bool) bool {
		be, ok := ast.Unparen(c).(*ast.BinaryExpr)
		if !ok || keyObj == nil {
			return false
		}
		if identObj(info, be.X) != keyObj && identObj(info, be.Y) != keyObj {
			return false
		}
		return (trueEdge && be.Op == token.EQL) || (!trueEdge && be.Op == token.NEQ)
	}
	fl.EdgeOK = func(b *cfg.Block, succ int) bool {
		if len(b.Succs) != 2 || len(b.Nodes) == 0 {
			return true
		}
		cond, ok := b.Nodes[len(b.Nodes)-1].(ast.Expr)
		if !ok {
			return true
		}
		if succ == 0 {
			for _, c := range conjuncts(cond) {
				if fullKeyHit(c, true) {
					return false
				}
			}
		} else {
			for _, c := range disjuncts(cond) {
				if fullKeyHit(c, false) {
					return false
				}
			}
		}
		return true
	}
	res := fl.Reach(starts, leaves, func(nd ast.Node) bool { return isTest(nd) || isReturn(nd) })
	r.Check(!res.Found && len(starts) > 0, rule, f.Key()+" registration loop is total", p.Pos(regLoop), "every iteration passes the membership test on Writer.imports", "an iteration of the registration loop can end without the membership test ("+fl.traceString(res)+"): the packet's (file, offset window) pair stays unregistered and the packet loop reads id 0 for it")
	r.Floor(rule, 3, n)
}
