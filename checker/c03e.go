package main

// c03e.go: C03-e the negation of a linear inequality is computed by the integer law.
//
// NumberCondition and TimeCondition mean  K + Σ fᵢ·xᵢ ≥ 0  over integers (stream ids, ports, byte counts,
// nanoseconds). Their negation is  −K − 1 + Σ (−fᵢ)·xᵢ ≥ 0 . The rule evaluates, symbolically, every numeric field of
// the literals that the two invert() methods build as a linear form a·F + b in the corresponding field F of the
// receiver (or of the ranged summand) — through unary minus, +, −, parentheses, integer literals, conversions and ^x
// (= −x−1) — and requires (a, b) = (−1, −1) for the constant term (the one field of the condition itself that is not a
// factor) and (−1, 0) for every factor. Non-numeric fields must be copied (a = 1, b = 0 is not applicable: they are
// compared textually with the source field). This is an exhaustive evaluation of a closed form, not a text match:
// −(K+1), −1−K and ^K are all accepted.

import (
	"fmt"
	"go/ast"
	"go/constant"
	"go/token"
	"go/types"
	"strings"
)

func init() {
	register("C03",
		"C03-e (symbolic evaluation of linear forms): NumberCondition and TimeCondition stand for K + Σ f·x ≥ 0 over integers, so their negation is −K−1 + Σ(−f)·x ≥ 0. In both invert() methods every numeric field of the built literals is evaluated as a·F + b in the corresponding source field (unary minus, +, −, parentheses, integer literals, conversions, ^x); the constant term must come out as (−1, −1), every factor as (−1, 0), and every numeric field of the types must be covered. −n instead of −n−1 makes a bound inclusive on both sides: a stream exactly on the bound satisfies a filter and its negation.",
		func(p *Prog, r *Res) {
			const rule = "C03-e negation-is-the-integer-law"
			r.Rule(rule + ": invert() maps K + Σ f·x ≥ 0 to −K−1 + Σ(−f)·x ≥ 0")
			type spec struct {
				fn       string
				constant string
			}
			n := 0
			for _, sp := range []spec{{"query.NumberCondition.invert", "Number"}, {"query.TimeCondition.invert", "Duration"}} {
				f := p.Fn(sp.fn)
				if f == nil {
					continue
				}
				if p.Field("query", strings.TrimSuffix(strings.TrimPrefix(sp.fn, "query."), ".invert"), sp.constant) == nil {
					p.anchorFail("constant term %s of %s", sp.constant, sp.fn)
					continue
				}
				info := f.Pkg.TypesInfo
				var recvO types.Object
				if f.Decl.Recv != nil && len(f.Decl.Recv.List[0].Names) == 1 {
					recvO = info.Defs[f.Decl.Recv.List[0].Names[0]]
				}
				rangeVars := map[types.Object]bool{}
				inspectShallow(f.Body(), func(x ast.Node) bool {
					if rs, ok := x.(*ast.RangeStmt); ok {
						if ri := rootIdentOf(rs.X); ri != nil && info.Uses[ri] == recvO {
							if v := identObj(info, rs.Value); v != nil {
								rangeVars[v] = true
							}
						}
					}
					return true
				})
				// an element of a receiver list taken by index (s := &c.Summands[i]) is a source as well
				inspectShallow(f.Body(), func(x ast.Node) bool {
					as, ok := x.(*ast.AssignStmt)
					if !ok || as.Tok != token.DEFINE || len(as.Lhs) != len(as.Rhs) {
						return true
					}
					for i, rh := range as.Rhs {
						rh = ast.Unparen(rh)
						if u, ok := rh.(*ast.UnaryExpr); ok && u.Op == token.AND {
							rh = ast.Unparen(u.X)
						}
						if ix, ok := rh.(*ast.IndexExpr); ok {
							if ri := rootIdentOf(ix.X); ri != nil && recvO != nil && info.Uses[ri] == recvO {
								if v := identObj(info, as.Lhs[i]); v != nil {
									rangeVars[v] = true
								}
							}
						}
					}
					return true
				})
				isSource := func(e ast.Expr) bool {
					o := identObj(info, e)
					return o != nil && (o == recvO || rangeVars[o])
				}
				// linear form of e in the selector `<src>.<field>`; ok=false when e is not linear in exactly that selector
				var lin func(e ast.Expr, field string) (a, b int64, ok bool)
				lin = func(e ast.Expr, field string) (int64, int64, bool) {
					e = ast.Unparen(e)
					if tv, okc := info.Types[e]; okc && tv.Value != nil && tv.Value.Kind() == constant.Int {
						v, exact := constant.Int64Val(tv.Value)
						return 0, v, exact
					}
					switch x := e.(type) {
					case *ast.SelectorExpr:
						if x.Sel.Name == field && isSource(x.X) {
							return 1, 0, true
						}
						return 0, 0, false
					case *ast.UnaryExpr:
						a, b, ok := lin(x.X, field)
						if !ok {
							return 0, 0, false
						}
						switch x.Op {
						case token.SUB:
							return -a, -b, true
						case token.ADD:
							return a, b, true
						case token.XOR: // ^x = -x-1
							return -a, -b - 1, true
						}
						return 0, 0, false
					case *ast.BinaryExpr:
						a1, b1, ok1 := lin(x.X, field)
						a2, b2, ok2 := lin(x.Y, field)
						if !ok1 || !ok2 {
							return 0, 0, false
						}
						switch x.Op {
						case token.ADD:
							return a1 + a2, b1 + b2, true
						case token.SUB:
							return a1 - a2, b1 - b2, true
						case token.MUL:
							if a1 == 0 {
								return b1 * a2, b1 * b2, true
							}
							if a2 == 0 {
								return a1 * b2, b1 * b2, true
							}
						}
						return 0, 0, false
					case *ast.CallExpr:
						// a conversion T(x)
						if tv, okc := info.Types[x.Fun]; okc && tv.IsType() && len(x.Args) == 1 {
							return lin(x.Args[0], field)
						}
					}
					return 0, 0, false
				}
				covered := map[string]bool{}
				inspectShallow(f.Body(), func(x ast.Node) bool {
					cl, ok := x.(*ast.CompositeLit)
					if !ok {
						return true
					}
					nt := namedOf(info.TypeOf(cl))
					if nt == nil || !strings.HasSuffix(nt.Obj().Name(), "Condition") && !strings.HasSuffix(nt.Obj().Name(), "ConditionSummand") {
						return true
					}
					for _, el := range cl.Elts {
						kv, ok := el.(*ast.KeyValueExpr)
						if !ok {
							continue
						}
						name := kv.Key.(*ast.Ident).Name
						t := info.TypeOf(kv.Value)
						b, isBasic := t.Underlying().(*types.Basic)
						if !isBasic || b.Info()&types.IsInteger == 0 {
							continue
						}
						// enumerations (summand types) are copied, not negated
						if namedOf(t) != nil && strings.HasSuffix(namedOf(t).Obj().Name(), "Type") {
							continue
						}
						mentionsSource := false
						ast.Inspect(kv.Value, func(z ast.Node) bool {
							if se, ok := z.(*ast.SelectorExpr); ok && isSource(se.X) {
								mentionsSource = true
							}
							return true
						})
						if !mentionsSource {
							continue // a copy of an already negated value (res.Number = cond.Number): checked where it was computed
						}
						n++
						covered[nt.Obj().Name()+"."+name] = true
						a, bb, okl := lin(kv.Value, name)
						wantB := int64(0)
						what := "factor"
						if name == sp.constant && !strings.HasSuffix(nt.Obj().Name(), "Summand") {
							wantB, what = -1, "constant term"
						}
						key := fmt.Sprintf("%s %s.%s (%s)", f.Key(), nt.Obj().Name(), name, what)
						if !okl {
							r.Bad(rule, key, p.Pos(kv), "the negated "+what+" is not a linear form in the field it negates ("+exprString(p.Fset, kv.Value)+")")
							continue
						}
						r.Check(a == -1 && bb == wantB, rule, key, p.Pos(kv), fmt.Sprintf("%s = %d·%s %+d", name, a, name, bb), fmt.Sprintf("the negation computes %s = %d·%s %+d, the integer law requires −1·%s %+d: %s", name, a, name, bb, name, wantB, map[string]string{"constant term": "with −K instead of −K−1 a value exactly on the bound satisfies both the filter and its negation (with anything else the bound moves)", "factor": "a factor that is not negated keeps its side of the inequality, the negated filter is not the complement"}[what]))
					}
					return true
				})
				// every integer field of the condition and of its summand type is covered
				recvT := namedOf(derefType(info.TypeOf(f.Decl.Recv.List[0].Type)))
				if recvT != nil {
					var check func(nt *types.Named)
					check = func(nt *types.Named) {
						st, ok := nt.Underlying().(*types.Struct)
						if !ok {
							return
						}
						for i := 0; i < st.NumFields(); i++ {
							fld := st.Field(i)
							if sl, ok := fld.Type().Underlying().(*types.Slice); ok {
								if en := namedOf(sl.Elem()); en != nil {
									check(en)
								}
								continue
							}
							b, ok := fld.Type().Underlying().(*types.Basic)
							if !ok || b.Info()&types.IsInteger == 0 {
								continue
							}
							if namedOf(fld.Type()) != nil && strings.HasSuffix(namedOf(fld.Type()).Obj().Name(), "Type") {
								continue
							}
							n++
							key := fmt.Sprintf("%s negates %s.%s", f.Key(), nt.Obj().Name(), fld.Name())
							r.Check(covered[nt.Obj().Name()+"."+fld.Name()], rule, key, p.PosOf(fld.Pos()), "set in the negated literal", "the negation does not set "+fld.Name()+": the term keeps value 0 in the negated condition, i.e. it is dropped instead of negated")
						}
					}
					check(recvT)
				}
			}
			r.Floor(rule, 8, n)
		})
}
