package main

// c08h.go: two small value-flow rules on the import path.
//
// C08-h carried-over snapshots are filtered by time. FromPcap starts from the newest snapshot that is older than the
// new packets, replays the captures behind it and builds the snapshot list of the next import: the old snapshots that
// are not younger than the starting point, plus those taken during this run. A snapshot younger than the starting point
// describes a reassembly state that did not contain the packets being inserted now; carried over (seeded C08k: "all of
// them can be carried over") it wins the next selection, the late capture is not replayed, and a connection that
// continues later becomes two streams. Rule: the list assigned to Builder.snapshots receives elements of the old
// Builder.snapshots only under a condition that compares snapshot timestamps.
//
// C19-f / C10-j the import queue shrinks by the importer's count. The completion of importPcapJob drops
// FromPcap's first result from the head of the queue; the count says how many files were dealt with — imported or
// found unreadable and reported. Overriding it (seeded C10k: `processedFiles = len(filenames)` on error) drops captures
// that were never looked at: they are reported to the webhooks and never indexed. Rule: the variable that bounds the
// slice assigned to Manager.importJobs in the completion is defined once, by the call of Builder.FromPcap.

import (
	"fmt"
	"go/ast"
	"go/types"

	"golang.org/x/tools/go/cfg"
)

func init() {
	register("C08",
		"C08-h (typed AST, value flow): in builder.FromPcap the list that becomes Builder.snapshots receives elements of the old Builder.snapshots only under a condition that compares snapshot timestamps (ranging over the old list and appending inside an `if` on .timestamp); a bulk copy or an unconditional append carries over snapshots that are younger than the point this import starts from, and the next import starts from a state that never saw the packets inserted now.",
		ruleSnapshotsFiltered)
	const explQ = "(typed AST, value flow): in the completion of Manager.importPcapJob the import queue is cut by a variable that has exactly one definition, the call of Builder.FromPcap: the importer's count of files it dealt with. A count overridden on the error path drops captures from the queue that were never imported — they are reported as processed and their streams are in no view."
	register("C19", "C19-f "+explQ, func(p *Prog, r *Res) { ruleQueueCutByImporterCount(p, r, "C19-f queue-cut-by-importer-count") })
	register("C10", "C10-j "+explQ, func(p *Prog, r *Res) { ruleQueueCutByImporterCount(p, r, "C10-j queue-cut-by-importer-count") })
}

func ruleSnapshotsFiltered(p *Prog, r *Res) {
	const rule = "C08-h carried-over-snapshots-filtered"
	r.Rule(rule + ": old snapshots enter the new snapshot list only under a timestamp comparison")
	f := p.Fn("builder.Builder.FromPcap")
	snapFld := p.Field("builder", "Builder", "snapshots")
	if f == nil || snapFld == nil {
		p.anchorFail("builder.Builder.FromPcap / Builder.snapshots")
		return
	}
	info := f.Pkg.TypesInfo
	// the local assigned to Builder.snapshots
	var newList types.Object
	ast.Inspect(f.Body(), func(x ast.Node) bool {
		if as, ok := x.(*ast.AssignStmt); ok && len(as.Lhs) == 1 && len(as.Rhs) == 1 && isFieldOf(info, as.Lhs[0], snapFld) {
			if o := identObj(info, as.Rhs[0]); o != nil {
				newList = o
			}
		}
		return true
	})
	if newList == nil {
		p.anchorFail("the local that FromPcap assigns to Builder.snapshots")
		return
	}
	readsOld := func(e ast.Node) bool {
		hit := false
		ast.Inspect(e, func(x ast.Node) bool {
			if se, ok := x.(*ast.SelectorExpr); ok && info.Uses[se.Sel] == types.Object(snapFld) {
				hit = true
			}
			return !hit
		})
		return hit
	}
	// range variables over the old list
	oldElems := map[types.Object]*ast.RangeStmt{}
	ast.Inspect(f.Body(), func(x ast.Node) bool {
		if rs, ok := x.(*ast.RangeStmt); ok && readsOld(rs.X) && rs.Value != nil {
			if o := identObj(info, rs.Value); o != nil {
				oldElems[o] = rs
			}
		}
		return true
	})
	n := 0
	inspectParentsAll(f.Body(), func(x ast.Node, stack []ast.Node) {
		as, ok := x.(*ast.AssignStmt)
		if !ok || len(as.Lhs) != len(as.Rhs) {
			return
		}
		for i, l := range as.Lhs {
			if identObj(info, l) != newList {
				continue
			}
			rhs := as.Rhs[i]
			// does an old snapshot flow in?
			bulk := readsOld(rhs)
			var elem types.Object
			ast.Inspect(rhs, func(y ast.Node) bool {
				if id, ok := y.(*ast.Ident); ok {
					if o := info.Uses[id]; o != nil && oldElems[o] != nil {
						elem = o
					}
				}
				return true
			})
			if !bulk && elem == nil {
				continue
			}
			n++
			key := fmt.Sprintf("%s %s = %s", f.Key(), newList.Name(), firstLine(exprString(p.Fset, rhs)))
			if bulk {
				r.Bad(rule, key, p.Pos(as), "the old snapshot list is copied as a whole: snapshots younger than the point this import starts from are carried over, and the next import starts from a reassembly state that never saw the packets inserted now — a capture that arrives late is not replayed, a connection continuing after it becomes a second stream")
				continue
			}
			// guarded: inside the range over the old list, the append is reached only over an edge of a condition that
			// compares snapshot timestamps (an enclosing if, or an early `continue`)
			guarded := false
			{
				rs := oldElems[elem]
				fl := p.Flow(f)
				mentionsTS := func(e ast.Node) bool {
					hit := false
					ast.Inspect(e, func(y ast.Node) bool {
						if se, ok := y.(*ast.SelectorExpr); ok && se.Sel.Name == "timestamp" {
							hit = true
						}
						return !hit
					})
					return hit
				}
				fl.EdgeOK = func(b *cfg.Block, succ int) bool {
					if len(b.Succs) != 2 || len(b.Nodes) == 0 {
						return true
					}
					cond, ok := b.Nodes[len(b.Nodes)-1].(ast.Expr)
					if !ok || !(rs.Body.Pos() <= cond.Pos() && cond.End() <= rs.Body.End()) {
						return true
					}
					return !mentionsTS(cond)
				}
				var body *cfg.Block
				for _, b := range fl.G.Blocks {
					if b.Kind == cfg.KindRangeBody && b.Stmt == ast.Stmt(rs) {
						body = b
					}
				}
				if body != nil {
					res := fl.Reach([]Pt{{body, 0}}, func(nd ast.Node) bool { return nd == ast.Node(as) }, nil)
					guarded = !res.Found
				}
				fl.EdgeOK = nil
			}
			r.Check(guarded, rule, key, p.Pos(as), "appended under a comparison of snapshot timestamps", "an old snapshot is carried over without a comparison of its timestamp with the starting point of this import: a snapshot younger than that point describes a state without the packets inserted now")
		}
	})
	r.Floor(rule, 1, n)
}

func ruleQueueCutByImporterCount(p *Prog, r *Res, rule string) {
	r.Rule(rule + ": the queue is cut by FromPcap's count, defined once")
	f := p.Fn("manager.Manager.importPcapJob")
	qfld := p.Field("manager", "Manager", "importJobs")
	fromPcap := p.Method("builder", "Builder", "FromPcap")
	if f == nil || qfld == nil || fromPcap == nil {
		p.anchorFail("manager.Manager.importPcapJob / Manager.importJobs / builder.Builder.FromPcap")
		return
	}
	info := f.Pkg.TypesInfo
	n := 0
	ast.Inspect(f.Body(), func(x ast.Node) bool {
		as, ok := x.(*ast.AssignStmt)
		if !ok || len(as.Lhs) != 1 || len(as.Rhs) != 1 || !isFieldOf(info, as.Lhs[0], qfld) {
			return true
		}
		// the cut: importJobs[n:], possibly wrapped in a copy (append([]string(nil), importJobs[n:]...), slices.Clone)
		var sl *ast.SliceExpr
		ast.Inspect(as.Rhs[0], func(y ast.Node) bool {
			if s2, ok := y.(*ast.SliceExpr); ok && sl == nil && s2.Low != nil && isFieldOf(info, s2.X, qfld) {
				sl = s2
			}
			return true
		})
		if sl == nil {
			return true
		}
		n++
		key := fmt.Sprintf("%s cuts the queue by %s", f.Key(), exprString(p.Fset, sl.Low))
		v := identObj(info, sl.Low)
		if v == nil {
			r.Bad(rule, key, p.Pos(as), "the number of queue entries dropped is not the variable holding the importer's count")
			return true
		}
		nDefs, fromImporter := 0, false
		ast.Inspect(f.Body(), func(y ast.Node) bool {
			switch s := y.(type) {
			case *ast.AssignStmt:
				for _, l := range s.Lhs {
					if identObj(info, l) == v {
						nDefs++
						if len(s.Rhs) == 1 {
							if c, ok := ast.Unparen(s.Rhs[0]).(*ast.CallExpr); ok {
								if fn := p.Callee(f.Pkg, c); fn != nil && fn.Origin() == fromPcap && identObj(info, s.Lhs[0]) == v {
									fromImporter = true
								}
							}
						}
					}
				}
			case *ast.IncDecStmt:
				if identObj(info, s.X) == v {
					nDefs++
				}
			}
			return true
		})
		r.Check(nDefs == 1 && fromImporter, rule, key, p.Pos(as), v.Name()+" is defined once, as the first result of Builder.FromPcap", fmt.Sprintf("%s has %d definitions (from FromPcap: %v): the queue is cut by a number that is not the importer's count of files it dealt with, so captures that were never imported leave the queue — reported as processed, their streams in no view", v.Name(), nDefs, fromImporter))
		return true
	})
	r.Floor(rule, 1, n)
}
