package main

// report.go: obligations, floors, known findings, evidence files, VIOLATION lines.

import (
	"encoding/json"
	"fmt"
	"os"
	"path/filepath"
	"sort"
	"strings"
	"time"
)

type Obl struct {
	Rule       string `json:"rule"`
	Key        string `json:"construct"`
	Pos        string `json:"pos,omitempty"`
	Verdict    string `json:"verdict"` // discharged | violated | undecided | exempt | known-finding
	Detail     string `json:"detail,omitempty"`
	Nontrivial bool   `json:"nontrivial,omitempty"`
}

type Floor struct {
	Rule string `json:"rule"`
	Want int    `json:"floor"`
	Got  int    `json:"found"`
}

type Res struct {
	Prop        string
	Obls        []Obl
	Floors      []Floor
	Notes       []string
	Assumptions []string
	Rules       []string // rule descriptions applied
	cur         string
}

func (r *Res) add(rule, key, pos, verdict, detail string, nontrivial bool) {
	r.Obls = append(r.Obls, Obl{Rule: rule, Key: key, Pos: pos, Verdict: verdict, Detail: detail, Nontrivial: nontrivial})
}

// Ok records a discharged obligation that needed a path/dataflow argument.
func (r *Res) Ok(rule, key, pos, detail string) { r.add(rule, key, pos, "discharged", detail, true) }

// OkTrivial records a discharged obligation established by a presence/table test.
func (r *Res) OkTrivial(rule, key, pos, detail string) {
	r.add(rule, key, pos, "discharged", detail, false)
}
func (r *Res) Bad(rule, key, pos, detail string) { r.add(rule, key, pos, "violated", detail, true) }
func (r *Res) Undecided(rule, key, pos, detail string) {
	r.add(rule, key, pos, "undecided", detail, true)
}
func (r *Res) Exempt(rule, key, pos, reason string) {
	r.add(rule, key, pos, "exempt", reason, false)
}
func (r *Res) Check(ok bool, rule, key, pos, okDetail, badDetail string) {
	if ok {
		r.Ok(rule, key, pos, okDetail)
	} else {
		r.Bad(rule, key, pos, badDetail)
	}
}
func (r *Res) Floor(rule string, want, got int) {
	r.Floors = append(r.Floors, Floor{rule, want, got})
}
func (r *Res) Note(format string, a ...any) { r.Notes = append(r.Notes, fmt.Sprintf(format, a...)) }
func (r *Res) Rule(desc string)             { r.Rules = append(r.Rules, desc) }
func (r *Res) Assume(s string)              { r.Assumptions = append(r.Assumptions, s) }

// count of obligations for a rule (all verdicts)
func (r *Res) CountRule(rule string) int {
	n := 0
	for _, o := range r.Obls {
		if o.Rule == rule {
			n++
		}
	}
	return n
}

// known findings -------------------------------------------------------

type KFEntry struct {
	Kind     string `json:"kind"` // finding | fixed
	Property string `json:"property"`
	Rule     string `json:"rule"`
	Key      string `json:"key,omitempty"`
	Commit   string `json:"commit,omitempty"`
	What     string `json:"what"`
}
type KFFile struct {
	Comment string    `json:"comment"`
	Entries []KFEntry `json:"entries"`
}

func loadKF(path string) (*KFFile, error) {
	b, err := os.ReadFile(path)
	if err != nil {
		return nil, err
	}
	var k KFFile
	if err := json.Unmarshal(b, &k); err != nil {
		return nil, err
	}
	return &k, nil
}

// Outcome of finishing a property run.
type Outcome struct {
	Violations []Obl
	Known      []Obl
	Evidence   map[string]any
}

// finish applies floors and known findings, returns the outcome.
func (r *Res) finish(kf *KFFile) Outcome {
	// Floors guard against vacuity, not against de-duplication: extracting a helper legitimately merges several
	// instances into one. A rule fails its floor when it matches nothing, or fewer than half of what was confirmed.
	for _, f := range r.Floors {
		if f.Want > 0 && (f.Got == 0 || 2*f.Got < f.Want) {
			r.Bad("floor", f.Rule, "", fmt.Sprintf("rule matched %d sites; %d were confirmed by hand on the pinned tree — fewer than half: the rule would pass (almost) vacuously", f.Got, f.Want))
		}
	}
	var out Outcome
	used := map[int]bool{}
	for i := range r.Obls {
		o := &r.Obls[i]
		if o.Verdict != "violated" && o.Verdict != "undecided" {
			continue
		}
		matched := false
		if o.Verdict == "violated" && kf != nil {
			for j, e := range kf.Entries {
				if e.Kind == "finding" && e.Property == r.Prop && e.Rule == o.Rule && e.Key == o.Key {
					matched = true
					used[j] = true
					o.Verdict = "known-finding"
					o.Detail = o.Detail + " [known finding: " + e.What + "]"
					out.Known = append(out.Known, *o)
					break
				}
			}
		}
		if !matched {
			out.Violations = append(out.Violations, *o)
		}
	}
	if kf != nil {
		for j, e := range kf.Entries {
			if e.Kind == "finding" && e.Property == r.Prop && !used[j] {
				r.Note("known finding no longer reported (repaired or construct renamed): rule=%s key=%s", e.Rule, e.Key)
			}
		}
	}
	return out
}

func (r *Res) writeEvidence(dir, tier string, seed int64, wall float64, out Outcome, extra map[string]any, explanation string) error {
	discharged, nontriv := 0, 0
	distinct := map[string]bool{}
	exempt := []Obl{}
	for _, o := range r.Obls {
		if o.Verdict == "discharged" {
			discharged++
		}
		if o.Verdict == "exempt" {
			exempt = append(exempt, o)
		}
		if o.Nontrivial && o.Verdict != "exempt" {
			k := o.Rule + "|" + o.Key
			if !distinct[k] {
				distinct[k] = true
				nontriv++
			}
		}
	}
	// samples: violations first, then known, then up to 12 discharged nontrivial ones spread over rules
	var samples []any
	for _, o := range out.Violations {
		samples = append(samples, o)
	}
	for _, o := range out.Known {
		samples = append(samples, o)
	}
	perRule := map[string]int{}
	for _, o := range r.Obls {
		if o.Verdict == "discharged" && perRule[o.Rule] < 2 && len(samples) < 40 {
			perRule[o.Rule]++
			samples = append(samples, o)
		}
	}
	if len(samples) == 0 {
		samples = append(samples, "no obligations generated")
	}
	ruleCounts := map[string]map[string]int{}
	for _, o := range r.Obls {
		if ruleCounts[o.Rule] == nil {
			ruleCounts[o.Rule] = map[string]int{}
		}
		ruleCounts[o.Rule][o.Verdict]++
	}
	cov := map[string]any{
		"explanation":         explanation,
		"obligations":         len(r.Obls),
		"discharged":          discharged,
		"evaluations":         len(r.Obls),
		"distinct_nontrivial": nontriv,
		"rule":                "obligations are enumerated from /repo's type-checked source by the rules listed under rules_applied: one per (rule, construct); an obligation is non-trivial if discharging it needed a CFG path, dataflow or call-graph argument rather than a presence test; distinct = distinct (rule, construct key)",
		"samples":             samples,
		"rules_applied":       r.Rules,
		"per_rule":            ruleCounts,
		"floors":              r.Floors,
		"exemptions":          exempt,
		"known_findings":      out.Known,
		"notes":               r.Notes,
		"all_obligations":     r.Obls,
		"checker_cmd":         strings.Join(os.Args, " "),
		"trusted_base":        []string{"go/types, go/cfg, go/ssa, callgraph/vta (golang.org/x/tools v0.50.0, go1.26.8)", "rule tables in /verif/checker (anchors, exemptions; printed here)"},
		"exhaustive":          false,
	}
	for k, v := range extra {
		cov[k] = v
	}
	ev := map[string]any{
		"property_id": r.Prop,
		"tier":        tier,
		"seed":        seed,
		"level":       "other",
		"coverage":    cov,
		"assumptions": append([]string{"static analysis of source; no pkappa2 code is executed"}, r.Assumptions...),
		"wall_s":      wall,
		"violations":  len(out.Violations),
	}
	b, err := json.MarshalIndent(ev, "", " ")
	if err != nil {
		return err
	}
	if err := os.MkdirAll(dir, 0o755); err != nil {
		return err
	}
	return os.WriteFile(filepath.Join(dir, r.Prop+".json"), b, 0o644)
}

func sortObls(o []Obl) {
	sort.SliceStable(o, func(i, j int) bool {
		if o[i].Rule != o[j].Rule {
			return o[i].Rule < o[j].Rule
		}
		return o[i].Key < o[j].Key
	})
}

var startTime = time.Now()
