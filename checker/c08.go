package main

// c08.go: structural necessary conditions of C08 (the import result does not depend on how captures arrive).
//
// The body of C08 — equality of the visible streams under every batching — is a statement about runtime values
// (timestamps, replay windows) and is NOT decided. What is decided are the disciplines the identity clause rests on
// ("once a stream has an ID it keeps it, no connection ever has two visible IDs") and the agreement of the two halves
// of the snapshot file format:
//
//   C08-a fresh-id-unique      an id taken from the next-id counter and handed to Writer.AddStream is followed by an
//                              increment of the counter before the counter is read for the next stream
//   C08-b next-id-is-maximum   every value derived from Reader.MaxStreamID() that is assigned to a next-id variable
//                              is a monotone update inside a range over the WHOLE reader list with no early exit
//                              and is not off by one (guard and value evaluated as MaxStreamID() + k)
//   C08-c id-lookup-is-total   the first-packet lookup that recovers the id of a known stream ranges over the whole
//                              list of existing readers and leaves the loop early only when it has found the stream
//   C08-d snapshot-format      saveSnapshots and loadSnapshots write and read the same sequence of records, and every
//                              field of the header records and of struct snapshot is both written and read back
//   C08-e merge-order          the two packet lists merged by FromPcap are sorted with the comparator the merge uses

import (
	"fmt"
	"go/ast"
	"go/constant"
	"go/token"
	"go/types"
	"strings"

	"golang.org/x/tools/go/cfg"
)

func init() {
	register("C08",
		"C08 (structural necessary conditions only; equality of the visible streams under every batching, arrival order and snapshot placement is NOT decided — it depends on timestamps and replay windows). C08-a (FLOW, two-phase, edge-pruned): in package builder an id copied from the next-id counter and handed unchanged to (*index.Writer).AddStream is followed by an increment of that counter on every path to the next read of the counter — otherwise two connections of one import get the same id. C08-b (typed AST): every assignment of a value derived from (*index.Reader).MaxStreamID() to a next-id variable (builder.FromPcap, manager.New) is a monotone update (guarded by a comparison of target and candidate — around the assignment or as an early continue —, or max()) inside a range over the whole reader list whose body has no break/return/goto: ids of rewritten streams live on in newer files, so no single file knows the maximum. Guard and value are evaluated as MaxStreamID() + k: the value has k >= 1, and a guard that is not taken leaves the counter above the file's largest id (`counter < max` lets the counter equal an id in use). C08-c (FLOW): the first-packet lookup that recovers the id of an already known stream ranges over the whole list of existing readers and leaves the loop early only on the branch on which a stream was found, and a lookup that fails ends the import with an error (an index that cannot be read must not read as 'stream not known'). C08-d (sibling agreement): saveSnapshots and loadSnapshots agree on the sequence of records (nesting depth and type) they write and read, every field of snapshotHeader/snapshotEntryHeader set by the writer is read by the reader and vice versa, and every field of struct snapshot is read by the writer and assigned by the reader. C08-e: both packet lists that FromPcap merges are sorted through the comparator the merge step itself calls.",
		ruleC08FreshID, ruleC08NextIDMax, ruleC08LookupTotal, ruleC08SnapshotFormat, ruleC08MergeOrder)
}

// ---- C08-a ----

func init() {
	register("C12",
		"C12-k = C08-b for its restart clause: manager.New derives the next stream id from (*index.Reader).MaxStreamID() of the index files it finds as a maximum over ALL of them (monotone update inside an unbroken range over the whole list). Ids of rewritten streams live on in newer files, so the newest file does not know the maximum; after a restart with a too small next id the streams above it are not re-evaluated, marks are clipped, and the next import hands out ids that completed imports already used.",
		func(p *Prog, r *Res) { ruleNextIDMax(p, r, "C12-k next-id-is-maximum") })
}

func ruleC08FreshID(p *Prog, r *Res) {
	const rule = "C08-a fresh-id-unique"
	r.Rule(rule + ": a fresh id is followed by an increment of the counter before the counter is read again")
	addStream := p.Method("index", "Writer", "AddStream")
	if addStream == nil {
		return
	}
	n := 0
	for _, f := range p.FnList {
		if f.Short != "builder" || f.Body() == nil {
			continue
		}
		info := f.Pkg.TypesInfo
		// id arguments of AddStream calls in this function
		idObjs := map[types.Object]bool{}
		inspectShallow(f.Body(), func(x ast.Node) bool {
			if c, ok := x.(*ast.CallExpr); ok && p.Callee(f.Pkg, c) == addStream && len(c.Args) == 2 {
				if o := identObj(info, c.Args[1]); o != nil {
					idObjs[o] = true
				}
			}
			return true
		})
		if len(idObjs) == 0 {
			continue
		}
		fl := p.Flow(f)
		for id := range idObjs {
			// definitions `id := counter` where counter is a variable that is incremented somewhere in the enclosing declaration
			for _, pt := range fl.Find(func(nd ast.Node) bool {
				as, ok := nd.(*ast.AssignStmt)
				return ok && len(as.Lhs) == 1 && len(as.Rhs) == 1 && identObj(info, as.Lhs[0]) == id && identObj(info, as.Rhs[0]) != nil
			}) {
				def := fl.node(pt).(*ast.AssignStmt)
				counter := identObj(info, def.Rhs[0])
				isInc := func(nd ast.Node) bool {
					switch s := nd.(type) {
					case *ast.IncDecStmt:
						return s.Tok == token.INC && identObj(info, s.X) == counter
					case *ast.AssignStmt:
						if len(s.Lhs) == 1 && identObj(info, s.Lhs[0]) == counter {
							if s.Tok == token.ADD_ASSIGN {
								return true
							}
							if s.Tok == token.ASSIGN {
								if be, ok := ast.Unparen(s.Rhs[0]).(*ast.BinaryExpr); ok && be.Op == token.ADD && (identObj(info, be.X) == counter || identObj(info, be.Y) == counter) {
									return true
								}
							}
						}
					}
					return false
				}
				hasInc := false
				ast.Inspect(f.Root().Body(), func(x ast.Node) bool {
					if x != nil && isInc(x) {
						hasInc = true
					}
					return !hasInc
				})
				if !hasInc && !receivesMaxID(p, f.Root(), counter) {
					continue // neither incremented nor fed from Reader.MaxStreamID(): not the next-id counter
				}
				n++
				key := fmt.Sprintf("%s %s := %s", f.Key(), id.Name(), counter.Name())
				isUse := func(nd ast.Node) bool {
					return fl.hasCall(nd, func(c *ast.CallExpr) bool {
						return p.Callee(f.Pkg, c) == addStream && len(c.Args) == 2 && identObj(info, c.Args[1]) == id
					})
				}
				reassigns := func(nd ast.Node) bool {
					if as, ok := nd.(*ast.AssignStmt); ok && nd != ast.Node(def) {
						for _, l := range as.Lhs {
							if identObj(info, l) == id {
								return true
							}
						}
					}
					return false
				}
				// edges on which id != counter is known: the id is not the fresh one there
				notFresh := func(c ast.Expr, trueEdge bool) bool {
					be, ok := ast.Unparen(c).(*ast.BinaryExpr)
					if !ok {
						return false
					}
					x, y := identObj(info, be.X), identObj(info, be.Y)
					if !((x == id && y == counter) || (x == counter && y == id)) {
						return false
					}
					return (trueEdge && be.Op == token.NEQ) || (!trueEdge && be.Op == token.EQL)
				}
				fl.EdgeOK = func(b *cfg.Block, succ int) bool {
					if len(b.Succs) != 2 || len(b.Nodes) == 0 {
						return true
					}
					cond, ok := b.Nodes[len(b.Nodes)-1].(ast.Expr)
					if !ok {
						return true
					}
					if succ == 0 {
						for _, c := range conjuncts(cond) {
							if notFresh(c, true) {
								return false
							}
						}
					} else {
						for _, c := range disjuncts(cond) {
							if notFresh(c, false) {
								return false
							}
						}
					}
					return true
				}
				bad := ""
				// phase 1: uses of the still-fresh id before any increment
				var freshUses []Pt
				seen := map[ast.Node]bool{}
				for {
					res := fl.Reach([]Pt{After(pt)}, func(nd ast.Node) bool { return isUse(nd) && !seen[nd] }, func(nd ast.Node) bool {
						return isInc(nd) || reassigns(nd) || nd == ast.Node(def)
					})
					if !res.Found {
						break
					}
					seen[res.End] = true
					if up, ok := fl.at[res.End]; ok {
						freshUses = append(freshUses, up)
					}
				}
				// phase 2: from such a use back to the next read of the counter, or to a successful return, without an increment
				// (the id is still the fresh one: the same edge facts apply; a failing return aborts the import as a whole)
				succeeds := func(nd ast.Node) bool {
					ret, ok := nd.(*ast.ReturnStmt)
					if !ok {
						return false
					}
					if len(ret.Results) == 0 {
						return true
					}
					last, ok := ast.Unparen(ret.Results[len(ret.Results)-1]).(*ast.Ident)
					return ok && last.Name == "nil"
				}
				for _, up := range freshUses {
					res := fl.Reach([]Pt{After(up)}, func(nd ast.Node) bool { return nd == ast.Node(def) }, isInc)
					if res.Found {
						bad = fmt.Sprintf("the id written at line %d is the unchanged counter value, and the next stream reads the counter again without an increment in between (%s)", lineOf(p.Fset, fl.node(up)), fl.traceString(res))
						break
					}
					if fallsOffEndAvoiding(fl, After(up), isInc) || fl.Reach([]Pt{After(up)}, succeeds, isInc).Found {
						// leaving the function without the increment: the count of used ids reported to the caller is short
						bad = fmt.Sprintf("the id written at line %d is the unchanged counter value and the function can return without incrementing the counter: the number of used ids reported to the caller is short, the next import hands the id out again", lineOf(p.Fset, fl.node(up)))
						break
					}
				}
				fl.EdgeOK = nil
				r.Check(bad == "", rule, key, p.Pos(def), "every use of the fresh id is preceded or followed by the counter's increment before the counter is read again", "two connections can be written with one id: "+bad)
			}
		}
	}
	r.Floor(rule, 1, n)
}

// ---- C08-b ----

func ruleC08NextIDMax(p *Prog, r *Res) { ruleNextIDMax(p, r, "C08-b next-id-is-maximum") }

func ruleNextIDMax(p *Prog, r *Res, rule string) {
	r.Rule(rule + ": values derived from Reader.MaxStreamID() become the next id only as a maximum over the whole reader list")
	maxM := p.Method("index", "Reader", "MaxStreamID")
	if maxM == nil {
		return
	}
	n := 0
	for _, f := range p.FnList {
		if (f.Short != "builder" && f.Short != "manager") || f.Body() == nil {
			continue
		}
		info := f.Pkg.TypesInfo
		// locals that hold a value derived from MaxStreamID()
		derived := map[types.Object]bool{}
		fromMax := func(e ast.Expr) bool {
			hit := false
			ast.Inspect(e, func(x ast.Node) bool {
				switch y := x.(type) {
				case *ast.FuncLit:
					return false
				case *ast.CallExpr:
					if p.Callee(f.Pkg, y) == maxM {
						hit = true
					}
				case *ast.Ident:
					if derived[info.Uses[y]] {
						hit = true
					}
				}
				return !hit
			})
			return hit
		}
		for changed := true; changed; {
			changed = false
			inspectShallow(f.Body(), func(x ast.Node) bool {
				if as, ok := x.(*ast.AssignStmt); ok && as.Tok == token.DEFINE && len(as.Lhs) == len(as.Rhs) {
					for i, l := range as.Lhs {
						if o := identObj(info, l); o != nil && !derived[o] && fromMax(as.Rhs[i]) {
							derived[o] = true
							changed = true
						}
					}
				}
				return true
			})
		}
		// offsetOf: e is MaxStreamID() + k for a constant k (following locals with one definition)
		var offsetOf func(e ast.Expr, depth int) (int64, bool)
		offsetOf = func(e ast.Expr, depth int) (int64, bool) {
			e = ast.Unparen(e)
			if depth > 4 {
				return 0, false
			}
			switch y := e.(type) {
			case *ast.CallExpr:
				if p.Callee(f.Pkg, y) == maxM {
					return 0, true
				}
				if tv, ok := info.Types[y.Fun]; ok && tv.IsType() && len(y.Args) == 1 {
					return offsetOf(y.Args[0], depth+1)
				}
			case *ast.BinaryExpr:
				if y.Op == token.ADD || y.Op == token.SUB {
					for side, pair := range [2][2]ast.Expr{{y.X, y.Y}, {y.Y, y.X}} {
						if side == 1 && y.Op == token.SUB {
							break
						}
						if tv, ok := info.Types[pair[1]]; ok && tv.Value != nil {
							if c, exact := constant.Int64Val(constant.ToInt(tv.Value)); exact {
								if k, ok := offsetOf(pair[0], depth+1); ok {
									if y.Op == token.SUB {
										return k - c, true
									}
									return k + c, true
								}
							}
						}
					}
				}
			case *ast.Ident:
				o := info.Uses[y]
				if o == nil || !derived[o] {
					return 0, false
				}
				var def ast.Expr
				nDef := 0
				ast.Inspect(f.Body(), func(z ast.Node) bool {
					switch s := z.(type) {
					case *ast.AssignStmt:
						if len(s.Lhs) == len(s.Rhs) {
							for i, l := range s.Lhs {
								if identObj(info, l) == o {
									nDef++
									def = s.Rhs[i]
								}
							}
						}
					case *ast.IncDecStmt:
						if identObj(info, s.X) == o {
							nDef += 2
						}
					}
					return true
				})
				if nDef == 1 {
					return offsetOf(def, depth+1)
				}
			}
			return 0, false
		}
		// guardKeeps: when the update is NOT made the target already exceeds the file's largest id.
		// `target < M+k` not taken means target >= M+k: needs k >= 1; `target <= M+k` not taken means target > M+k: k >= 0.
		guardKeeps := func(cand ast.Expr, strict bool) (bool, bool) {
			k, ok := offsetOf(cand, 0)
			if !ok {
				return true, false
			}
			if strict {
				return k >= 1, true
			}
			return k >= 0, true
		}
		inspectParents(f.Body(), func(x ast.Node, parents []ast.Node) bool {
			as, ok := x.(*ast.AssignStmt)
			if !ok || as.Tok == token.DEFINE || len(as.Lhs) != len(as.Rhs) {
				return true
			}
			for i, l := range as.Lhs {
				if !fromMax(as.Rhs[i]) {
					continue
				}
				if b, ok := info.TypeOf(l).Underlying().(*types.Basic); !ok || b.Info()&types.IsInteger == 0 {
					continue
				}
				n++
				target := exprString(p.Fset, l)
				key := fmt.Sprintf("%s %s = … MaxStreamID() …", f.Key(), target)
				// enclosing range over a whole reader list
				type listLoop struct {
					X    ast.Expr
					Body *ast.BlockStmt
				}
				var loop *listLoop
				for _, par := range parents {
					if rs, ok := par.(*ast.RangeStmt); ok {
						loop = &listLoop{rs.X, rs.Body}
					}
					if fs, ok := par.(*ast.ForStmt); ok {
						if lx := countedLoopOver(info, fs); lx != nil {
							loop = &listLoop{lx, fs.Body}
						}
					}
				}
				if loop == nil {
					r.Bad(rule, key, p.Pos(as), "the next id is taken from the maximum id of a single index file: ids of streams that were extended or merged live on in newer and older files alike, so a file need not contain the largest id in use — a new connection is given an id that is already visible")
					continue
				}
				whole := false
				switch lx := ast.Unparen(loop.X).(type) {
				case *ast.Ident:
					whole = true
				case *ast.SelectorExpr:
					_ = lx
					whole = true
				}
				// the loop variable must be the receiver of the MaxStreamID call that feeds the assignment
				earlyExit := ""
				ast.Inspect(loop.Body, func(y ast.Node) bool {
					switch s := y.(type) {
					case *ast.FuncLit:
						return false
					case *ast.ForStmt, *ast.RangeStmt, *ast.SwitchStmt, *ast.SelectStmt, *ast.TypeSwitchStmt:
						// an unlabelled break inside leaves only the inner statement
						ast.Inspect(s, func(z ast.Node) bool {
							if br, ok := z.(*ast.BranchStmt); ok && br.Label != nil && (br.Tok == token.BREAK || br.Tok == token.GOTO) {
								earlyExit = fmt.Sprintf("labelled %s at line %d", br.Tok, lineOf(p.Fset, br))
							}
							if _, ok := z.(*ast.ReturnStmt); ok {
								// a return inside the scan (error path of loading) is not a way to the assignment's use
							}
							return true
						})
						return false
					case *ast.BranchStmt:
						if s.Tok == token.BREAK || s.Tok == token.GOTO {
							earlyExit = fmt.Sprintf("%s at line %d", s.Tok, lineOf(p.Fset, s))
						}
					}
					return true
				})
				// monotone: guarded by a comparison that mentions the target and a derived value, or max()
				monotone := false
				offByOne := ""
				if k, ok := offsetOf(as.Rhs[i], 0); ok && k < 1 {
					offByOne = "the value assigned is the largest id of the file itself, not the one after it"
				}
				if c, ok := ast.Unparen(as.Rhs[i]).(*ast.CallExpr); ok && isBuiltin(info, c, "max") {
					for _, a := range c.Args {
						if exprString(p.Fset, a) == target {
							monotone = true
						} else if k, ok := offsetOf(a, 0); ok && k < 1 {
							offByOne = "max() is taken with the largest id of the file itself, not the one after it"
						}
					}
				}
				for _, par := range parents {
					ifs, ok := par.(*ast.IfStmt)
					if !ok || !within(as, ifs.Body) {
						continue
					}
					for _, c := range conjuncts(ifs.Cond) {
						be, ok := ast.Unparen(c).(*ast.BinaryExpr)
						if !ok {
							continue
						}
						switch be.Op {
						case token.LSS, token.LEQ, token.GTR, token.GEQ:
						default:
							continue
						}
						xs, ys := exprString(p.Fset, be.X), exprString(p.Fset, be.Y)
						if (xs == target && fromMax(be.Y) && (be.Op == token.LSS || be.Op == token.LEQ)) || (ys == target && fromMax(be.X) && (be.Op == token.GTR || be.Op == token.GEQ)) {
							monotone = true
							cand := be.Y
							if ys == target {
								cand = be.X
							}
							if keeps, known := guardKeeps(cand, be.Op == token.LSS || be.Op == token.GTR); known && !keeps {
								offByOne = "`" + exprString(p.Fset, ifs.Cond) + "` is false when the next id EQUALS the largest id of the file"
							}
						}
					}
				}
				// the same guard as an early `continue`: `if candidate < target { continue }; target = candidate + 1`
				for pi, par := range parents {
					blk, ok := par.(*ast.BlockStmt)
					if !ok || !within(blk, loop.Body) && blk != loop.Body {
						continue
					}
					var inner ast.Node = as
					if pi+1 < len(parents) {
						inner = parents[pi+1]
					}
					for _, st := range blk.List {
						if st == inner {
							break
						}
						ifs, ok := st.(*ast.IfStmt)
						if !ok || ifs.Else != nil || len(ifs.Body.List) == 0 {
							continue
						}
						br, ok := ifs.Body.List[len(ifs.Body.List)-1].(*ast.BranchStmt)
						if !ok || br.Tok != token.CONTINUE || br.Label != nil {
							continue
						}
						be, ok := ast.Unparen(ifs.Cond).(*ast.BinaryExpr)
						if !ok {
							continue
						}
						xs, ys := exprString(p.Fset, be.X), exprString(p.Fset, be.Y)
						// skipped when the candidate is below the target
						if (ys == target && fromMax(be.X) && (be.Op == token.LSS || be.Op == token.LEQ)) || (xs == target && fromMax(be.Y) && (be.Op == token.GTR || be.Op == token.GEQ)) {
							monotone = true
							cand := be.X
							if xs == target {
								cand = be.Y
							}
							// skipped on `M+k < target`: target > M+k, k >= 0; on `M+k <= target`: target >= M+k, k >= 1
							if keeps, known := guardKeeps(cand, be.Op == token.LEQ || be.Op == token.GEQ); known && !keeps {
								offByOne = "`" + exprString(p.Fset, ifs.Cond) + "` skips the file when the next id EQUALS its largest id"
							}
						}
					}
				}
				switch {
				case !whole:
					r.Bad(rule, key, p.Pos(as), "the scan for the largest id in use ranges over "+exprString(p.Fset, loop.X)+", not over the whole reader list: an id that only occurs in a skipped file can be handed out a second time")
				case earlyExit != "":
					r.Bad(rule, key, p.Pos(as), "the scan for the largest id in use can stop early ("+earlyExit+"): an id that only occurs in a later file can be handed out a second time")
				case monotone && offByOne != "":
					r.Bad(rule, key, p.Pos(as), "the update is off by one: "+offByOne+" — the next connection is given the id of a stream that exists")
				case !monotone:
					r.Bad(rule, key, p.Pos(as), "the next id is overwritten with the value of the file at hand without comparing it with what earlier files gave (no `target < candidate` guard, no max()): the last file wins, not the largest id")
				default:
					r.Ok(rule, key, p.Pos(as), "monotone update inside a range over the whole list "+exprString(p.Fset, loop.X)+" without early exit")
				}
			}
			return true
		})
	}
	r.Floor(rule, 2, n)
}

// ---- C08-c ----

func ruleC08LookupTotal(p *Prog, r *Res) {
	const rule = "C08-c id-lookup-is-total"
	r.Rule(rule + ": the lookup that recovers a known stream's id consults every existing reader")
	lookM := p.Method("index", "Reader", "StreamByFirstPacketSource")
	if lookM == nil {
		return
	}
	n := 0
	for _, f := range p.FnList {
		if f.Short != "builder" || f.Body() == nil {
			continue
		}
		info := f.Pkg.TypesInfo
		inspectParents(f.Body(), func(x ast.Node, parents []ast.Node) bool {
			c, ok := x.(*ast.CallExpr)
			if !ok || p.Callee(f.Pkg, c) != lookM {
				return true
			}
			n++
			key := fmt.Sprintf("%s lookup@%s", f.Key(), relLine(p, f, c))
			se, _ := ast.Unparen(c.Fun).(*ast.SelectorExpr)
			var recv types.Object
			if se != nil {
				recv = identObj(info, se.X)
			}
			var loop *ast.RangeStmt
			for _, par := range parents {
				if rs, ok := par.(*ast.RangeStmt); ok && recv != nil && identObj(info, rs.Value) == recv {
					loop = rs
				}
			}
			if loop == nil {
				r.Bad(rule, key, p.Pos(c), "the id of a known stream is looked up in a single reader, not in a range over the existing readers: a stream whose first packet is indexed in another file gets a second id")
				return true
			}
			switch ast.Unparen(loop.X).(type) {
			case *ast.Ident, *ast.SelectorExpr:
			default:
				r.Bad(rule, key, p.Pos(c), "the lookup ranges over "+exprString(p.Fset, loop.X)+", not over the whole list of existing readers: a stream first indexed in a skipped file gets a second id")
				return true
			}
			// result variable of the lookup
			var resObj types.Object
			for i := len(parents) - 1; i >= 0; i-- {
				if as, ok := parents[i].(*ast.AssignStmt); ok && len(as.Rhs) == 1 && ast.Unparen(as.Rhs[0]) == ast.Expr(c) && len(as.Lhs) >= 1 {
					resObj = identObj(info, as.Lhs[0])
					break
				}
			}
			// every way out of the loop body other than falling through to the next reader lies on an edge on which a stream
			// was found (res != nil) or the lookup failed (return)
			bad := ""
			inspectParents(loop.Body, func(y ast.Node, ps []ast.Node) bool {
				br, ok := y.(*ast.BranchStmt)
				if !ok || (br.Tok != token.BREAK && br.Tok != token.GOTO) {
					return true
				}
				// unlabelled break inside a nested breakable statement does not leave the loop
				if br.Label == nil {
					for _, q := range ps {
						switch q.(type) {
						case *ast.ForStmt, *ast.RangeStmt, *ast.SwitchStmt, *ast.SelectStmt, *ast.TypeSwitchStmt:
							return true
						}
					}
				}
				found := false
				for _, q := range ps {
					ifs, ok := q.(*ast.IfStmt)
					if !ok || !within(br, ifs.Body) {
						continue
					}
					for _, cj := range conjuncts(ifs.Cond) {
						if be, ok := ast.Unparen(cj).(*ast.BinaryExpr); ok && be.Op == token.NEQ && resObj != nil && identObj(info, be.X) == resObj && exprString(p.Fset, be.Y) == "nil" {
							found = true
						}
					}
				}
				// … or behind a guard `if res == nil { continue }` earlier in the same block
				for qi := len(ps) - 1; qi >= 0 && !found; qi-- {
					blk, ok := ps[qi].(*ast.BlockStmt)
					if !ok {
						continue
					}
					for _, st := range blk.List {
						if st.Pos() >= br.Pos() {
							break
						}
						ifs, ok := st.(*ast.IfStmt)
						if !ok || ifs.Else != nil || len(ifs.Body.List) == 0 {
							continue
						}
						last := ifs.Body.List[len(ifs.Body.List)-1]
						leaves := false
						if b2, ok := last.(*ast.BranchStmt); ok && b2.Tok == token.CONTINUE {
							leaves = true
						}
						if _, ok := last.(*ast.ReturnStmt); ok {
							leaves = true
						}
						if be, ok := ast.Unparen(ifs.Cond).(*ast.BinaryExpr); ok && leaves && be.Op == token.EQL && resObj != nil && identObj(info, be.X) == resObj && exprString(p.Fset, be.Y) == "nil" {
							found = true
						}
					}
					break
				}
				if !found {
					bad = fmt.Sprintf("%s at line %d leaves the scan although no stream was found", br.Tok, lineOf(p.Fset, br))
				}
				return true
			})
			// a lookup that fails is not a lookup that found nothing: the branch taken for a non-nil error ends the import
			if bad == "" {
				var errObj types.Object
				for i := len(parents) - 1; i >= 0; i-- {
					if as, ok := parents[i].(*ast.AssignStmt); ok && len(as.Rhs) == 1 && ast.Unparen(as.Rhs[0]) == ast.Expr(c) && len(as.Lhs) == 2 {
						errObj = identObj(info, as.Lhs[1])
						break
					}
				}
				if errObj == nil {
					bad = "the error result of the lookup is discarded: an unreadable index reads as 'stream not known'"
				} else {
					handled := false
					errObjs := map[types.Object]bool{errObj: true}
					for changed := true; changed; {
						changed = false
						ast.Inspect(loop.Body, func(y ast.Node) bool {
							if as, ok := y.(*ast.AssignStmt); ok && len(as.Lhs) == len(as.Rhs) {
								for i, l := range as.Lhs {
									if o := identObj(info, l); o != nil && !errObjs[o] && errObjs[identObj(info, as.Rhs[i])] {
										errObjs[o] = true
										changed = true
									}
								}
							}
							return true
						})
					}
					ast.Inspect(loop.Body, func(y ast.Node) bool {
						ifs, ok := y.(*ast.IfStmt)
						if !ok {
							return true
						}
						for _, cj := range conjuncts(ifs.Cond) {
							be, ok := ast.Unparen(cj).(*ast.BinaryExpr)
							if !ok || be.Op != token.NEQ || !errObjs[identObj(info, be.X)] || exprString(p.Fset, be.Y) != "nil" {
								continue
							}
							// the branch must end in a return that hands an error on
							if len(ifs.Body.List) > 0 {
								if ret, ok := ifs.Body.List[len(ifs.Body.List)-1].(*ast.ReturnStmt); ok && len(ret.Results) > 0 {
									last := ast.Unparen(ret.Results[len(ret.Results)-1])
									if id, ok := last.(*ast.Ident); !ok || id.Name != "nil" {
										handled = true
									}
								}
							}
						}
						return true
					})
					if !handled {
						bad = "a failing lookup does not end the import with an error: an index that cannot be read is treated as 'stream not known'"
					}
				}
			}
			r.Check(bad == "", rule, key, p.Pos(c), "ranges over the whole list "+exprString(p.Fset, loop.X)+"; the loop is left early only where a stream was found; a failing lookup aborts", "the lookup can stop before every existing reader was asked ("+bad+"): a known stream is written with a second id")
			return true
		})
	}
	r.Floor(rule, 1, n)
}

// ---- C08-d ----

type wireRec struct {
	depth int
	typ   string
	pos   token.Pos
}

func ruleC08SnapshotFormat(p *Prog, r *Res) {
	const rule = "C08-d snapshot-format-agreement"
	r.Rule(rule + ": saveSnapshots and loadSnapshots agree on record sequence and fields")
	save, load := p.Fn("builder.saveSnapshots"), p.Fn("builder.loadSnapshots")
	if save == nil || load == nil {
		return
	}
	norm := func(t types.Type) string {
		if pt, ok := t.Underlying().(*types.Pointer); ok {
			t = pt.Elem()
		}
		s := types.TypeString(t, func(*types.Package) string { return "" })
		if s == "string" || s == "[]byte" || s == "[]uint8" {
			return "bytes"
		}
		return s
	}
	seq := func(f *Fn, writer bool) []wireRec {
		info := f.Pkg.TypesInfo
		var out []wireRec
		var walk func(n ast.Node, depth int)
		walk = func(n ast.Node, depth int) {
			ast.Inspect(n, func(x ast.Node) bool {
				switch s := x.(type) {
				case *ast.FuncLit:
					return false
				case *ast.ForStmt:
					if s.Init != nil {
						walk(s.Init, depth)
					}
					// a padding loop that writes nothing is not a level of the format
					walk(s.Body, depth+1)
					return false
				case *ast.RangeStmt:
					walk(s.Body, depth+1)
					return false
				case *ast.CallExpr:
					fn := p.Callee(f.Pkg, s)
					if fn == nil {
						return true
					}
					switch fn.FullName() {
					case "encoding/binary.Write":
						if writer && len(s.Args) == 3 {
							out = append(out, wireRec{depth, norm(info.TypeOf(s.Args[2])), s.Pos()})
						}
					case "encoding/binary.Read":
						if !writer && len(s.Args) == 3 {
							out = append(out, wireRec{depth, norm(info.TypeOf(s.Args[2])), s.Pos()})
						}
					case "(*bufio.Writer).WriteString", "(*bufio.Writer).Write":
						if writer {
							out = append(out, wireRec{depth, "bytes", s.Pos()})
						}
					case "io.ReadFull":
						if !writer {
							out = append(out, wireRec{depth, "bytes", s.Pos()})
						}
					}
				}
				return true
			})
		}
		walk(f.Body(), 0)
		return out
	}
	ws, rs := seq(save, true), seq(load, false)
	render := func(l []wireRec) string {
		var parts []string
		for _, w := range l {
			parts = append(parts, fmt.Sprintf("%s@%d", w.typ, w.depth))
		}
		return strings.Join(parts, " ")
	}
	same := len(ws) == len(rs)
	if same {
		for i := range ws {
			if ws[i].typ != rs[i].typ || ws[i].depth != rs[i].depth {
				same = false
			}
		}
	}
	r.Check(same && len(ws) >= 3, rule, "record sequence of saveSnapshots = record sequence of loadSnapshots", p.Pos(save.Node()), "both: "+render(ws), "the writer emits ["+render(ws)+"] but the reader expects ["+render(rs)+"]: a snapshot file written by one import is mis-read (or rejected) by the next, which then replays a different set of captures")
	// fields of the record structs: set by the writer ⇔ read by the reader
	for _, tn := range []string{"snapshotHeader", "snapshotEntryHeader"} {
		nt := p.Named("builder", tn)
		if nt == nil {
			continue
		}
		st, ok := nt.Underlying().(*types.Struct)
		if !ok {
			continue
		}
		set := map[string]bool{}
		ast.Inspect(save.Body(), func(x ast.Node) bool {
			if cl, ok := x.(*ast.CompositeLit); ok && namedOf(save.Pkg.TypesInfo.TypeOf(cl)) == nt {
				for _, e := range cl.Elts {
					if kv, ok := e.(*ast.KeyValueExpr); ok {
						if id, ok := kv.Key.(*ast.Ident); ok {
							set[id.Name] = true
						}
					}
				}
			}
			if as, ok := x.(*ast.AssignStmt); ok {
				for _, l := range as.Lhs {
					if se, ok := ast.Unparen(l).(*ast.SelectorExpr); ok && namedOf(save.Pkg.TypesInfo.TypeOf(se.X)) == nt {
						set[se.Sel.Name] = true
					}
				}
			}
			return true
		})
		read := map[string]bool{}
		ast.Inspect(load.Body(), func(x ast.Node) bool {
			if se, ok := x.(*ast.SelectorExpr); ok {
				if t := load.Pkg.TypesInfo.TypeOf(se.X); t != nil && namedOf(t) == nt {
					read[se.Sel.Name] = true
				}
			}
			return true
		})
		for i := 0; i < st.NumFields(); i++ {
			fn := st.Field(i).Name()
			key := fmt.Sprintf("%s.%s set by saveSnapshots and read by loadSnapshots", tn, fn)
			r.Check(set[fn] && read[fn], rule, key, p.PosOf(st.Field(i).Pos()), "set and read", fmt.Sprintf("field %s of the on-disk record %s is %s: what the snapshot remembers is not what the next import gets back", fn, tn, map[bool]string{true: "written but never read back", false: "never set by the writer (zero on disk)"}[set[fn]]))
		}
	}
	// fields of struct snapshot: read by the writer, assigned by the reader
	if nt := p.Named("builder", "snapshot"); nt != nil {
		if st, ok := nt.Underlying().(*types.Struct); ok {
			uses := func(f *Fn, assigned bool) map[string]bool {
				m := map[string]bool{}
				info := f.Pkg.TypesInfo
				ast.Inspect(f.Body(), func(x ast.Node) bool {
					if as, ok := x.(*ast.AssignStmt); ok && assigned {
						for _, l := range as.Lhs {
							base := ast.Unparen(l)
							if ix, ok := base.(*ast.IndexExpr); ok {
								base = ast.Unparen(ix.X)
							}
							if se, ok := base.(*ast.SelectorExpr); ok {
								if t := info.TypeOf(se.X); t != nil && namedOf(derefType(t)) == nt {
									m[se.Sel.Name] = true
								}
							}
						}
					}
					if cl, ok := x.(*ast.CompositeLit); ok && assigned && namedOf(info.TypeOf(cl)) == nt {
						for _, e := range cl.Elts {
							if kv, ok := e.(*ast.KeyValueExpr); ok {
								if id, ok := kv.Key.(*ast.Ident); ok {
									m[id.Name] = true
								}
							}
						}
					}
					if se, ok := x.(*ast.SelectorExpr); ok && !assigned {
						if t := info.TypeOf(se.X); t != nil && namedOf(derefType(t)) == nt {
							m[se.Sel.Name] = true
						}
					}
					return true
				})
				return m
			}
			wr, rd := uses(save, false), uses(load, true)
			for i := 0; i < st.NumFields(); i++ {
				fn := st.Field(i).Name()
				key := fmt.Sprintf("snapshot.%s saved and restored", fn)
				r.Check(wr[fn] && rd[fn], rule, key, p.PosOf(st.Field(i).Pos()), "read by saveSnapshots, assigned by loadSnapshots", fmt.Sprintf("field %s of a snapshot is %s: after a restart the importer works with a different snapshot than before it", fn, map[bool]string{true: "saved but not restored", false: "not saved"}[wr[fn]]))
			}
		}
	}
}

func derefType(t types.Type) types.Type {
	if pt, ok := t.Underlying().(*types.Pointer); ok {
		return pt.Elem()
	}
	return t
}

// ---- C08-e ----

func ruleC08MergeOrder(p *Prog, r *Res) {
	const rule = "C08-e merge-uses-sort-order"
	r.Rule(rule + ": the lists merged packet by packet are sorted with the comparator the merge uses")
	f := p.Fn("builder.Builder.FromPcap")
	if f == nil {
		return
	}
	info := f.Pkg.TypesInfo
	// the merge step: a call cmp(&A[i], &B[j]) with two different slices → comparator object and the two lists
	type merge struct {
		cmp  types.Object
		a, b types.Object
		pos  ast.Node
	}
	var merges []merge
	elemBase := func(e ast.Expr) types.Object {
		ue, ok := ast.Unparen(e).(*ast.UnaryExpr)
		if !ok || ue.Op != token.AND {
			return nil
		}
		ix, ok := ast.Unparen(ue.X).(*ast.IndexExpr)
		if !ok {
			return nil
		}
		return identObj(info, ix.X)
	}
	inspectShallow(f.Body(), func(x ast.Node) bool {
		c, ok := x.(*ast.CallExpr)
		if !ok || len(c.Args) != 2 {
			return true
		}
		co := identObj(info, c.Fun)
		a, b := elemBase(c.Args[0]), elemBase(c.Args[1])
		if co != nil && a != nil && b != nil && a != b {
			merges = append(merges, merge{co, a, b, c})
		}
		return true
	})
	if len(merges) == 0 {
		p.anchorFail("merge step cmp(&old[i], &new[j]) in builder.Builder.FromPcap")
		return
	}
	// sorters: local closures or package functions that sort their parameter with a less function that calls cmp
	sorterOf := map[types.Object]types.Object{} // sorter -> comparator it uses
	usesCmpInSort := func(pk *Fn, body ast.Node) types.Object {
		var hit types.Object
		binfo := pk.Pkg.TypesInfo
		ast.Inspect(body, func(y ast.Node) bool {
			c, ok := y.(*ast.CallExpr)
			if !ok {
				return true
			}
			if fn := p.Callee(pk.Pkg, c); fn != nil && (fn.FullName() == "sort.Slice" || fn.FullName() == "sort.SliceStable" || fn.FullName() == "slices.SortFunc" || fn.FullName() == "slices.SortStableFunc") {
				ast.Inspect(c, func(z ast.Node) bool {
					if cc, ok := z.(*ast.CallExpr); ok {
						if o := identObj(binfo, cc.Fun); o != nil {
							for _, m := range merges {
								if o == m.cmp {
									hit = o
								}
							}
						}
					}
					return true
				})
			}
			return true
		})
		return hit
	}
	inspectShallow(f.Body(), func(x ast.Node) bool {
		switch s := x.(type) {
		case *ast.AssignStmt:
			if len(s.Lhs) == 1 && len(s.Rhs) == 1 {
				if lit, ok := s.Rhs[0].(*ast.FuncLit); ok && lit.Type.Params != nil && len(lit.Type.Params.List) == 1 {
					if o := usesCmpInSort(f, lit.Body); o != nil {
						sorterOf[identObj(info, s.Lhs[0])] = o
					}
				}
			}
		case *ast.CallExpr:
			if fn := p.Callee(f.Pkg, s); fn != nil {
				if h := p.FnOfObj(fn); h != nil && h.Lit == nil && h.Body() != nil && h.Pkg == f.Pkg && len(s.Args) == 1 {
					if o := usesCmpInSort(h, h.Body()); o != nil {
						sorterOf[types.Object(fn)] = o
					}
				}
			}
		}
		return true
	})
	fl := p.Flow(f)
	for _, m := range merges {
		for _, lst := range []types.Object{m.a, m.b} {
			key := fmt.Sprintf("%s merge of %s uses %s", f.Key(), lst.Name(), m.cmp.Name())
			// every non-empty (re)definition of the list — append to it, assignment from another value — is followed by a sort of
			// it through a sorter that uses the merge's comparator before the merge step is reached
			isSort := func(nd ast.Node) bool {
				return fl.hasCall(nd, func(c *ast.CallExpr) bool {
					o := identObj(info, c.Fun)
					if o == nil {
						if fn := p.Callee(f.Pkg, c); fn != nil {
							o = fn
						}
					}
					return o != nil && sorterOf[o] == m.cmp && len(c.Args) == 1 && identObj(info, c.Args[0]) == lst
				})
			}
			var grows []Pt
			for _, b := range fl.G.Blocks {
				if !b.Live {
					continue
				}
				for i, nd := range b.Nodes {
					as, ok := nd.(*ast.AssignStmt)
					if !ok {
						continue
					}
					for k, l := range as.Lhs {
						if identObj(info, l) != lst || k >= len(as.Rhs) {
							continue
						}
						rh := ast.Unparen(as.Rhs[k])
						// shrinking re-slices of itself and nil keep the order
						if sl, ok := rh.(*ast.SliceExpr); ok && identObj(info, sl.X) == lst {
							continue
						}
						if id, ok := rh.(*ast.Ident); ok && id.Name == "nil" {
							continue
						}
						if cv, ok := rh.(*ast.CallExpr); ok && len(cv.Args) == 1 {
							if id, ok := ast.Unparen(cv.Args[0]).(*ast.Ident); ok && id.Name == "nil" {
								continue
							}
						}
						grows = append(grows, Pt{b, i + 1})
					}
				}
			}
			isMerge := func(nd ast.Node) bool { return within(m.pos, nd) && nd.Pos() <= m.pos.Pos() }
			res := fl.Reach(grows, func(nd ast.Node) bool {
				_, isExpr := nd.(ast.Expr)
				_, isStmt := nd.(ast.Stmt)
				return (isExpr || isStmt) && isMerge(nd)
			}, isSort)
			r.Check(!res.Found && len(grows) > 0, rule, key, p.Pos(m.pos), "every assignment that fills "+lst.Name()+" is followed by a sort with "+m.cmp.Name()+" before the merge step", "the merge step compares the heads of two lists with "+m.cmp.Name()+" but "+lst.Name()+" can reach it without having been sorted with that comparator ("+fl.traceString(res)+"): packets are replayed out of order, reassembly sees a different byte stream than a one-shot import")
		}
	}
}

// receivesMaxID: somewhere in fn (closures included) the variable is assigned a value derived from Reader.MaxStreamID().
func receivesMaxID(p *Prog, fn *Fn, v types.Object) bool {
	maxM := p.Method("index", "Reader", "MaxStreamID")
	if maxM == nil {
		return false
	}
	info := fn.Pkg.TypesInfo
	derived := map[types.Object]bool{}
	fromMax := func(e ast.Expr) bool {
		hit := false
		ast.Inspect(e, func(x ast.Node) bool {
			switch y := x.(type) {
			case *ast.CallExpr:
				if p.Callee(fn.Pkg, y) == maxM {
					hit = true
				}
			case *ast.Ident:
				if derived[info.Uses[y]] {
					hit = true
				}
			}
			return !hit
		})
		return hit
	}
	for changed := true; changed; {
		changed = false
		ast.Inspect(fn.Body(), func(x ast.Node) bool {
			if as, ok := x.(*ast.AssignStmt); ok && len(as.Lhs) == len(as.Rhs) {
				for i, l := range as.Lhs {
					if o := identObj(info, l); o != nil && !derived[o] && fromMax(as.Rhs[i]) {
						derived[o] = true
						changed = true
					}
				}
			}
			return true
		})
	}
	return derived[v]
}

// countedLoopOver: `for i := 0; i < len(L); i++` visits every element of L; returns L (nil for other loops).
func countedLoopOver(info *types.Info, fs *ast.ForStmt) ast.Expr {
	init, ok := fs.Init.(*ast.AssignStmt)
	if !ok || init.Tok != token.DEFINE || len(init.Lhs) != 1 || len(init.Rhs) != 1 {
		return nil
	}
	iv := identObj(info, init.Lhs[0])
	if tv, ok := info.Types[init.Rhs[0]]; !ok || tv.Value == nil || tv.Value.String() != "0" || iv == nil {
		return nil
	}
	post, ok := fs.Post.(*ast.IncDecStmt)
	if !ok || post.Tok != token.INC || identObj(info, post.X) != iv {
		return nil
	}
	be, ok := ast.Unparen(fs.Cond).(*ast.BinaryExpr)
	if !ok || be.Op != token.LSS || identObj(info, be.X) != iv {
		return nil
	}
	c, ok := ast.Unparen(be.Y).(*ast.CallExpr)
	if !ok || !isBuiltin(info, c, "len") || len(c.Args) != 1 {
		return nil
	}
	// the counter is not changed in the body
	changed := false
	ast.Inspect(fs.Body, func(x ast.Node) bool {
		switch st := x.(type) {
		case *ast.AssignStmt:
			for _, l := range st.Lhs {
				if identObj(info, l) == iv {
					changed = true
				}
			}
		case *ast.IncDecStmt:
			if identObj(info, st.X) == iv {
				changed = true
			}
		}
		return true
	})
	if changed {
		return nil
	}
	return c.Args[0]
}
