package main

// c04g.go: C04-g / C01-e direction-alternates-per-chunk.
//
// The segmentation section of a stream is a list of varint chunk sizes in which the direction alternates with every
// entry, starting with client→server; an entry of size zero stands for "the other side continues". Both decoders of that
// list — Stream.Data (reader.go) and the raw-payload data source of the payload filters (search_data.go) — therefore
// have to flip their direction variable between any two entries, the empty ones included. The rule finds the decoders
// by role: a loop whose body decodes a varint (`acc <<= 7` in a nested loop) after resetting the accumulator, in a
// function that has a direction variable (initialised from the client-to-server constant and flipped by an assignment
// that reads itself). FLOW: from the accumulator reset no path leads to the next reset without passing a flip.

import (
	"fmt"
	"go/ast"
	"go/token"
	"go/types"
	"strings"
)

func init() {
	const expl = "(FLOW): every decoder of the segmentation list in package index — a loop that resets a varint accumulator and decodes it with `acc <<= 7` in a nested loop, in a function with a direction variable that starts at the client-to-server constant and is flipped by an assignment reading itself — flips the direction on every path from one entry to the next, entries of size zero included (the writer emits a zero entry when the same side continues). A flip that a `continue` can skip mirrors the attribution of all following chunks: payload filters see client bytes as server bytes, Stream.Data returns chunks under the wrong direction."
	register("C04", "C04-g "+expl, func(p *Prog, r *Res) { ruleDirectionAlternates(p, r, "C04-g direction-alternates-per-chunk") })
	register("C01", "C01-e "+expl, func(p *Prog, r *Res) { ruleDirectionAlternates(p, r, "C01-e direction-alternates-per-chunk") })
}

func ruleDirectionAlternates(p *Prog, r *Res, rule string) {
	r.Rule(rule + ": the direction flips between any two segmentation entries")
	n := 0
	for _, f := range p.FnList {
		if f.Short != "index" || f.Body() == nil {
			continue
		}
		info := f.Pkg.TypesInfo
		// varint accumulators: x <<= 7 inside a loop nested in another loop
		accs := map[types.Object]*ast.ForStmt{} // accumulator -> the loop that decodes it
		inspectParents(f.Body(), func(x ast.Node, parents []ast.Node) bool {
			as, ok := x.(*ast.AssignStmt)
			if !ok || as.Tok != token.SHL_ASSIGN || len(as.Lhs) != 1 || len(as.Rhs) != 1 {
				return true
			}
			if bl, ok := ast.Unparen(as.Rhs[0]).(*ast.BasicLit); !ok || bl.Value != "7" {
				return true
			}
			o := identObj(info, as.Lhs[0])
			var inner *ast.ForStmt
			nLoops := 0
			for _, par := range parents {
				if fs, ok := par.(*ast.ForStmt); ok {
					inner = fs
					nLoops++
				}
			}
			if o != nil && inner != nil && nLoops >= 2 {
				accs[o] = inner
			}
			return true
		})
		if len(accs) == 0 {
			continue
		}
		// direction variables: initialised from the client-to-server constant, flipped by an assignment that reads itself
		isC2S := func(e ast.Expr) bool {
			var name string
			switch x := ast.Unparen(e).(type) {
			case *ast.Ident:
				name = x.Name
			case *ast.SelectorExpr:
				name = x.Sel.Name
			}
			if name == "" {
				return false
			}
			if _, isConst := info.Uses[identOfExpr(e)].(*types.Const); !isConst {
				return false
			}
			return name == "C2S" || strings.Contains(name, "ClientToServer")
		}
		dirs := map[types.Object]bool{}
		inspectShallow(f.Body(), func(x ast.Node) bool {
			if as, ok := x.(*ast.AssignStmt); ok && as.Tok == token.DEFINE && len(as.Lhs) == len(as.Rhs) {
				for i, l := range as.Lhs {
					if o := identObj(info, l); o != nil && isC2S(as.Rhs[i]) {
						dirs[o] = true
					}
				}
			}
			return true
		})
		isFlip := func(nd ast.Node, d types.Object) bool {
			as, ok := nd.(*ast.AssignStmt)
			if !ok || len(as.Lhs) != 1 || identObj(info, as.Lhs[0]) != d {
				return false
			}
			if as.Tok == token.XOR_ASSIGN {
				return true
			}
			if as.Tok != token.ASSIGN || len(as.Rhs) != 1 {
				return false
			}
			reads := false
			ast.Inspect(as.Rhs[0], func(y ast.Node) bool {
				if id, ok := y.(*ast.Ident); ok && info.Uses[id] == d {
					reads = true
				}
				return true
			})
			return reads
		}
		fl := p.Flow(f)
		for acc, inner := range accs {
			// the per-entry reset of the accumulator, outside the decoding loop
			resets := fl.Find(func(nd ast.Node) bool {
				as, ok := nd.(*ast.AssignStmt)
				if !ok || len(as.Lhs) != 1 || identObj(info, as.Lhs[0]) != acc || within(nd, inner) {
					return false
				}
				return as.Tok == token.DEFINE || as.Tok == token.ASSIGN
			})
			if len(resets) == 0 {
				continue
			}
			var flipped []types.Object
			for d := range dirs {
				if len(fl.Find(func(nd ast.Node) bool { return isFlip(nd, d) })) > 0 {
					flipped = append(flipped, d)
				}
			}
			for _, rp := range resets {
				n++
				key := fmt.Sprintf("%s segmentation decoder@%s", f.Key(), relLine(p, f, fl.node(rp)))
				if len(flipped) == 0 {
					// a decoder that only adds the sizes up (AddIndex copies the list verbatim) attributes nothing
					n--
					r.Note("%s: %s decodes entry sizes without attributing them to a direction", rule, key)
					continue
				}
				ok := false
				why := ""
				for _, d := range flipped {
					res := fl.Reach([]Pt{After(rp)}, func(nd ast.Node) bool { return nd == fl.node(rp) }, func(nd ast.Node) bool { return isFlip(nd, d) })
					if !res.Found {
						ok = true
					} else {
						why = fmt.Sprintf("%s is not flipped on the path %s", d.Name(), fl.traceString(res))
					}
				}
				r.Check(ok, rule, key, p.Pos(fl.node(rp)), "the direction is flipped on every path to the next entry", "the next segmentation entry can be read without the direction having been flipped ("+why+"): an entry of size zero — the same side continues — no longer swaps sides, and every later chunk of the stream is attributed to the wrong direction")
			}
		}
	}
	r.Floor(rule, 2, n)
}

func identOfExpr(e ast.Expr) *ast.Ident {
	switch x := ast.Unparen(e).(type) {
	case *ast.Ident:
		return x
	case *ast.SelectorExpr:
		return x.Sel
	}
	return nil
}
