package main

// c13m.go: C13-m a file descriptor has one owner.
//
// A PCAP-over-IP endpoint dialled its source, took a duplicate of the connection's descriptor with conn.File() and gave
// that file to pcap.OpenOfflineFile — which does fdopen(file.Fd()): libpcap's FILE* now owned the same descriptor number
// as the Go *os.File. When the connection ended, handle.Close() closed it (fclose) and file.Close() closed the number
// again. Whatever the process had opened in between under that number — an index file a view was reading — was closed
// under its reader: `read ….idx: bad file descriptor` after 4 to 180 disconnects, with sources that reconnect every second
// (#90, probes/c13_descriptor_closed_twice). "An index file is never closed while a view still reads it" does not
// survive a stray close(2).
//
// Rule (typed AST): in the repository's packages an *os.File that is passed to a function of package gopacket/pcap
// (cgo: the descriptor changes hands) is not closed by Go in the same function or its literals; and a function of
// package manager that dials a connection does not turn it into a file (File()) at all.

import (
	"fmt"
	"go/ast"
	"strings"
)

func init() {
	register("C13",
		"C13-m (typed AST): an *os.File that is passed to a function of package gopacket/pcap (cgo; libpcap takes the descriptor with fdopen) is not also closed by Go — no Close() on the same variable in the function or its literals —, and a function of package manager that dials a connection does not call File() on it. Two owners of one descriptor number close it twice; the second close hits whatever the process opened under that number in between, for example an index file a view is reading: `bad file descriptor` in the middle of a search.",
		func(p *Prog, r *Res) {
			const rule = "C13-m descriptor-has-one-owner"
			r.Rule(rule + ": no descriptor is handed to libpcap and closed by Go as well")
			n := 0
			for _, f := range p.FnList {
				if f.Lit != nil || f.Body() == nil {
					continue
				}
				info := f.Pkg.TypesInfo
				dials := false
				var fileCall ast.Node
				for _, c := range callsInDeep(f.Body()) {
					fn := p.Callee(f.Pkg, c)
					if fn == nil {
						continue
					}
					if fn.FullName() == "(*net.Dialer).DialContext" || fn.FullName() == "net.Dial" || fn.FullName() == "(*net.Dialer).Dial" {
						dials = true
					}
					if strings.HasSuffix(fn.FullName(), ").File") && fn.Pkg() != nil && fn.Pkg().Path() == "net" {
						fileCall = c
					}
					if fn.Pkg() != nil && strings.HasSuffix(fn.Pkg().Path(), "gopacket/pcap") {
						for _, a := range c.Args {
							t := info.TypeOf(a)
							if t == nil || t.String() != "*os.File" {
								continue
							}
							n++
							o := identObj(info, a)
							closed := false
							for _, c2 := range callsInDeep(f.Body()) {
								if se, ok := ast.Unparen(c2.Fun).(*ast.SelectorExpr); ok && se.Sel.Name == "Close" && o != nil && identObj(info, se.X) == o {
									closed = true
								}
							}
							key := fmt.Sprintf("%s hands %s to %s", f.Key(), exprString(p.Fset, a), fn.Name())
							r.Check(!closed, rule, key, p.Pos(c), "Go does not close the file it handed over", "the file is handed to libpcap (fdopen on its descriptor) and closed by Go as well: the descriptor number is closed twice, and the second close hits whatever was opened under that number in between — an index file a view is reading fails with 'bad file descriptor'")
						}
					}
				}
				if dials && f.Short == "manager" {
					n++
					r.Check(fileCall == nil, rule, f.Key()+" reads from the connection it dialled", p.Pos(f.Node()), "the connection is read as a stream, no second descriptor is made", "the dialled connection is turned into an *os.File (File() duplicates the descriptor): the duplicate needs exactly one owner for its whole life, and the only use for it here is to hand it to a C library that closes it too")
				}
			}
			r.Floor(rule, 1, n)
		})
}
