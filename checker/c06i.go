package main

// c06i.go: C06-i / C02-m the tag acceptance table (exhaustive evaluation over a finite domain).
//
// A TagCondition carries a set Accept ⊆ {Matching, Failing, UncertainMatching, UncertainFailing}: the states of a
// stream with respect to the tag in which the condition holds. A tag that is being re-evaluated is inlined with the
// decided branch Accept = {Matching}: "certain and matching". buildSearchObjects turns Accept into a predicate on
// (Uncertain.IsSet(id), Matches.IsSet(id)) with a switch that has shortcuts for the frequent values and a generic
// default. The rule evaluates every shortcut for the four states and compares with the definition
//
//	holds(state)  ⇔  Accept ∩ {bit(state)} ≠ ∅
//
// — a shortcut `case Matching: return Matches.IsSet(id)` (seeded C06l) answers true for a stream that matched before
// and is pending now: the stale answer the Uncertain mask exists to prevent.

import (
	"fmt"
	"go/ast"
	"go/constant"
	"go/token"
	"go/types"
)

func init() {
	const expl = "(exhaustive evaluation, 16 × 4): in (*index.Reader).buildSearchObjects every non-default case K of the switch over TagCondition.Accept installs a predicate whose value, for each of the four states (uncertain, matching) of a stream, equals K ∩ {Matching | Failing | UncertainMatching | UncertainFailing for that state} ≠ ∅; a case that installs no predicate accepts every state, so K must be the full set; duplicate and overlapping cases are reported. A shortcut that reads Matches without Uncertain serves the old answer of a pending tag as decided."
	register("C06", "C06-i "+expl, func(p *Prog, r *Res) { ruleTagAcceptTable(p, r, "C06-i tag-acceptance-table") })
	register("C02", "C02-m "+expl, func(p *Prog, r *Res) { ruleTagAcceptTable(p, r, "C02-m tag-acceptance-table") })
}

func ruleTagAcceptTable(p *Prog, r *Res, rule string) {
	r.Rule(rule + ": every shortcut for a value of TagCondition.Accept agrees with the definition on all four stream states")
	f := p.Fn("index.Reader.buildSearchObjects")
	acceptFld := p.Field("query", "TagCondition", "Accept")
	unc := p.Field("query", "TagDetails", "Uncertain")
	mat := p.Field("query", "TagDetails", "Matches")
	if f == nil || acceptFld == nil || unc == nil || mat == nil {
		p.anchorFail("index.Reader.buildSearchObjects / query.TagCondition.Accept / query.TagDetails.{Uncertain,Matches}")
		return
	}
	info := f.Pkg.TypesInfo
	bit := map[string]int64{}
	for _, nm := range []string{"TagConditionAcceptMatching", "TagConditionAcceptFailing", "TagConditionAcceptUncertainMatching", "TagConditionAcceptUncertainFailing"} {
		for _, pk := range p.Pkgs {
			if pk.Types.Name() != "query" {
				continue
			}
			if c, ok := pk.Types.Scope().Lookup(nm).(*types.Const); ok {
				if v, exact := constant.Int64Val(c.Val()); exact {
					bit[nm] = v
				}
			}
		}
	}
	if len(bit) != 4 {
		p.anchorFail("the four TagConditionAccept constants")
		return
	}
	stateBit := func(uncertain, matching bool) int64 {
		switch {
		case uncertain && matching:
			return bit["TagConditionAcceptUncertainMatching"]
		case uncertain:
			return bit["TagConditionAcceptUncertainFailing"]
		case matching:
			return bit["TagConditionAcceptMatching"]
		}
		return bit["TagConditionAcceptFailing"]
	}
	var sw *ast.SwitchStmt
	inspectShallow(f.Body(), func(x ast.Node) bool {
		if s, ok := x.(*ast.SwitchStmt); ok && s.Tag != nil && sw == nil && isFieldOf(info, s.Tag, acceptFld) {
			sw = s
		}
		return true
	})
	if sw == nil {
		p.anchorFail("the switch over TagCondition.Accept in buildSearchObjects")
		return
	}
	// evaluate a boolean expression over the two atoms; ok=false: outside the vocabulary
	var eval func(e ast.Expr, u, m bool) (bool, bool)
	eval = func(e ast.Expr, u, m bool) (bool, bool) {
		e = ast.Unparen(e)
		switch x := e.(type) {
		case *ast.Ident:
			if x.Name == "true" {
				return true, true
			}
			if x.Name == "false" {
				return false, true
			}
		case *ast.UnaryExpr:
			if x.Op == token.NOT {
				v, ok := eval(x.X, u, m)
				return !v, ok
			}
		case *ast.BinaryExpr:
			a, ok1 := eval(x.X, u, m)
			b, ok2 := eval(x.Y, u, m)
			if !ok1 || !ok2 {
				return false, false
			}
			switch x.Op {
			case token.LAND:
				return a && b, true
			case token.LOR:
				return a || b, true
			case token.EQL:
				return a == b, true
			case token.NEQ:
				return a != b, true
			}
		case *ast.CallExpr:
			if se, ok := ast.Unparen(x.Fun).(*ast.SelectorExpr); ok && se.Sel.Name == "IsSet" {
				if isFieldOf(info, se.X, unc) {
					return u, true
				}
				if isFieldOf(info, se.X, mat) {
					return m, true
				}
			}
		}
		return false, false
	}
	n := 0
	seen := map[int64]string{}
	var fvar types.Object
	for _, st := range sw.Body.List {
		cc, ok := st.(*ast.CaseClause)
		if !ok || cc.List == nil {
			continue // default: the generic computation
		}
		for _, ce := range cc.List {
			K, okK := constInt(info, ce)
			if !okK {
				r.Undecided(rule, fmt.Sprintf("%s case %s", f.Key(), exprString(p.Fset, ce)), p.Pos(ce), "case value is not a constant")
				continue
			}
			n++
			key := fmt.Sprintf("%s Accept == %04b", f.Key(), K)
			if prev, dup := seen[K]; dup {
				r.Bad(rule, key, p.Pos(ce), "the value is handled twice ("+prev+")")
				continue
			}
			seen[K] = p.Pos(ce)
			// the predicate the case installs: the single assignment `f = func(id) bool { return E }`
			var lit *ast.FuncLit
			assigns := 0
			for _, s := range cc.Body {
				ast.Inspect(s, func(y ast.Node) bool {
					if as, ok := y.(*ast.AssignStmt); ok && len(as.Lhs) == 1 && len(as.Rhs) == 1 {
						if fl, ok := ast.Unparen(as.Rhs[0]).(*ast.FuncLit); ok {
							if o := identObj(info, as.Lhs[0]); o != nil && (fvar == nil || o == fvar) {
								fvar = o
								lit = fl
								assigns++
							}
						}
					}
					return true
				})
			}
			var retExpr ast.Expr
			if lit != nil && len(lit.Body.List) == 1 {
				if rs, ok := lit.Body.List[0].(*ast.ReturnStmt); ok && len(rs.Results) == 1 {
					retExpr = rs.Results[0]
				}
			}
			if assigns > 1 || (lit != nil && retExpr == nil) {
				r.Note("%s: %s installs a predicate outside the rule's vocabulary (not evaluated)", rule, key)
				n--
				continue
			}
			okAll, why := true, ""
			for _, u := range []bool{false, true} {
				for _, m := range []bool{false, true} {
					want := K&stateBit(u, m) != 0
					got := true // no predicate: accept always
					if retExpr != nil {
						v, ok := eval(retExpr, u, m)
						if !ok {
							okAll, why = false, "the predicate "+exprString(p.Fset, retExpr)+" is not a boolean combination of Uncertain.IsSet and Matches.IsSet"
							continue
						}
						got = v
					}
					if got != want {
						okAll = false
						why += fmt.Sprintf("for a stream that is %s and %s the shortcut answers %v, the set says %v; ", map[bool]string{true: "pending", false: "decided"}[u], map[bool]string{true: "matching", false: "not matching"}[m], got, want)
					}
				}
			}
			pred := "no predicate (accept always)"
			if retExpr != nil {
				pred = exprString(p.Fset, retExpr)
			}
			r.Check(okAll, rule, key, p.Pos(ce), pred+" agrees with the set on all four states", why+"a search with a filter on a tag that is being re-evaluated answers from the old matches as if they were decided")
		}
	}
	r.Floor(rule, 5, n)
}
