package main

import (
	"fmt"
	"go/ast"
	"go/token"
	"go/types"
)

func init() {
	register("C16",
		"C16 (wiring of invalidate → requeue → start, structural): (a) on every path of the import completion that publishes new index files, invalidateConverters is called with a mask into which both the *updated* and the *reset* result of builder.FromPcap flow (the streams whose payload changed: extended, or rebuilt because earlier packets arrived), followed through the job's locals — and inside it the result of every converter's InvalidateChangedStreams is OR-ed into that converter's streamsToConvert entry; (b) queueing on match/attach: the tagging completion ORs the tag's new Matches into streamsToConvert of every attached converter, attachConverterToTag ORs the tag's Matches, adding a mark sets the stream's bit for every attached converter (each followed by the trigger: C09-c); (c) detachConverterFromTag removes the converter from tag.converters and subtracts the tag's streams from the queue; (d) the cache keeps the latest record per stream at load (C15 rule) and an invalidation should be durable (C15-d: known finding); (e) the converter job looks a stream up newest index first (C10-c rule), so it converts the stream's current data. Freshness of output under a race between a running converter job and an import is NOT decided.",
		ruleC16, ruleC15Tail, ruleC15IndexFile, ruleC16Newest)
}

func ruleC16Newest(p *Prog, r *Res) {
	sub := &Res{}
	ruleC10(p, sub)
	n := 0
	for _, o := range sub.Obls {
		if o.Rule == "C10-c newest-first" && containsStr(o.Key, "convertStreamJob") {
			o.Rule = "C16-e newest-first"
			r.Obls = append(r.Obls, o)
			n++
		}
	}
	r.Rule("C16-e newest-first: the converter job takes a stream from the newest index that contains it")
	r.Floor("C16-e newest-first", 1, n)
}

func containsStr(s, sub string) bool {
	return len(sub) == 0 || (len(s) >= len(sub) && (func() bool {
		for i := 0; i+len(sub) <= len(s); i++ {
			if s[i:i+len(sub)] == sub {
				return true
			}
		}
		return false
	})())
}

func ruleC16(p *Prog, r *Res) {
	ctx := p.Contexts()
	s2c := p.Field("manager", "Manager", "streamsToConvert")
	invalConv := p.Method("manager", "Manager", "invalidateConverters")
	fromPcap := p.Method("builder", "Builder", "FromPcap")
	matches := p.Field("query", "TagDetails", "Matches")
	convsFld := p.Field("manager", "tag", "converters")
	if s2c == nil || invalConv == nil || fromPcap == nil || matches == nil || convsFld == nil {
		return
	}
	const ruleA = "C16-a invalidate-on-update"
	r.Rule(ruleA + ": import completion invalidates converter output of updated streams and requeues them")
	// queueOp: node contains mgr.streamsToConvert[…].<op>(arg)
	queueOp := func(f *Fn, n ast.Node, ops map[string]bool, argOK func(ast.Expr) bool) bool {
		info := f.Pkg.TypesInfo
		hit := false
		inspectShallow(n, func(x ast.Node) bool {
			c, ok := x.(*ast.CallExpr)
			if !ok {
				return true
			}
			se, ok := ast.Unparen(c.Fun).(*ast.SelectorExpr)
			if !ok || !ops[se.Sel.Name] {
				return true
			}
			ix, ok := ast.Unparen(se.X).(*ast.IndexExpr)
			if !ok || !isFieldOf(info, ix.X, s2c) {
				return true
			}
			if argOK == nil || (len(c.Args) >= 1 && argOK(c.Args[0])) {
				hit = true
			}
			return true
		})
		return hit
	}
	if jf := p.Fn("manager.Manager.importPcapJob"); jf != nil {
		info := jf.Pkg.TypesInfo
		// 4th result of FromPcap
		var updatedObj, resetObj types.Object
		inspectShallow(jf.Body(), func(x ast.Node) bool {
			if as, ok := x.(*ast.AssignStmt); ok && len(as.Rhs) == 1 {
				if c, ok := as.Rhs[0].(*ast.CallExpr); ok && p.Callee(jf.Pkg, c) == fromPcap && len(as.Lhs) >= 4 {
					// name the result by position of the callee's result named updatedStreams
					sig := fromPcap.Type().(*types.Signature)
					idx := 3
					for i := 0; i < sig.Results().Len(); i++ {
						if sig.Results().At(i).Name() == "updatedStreams" {
							idx = i
						}
					}
					updatedObj = identObj(info, as.Lhs[idx])
					for i := 0; i < sig.Results().Len(); i++ {
						if sig.Results().At(i).Name() == "resetStreams" && i < len(as.Lhs) {
							resetObj = identObj(info, as.Lhs[i])
						}
					}
					// unnamed results: the position of the reset mask is read off FromPcap's successful return (&resetStreams)
					if resetObj == nil {
						if bf := p.FnOfObj(fromPcap); bf != nil && bf.Body() != nil {
							inspectShallow(bf.Body(), func(y ast.Node) bool {
								ret, ok := y.(*ast.ReturnStmt)
								if !ok || len(ret.Results) != len(as.Lhs) {
									return true
								}
								for i, e := range ret.Results {
									if ue, ok := ast.Unparen(e).(*ast.UnaryExpr); ok && ue.Op == token.AND {
										if id, ok := ast.Unparen(ue.X).(*ast.Ident); ok && id.Name == "resetStreams" {
											resetObj = identObj(info, as.Lhs[i])
										}
									}
								}
								return true
							})
						}
						if resetObj == nil {
							p.anchorFail("reset-streams result of builder.FromPcap (a return of &resetStreams)")
						}
					}
				}
			}
			return true
		})
		if updatedObj == nil {
			r.Bad(ruleA, "importPcapJob: updated mask from FromPcap", p.Pos(jf.Node()), "cannot identify the updated-streams result of builder.FromPcap in importPcapJob")
		}
		idxFld := p.Field("manager", "Manager", "indexes")
		for _, comp := range ctx.completionsIn(jf) {
			fl := p.Flow(comp)
			cinfo := comp.Pkg.TypesInfo
			publishes := fl.Find(func(n ast.Node) bool {
				as, ok := n.(*ast.AssignStmt)
				return ok && len(as.Lhs) == 1 && isFieldOf(cinfo, as.Lhs[0], idxFld)
			})
			r.Floor(ruleA+" publish sites", 1, len(publishes))
			// which of FromPcap's masks flow into a value: the mask itself, a Copy()/dereference of it, masks OR-ed into it
			flowsInto := func(arg ast.Expr) map[types.Object]bool {
				out := map[types.Object]bool{}
				var fromExpr func(e ast.Expr)
				fromExpr = func(e ast.Expr) {
					ast.Inspect(e, func(y ast.Node) bool {
						if id, ok := y.(*ast.Ident); ok {
							if o := cinfo.Uses[id]; o != nil && (o == updatedObj || o == resetObj) {
								out[o] = true
							}
						}
						return true
					})
				}
				fromExpr(arg)
				root := rootIdentOf(arg)
				if root == nil {
					return out
				}
				ao := cinfo.Uses[root]
				inspectShallow(comp.Body(), func(y ast.Node) bool {
					switch st := y.(type) {
					case *ast.AssignStmt:
						for i, l := range st.Lhs {
							if identObj(cinfo, l) == ao && i < len(st.Rhs) && len(st.Lhs) == len(st.Rhs) {
								fromExpr(st.Rhs[i])
							}
						}
					case *ast.CallExpr:
						if se, ok := ast.Unparen(st.Fun).(*ast.SelectorExpr); ok && se.Sel.Name == "Or" && identObj(cinfo, se.X) == ao && st.Pos() < arg.Pos() {
							for _, a := range st.Args {
								fromExpr(a)
							}
						}
					}
					return true
				})
				return out
			}
			isInval := func(n ast.Node) bool {
				return fl.hasCall(n, func(c *ast.CallExpr) bool {
					if p.Callee(comp.Pkg, c) != invalConv || len(c.Args) != 1 {
						return false
					}
					fi := flowsInto(c.Args[0])
					return fi[updatedObj] && (resetObj == nil || fi[resetObj])
				})
			}
			for _, pt := range publishes {
				res := fl.ExitAvoiding([]Pt{After(pt)}, isInval)
				r.Check(!res.Found, ruleA, "importPcapJob completion: invalidateConverters(updated ∪ reset) after publishing new indexes", p.Pos(fl.node(pt)), "called with a mask that holds FromPcap's updated AND reset streams on every path after the publish",
					"new index files are published on a path that does not invalidate converter output for every stream whose payload changed — the streams FromPcap reports as updated (extended) and as reset (rebuilt because earlier packets arrived): such a stream keeps serving the converter output of its old payload: "+fl.traceString(res))
			}
		}
	}
	if f := p.FnOfObj(invalConv); f != nil {
		info := f.Pkg.TypesInfo
		// result of InvalidateChangedStreams is OR-ed into the queue for the same converter
		var resObj types.Object
		var argOK bool
		inspectShallow(f.Body(), func(x ast.Node) bool {
			if as, ok := x.(*ast.AssignStmt); ok && len(as.Rhs) == 1 && len(as.Lhs) == 1 {
				if c, ok := as.Rhs[0].(*ast.CallExpr); ok {
					if fn := p.Callee(f.Pkg, c); fn != nil && fn.Name() == "InvalidateChangedStreams" {
						resObj = identObj(info, as.Lhs[0])
						if len(c.Args) == 1 {
							argOK = paramIndex(f, identObj(info, c.Args[0])) == 0
						}
					}
				}
			}
			return true
		})
		fl := p.Flow(f)
		ok := resObj != nil && argOK
		if ok {
			// every path through the InvalidateChangedStreams call reaches the Or before the next iteration/exit
			pts := fl.Find(func(n ast.Node) bool {
				return nodeCalls(p, f, n, func(fn *types.Func, _ *ast.CallExpr) bool { return fn.Name() == "InvalidateChangedStreams" })
			})
			for _, pt := range pts {
				res := fl.search([]Pt{After(pt)}, func(n ast.Node) bool { return isReturn(n) || n == fl.node(pt) }, func(n ast.Node) bool {
					return queueOp(f, n, map[string]bool{"Or": true}, func(a ast.Expr) bool { return sameObj(info, a, resObj) })
				})
				if res.Found {
					ok = false
				}
			}
		}
		r.Check(ok, ruleA, "invalidateConverters requeues what each converter invalidated", p.Pos(f.Node()), "InvalidateChangedStreams(updated) → streamsToConvert[converter].Or(result) on every path", "the streams whose cached output was dropped are not put back into the converter's queue (or the wrong mask is invalidated): they stay without output")
	}

	const ruleB = "C16-b queue-on-match"
	r.Rule(ruleB + ": new matches, attachments and marks queue the stream for every attached converter")
	nB := 0
	// tagging completion
	if jf := p.Fn("manager.Manager.updateTagJob"); jf != nil {
		for _, comp := range ctx.completionsIn(jf) {
			info := comp.Pkg.TypesInfo
			fl := p.Flow(comp)
			tagsFld := p.Field("manager", "Manager", "tags")
			inst := fl.Find(func(n ast.Node) bool {
				as, ok := n.(*ast.AssignStmt)
				if !ok || len(as.Lhs) != 1 {
					return false
				}
				ix, ok := ast.Unparen(as.Lhs[0]).(*ast.IndexExpr)
				return ok && isFieldOf(info, ix.X, tagsFld)
			})
			for _, pt := range inst {
				nB++
				// every path from entry to the install passes a range over <t>.converters whose body ORs <t>.Matches into the queue
				passes := func(n ast.Node) bool {
					hit := false
					ast.Inspect(comp.Body(), func(x ast.Node) bool {
						rs, ok := x.(*ast.RangeStmt)
						if !ok || ast.Node(rs.X) != n || !isFieldOf(info, rs.X, convsFld) {
							return true
						}
						ast.Inspect(rs.Body, func(y ast.Node) bool {
							if st, ok := y.(ast.Stmt); ok && queueOp(comp, st, map[string]bool{"Or": true}, func(a ast.Expr) bool { return isFieldOf(info, a, matches) }) {
								hit = true
							}
							return true
						})
						return true
					})
					return hit
				}
				res := fl.Reach([]Pt{fl.Entry()}, func(n ast.Node) bool { return n == fl.node(pt) }, passes)
				after := fl.ExitAvoiding([]Pt{After(pt)}, passes)
				r.Check(!res.Found || !after.Found, ruleB, "tagging completion queues new matches for attached converters", p.Pos(fl.node(pt)), "range over the tag's converters OR-ing Matches into streamsToConvert lies on every path through the install", "a tag's new matches are installed without being queued for its attached converters: matching streams never get converter output")
			}
		}
	}
	// attach
	if f := p.Fn("manager.Manager.attachConverterToTag"); f != nil {
		info := f.Pkg.TypesInfo
		fl := p.Flow(f)
		nB++
		app := fl.Find(func(n ast.Node) bool {
			as, ok := n.(*ast.AssignStmt)
			return ok && len(as.Lhs) == 1 && isFieldOf(info, as.Lhs[0], convsFld)
		})
		ok := len(app) > 0
		for _, pt := range app {
			res := fl.ExitAvoiding([]Pt{After(pt)}, func(n ast.Node) bool {
				return queueOp(f, n, map[string]bool{"Or": true}, func(a ast.Expr) bool { return isFieldOf(info, a, matches) })
			})
			if res.Found {
				ok = false
			}
		}
		r.Check(ok, ruleB, "attachConverterToTag queues the tag's matches", p.Pos(f.Node()), "append to tag.converters is followed by streamsToConvert[converter].Or(tag.Matches) on every path", "a converter is attached without queueing the tag's current matches")
	}
	// mark add: inside UpdateTag's worker, where Matches.Set(s) happens, the queue gets Set(s) for every converter
	if f := p.Fn("manager.Manager.UpdateTag"); f != nil {
		{
			// every service-goroutine function that sets a bit of a tag's Matches (the mark-add path, wherever it lives)
			var cands []*Fn
			for _, g := range p.FnList {
				if g.Short == "manager" && ctx.Has(g, ctxLOOP) && g.Key() != "manager.Manager.updateTagJob$1" {
					cands = append(cands, g)
				}
			}
			for _, w := range cands {
				info := w.Pkg.TypesInfo
				fl := p.Flow(w)
				sets := fl.Find(func(n ast.Node) bool {
					return fl.hasCall(n, func(c *ast.CallExpr) bool {
						se, ok := ast.Unparen(c.Fun).(*ast.SelectorExpr)
						return ok && se.Sel.Name == "Set" && isFieldOf(info, se.X, matches)
					})
				})
				for _, pt := range sets {
					nB++
					res := fl.search([]Pt{After(pt)}, func(n ast.Node) bool { return isReturn(n) || n == fl.node(pt) }, func(n ast.Node) bool {
						// the range over newTag.converters containing the queue Set
						hit := false
						ast.Inspect(w.Body(), func(x ast.Node) bool {
							if rs, ok := x.(*ast.RangeStmt); ok && ast.Node(rs.X) == n && isFieldOf(info, rs.X, convsFld) {
								ast.Inspect(rs.Body, func(y ast.Node) bool {
									if st, ok := y.(ast.Stmt); ok && queueOp(w, st, map[string]bool{"Set": true}, nil) {
										hit = true
									}
									return true
								})
							}
							return true
						})
						return hit
					})
					r.Check(!res.Found, ruleB, "UpdateTag mark-add queues the stream for attached converters", p.Pos(fl.node(pt)), "range over the tag's converters setting the stream's bit follows every Matches.Set", "a stream is added to a mark tag without being queued for the tag's converters")
				}
			}
		}
	}
	r.Floor(ruleB, 3, nB)

	const ruleC = "C16-c detach-stops-runs"
	r.Rule(ruleC + ": detaching removes the converter from the tag and takes the tag's streams out of the queue")
	if f := p.Fn("manager.Manager.detachConverterFromTag"); f != nil {
		info := f.Pkg.TypesInfo
		fl := p.Flow(f)
		removes := false
		inspectShallow(f.Body(), func(x ast.Node) bool {
			if as, ok := x.(*ast.AssignStmt); ok && len(as.Lhs) == 1 && isFieldOf(info, as.Lhs[0], convsFld) {
				removes = true
			}
			return true
		})
		res := fl.MustPass(func(n ast.Node) bool { return queueOp(f, n, map[string]bool{"Sub": true}, nil) })
		r.Check(removes && !res.Found, ruleC, "detachConverterFromTag", p.Pos(f.Node()), "tag.converters is rewritten and streamsToConvert[converter].Sub(…) lies on every path", fmt.Sprintf("removes from tag.converters=%v, unqueues on every path=%v: a detached converter keeps being run for the tag's streams", removes, !res.Found))
	}
}
