package main

// c07o.go: C07-o / C01-i after streams were appended, a time shift touches each stream once.
//
// Stream times are stored relative to the reference second of the file. When a writer's reference moves to an earlier
// second, the streams it already holds are shifted by the difference. AddIndex copies the streams of another file in —
// their times are relative to THAT file's reference and get their own correction — and therefore shifts in two
// disjoint parts: w.streams[:before] by the old difference, w.streams[before:] by the new one. A single "shift
// everything" helper called after the copy (seeded C07m, a de-duplication of the two loops) moves the copied streams
// twice: after a merge the streams of the older file appear minutes later, `sort:ftime` and time filters change.
//
// Rule (FLOW + callee summary): in a method of index.Writer that appends to Writer.streams, every adjustment of
// FirstPacketTimeNS / LastPacketTimeNS of elements of Writer.streams that is reachable from such an append — a loop
// in place, or a call of a method whose loop covers the whole list — ranges over a part of the list bounded by a
// variable that was defined from len(w.streams) before the first append.

import (
	"fmt"
	"go/ast"
	"go/token"
	"go/types"
)

func init() {
	const expl = "(FLOW + callee summary): in a method of index.Writer that appends to Writer.streams, a shift of the stream times (FirstPacketTimeNS / LastPacketTimeNS of elements of Writer.streams) that is reachable from an append ranges over a part of the list, w.streams[:n] or w.streams[n:], with n defined from len(w.streams) before the first append; a loop over the whole list, in place or in a called method, is reported. The appended streams come with times relative to another reference and are corrected separately: shifted together with the old ones they move twice, and after a merge the streams of one input are found at other times than before."
	register("C07", "C07-o "+expl, func(p *Prog, r *Res) { ruleShiftOncePerStream(p, r, "C07-o shift-once-per-stream") })
	register("C01", "C01-i "+expl, func(p *Prog, r *Res) { ruleShiftOncePerStream(p, r, "C01-i shift-once-per-stream") })
}

func ruleShiftOncePerStream(p *Prog, r *Res, rule string) {
	r.Rule(rule + ": after an append to Writer.streams, time shifts range over a part of the list fixed before the append")
	streamsF := p.Field("index", "Writer", "streams")
	if streamsF == nil {
		p.anchorFail("index.Writer.streams")
		return
	}
	isTimeField := func(name string) bool { return name == "FirstPacketTimeNS" || name == "LastPacketTimeNS" }
	// shift loops of a function: range/for statements whose body adjusts a time field of an element of Writer.streams
	type shiftLoop struct {
		stmt   ast.Stmt
		rangeX ast.Expr // the range expression (nil for a for loop)
	}
	shiftLoopsOf := func(f *Fn) []shiftLoop {
		info := f.Pkg.TypesInfo
		var out []shiftLoop
		inspectShallow(f.Body(), func(x ast.Node) bool {
			var body *ast.BlockStmt
			var rx ast.Expr
			switch s := x.(type) {
			case *ast.RangeStmt:
				body, rx = s.Body, s.X
			case *ast.ForStmt:
				body = s.Body
			default:
				return true
			}
			// element pointers: s := &w.streams[i]
			elemPtr := map[types.Object]bool{}
			ast.Inspect(body, func(y ast.Node) bool {
				if as, ok := y.(*ast.AssignStmt); ok && len(as.Lhs) == len(as.Rhs) {
					for i, l := range as.Lhs {
						if u, ok := ast.Unparen(as.Rhs[i]).(*ast.UnaryExpr); ok && u.Op == token.AND {
							if ix, ok := ast.Unparen(u.X).(*ast.IndexExpr); ok && isFieldOf(info, ix.X, streamsF) {
								if o := identObj(info, l); o != nil {
									elemPtr[o] = true
								}
							}
						}
					}
				}
				return true
			})
			adjusts := false
			ast.Inspect(body, func(y ast.Node) bool {
				as, ok := y.(*ast.AssignStmt)
				if !ok || (as.Tok != token.ADD_ASSIGN && as.Tok != token.SUB_ASSIGN && as.Tok != token.ASSIGN) {
					return true
				}
				for _, l := range as.Lhs {
					se, ok := ast.Unparen(l).(*ast.SelectorExpr)
					if !ok || !isTimeField(se.Sel.Name) {
						continue
					}
					switch b := ast.Unparen(se.X).(type) {
					case *ast.IndexExpr:
						if isFieldOf(info, b.X, streamsF) {
							adjusts = true
						}
					case *ast.Ident:
						if elemPtr[info.Uses[b]] {
							adjusts = true
						}
					}
				}
				return true
			})
			if adjusts {
				out = append(out, shiftLoop{x.(ast.Stmt), rx})
			}
			return true
		})
		return out
	}
	// methods whose shift loop covers the whole list
	shiftsAll := map[*types.Func]bool{}
	for _, g := range p.FnList {
		if g.Short != "index" || g.Lit != nil || g.Decl == nil || g.Body() == nil {
			continue
		}
		for _, sl := range shiftLoopsOf(g) {
			whole := sl.rangeX == nil
			if sl.rangeX != nil {
				if _, isSlice := ast.Unparen(sl.rangeX).(*ast.SliceExpr); !isSlice {
					whole = true
				}
			}
			if whole {
				if fo, ok := g.Pkg.TypesInfo.Defs[g.Decl.Name].(*types.Func); ok {
					shiftsAll[fo] = true
				}
			}
		}
	}
	// helpers that shift the times of the streams in a slice they are given: function → index of that parameter
	sliceShifters := map[*types.Func]int{}
	for _, g := range p.FnList {
		if g.Short != "index" || g.Lit != nil || g.Decl == nil || g.Body() == nil {
			continue
		}
		ginfo := g.Pkg.TypesInfo
		idx := 0
		for _, fld := range g.Decl.Type.Params.List {
			for _, nm := range fld.Names {
				po := ginfo.Defs[nm]
				if po != nil {
					if sl, ok := po.Type().Underlying().(*types.Slice); ok && types.TypeString(sl.Elem(), nil) == types.TypeString(streamsF.Type().Underlying().(*types.Slice).Elem(), nil) {
						adjusts := false
						elemPtr := map[types.Object]bool{}
						ast.Inspect(g.Body(), func(y ast.Node) bool {
							if as, ok := y.(*ast.AssignStmt); ok && len(as.Lhs) == len(as.Rhs) {
								for i, l := range as.Lhs {
									if u, ok := ast.Unparen(as.Rhs[i]).(*ast.UnaryExpr); ok && u.Op == token.AND {
										if ix, ok := ast.Unparen(u.X).(*ast.IndexExpr); ok && identObj(ginfo, ix.X) == po {
											if o := identObj(ginfo, l); o != nil {
												elemPtr[o] = true
											}
										}
									}
								}
							}
							return true
						})
						ast.Inspect(g.Body(), func(y ast.Node) bool {
							as, ok := y.(*ast.AssignStmt)
							if !ok {
								return true
							}
							for _, l := range as.Lhs {
								se, ok := ast.Unparen(l).(*ast.SelectorExpr)
								if !ok || !isTimeField(se.Sel.Name) {
									continue
								}
								switch b := ast.Unparen(se.X).(type) {
								case *ast.IndexExpr:
									if identObj(ginfo, b.X) == po {
										adjusts = true
									}
								case *ast.Ident:
									if elemPtr[ginfo.Uses[b]] {
										adjusts = true
									}
								}
							}
							return true
						})
						if adjusts {
							if fo, ok := ginfo.Defs[g.Decl.Name].(*types.Func); ok {
								sliceShifters[fo] = idx
							}
						}
					}
				}
				idx++
			}
			if len(fld.Names) == 0 {
				idx++
			}
		}
	}
	n := 0
	for _, f := range p.FnList {
		if f.Short != "index" || f.Lit != nil || f.Body() == nil {
			continue
		}
		info := f.Pkg.TypesInfo
		fl := p.Flow(f)
		isAppend := func(nd ast.Node) bool {
			as, ok := nd.(*ast.AssignStmt)
			if !ok || len(as.Lhs) != 1 || len(as.Rhs) != 1 || !isFieldOf(info, as.Lhs[0], streamsF) {
				return false
			}
			c, ok := ast.Unparen(as.Rhs[0]).(*ast.CallExpr)
			return ok && isBuiltin(info, c, "append")
		}
		appends := fl.Find(isAppend)
		if len(appends) == 0 {
			continue
		}
		var starts []Pt
		for _, a := range appends {
			starts = append(starts, After(a))
		}
		// bounds fixed before the first append: locals defined from len(w.streams) at a node no append reaches
		fixed := map[types.Object]bool{}
		for _, pt := range fl.Find(func(nd ast.Node) bool {
			as, ok := nd.(*ast.AssignStmt)
			if !ok || len(as.Lhs) != 1 || len(as.Rhs) != 1 {
				return false
			}
			c, ok := ast.Unparen(as.Rhs[0]).(*ast.CallExpr)
			return ok && isBuiltin(info, c, "len") && len(c.Args) == 1 && isFieldOf(info, c.Args[0], streamsF)
		}) {
			nd := fl.node(pt)
			if res := fl.Reach(starts, func(m ast.Node) bool { return m == nd }, nil); !res.Found {
				if o := identObj(info, nd.(*ast.AssignStmt).Lhs[0]); o != nil {
					fixed[o] = true
				}
			}
		}
		reachedAfterAppend := func(target ast.Node) bool {
			res := fl.Reach(starts, func(m ast.Node) bool { return m == target || (m.Pos() <= target.Pos() && target.End() <= m.End()) }, nil)
			return res.Found
		}
		for _, sl := range shiftLoopsOf(f) {
			var entry ast.Node = sl.stmt
			if sl.rangeX != nil {
				entry = sl.rangeX
			}
			forBounded := false
			if fs, ok := sl.stmt.(*ast.ForStmt); ok {
				// an index loop: entered at its condition; bounded when it starts at, or stops before, a fixed count
				if fs.Cond != nil {
					entry = fs.Cond
					if be, ok := ast.Unparen(fs.Cond).(*ast.BinaryExpr); ok && (be.Op == token.LSS || be.Op == token.LEQ) && fixed[identObj(info, be.Y)] {
						forBounded = true
					}
				}
				if as, ok := fs.Init.(*ast.AssignStmt); ok && len(as.Rhs) == 1 && fixed[identObj(info, as.Rhs[0])] {
					forBounded = true
				}
			}
			if !reachedAfterAppend(entry) {
				continue
			}
			n++
			key := fmt.Sprintf("%s shifts stream times after an append@%s", f.Key(), relLine(p, f, sl.stmt))
			okPart := forBounded
			if sl.rangeX != nil {
				if se, ok := ast.Unparen(sl.rangeX).(*ast.SliceExpr); ok && isFieldOf(info, se.X, streamsF) {
					for _, b := range []ast.Expr{se.Low, se.High} {
						if b != nil && fixed[identObj(info, b)] {
							okPart = true
						}
					}
				}
			}
			r.Check(okPart, rule, key, p.Pos(sl.stmt), "ranges over a part of the list bounded by a count taken before the append", "the loop shifts the times of streams that were appended in this call together with the ones that were there before: the appended streams are relative to another reference time and are corrected on their own, so they move twice — after a merge the streams of one input file are found at other times")
		}
		inspectShallow(f.Body(), func(x ast.Node) bool {
			c, ok := x.(*ast.CallExpr)
			if !ok {
				return true
			}
			fn := p.Callee(f.Pkg, c)
			if fn != nil {
				if pi, ok := sliceShifters[fn.Origin()]; ok && pi < len(c.Args) && reachedAfterAppend(c) {
					// the part of the list handed to a shifting helper
					arg := ast.Unparen(c.Args[pi])
					mentions := false
					ast.Inspect(arg, func(y ast.Node) bool {
						if e, ok := y.(ast.Expr); ok && isFieldOf(info, e, streamsF) {
							mentions = true
						}
						return true
					})
					if mentions {
						n++
						key := fmt.Sprintf("%s hands %s to %s after an append", f.Key(), exprString(p.Fset, arg), fn.Name())
						okPart := false
						if se, ok := arg.(*ast.SliceExpr); ok && isFieldOf(info, se.X, streamsF) {
							for _, b := range []ast.Expr{se.Low, se.High} {
								if b != nil && fixed[identObj(info, b)] {
									okPart = true
								}
							}
						}
						r.Check(okPart, rule, key, p.Pos(c), "a part of the list bounded by a count taken before the append", "the helper shifts the times of every stream it is given, and it is given streams that were appended in this call together with older ones: the appended streams are corrected on their own, so they move twice")
					}
					return true
				}
			}
			if fn == nil || !shiftsAll[fn.Origin()] || !reachedAfterAppend(c) {
				return true
			}
			n++
			key := fmt.Sprintf("%s calls %s after an append", f.Key(), fn.Name())
			r.Bad(rule, key, p.Pos(c), fn.Name()+" shifts the times of every stream in the list, including the ones appended in this call: those are relative to another reference time and are corrected on their own, so they move twice — after a merge the streams of one input file are found at other times")
			return true
		})
	}
	r.Floor(rule, 2, n)
}
