package main

// c04k.go: C04-k no stale copy of the scan position across find (the C15-g discipline for progressVariant.streamOffset).
//
// progressVariant.find advances p.streamOffset[dir] as a side effect: it skips to the literal prefix and slides the
// fixed-length window, and the positions it returns are relative to the advanced offset. A copy of the offset taken
// before the call therefore describes another origin than the result: `matchEnd := searchStart + res[1]` (seeded C04l)
// loses the skipped distance, so the same-direction offset and the chunk-boundary rule are evaluated too early and a
// THEN sequence accepts a later element that occurs only before the earlier one.
//
// Rule (FLOW + callee effect summaries): in package index a local defined from an expression that reads
// progressVariant.streamOffset is not used after a call — reachable from the definition without redefinition — of a
// function that may assign streamOffset, unless it is redefined in between.

import (
	"fmt"
	"go/ast"
	"go/token"
	"go/types"
)

func init() {
	register("C04",
		"C04-k (FLOW + callee effect summaries): in package index a local defined from progressVariant.streamOffset is not used after a call of a function that may assign streamOffset (find, which skips to the literal prefix and slides the fixed-length window; depth 2 through package callees) unless it is redefined in between: the match positions find returns are relative to the offset it left behind, a copy taken before the call has another origin, and the position behind a match computed from it lies too early — a THEN sequence then accepts an element that only occurs before its predecessor.",
		func(p *Prog, r *Res) {
			const rule = "C04-k no-stale-scan-position"
			r.Rule(rule + ": no copy of progressVariant.streamOffset is used across a call that advances it")
			fld := p.Field("index", "progressVariant", "streamOffset")
			if fld == nil {
				p.anchorFail("index.progressVariant.streamOffset")
				return
			}
			readsFld := func(info *types.Info, e ast.Node) bool {
				hit := false
				ast.Inspect(e, func(x ast.Node) bool {
					if se, ok := x.(*ast.SelectorExpr); ok && info.Uses[se.Sel] == types.Object(fld) {
						hit = true
					}
					return !hit
				})
				return hit
			}
			// direct writers of the field
			writes := map[*Fn]bool{}
			for _, f := range p.FnList {
				if f.Short != "index" || f.Body() == nil {
					continue
				}
				info := f.Pkg.TypesInfo
				w := false
				lhs := func(e ast.Expr) {
					e = ast.Unparen(e)
					if ix, ok := e.(*ast.IndexExpr); ok {
						e = ast.Unparen(ix.X)
					}
					if se, ok := e.(*ast.SelectorExpr); ok && info.Uses[se.Sel] == types.Object(fld) {
						w = true
					}
				}
				inspectShallow(f.Body(), func(x ast.Node) bool {
					switch s := x.(type) {
					case *ast.AssignStmt:
						if s.Tok != token.DEFINE {
							for _, l := range s.Lhs {
								lhs(l)
							}
						}
					case *ast.IncDecStmt:
						lhs(s.X)
					}
					return true
				})
				if w && f.Lit == nil {
					writes[f] = true
				}
			}
			effect := func(g *Fn) bool {
				seen := map[*Fn]bool{}
				var walk func(h *Fn, d int) bool
				walk = func(h *Fn, d int) bool {
					if h == nil || seen[h] {
						return false
					}
					seen[h] = true
					if writes[h] {
						return true
					}
					if d == 0 || h.Body() == nil {
						return false
					}
					for _, c := range callsIn(h.Body()) {
						if fn := p.Callee(h.Pkg, c); fn != nil {
							if k := p.FnOfObj(fn); k != nil && k.Short == "index" && walk(k, d-1) {
								return true
							}
						}
					}
					return false
				}
				return walk(g, 2)
			}
			nDefs, nWriters := 0, 0
			for range writes {
				nWriters++
			}
			for _, f := range p.FnList {
				if f.Short != "index" || f.Body() == nil {
					continue
				}
				info := f.Pkg.TypesInfo
				fl := p.Flow(f)
				for _, pt := range fl.Find(func(n ast.Node) bool { _, ok := n.(*ast.AssignStmt); return ok }) {
					as := fl.node(pt).(*ast.AssignStmt)
					if len(as.Lhs) != len(as.Rhs) {
						continue
					}
					for i, l := range as.Lhs {
						id, ok := l.(*ast.Ident)
						if !ok || id.Name == "_" {
							continue
						}
						v := info.ObjectOf(id)
						if v == nil || !readsFld(info, as.Rhs[i]) {
							continue
						}
						if b, ok := v.Type().Underlying().(*types.Basic); !ok || b.Info()&types.IsInteger == 0 {
							continue // a slice of the buffer taken at the offset is data, not a position
						}
						nDefs++
						key := fmt.Sprintf("%s local %s := …streamOffset…@%s", f.Key(), v.Name(), relLine(p, f, as))
						redef := func(n ast.Node) bool {
							// searches start behind the definition: meeting it again (in a loop) is a redefinition
							switch s := n.(type) {
							case *ast.AssignStmt:
								for _, l := range s.Lhs {
									if sameObj(info, l, v) {
										return true
									}
								}
							case *ast.IncDecStmt:
								return sameObj(info, s.X, v)
							}
							return false
						}
						uses := func(n ast.Node) bool {
							found := false
							inspectParents(n, func(x ast.Node, parents []ast.Node) bool {
								id, ok := x.(*ast.Ident)
								if !ok || info.Uses[id] != v {
									return true
								}
								// `p.streamOffset[dir] - before`: measuring how far the call advanced is what a copy is for
								if len(parents) > 0 {
									if be, ok := parents[len(parents)-1].(*ast.BinaryExpr); ok && be.Op == token.SUB && ast.Unparen(be.Y) == ast.Expr(id) && readsFld(info, be.X) {
										return true
									}
								}
								found = true
								return false
							})
							return found
						}
						clobber := func(n ast.Node) (bool, string) {
							hit, what := false, ""
							inspectShallow(n, func(x ast.Node) bool {
								if c, ok := x.(*ast.CallExpr); ok && !hit {
									if fn := p.Callee(f.Pkg, c); fn != nil {
										if g := p.FnOfObj(fn); g != nil && g.Short == "index" && effect(g) {
											hit, what = true, g.Key()
										}
									}
								}
								return !hit
							})
							return hit, what
						}
						bad := false
						for _, cpt := range fl.Find(func(n ast.Node) bool { h, _ := clobber(n); return h && n != ast.Node(as) }) {
							cn := fl.node(cpt)
							if !fl.Reach([]Pt{After(pt)}, func(n ast.Node) bool { return n == cn }, redef).Found {
								continue
							}
							if res := fl.Reach([]Pt{After(cpt)}, uses, redef); res.Found {
								_, what := clobber(cn)
								bad = true
								r.Bad(rule, key, p.Pos(res.End), fmt.Sprintf("%s was computed from streamOffset at line %d, then %s — which advances the offset — is called at line %d and %s is used afterwards: the positions the call returned are relative to the advanced offset, the copy has another origin", v.Name(), lineOf(p.Fset, as), what, lineOf(p.Fset, cn), v.Name()))
								break
							}
						}
						if !bad {
							r.Ok(rule, key, p.Pos(as), "no use after a call that may advance the offset")
						}
					}
				}
			}
			r.Note("%s: %d functions of package index assign streamOffset; %d locals are defined from it", rule, nWriters, nDefs)
			// the rule's subject are the writers: without one (find) nothing can be stale
			r.Floor(rule+" writers", 1, nWriters)
		})
}
