package main

// c08p.go: C08-p / C12-s a capture without packets is never scheduled for the replay.
//
// FromPcap replays known captures in the order of their first packet and loads the next one when the replay reaches
// its PacketTimestampMin; `loadNextTimestamp.IsZero()` means "there is no further capture to load". A valid capture
// file with zero packets has the zero time as minimum: after a restart (builder.New registers every file of the capture
// directory) it was sorted in front of everything, and its zero minimum — read as "nothing more to load" — made the
// import process ALL new packets before any old capture was loaded. Stream 0 read `CCCCDDDDAAAABBBB`, first packet
// 12:00:02, last packet 12:00:01; the control without the empty capture `AAAABBBBCCCCDDDD` (#88,
// probes/c08_empty_capture_then_restart).
//
// Rule (typed AST): a function of package builder that keeps a time.Time local which it assigns from a capture's
// PacketTimestampMin and tests with IsZero() — the zero time as "none" — compares a capture's PacketCount with 0 in
// a condition (captures without packets are kept away from the variable).

import (
	"go/ast"
	"go/token"
	"go/types"
)

func ruleEmptyCaptureNotScheduled(id string) func(p *Prog, r *Res) {
	return func(p *Prog, r *Res) {
		rule := id + " empty-capture-is-not-scheduled"
		r.Rule(rule + ": the zero time as 'no next capture' is kept apart from captures without packets")
		n := 0
		for _, f := range p.FnList {
			if f.Short != "builder" || f.Lit != nil || f.Body() == nil {
				continue
			}
			info := f.Pkg.TypesInfo
			fromMin := map[types.Object]ast.Node{}
			ast.Inspect(f.Body(), func(x ast.Node) bool {
				as, ok := x.(*ast.AssignStmt)
				if !ok || len(as.Lhs) != len(as.Rhs) {
					return true
				}
				for i, rh := range as.Rhs {
					se, ok := ast.Unparen(rh).(*ast.SelectorExpr)
					if !ok || se.Sel.Name != "PacketTimestampMin" {
						continue
					}
					if o := identObj(info, as.Lhs[i]); o != nil {
						fromMin[o] = as
					}
				}
				return true
			})
			sentinel := map[types.Object]bool{}
			ast.Inspect(f.Body(), func(x ast.Node) bool {
				c, ok := x.(*ast.CallExpr)
				if !ok {
					return true
				}
				se, ok := ast.Unparen(c.Fun).(*ast.SelectorExpr)
				if ok && se.Sel.Name == "IsZero" {
					if o := identObj(info, se.X); o != nil && fromMin[o] != nil {
						sentinel[o] = true
					}
				}
				return true
			})
			for o := range sentinel {
				n++
				guarded := false
				bodies := []ast.Node{f.Body()}
				binfos := []*types.Info{info}
				for _, c := range callsInDeep(f.Body()) {
					if fn := p.Callee(f.Pkg, c); fn != nil {
						if h := p.FnOfObj(fn); h != nil && h.Short == "builder" && h.Lit == nil && h.Body() != nil {
							bodies = append(bodies, h.Body())
							binfos = append(binfos, h.Pkg.TypesInfo)
						}
					}
				}
				for bi, body := range bodies {
					info := binfos[bi]
					ast.Inspect(body, func(x ast.Node) bool {
						ifs, ok := x.(*ast.IfStmt)
						if !ok {
							return true
						}
						ast.Inspect(ifs.Cond, func(y ast.Node) bool {
							be, ok := y.(*ast.BinaryExpr)
							if !ok {
								return true
							}
							switch be.Op {
							case token.EQL, token.NEQ, token.GTR, token.LSS, token.GEQ, token.LEQ:
							default:
								return true
							}
							for _, pair := range [][2]ast.Expr{{be.X, be.Y}, {be.Y, be.X}} {
								if se, ok := ast.Unparen(pair[0]).(*ast.SelectorExpr); ok && se.Sel.Name == "PacketCount" {
									if tv, ok := info.Types[pair[1]]; ok && tv.Value != nil {
										guarded = true
									}
								}
							}
							return true
						})
						return true
					})
				}
				r.Check(guarded, rule, f.Key()+" uses the zero time of "+o.Name()+" as 'none'", p.Pos(fromMin[o]), "captures without packets are tested for", o.Name()+" is assigned a capture's PacketTimestampMin and tested with IsZero() for 'no capture', and nothing in the function tells captures without packets apart: such a capture has the zero time as minimum, is sorted in front of all others and ends the schedule — every new packet is processed before any old capture is loaded, the streams that continue are stored in the wrong order")
			}
		}
		r.Floor(rule, 1, n)
	}
}

func init() {
	const expl = " (typed AST): a function of package builder that keeps a time.Time local which it assigns from a capture's PacketTimestampMin and tests with IsZero() — the zero time as 'none' — compares a capture's PacketCount with a constant in a condition: captures without packets are told apart. A valid capture file with zero packets has the zero time as its minimum; registered as a known capture at the next start it is sorted in front of all others and its minimum is read as 'nothing more to load' — all new packets are then processed before any old capture, and a stream that continues is stored as `CCCCDDDDAAAABBBB`."
	register("C08", "C08-p"+expl, ruleEmptyCaptureNotScheduled("C08-p"))
	register("C12", "C12-s"+expl, ruleEmptyCaptureNotScheduled("C12-s"))
}
