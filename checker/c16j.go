package main

// c16j.go: C16-j a conversion that ran across a reset is reported as failed.
//
// releaseProcess(process, epoch) answers false when the converter was reset (restarted, executable changed) after the
// process had been reserved: the output just read was produced by the old generation. Converter.Data must turn that
// answer into an error; returning the data makes the caller store it into the cache the reset has just emptied, and
// the "already cached" short cut of the converter job then keeps the new generation from ever running for that stream.
// Rule: every call of releaseProcess whose epoch argument is not a negative constant is the operand of a condition
// (`!rel(…)` or `rel(…) == false`, possibly through a single-definition boolean) whose failing branch ends in a
// return with a non-nil error.

import (
	"fmt"
	"go/ast"
	"go/token"
	"strings"
)

func init() {
	register("C16",
		"C16-j (typed AST): in package converters every call of Converter.releaseProcess with a live epoch (second argument not a negative constant) has its boolean result tested, and the branch taken for `false` — the converter was reset while the process was running — ends in a return with a non-nil error: output of the old generation must not be handed to the caller, who would store it into the cache the reset has just emptied.",
		func(p *Prog, r *Res) {
			const rule = "C16-j reset-while-running-is-an-error"
			r.Rule(rule + ": a false answer of releaseProcess(process, epoch) ends the conversion with an error")
			rel := p.Method("converters", "Converter", "releaseProcess")
			if rel == nil {
				return
			}
			n := 0
			for _, f := range p.FnList {
				if f.Short != "converters" || f.Body() == nil {
					continue
				}
				info := f.Pkg.TypesInfo
				inspectParents(f.Body(), func(x ast.Node, parents []ast.Node) bool {
					c, ok := x.(*ast.CallExpr)
					if !ok || p.Callee(f.Pkg, c) != rel || len(c.Args) != 2 {
						return true
					}
					if tv, ok := info.Types[c.Args[1]]; ok && tv.Value != nil && strings.HasPrefix(tv.Value.ExactString(), "-") {
						return true // the 'discard' form
					}
					n++
					key := fmt.Sprintf("%s %s@%s", f.Key(), exprString(p.Fset, c), relLine(p, f, c))
					// walk up: !call inside an if condition
					okErr := false
					why := "the result is discarded"
					for i := len(parents) - 1; i >= 0; i-- {
						switch par := parents[i].(type) {
						case *ast.ParenExpr:
							continue
						case *ast.UnaryExpr:
							if par.Op == token.NOT {
								continue
							}
						case *ast.IfStmt:
							neg := false
							cond := ast.Unparen(par.Cond)
							if ue, ok := cond.(*ast.UnaryExpr); ok && ue.Op == token.NOT && within(c, ue.X) {
								neg = true
							}
							var failing *ast.BlockStmt
							if neg {
								failing = par.Body
							} else if within(c, par.Cond) {
								if eb, ok := par.Else.(*ast.BlockStmt); ok {
									failing = eb
								}
							}
							if failing == nil || len(failing.List) == 0 {
								why = "the branch for a false answer does nothing"
								break
							}
							if isErrReturn(info, failing.List[len(failing.List)-1]) {
								okErr = true
							} else {
								why = "the branch for a false answer does not end in a failing return"
							}
						}
						break
					}
					r.Check(okErr, rule, key, p.Pos(c), "a false answer ends in a failing return", "when the converter was reset while this process was running, "+why+": the output of the old generation is returned as valid, the caller stores it into the freshly emptied cache, and the restarted converter never runs for that stream")
					return true
				})
			}
			r.Floor(rule, 1, n)
		})
}
