package main

// c06r.go: C06-r what a stream context says about tags is decided first.
//
// StreamContext.HasTag and AllTags answer from the view's copy of the tag tables. For a stream that is still pending
// for a tag they answered "no" (a TODO): the stream page (View.Stream, AllConverters, AllTags — no prefetch) showed
// Tags = [] for a stream that a search through the same view, with PrefetchAllTags, showed with [service/web]; the
// converter chosen automatically for the page was not applied either. Tags are pending for every new stream after
// every import and for all streams after every restart (#80, probes/c06_stream_page_pending_tags).
//
// Rule (FLOW + callee summary): in a method of manager.StreamContext every read of TagDetails.Matches is reached only
// through a call of a function of package manager that reaches View.prefetchTags (depth ≤ 2).

import (
	"fmt"
	"go/ast"
)

func init() {
	register("C06",
		"C06-r (FLOW + callee summary): in a method of manager.StreamContext every read of TagDetails.Matches is reached only through a call of a function of package manager that reaches View.prefetchTags (depth ≤ 2): the tags that are pending for the stream are evaluated before membership is reported. Answering \"no\" for a pending tag shows a stream without its tags — and without the converter chosen through them — after every import and restart, while a search through the same view shows them.",
		func(p *Prog, r *Res) {
			const rule = "C06-r stream-context-decides-before-it-answers"
			r.Rule(rule + ": StreamContext reads Matches only after the pending tags of the stream were evaluated")
			pre := p.Method("manager", "View", "prefetchTags")
			matches := p.Field("query", "TagDetails", "Matches")
			if pre == nil || matches == nil {
				p.anchorFail("manager.View.prefetchTags / query.TagDetails.Matches")
				return
			}
			decides := map[*Fn]bool{}
			var reaches func(g *Fn, d int, seen map[*Fn]bool) bool
			reaches = func(g *Fn, d int, seen map[*Fn]bool) bool {
				if g == nil || g.Body() == nil || seen[g] {
					return false
				}
				seen[g] = true
				for _, c := range callsIn(g.Body()) {
					fn := p.Callee(g.Pkg, c)
					if fn == nil {
						continue
					}
					if fn.Origin() == pre {
						return true
					}
					if d > 0 {
						if h := p.FnOfObj(fn); h != nil && h.Short == "manager" && h.Lit == nil && reaches(h, d-1, seen) {
							return true
						}
					}
				}
				return false
			}
			for _, g := range p.FnList {
				if g.Short == "manager" && g.Lit == nil && reaches(g, 2, map[*Fn]bool{}) {
					decides[g] = true
				}
			}
			n := 0
			for _, f := range p.FnList {
				if f.Short != "manager" || f.Lit != nil || f.Decl == nil || f.Decl.Recv == nil || f.Body() == nil || recvTypeName(f.Decl.Recv.List[0].Type) != "StreamContext" {
					continue
				}
				info := f.Pkg.TypesInfo
				fl := p.Flow(f)
				isRead := func(nd ast.Node) bool {
					hit := false
					inspectShallow(nd, func(x ast.Node) bool {
						if se, ok := x.(*ast.SelectorExpr); ok && info.Uses[se.Sel] == matches {
							hit = true
						}
						return !hit
					})
					return hit
				}
				isDecide := func(nd ast.Node) bool {
					hit := false
					inspectShallow(nd, func(x ast.Node) bool {
						if c, ok := x.(*ast.CallExpr); ok {
							if fn := p.Callee(f.Pkg, c); fn != nil && (fn.Origin() == pre || decides[p.FnOfObj(fn)]) {
								hit = true
							}
						}
						return !hit
					})
					return hit
				}
				// a decision made only for tags the view knows: `if _, ok := v.tagDetails[name]; ok { decide }` — for a name
				// that is not in the table there is nothing to decide and nothing to read
				tdFld := p.Field("manager", "View", "tagDetails")
				presence := map[ast.Node]bool{}
				inspectShallow(f.Body(), func(x ast.Node) bool {
					ifs, ok := x.(*ast.IfStmt)
					if !ok || ifs.Init == nil {
						return true
					}
					as, ok := ifs.Init.(*ast.AssignStmt)
					if !ok || len(as.Lhs) != 2 || len(as.Rhs) != 1 {
						return true
					}
					ix, ok := ast.Unparen(as.Rhs[0]).(*ast.IndexExpr)
					if !ok || tdFld == nil || !isFieldOf(info, ix.X, tdFld) {
						return true
					}
					if identObj(info, ifs.Cond) == nil || identObj(info, ifs.Cond) != identObj(info, as.Lhs[1]) {
						return true
					}
					for _, st := range ifs.Body.List {
						if isDecide(st) {
							presence[ifs.Cond] = true
						}
					}
					return true
				})
				plainDecide := isDecide
				isDecide = func(nd ast.Node) bool { return presence[nd] || plainDecide(nd) }
				reads := fl.Find(isRead)
				if len(reads) == 0 {
					continue
				}
				n++
				res := fl.Reach([]Pt{fl.Entry()}, func(m ast.Node) bool { return isRead(m) && !isDecide(m) }, isDecide)
				key := fmt.Sprintf("%s reports tag membership", f.Key())
				r.Check(!res.Found, rule, key, p.Pos(f.Node()), "Matches is read only after the pending tags were evaluated", "Matches is read without the stream's pending tags having been evaluated ("+fl.traceString(res)+"): for a stream that is still pending for a tag the answer is taken from stale or empty matches — the stream page shows no tags and applies no automatic converter after every import and restart")
			}
			r.Floor(rule, 2, n)
		})
}
