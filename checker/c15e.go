package main

// c15e.go: C15-e append-position-restored (also registered for C12: recovery after a torn tail).
//
// The converter cache appends records through the shared *os.File of a cacheFile; setData does not seek, it relies on
// the invariant "between operations the file position is the end of the file". The rule is a small typestate
// analysis of the file position over the CFG of every function in package converters that seeks or truncates:
//
//   End       position == size of the file
//   EmptyEnd  position == 0 and the file is empty (also an end position)
//   Zero      position == 0, file not known to be empty
//   Other     anything else
//
// and requires that every non-error return is reached in End/EmptyEnd only. cacheFile methods are entered in End
// (the invariant), NewCacheFile in Other (it has just read through the file).

import (
	"fmt"
	"go/ast"
	"go/types"
	"os"
	"sort"
	"strings"

	"golang.org/x/tools/go/cfg"
)

func init() {
	const expl = "C15-e (typestate over go/cfg, callee summaries): setData appends through the shared file handle without seeking, so between operations the file position must be the end of the file. For every function of package converters that calls (*os.File).Seek or Truncate the position state {End, EmptyEnd, Zero, Other} is propagated along all CFG paths (Seek(0, SeekEnd) and Seek(x.fileSize, SeekStart) give End; Seek(0, SeekStart) gives Zero; Truncate(0) at position 0 gives EmptyEnd; Truncate(x.fileSize) keeps End; writes keep End and turn EmptyEnd into End; any other Seek/Truncate, or handing the file to an unknown reader, gives Other; calls of package functions apply the callee's own summary) and every non-error return must be reached in End or EmptyEnd."
	register("C15", expl, ruleC15Position)
	register("C12", "C12-d' = "+expl, ruleC15Position)
}

type posState uint8

const (
	psEnd posState = 1 << iota
	psEmptyEnd
	psZero
	psOther
)

func (s posState) String() string {
	var out []string
	for _, x := range []struct {
		b posState
		n string
	}{{psEnd, "End"}, {psEmptyEnd, "EmptyEnd"}, {psZero, "Zero"}, {psOther, "Other"}} {
		if s&x.b != 0 {
			out = append(out, x.n)
		}
	}
	return "{" + strings.Join(out, ",") + "}"
}

func mapStates(s posState, f func(posState) posState) posState {
	var out posState
	for _, b := range []posState{psEnd, psEmptyEnd, psZero, psOther} {
		if s&b != 0 {
			out |= f(b)
		}
	}
	return out
}

func ruleC15Position(p *Prog, r *Res) {
	const rule = "C15-e append-position-restored"
	r.Rule(rule + ": every successful return of a function that seeks or truncates the cache file leaves the position at the end of the file")
	fileSize := p.Field("converters", "cacheFile", "fileSize")
	if fileSize == nil {
		p.anchorFail("converters.cacheFile.fileSize")
		return
	}
	osFile := "*os.File"
	constVal := func(info *types.Info, e ast.Expr) (string, bool) {
		if tv, ok := info.Types[e]; ok && tv.Value != nil {
			return tv.Value.ExactString(), true
		}
		return "", false
	}
	var analyse func(f *Fn, entry posState, report func(ret ast.Node, st posState, trace string)) (exit posState, touches bool)
	// transfer of one call
	var callEffect func(f *Fn, c *ast.CallExpr, st posState, depth int) (posState, bool)
	callEffect = func(f *Fn, c *ast.CallExpr, st posState, depth int) (posState, bool) {
		info := f.Pkg.TypesInfo
		fn := p.Callee(f.Pkg, c)
		if fn == nil {
			return st, false
		}
		switch fn.FullName() {
		case "(*os.File).Seek":
			if len(c.Args) != 2 {
				return psOther, true
			}
			wh, _ := constVal(info, c.Args[1])
			off, offConst := constVal(info, c.Args[0])
			switch {
			case wh == "2" && offConst && off == "0":
				return psEnd, true
			case wh == "0" && offConst && off == "0":
				return mapStates(st, func(s posState) posState {
					if s == psEmptyEnd {
						return psEmptyEnd
					}
					return psZero
				}), true
			case wh == "0":
				if se, ok := ast.Unparen(c.Args[0]).(*ast.SelectorExpr); ok && info.Uses[se.Sel] == types.Object(fileSize) {
					return psEnd, true
				}
			}
			return psOther, true
		case "(*os.File).Truncate":
			arg, isConst := constVal(info, c.Args[0])
			isSize := false
			if se, ok := ast.Unparen(c.Args[0]).(*ast.SelectorExpr); ok && info.Uses[se.Sel] == types.Object(fileSize) {
				isSize = true
			}
			return mapStates(st, func(s posState) posState {
				switch {
				case isConst && arg == "0" && (s == psZero || s == psEmptyEnd):
					return psEmptyEnd
				case isSize && s == psEnd:
					return psEnd // position == fileSize == new size
				}
				return psOther
			}), true
		case "(*os.File).Write", "(*os.File).WriteString", "encoding/binary.Write":
			isFile := fn.FullName() != "encoding/binary.Write"
			if !isFile && len(c.Args) > 0 {
				if t := info.TypeOf(c.Args[0]); t != nil && types.TypeString(t, nil) == osFile {
					isFile = true
				}
			}
			if !isFile {
				return st, false
			}
			return mapStates(st, func(s posState) posState {
				if s == psEnd || s == psEmptyEnd {
					return psEnd
				}
				return psOther
			}), true
		case "(*os.File).Read", "encoding/binary.Read", "io.ReadFull", "io.Copy", "io.ReadAll":
			for _, a := range c.Args {
				if t := info.TypeOf(a); t != nil && types.TypeString(t, nil) == osFile {
					return psOther, true
				}
			}
			if fn.FullName() == "(*os.File).Read" {
				return psOther, true
			}
			return st, false
		case "bufio.NewReader", "bufio.NewReaderSize":
			for _, a := range c.Args {
				if t := info.TypeOf(a); t != nil && types.TypeString(t, nil) == osFile {
					return psOther, true // sequential reads move the position
				}
			}
			return st, false
		}
		if g := p.FnOfObj(fn); g != nil && g.Short == "converters" && g.Lit == nil && g.Body() != nil && depth > 0 {
			if n := namedOf(recvType(fn)); n != nil && n.Obj().Name() == "cacheFile" {
				var out posState
				touched := false
				for _, b := range []posState{psEnd, psEmptyEnd, psZero, psOther} {
					if st&b != 0 {
						ex, t := analyse(g, b, nil)
						touched = touched || t
						if !t {
							ex = b
						}
						out |= ex
					}
				}
				return out, touched
			}
		}
		return st, false
	}
	inProgress := map[*Fn]bool{}
	analyse = func(f *Fn, entry posState, report func(ret ast.Node, st posState, trace string)) (posState, bool) {
		if inProgress[f] {
			return entry, false
		}
		inProgress[f] = true
		defer delete(inProgress, f)
		g := p.CFG(f)
		info := f.Pkg.TypesInfo
		in := map[*cfg.Block]posState{g.Blocks[0]: entry}
		touches := false
		var exit posState
		work := []*cfg.Block{g.Blocks[0]}
		reported := map[ast.Node]posState{}
		for len(work) > 0 {
			b := work[0]
			work = work[1:]
			st := in[b]
			for _, n := range b.Nodes {
				if _, isDefer := n.(*ast.DeferStmt); isDefer {
					continue
				}
				// calls in evaluation order: inner first
				var calls []*ast.CallExpr
				inspectShallow(n, func(x ast.Node) bool {
					if c, ok := x.(*ast.CallExpr); ok {
						calls = append(calls, c)
					}
					return true
				})
				sort.SliceStable(calls, func(i, j int) bool { return calls[i].End() < calls[j].End() })
				for _, c := range calls {
					ns, t := callEffect(f, c, st, 2)
					touches = touches || t
					st = ns
				}
				if ret, ok := n.(*ast.ReturnStmt); ok && !isErrReturn(info, ret) {
					exit |= st
					reported[ret] |= st
				}
			}
			for _, s := range b.Succs {
				if in[s]|st != in[s] {
					in[s] |= st
					work = append(work, s)
				}
			}
		}
		if report != nil {
			var rets []ast.Node
			for n := range reported {
				rets = append(rets, n)
			}
			sort.Slice(rets, func(i, j int) bool { return rets[i].Pos() < rets[j].Pos() })
			for _, n := range rets {
				report(n, reported[n], "")
			}
		}
		return exit, touches
	}
	n := 0
	for _, f := range p.FnList {
		if f.Short != "converters" || f.Lit != nil || f.Body() == nil {
			continue
		}
		// only functions that themselves seek or truncate (directly) carry obligations; the others are covered
		// through the summaries of what they call
		direct := false
		for _, c := range callsIn(f.Body()) {
			if fn := p.Callee(f.Pkg, c); fn != nil && (fn.FullName() == "(*os.File).Seek" || fn.FullName() == "(*os.File).Truncate") {
				direct = true
			}
		}
		if !direct {
			continue
		}
		entry := psEnd
		entryWhy := "entered at the end of the file (invariant)"
		if n := namedOf(recvTypeOfFn(f)); n == nil || n.Obj().Name() != "cacheFile" {
			entry, entryWhy = psOther, "entered with an unknown position (the file was just opened and read)"
		}
		analyse(f, entry, func(ret ast.Node, st posState, _ string) {
			n++
			key := fmt.Sprintf("%s successful return (line +%d)", f.Key(), lineOf(p.Fset, ret)-lineOf(p.Fset, f.Node()))
			if st&^(psEnd|psEmptyEnd) != 0 {
				r.Bad(rule, key, p.Pos(ret), fmt.Sprintf("%s; this return can be reached with the file position in %v: the next setData appends at a stale position — after a shortened file this leaves a hole of zero bytes and records indexed at the wrong offset", entryWhy, st))
			} else {
				r.Ok(rule, key, p.Pos(ret), fmt.Sprintf("%s; position at this return: %v", entryWhy, st))
			}
		})
	}
	r.Floor(rule, 3, n)
	// the typestate presupposes positional writes: a file opened with O_APPEND ignores the position for writes, so the
	// compaction (Seek to the first free byte, rewrite the live records there) would append them instead
	nOpen := 0
	for _, f := range p.FnList {
		if f.Short != "converters" || f.Body() == nil {
			continue
		}
		info := f.Pkg.TypesInfo
		for _, c := range callsIn(f.Body()) {
			fn := p.Callee(f.Pkg, c)
			if fn == nil || fn.FullName() != "os.OpenFile" || len(c.Args) != 3 {
				continue
			}
			nOpen++
			key := fmt.Sprintf("%s opens the cache file for positional writes", f.Key())
			v, ok := constVal(info, c.Args[1])
			if !ok {
				r.Undecided(rule, key, p.Pos(c), "open flags are not a constant expression")
				continue
			}
			var flags int64
			fmt.Sscan(v, &flags)
			r.Check(flags&int64(os.O_APPEND) == 0, rule, key, p.Pos(c), "flags "+types.ExprString(c.Args[1])+" do not contain O_APPEND", "the cache file is opened with O_APPEND: every write lands at the end of the file whatever the position is, so compaction appends the live records instead of moving them down, the following truncate cuts them off, and the index points at old bytes")
		}
	}
	r.Floor(rule+" opens", 1, nOpen)
}

func recvType(fn *types.Func) types.Type {
	sig, _ := fn.Type().(*types.Signature)
	if sig == nil || sig.Recv() == nil {
		return nil
	}
	return sig.Recv().Type()
}

func recvTypeOfFn(f *Fn) types.Type {
	if f.Decl == nil || f.Decl.Recv == nil || len(f.Decl.Recv.List) == 0 {
		return nil
	}
	return f.Pkg.TypesInfo.TypeOf(f.Decl.Recv.List[0].Type)
}
