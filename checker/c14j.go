package main

// c14j.go: C14-j the nesting of a regular expression is bounded before it is compiled.
//
// binaryregexp parses an expression iteratively but simplifies and compiles it recursively, one frame chain per nested
// group; the fork predates the nesting limit of Go's regexp/syntax. A data filter is user text: data:"(((…a…)))" with
// 3·10⁶ groups ends the process with `fatal error: stack overflow` (#49, probes/c14_regex_nesting) — the same failure
// as #45, one layer down, where checkNesting cannot see it.
//
// Rule (FLOW + callee summary): in package query every call of binaryregexp.Compile / MustCompile (and of the syntax
// package's Parse) on a non-constant expression is reachable from the function's entry only over the success edge of
// `if err := g(E); err != nil { return … }`, where E is the expression that is compiled and g a function of package
// query that returns a non-nil error under a comparison with a constant and does not itself call into binaryregexp.

import (
	"fmt"
	"go/ast"
	"go/token"
	"go/types"
	"strings"

	"golang.org/x/tools/go/cfg"
)

func init() {
	register("C14",
		"C14-j (FLOW + callee summary): in package query every call that hands a non-constant expression to binaryregexp (Compile, MustCompile, syntax.Parse) is reachable only over the success edge of a checked call g(E) on the same expression text, g being a function of package query that returns an error under a comparison with a constant and does not call into binaryregexp itself: the bound on the nesting of groups. binaryregexp simplifies and compiles recursively and has no nesting limit of its own; 3·10⁶ nested groups in a data filter overflow the stack, which no recover() catches (#49).",
		func(p *Prog, r *Res) {
			const rule = "C14-j regex-nesting-bounded-before-compile"
			r.Rule(rule + ": a depth guard on the same text precedes every regex compilation in package query")
			isRegexEntry := func(fn *types.Func) bool {
				if fn == nil || fn.Pkg() == nil {
					return false
				}
				switch fn.Pkg().Path() {
				case "rsc.io/binaryregexp":
					return fn.Name() == "Compile" || fn.Name() == "MustCompile" || fn.Name() == "CompilePOSIX"
				case "rsc.io/binaryregexp/syntax":
					return fn.Name() == "Parse"
				}
				return false
			}
			isGuard := func(fn *types.Func, pk *Fn) bool {
				h := p.FnOfObj(fn)
				if h == nil || h.Body() == nil || h.Pkg != pk.Pkg {
					return false
				}
				hinfo := h.Pkg.TypesInfo
				callsRegex, bounded := false, false
				ast.Inspect(h.Body(), func(x ast.Node) bool {
					if c, ok := x.(*ast.CallExpr); ok {
						if cf := p.Callee(h.Pkg, c); cf != nil && cf.Pkg() != nil && strings.HasPrefix(cf.Pkg().Path(), "rsc.io/binaryregexp") {
							callsRegex = true
						}
					}
					ifs, ok := x.(*ast.IfStmt)
					if !ok || len(ifs.Body.List) == 0 {
						return true
					}
					ret, ok := ifs.Body.List[len(ifs.Body.List)-1].(*ast.ReturnStmt)
					if !ok || !isErrReturn(hinfo, ret) {
						return true
					}
					for _, cj := range conjuncts(ifs.Cond) {
						if be, ok := ast.Unparen(cj).(*ast.BinaryExpr); ok {
							switch be.Op {
							case token.GTR, token.GEQ, token.LSS, token.LEQ:
								_, cx := constInt(hinfo, be.X)
								_, cy := constInt(hinfo, be.Y)
								if cx != cy {
									bounded = true
								}
							}
						}
					}
					return true
				})
				return bounded && !callsRegex
			}
			n := 0
			for _, f := range p.FnList {
				if f.Short != "query" || f.Body() == nil {
					continue
				}
				info := f.Pkg.TypesInfo
				var sites []*ast.CallExpr
				inspectShallow(f.Body(), func(x ast.Node) bool {
					if c, ok := x.(*ast.CallExpr); ok && len(c.Args) >= 1 && isRegexEntry(p.Callee(f.Pkg, c)) {
						if tv, ok := info.Types[c.Args[0]]; ok && tv.Value != nil {
							return true // a constant expression of the program itself
						}
						sites = append(sites, c)
					}
					return true
				})
				if len(sites) == 0 {
					continue
				}
				for _, c := range sites {
					n++
					argText := exprString(p.Fset, ast.Unparen(c.Args[0]))
					key := fmt.Sprintf("%s compiles %s", f.Key(), argText)
					fl := p.Flow(f)
					fl.EdgeOK = func(b *cfg.Block, succ int) bool {
						if len(b.Succs) != 2 || len(b.Nodes) < 2 || succ != 1 {
							return true
						}
						cond, ok := b.Nodes[len(b.Nodes)-1].(*ast.BinaryExpr)
						if !ok || cond.Op != token.NEQ || exprString(p.Fset, cond.Y) != "nil" {
							return true
						}
						eo := identObj(info, cond.X)
						as, ok := b.Nodes[len(b.Nodes)-2].(*ast.AssignStmt)
						if !ok || eo == nil || len(as.Rhs) != 1 || len(as.Lhs) != 1 || identObj(info, as.Lhs[0]) != eo {
							return true
						}
						gc, ok := ast.Unparen(as.Rhs[0]).(*ast.CallExpr)
						if !ok || len(gc.Args) != 1 || exprString(p.Fset, ast.Unparen(gc.Args[0])) != argText {
							return true
						}
						if gf := p.Callee(f.Pkg, gc); gf != nil && isGuard(gf, f) {
							return false // the success edge of the guard: pruned, the compile must not be reachable otherwise
						}
						return true
					}
					pt, ok := fl.PointOf(c)
					if !ok {
						r.Undecided(rule, key, p.Pos(c), "call not found in the CFG")
						fl.EdgeOK = nil
						continue
					}
					target := fl.node(pt)
					// the text must not change between the guard and the compile
					root := rootIdentOf(c.Args[0])
					var rootO types.Object
					if root != nil {
						rootO = info.Uses[root]
					}
					_ = rootO
					res := fl.Reach([]Pt{fl.Entry()}, func(nd ast.Node) bool { return nd == target }, nil)
					fl.EdgeOK = nil
					r.Check(!res.Found, rule, key, p.Pos(c), "reachable only over the success edge of a depth guard on "+argText, "the expression reaches binaryregexp without a bound on the nesting of its groups ("+fl.traceString(res)+"): Simplify and the compiler recurse once per nested group, and a stack overflow is a fatal error that ends the process")
				}
			}
			r.Floor(rule, 1, n)
		})
}
