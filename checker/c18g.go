package main

// c18g.go: C18-g / C04-t a bound of an alternation is chosen by comparing that bound.
//
// AcceptedLength joins the two branches of an alternation: the minimum is the smaller of the two minima, the maximum the
// larger of the two maxima — two independent choices. Two sub-agents, one round apart, wrote the same 'simplification'
// independently (seeded C18o, C04r): order the branches ONCE, by their minimum, and take `shorter.MinLength` and
// `longer.MaxLength`. For `(?:n=[0-9]{1,5}|any)&` that gives {4,4} instead of {4,8}; find() then believes the
// expression has a fixed length, tries only 4-byte windows in front of the constant suffix, and `n=1234&` is not found.
//
// Rule (typed AST): in package regexAnalysis, where a value is chosen under a condition that compares length bounds —
// an assignment in the body of an `if` whose condition reads a MinLength/MaxLength field — the bound that is chosen is
// one the condition compares: a field X.F (or a scalar derived from F) is assigned only under a condition that reads F,
// and when a whole AcceptedLengths value is assigned every field of it that is read later is read by the condition.
// Reads inside the builtins min/max choose by themselves and are exempt.

import (
	"fmt"
	"go/ast"
	"go/types"
	"sort"
	"strings"
)

func ruleBoundChosenByItself(id string) func(p *Prog, r *Res) {
	return func(p *Prog, r *Res) {
		rule := id + " bound-chosen-by-its-own-comparison"
		r.Rule(rule + ": under a comparison of length bounds only the compared bound is chosen")
		isAL := func(t types.Type) bool {
			if t == nil {
				return false
			}
			n, ok := t.(*types.Named)
			return ok && n.Obj().Name() == "AcceptedLengths"
		}
		n := 0
		for _, f := range p.FnList {
			if f.Short != "regexanalysis" || f.Body() == nil {
				continue
			}
			info := f.Pkg.TypesInfo
			root := f.Root()
			// kind of a scalar local: the one field all its definitions come from
			var kindOf func(e ast.Expr, depth int) string
			kindOf = func(e ast.Expr, depth int) string {
				e = ast.Unparen(e)
				if se, ok := e.(*ast.SelectorExpr); ok && (se.Sel.Name == "MinLength" || se.Sel.Name == "MaxLength") && isAL(info.TypeOf(se.X)) {
					return se.Sel.Name
				}
				id, ok := e.(*ast.Ident)
				if !ok || depth > 3 {
					return ""
				}
				o := info.Uses[id]
				if o == nil {
					o = info.Defs[id]
				}
				if v, isVar := o.(*types.Var); !isVar || v.IsField() || isAL(v.Type()) {
					return ""
				}
				kind := ""
				ast.Inspect(root.Body(), func(x ast.Node) bool {
					as, ok := x.(*ast.AssignStmt)
					if !ok || len(as.Lhs) != len(as.Rhs) {
						return true
					}
					for i, l := range as.Lhs {
						if identObj(info, l) == o {
							k := kindOf(as.Rhs[i], depth+1)
							if kind == "" {
								kind = k
							} else if k != kind {
								kind = "mixed"
							}
						}
					}
					return true
				})
				if kind == "mixed" {
					return ""
				}
				return kind
			}
			condKinds := func(conds []ast.Expr) map[string]bool {
				out := map[string]bool{}
				for _, c := range conds {
					ast.Inspect(c, func(x ast.Node) bool {
						if e, ok := x.(ast.Expr); ok {
							if k := kindOf(e, 0); k != "" {
								out[k] = true
							}
						}
						return true
					})
				}
				return out
			}
			// fields of an AcceptedLengths local that are read anywhere outside min()/max() and outside assignments TO them
			fieldsRead := func(o types.Object, skip map[ast.Node]bool) []string {
				set := map[string]bool{}
				inspectParentsDeep(root.Body(), func(x ast.Node, parents []ast.Node) bool {
					if skip[x] {
						return false
					}
					se, ok := x.(*ast.SelectorExpr)
					if !ok || identObj(info, se.X) != o {
						return true
					}
					if len(parents) > 0 {
						if c, ok := parents[len(parents)-1].(*ast.CallExpr); ok && (isBuiltin(info, c, "min") || isBuiltin(info, c, "max")) {
							return true
						}
						if as, ok := parents[len(parents)-1].(*ast.AssignStmt); ok {
							for _, l := range as.Lhs {
								if l == ast.Expr(se) {
									return true
								}
							}
						}
					}
					set[se.Sel.Name] = true
					return true
				})
				var out []string
				for k := range set {
					out = append(out, k)
				}
				sort.Strings(out)
				return out
			}
			inspectParents(f.Body(), func(x ast.Node, parents []ast.Node) bool {
				as, ok := x.(*ast.AssignStmt)
				if !ok || len(as.Lhs) != len(as.Rhs) {
					return true
				}
				var conds []ast.Expr
				skip := map[ast.Node]bool{}
				for i, par := range parents {
					ifs, ok := par.(*ast.IfStmt)
					if !ok {
						continue
					}
					// only when the assignment is in the body or the else part, not in Init
					if i+1 < len(parents) && parents[i+1] == ast.Node(ifs.Init) || ast.Node(as) == ast.Node(ifs.Init) {
						continue
					}
					conds = append(conds, ifs.Cond)
					skip[ifs.Cond] = true
				}
				ck := condKinds(conds)
				if len(ck) == 0 {
					return true
				}
				for i, l := range as.Lhs {
					lo := identObj(info, l)
					if lo != nil && isAL(lo.Type()) && isAL(info.TypeOf(as.Rhs[i])) {
						n++
						var missing []string
						for _, fld := range fieldsRead(lo, skip) {
							if !ck[fld] {
								missing = append(missing, fld)
							}
						}
						key := fmt.Sprintf("%s chooses %s under %s", f.Key(), lo.Name(), condText(p, conds))
						r.Check(len(missing) == 0, rule, key, p.Pos(as), "every field of "+lo.Name()+" that is read is compared by the condition", fmt.Sprintf("the whole value %s is chosen under a condition that compares %s only, and %s.%s is read afterwards: the branch with the smaller minimum need not have the smaller maximum — `(?:n=[0-9]{1,5}|any)` comes out as {3,3}, the expression is believed to have a fixed length, and the suffix shortcut of the data filters tries windows of that length only", lo.Name(), strings.Join(keysOf(ck), "/"), lo.Name(), strings.Join(missing, ", ."+lo.Name()+".")))
						continue
					}
					k := kindOf(l, 0)
					if k == "" || kindOf(as.Rhs[i], 0) == "" {
						continue
					}
					n++
					key := fmt.Sprintf("%s chooses %s under %s", f.Key(), exprString(p.Fset, l), condText(p, conds))
					r.Check(ck[k], rule, key, p.Pos(as), "the condition compares "+k, "a "+k+" is chosen under a condition that compares "+strings.Join(keysOf(ck), "/")+" only: the two bounds of an alternation are independent — the branch with the smaller minimum need not have the smaller maximum; a maximum that is too small makes the data filters try too few window lengths and miss matches")
				}
				return true
			})
			// min()/max() over two bounds of one kind: a choice by itself
			for _, c := range callsIn(f.Body()) {
				if (isBuiltin(info, c, "min") || isBuiltin(info, c, "max")) && len(c.Args) >= 2 {
					kinds := map[string]bool{}
					for _, a := range c.Args {
						if k := kindOf(a, 0); k != "" {
							kinds[k] = true
						}
					}
					if len(kinds) == 0 {
						continue
					}
					n++
					key := fmt.Sprintf("%s %s", f.Key(), exprString(p.Fset, c))
					r.Check(len(kinds) == 1, rule, key, p.Pos(c), "one kind of bound", "min()/max() is taken over a minimum and a maximum")
				}
			}
		}
		r.Floor(rule, 1, n)
	}
}

func condText(p *Prog, conds []ast.Expr) string {
	var parts []string
	for _, c := range conds {
		parts = append(parts, exprString(p.Fset, c))
	}
	return strings.Join(parts, " && ")
}

// inspectParentsDeep is inspectParents that also walks into function literals.
func inspectParentsDeep(root ast.Node, f func(n ast.Node, parents []ast.Node) bool) {
	var stack []ast.Node
	ast.Inspect(root, func(n ast.Node) bool {
		if n == nil {
			stack = stack[:len(stack)-1]
			return false
		}
		desc := f(n, stack)
		if desc {
			stack = append(stack, n)
		}
		return desc
	})
}

func init() {
	const expl = " (typed AST): in package regexAnalysis, where a value is chosen under a condition that compares length bounds — an assignment in the body of an `if` whose condition reads a MinLength/MaxLength field — the bound that is chosen is one the condition compares: X.F (or a scalar derived from F) is assigned only under a condition that reads F, and when a whole AcceptedLengths value is assigned every field of it that is read afterwards is read by the condition (reads inside the builtins min/max are exempt). The minimum and the maximum of an alternation are independent choices; ordering the branches once, by their minimum, and taking `longer.MaxLength` gives `(?:n=[0-9]{1,5}|any)&` the lengths {4,4} instead of {4,8}: the data filters then try 4-byte windows only and miss `n=1234&`. Two sub-agents wrote this simplification independently (seeded C18o, C04r). The numeric result of the analysis is NOT decided."
	register("C18", "C18-g"+expl, ruleBoundChosenByItself("C18-g"))
	register("C04", "C04-t"+expl, ruleBoundChosenByItself("C04-t"))
}
