package main

// c08l.go: C08-l / C05-l what the reassembler still holds is delivered before the streams are written.
//
// gopacket's assembler keeps segments that arrived behind a hole until the hole is filled or the connection is flushed
// (FlushCloseOlderThan, five minutes of capture time later). FromPcap flushed only while it read packets: when the
// packets ran out, data queued behind a lost segment stayed in the assembler, which is thrown away at the end of the
// import. first.pcap = "HELLO-", a lost segment, "WORLD!"; imported alone the stream was written as "HELLO-". A later
// import of unrelated traffic replays the packets and the flush delivers "WORLD!" — but the stream has no packet of the
// new capture and is not written again: it stays truncated for ever, while the same two files imported in one batch
// give "HELLO-WORLD!" (#81, probes/c08_data_behind_a_gap_at_end_of_import).
//
// Rule (FLOW): in Builder.FromPcap every path from the entry to the statement that writes streams (it contains a call
// of index.Writer.AddStream) passes a call of (*reassembly.Assembler).FlushAll — directly or as the body of a range
// loop over the assemblers.

import (
	"go/ast"
	"strings"
)

func ruleFlushBeforeWrite(id string) func(p *Prog, r *Res) {
	return func(p *Prog, r *Res) {
		rule := id + " buffered-segments-delivered-before-streams-are-written"
		r.Rule(rule + ": FromPcap flushes the assemblers completely before it writes streams")
		f := p.Fns["builder.Builder.FromPcap"]
		add := p.Method("index", "Writer", "AddStream")
		if f == nil || add == nil {
			p.anchorFail("builder.Builder.FromPcap / index.Writer.AddStream")
			return
		}
		isFlushCall := func(c *ast.CallExpr) bool {
			fn := p.Callee(f.Pkg, c)
			return fn != nil && fn.Name() == "FlushAll" && fn.Pkg() != nil && strings.HasSuffix(fn.Pkg().Path(), "gopacket/reassembly")
		}
		// range loops whose body flushes: their range expression stands for the flush (the loop runs over a fixed array)
		flushRange := map[ast.Node]bool{}
		inspectShallow(f.Body(), func(x ast.Node) bool {
			if rs, ok := x.(*ast.RangeStmt); ok {
				for _, c := range callsIn(rs.Body) {
					if isFlushCall(c) {
						flushRange[rs.X] = true
					}
				}
			}
			return true
		})
		fl := p.Flow(f)
		isFlush := func(n ast.Node) bool {
			if flushRange[n] {
				return true
			}
			hit := false
			inspectShallow(n, func(x ast.Node) bool {
				if c, ok := x.(*ast.CallExpr); ok && isFlushCall(c) {
					hit = true
				}
				return !hit
			})
			return hit
		}
		writes := func(n ast.Node) bool {
			for _, c := range callsInDeep(n) {
				if fn := p.Callee(f.Pkg, c); fn != nil && fn.Origin() == add {
					return true
				}
			}
			return false
		}
		goals := fl.Find(writes)
		for range goals {
			break
		}
		res := fl.Reach([]Pt{fl.Entry()}, writes, isFlush)
		if len(goals) == 0 {
			r.Check(false, rule, "builder.Builder.FromPcap writes streams", p.Pos(f.Node()), "", "no statement of FromPcap calls index.Writer.AddStream: the rule cannot see where streams are written")
		} else {
			r.Check(!res.Found, rule, "builder.Builder.FromPcap writes streams", p.Pos(fl.node(goals[0])), "every path to the write passes FlushAll on the assemblers", "the streams are written without the assemblers having been flushed completely ("+fl.traceString(res)+"): segments that wait behind a lost segment are dropped with the assembler; the stream is stored truncated, and a later import that delivers the data through its own flush does not write the stream again because no packet of the new capture belongs to it")
		}
		r.Floor(rule, 1, len(goals))
	}
}

func init() {
	const expl = " (FLOW): in Builder.FromPcap every path from the entry to the statement that writes streams (it contains a call of index.Writer.AddStream) passes a call of (*reassembly.Assembler).FlushAll, directly or as the body of a range loop over the assemblers. The assembler holds segments that arrived behind a hole until the hole is filled or the connection is flushed; flushed only while packets are read, the data behind a lost segment is dropped when the packets run out — the stream is stored truncated and stays so, while the same captures imported in one batch give the whole payload."
	register("C08", "C08-l"+expl, ruleFlushBeforeWrite("C08-l"))
	register("C05", "C05-l"+expl, ruleFlushBeforeWrite("C05-l"))
}
