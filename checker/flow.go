package main

// flow.go: path queries on go/cfg graphs at node granularity (FLOW, DESIGN §3.4).

import (
	"fmt"
	"go/ast"
	"go/token"
	"sort"
	"strings"

	"golang.org/x/tools/go/cfg"
)

// Pt is a position in a CFG: node idx of block b. idx == len(Nodes) means "end of block".
type Pt struct {
	B *cfg.Block
	I int
}

type Flow struct {
	P  *Prog
	F  *Fn
	G  *cfg.CFG
	at map[ast.Node]Pt // every CFG node -> its point
	// EdgeOK, when set, prunes CFG edges during searches (path-sensitive pruning by derived facts).
	EdgeOK func(b *cfg.Block, succ int) bool
}

func (p *Prog) Flow(f *Fn) *Flow {
	g := p.CFG(f)
	fl := &Flow{P: p, F: f, G: g, at: map[ast.Node]Pt{}}
	for _, b := range g.Blocks {
		for i, n := range b.Nodes {
			fl.at[n] = Pt{b, i}
		}
	}
	return fl
}

func (fl *Flow) Entry() Pt { return Pt{fl.G.Blocks[0], 0} }

func (fl *Flow) node(pt Pt) ast.Node {
	if pt.I < len(pt.B.Nodes) {
		return pt.B.Nodes[pt.I]
	}
	return nil
}

// Find returns the points of all live CFG nodes for which pred holds.
func (fl *Flow) Find(pred func(ast.Node) bool) []Pt {
	var out []Pt
	for _, b := range fl.G.Blocks {
		if !b.Live {
			continue
		}
		for i, n := range b.Nodes {
			if pred(n) {
				out = append(out, Pt{b, i})
			}
		}
	}
	return out
}

// PointOf returns the CFG point of the CFG node that contains the AST node x (shallow containment).
func (fl *Flow) PointOf(x ast.Node) (Pt, bool) {
	for _, b := range fl.G.Blocks {
		for i, n := range b.Nodes {
			if n.Pos() <= x.Pos() && x.End() <= n.End() {
				// make sure x is not inside a nested function literal of n
				inLit := false
				inspectShallow(n, func(y ast.Node) bool {
					if l, ok := y.(*ast.FuncLit); ok && l != x && l.Pos() <= x.Pos() && x.End() <= l.End() {
						inLit = true
					}
					return true
				})
				if !inLit {
					return Pt{b, i}, true
				}
			}
		}
	}
	return Pt{}, false
}

type pathResult struct {
	Found bool
	Trace []ast.Node // nodes along the witness path (possibly abbreviated)
	End   ast.Node
}

// isReturn reports whether the CFG node is a (possibly implicit) return statement.
func isReturn(n ast.Node) bool {
	_, ok := n.(*ast.ReturnStmt)
	return ok
}

// search explores forward from the given start points (the node AT each start point is visited first).
// block(n) = true stops the path at n (n is not passed). goal(n) = true ends the search with success.
// The goal test is applied before the block test.
func (fl *Flow) search(starts []Pt, goal func(ast.Node) bool, block func(ast.Node) bool) pathResult {
	type state struct {
		pt   Pt
		prev int
	}
	var states []state
	seen := map[Pt]bool{}
	push := func(pt Pt, prev int) {
		// normalise: skip to next existing node or block end
		if seen[pt] {
			return
		}
		seen[pt] = true
		states = append(states, state{pt, prev})
	}
	for _, s := range starts {
		push(s, -1)
	}
	for qi := 0; qi < len(states); qi++ {
		st := states[qi]
		pt := st.pt
		if pt.I < len(pt.B.Nodes) {
			n := pt.B.Nodes[pt.I]
			if goal != nil && goal(n) {
				var tr []ast.Node
				for k := qi; k >= 0; k = states[k].prev {
					if nn := fl.node(states[k].pt); nn != nil {
						tr = append(tr, nn)
					}
				}
				for i, j := 0, len(tr)-1; i < j; i, j = i+1, j-1 {
					tr[i], tr[j] = tr[j], tr[i]
				}
				return pathResult{Found: true, Trace: tr, End: n}
			}
			if block != nil && block(n) {
				continue
			}
			if isReturn(n) {
				continue
			}
			push(Pt{pt.B, pt.I + 1}, qi)
			continue
		}
		for si, s := range pt.B.Succs {
			if fl.EdgeOK != nil && !fl.EdgeOK(pt.B, si) {
				continue
			}
			push(Pt{s, 0}, qi)
		}
	}
	return pathResult{}
}

// After returns the point following pt.
func After(pt Pt) Pt { return Pt{pt.B, pt.I + 1} }

// ExitAvoiding reports whether a normal return is reachable from the start points without
// passing a node in pass. A return statement that itself satisfies pass counts as passing.
func (fl *Flow) ExitAvoiding(starts []Pt, pass func(ast.Node) bool) pathResult {
	return fl.search(starts, func(n ast.Node) bool { return isReturn(n) && !pass(n) }, pass)
}

// MustPass: every path from entry to a normal return passes a node satisfying pass.
func (fl *Flow) MustPass(pass func(ast.Node) bool) pathResult {
	return fl.ExitAvoiding([]Pt{fl.Entry()}, pass)
}

// Reach reports whether a node satisfying goal is reachable from starts without passing block.
func (fl *Flow) Reach(starts []Pt, goal func(ast.Node) bool, block func(ast.Node) bool) pathResult {
	return fl.search(starts, goal, block)
}

// traceString renders a witness path compactly as line numbers of the branch decisions.
func (fl *Flow) traceString(r pathResult) string {
	if !r.Found {
		return ""
	}
	var lines []string
	last := -1
	for _, n := range r.Trace {
		l := fl.P.Fset.Position(n.Pos()).Line
		if l != last {
			lines = append(lines, fmt.Sprint(l))
			last = l
		}
	}
	if len(lines) > 14 {
		lines = append(append(lines[:6:6], "…"), lines[len(lines)-7:]...)
	}
	return "path lines " + strings.Join(lines, "→")
}

// ---- node predicates ----

// callTo returns a predicate matching CFG nodes that (shallowly) contain a call whose static
// callee satisfies f. DeferStmt and GoStmt nodes are matched only if includeDefer/go is set by caller
// via the dedicated helpers below.
func (fl *Flow) hasCall(n ast.Node, match func(call *ast.CallExpr) bool) bool {
	found := false
	inspectShallow(n, func(x ast.Node) bool {
		if found {
			return false
		}
		if _, ok := x.(*ast.GoStmt); ok {
			return false // a `go f()` does not execute f here
		}
		if c, ok := x.(*ast.CallExpr); ok && match(c) {
			found = true
			return false
		}
		return true
	})
	return found
}

// natural loops -------------------------------------------------------

// Loop describes a source-level loop: the set of blocks belonging to it.
type Loop struct {
	Stmt   ast.Stmt // *ast.ForStmt or *ast.RangeStmt
	Header *cfg.Block
	Blocks map[*cfg.Block]bool
}

// Loops returns the for/range loops of the function. The blocks of a loop are the natural loop of
// its header: blocks reachable from the header from which the header is reachable again.
func (fl *Flow) Loops() []Loop {
	var loops []Loop
	preds := map[*cfg.Block][]*cfg.Block{}
	for _, b := range fl.G.Blocks {
		for _, s := range b.Succs {
			preds[s] = append(preds[s], b)
		}
	}
	inspectShallow(fl.F.Body(), func(x ast.Node) bool {
		switch s := x.(type) {
		case *ast.ForStmt, *ast.RangeStmt:
			l := Loop{Stmt: s.(ast.Stmt), Blocks: map[*cfg.Block]bool{}}
			var header *cfg.Block
			for _, b := range fl.G.Blocks {
				if b.Live && b.Stmt == s && (b.Kind == cfg.KindForLoop || b.Kind == cfg.KindRangeLoop) {
					header = b
				}
			}
			if header == nil {
				for _, b := range fl.G.Blocks {
					if b.Live && b.Stmt == s && b.Kind == cfg.KindForBody {
						header = b
					}
				}
			}
			if header != nil {
				l.Header = header
				fwd := map[*cfg.Block]bool{header: true}
				q := []*cfg.Block{header}
				for len(q) > 0 {
					b := q[0]
					q = q[1:]
					for _, t := range b.Succs {
						if !fwd[t] {
							fwd[t] = true
							q = append(q, t)
						}
					}
				}
				bwd := map[*cfg.Block]bool{header: true}
				q = []*cfg.Block{header}
				for len(q) > 0 {
					b := q[0]
					q = q[1:]
					for _, t := range preds[b] {
						if !bwd[t] {
							bwd[t] = true
							q = append(q, t)
						}
					}
				}
				for b := range fwd {
					if bwd[b] {
						// restrict to blocks syntactically inside the statement (an enclosing loop's
						// back edge makes outer blocks mutually reachable too)
						ok := true
						if b.Stmt != nil && b != header {
							if b.Stmt == ast.Stmt(l.Stmt) && (b.Kind == cfg.KindForDone || b.Kind == cfg.KindRangeDone) {
								ok = false // leaving the loop
							}
							if b.Stmt != ast.Stmt(l.Stmt) && within(s, b.Stmt) {
								ok = false // block of an enclosing statement
							}
						}
						for _, n := range b.Nodes {
							if !within(n, s) {
								ok = false
							}
						}
						if ok {
							l.Blocks[b] = true
						}
					}
				}
			}
			loops = append(loops, l)
		}
		return true
	})
	sort.Slice(loops, func(i, j int) bool { return loops[i].Stmt.Pos() < loops[j].Stmt.Pos() })
	return loops
}

// within reports whether node n lies in the source range of s.
func within(n ast.Node, s ast.Node) bool { return s.Pos() <= n.Pos() && n.End() <= s.End() }

func lineOf(fset *token.FileSet, n ast.Node) int { return fset.Position(n.Pos()).Line }
