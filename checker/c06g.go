package main

// c06g.go: C06-g deleting converter output re-opens the tags that search it.
//
// A tag whose definition contains a data filter is decided from the payload AND from cached converter output
// (data.<converter>:…). CachedConverter.Reset deletes all cached output of a converter. Wherever the service goroutine
// does that for a converter that stays registered, the tags with a data filter have to be marked pending again —
// exactly what the converter job's completion does when it ADDS output — or `tag:x` keeps answering from output that no
// longer exists. FLOW: from every call of CachedConverter.Reset in package manager, on the edge on which the call
// succeeded, every path to the end of the function passes a call of a function that raises data tags: one whose body
// assigns the Uncertain mask of the tags it ranges over under a test of FeatureFilterData. Exempt: a Reset under a
// failed lookup in Manager.converters (the converter was removed meanwhile; removeConverter has raised the tags).

import (
	"fmt"
	"go/ast"
	"go/token"
	"go/types"
)

func init() {
	register("C06",
		"C06-g (FLOW, callee effect summaries): in package manager every call of CachedConverter.Reset — which deletes all cached output of a converter — is followed, on every path on which the call succeeded, by a call of a function that raises the tags with a data filter (its body assigns the Uncertain mask of the tags of Manager.tags under a test of FeatureFilterData; the raise is then subject to C09-c and C06-c like every other), unless the Reset sits under a failed lookup of the converter in Manager.converters. A tag defined by data.<converter>:… is decided from that output; without the raise it stays decided with matches its definition no longer selects.",
		func(p *Prog, r *Res) {
			const rule = "C06-g dropped-converter-output-reopens-data-tags"
			r.Rule(rule + ": CachedConverter.Reset is followed by a raise of the data tags")
			reset := p.Method("converters", "CachedConverter", "Reset")
			unc := p.Field("query", "TagDetails", "Uncertain")
			convFld := p.Field("manager", "Manager", "converters")
			if reset == nil || unc == nil || convFld == nil {
				return
			}
			// raisers by effect
			preds := dataFilterPredicates(p)
			raisers := map[*types.Func]bool{}
			for _, f := range p.FnList {
				if f.Short != "manager" || f.Body() == nil || f.Lit != nil {
					continue
				}
				info := f.Pkg.TypesInfo
				hit := false
				inspectShallow(f.Body(), func(x ast.Node) bool {
					rs, ok := x.(*ast.RangeStmt)
					if !ok {
						return true
					}
					testsData, assigns := false, false
					ast.Inspect(rs.Body, func(y ast.Node) bool {
						switch s := y.(type) {
						case *ast.SelectorExpr:
							if s.Sel.Name == "FeatureFilterData" {
								testsData = true
							}
						case *ast.Ident:
							if s.Name == "FeatureFilterData" {
								testsData = true
							}
						case *ast.CallExpr:
							if fn := p.Callee(f.Pkg, s); fn != nil && preds[fn.Origin()] {
								testsData = true
							}
						case *ast.AssignStmt:
							for _, l := range s.Lhs {
								if isFieldOf(info, l, unc) {
									assigns = true
								}
							}
						}
						return true
					})
					if testsData && assigns {
						hit = true
					}
					return true
				})
				if hit {
					if fo, ok := info.Defs[f.Decl.Name].(*types.Func); ok {
						raisers[fo] = true
					}
				}
			}
			n := 0
			for _, f := range p.FnList {
				if f.Short != "manager" || f.Body() == nil {
					continue
				}
				info := f.Pkg.TypesInfo
				fl := p.Flow(f)
				// the raise written out in place: assignments to Uncertain inside a range whose body tests FeatureFilterData
				inline := map[ast.Node]bool{}
				inspectShallow(f.Body(), func(x ast.Node) bool {
					rs, ok := x.(*ast.RangeStmt)
					if !ok {
						return true
					}
					testsData := false
					var asg []ast.Node
					ast.Inspect(rs.Body, func(y ast.Node) bool {
						switch s := y.(type) {
						case *ast.SelectorExpr:
							if s.Sel.Name == "FeatureFilterData" {
								testsData = true
							}
						case *ast.Ident:
							if s.Name == "FeatureFilterData" {
								testsData = true
							}
						case *ast.CallExpr:
							if fn := p.Callee(f.Pkg, s); fn != nil && preds[fn.Origin()] {
								testsData = true
							}
						case *ast.AssignStmt:
							for _, l := range s.Lhs {
								if isFieldOf(info, l, unc) {
									asg = append(asg, s)
								}
							}
						}
						return true
					})
					if testsData {
						for _, a := range asg {
							inline[a] = true
						}
						// a loop over no tags at all raises nothing, which is right: the loop itself counts
						inline[rs.X] = true
					}
					return true
				})
				raises := func(nd ast.Node) bool {
					if inline[nd] {
						return true
					}
					return fl.hasCall(nd, func(c *ast.CallExpr) bool {
						fn := p.Callee(f.Pkg, c)
						return fn != nil && raisers[fn]
					})
				}
				inspectParents(f.Body(), func(x ast.Node, parents []ast.Node) bool {
					c, ok := x.(*ast.CallExpr)
					if !ok || p.Callee(f.Pkg, c) != reset {
						return true
					}
					n++
					key := fmt.Sprintf("%s Reset@%s", f.Key(), relLine(p, f, c))
					// exempt: under `!ok` of a lookup in Manager.converters
					for _, par := range parents {
						ifs, ok := par.(*ast.IfStmt)
						if !ok || !within(c, ifs.Body) {
							continue
						}
						if as, ok := ifs.Init.(*ast.AssignStmt); ok && len(as.Rhs) == 1 {
							if ix, ok := ast.Unparen(as.Rhs[0]).(*ast.IndexExpr); ok && isFieldOf(info, ix.X, convFld) {
								if ue, ok := ast.Unparen(ifs.Cond).(*ast.UnaryExpr); ok && ue.Op == token.NOT {
									r.Exempt(rule, key, p.Pos(c), "the converter is no longer registered (failed lookup in Manager.converters): removeConverter has raised the tags when it deleted the output")
									return true
								}
							}
						}
					}
					pt, okp := fl.PointOf(c)
					if !okp {
						r.Undecided(rule, key, p.Pos(c), "call not found in the CFG")
						return true
					}
					// success edge: the call sits in `if err := X.Reset(); err != nil { return … }` — start behind the if
					starts := []Pt{After(pt)}
					res := fl.Reach(starts, func(nd ast.Node) bool {
						ret, ok := nd.(*ast.ReturnStmt)
						if !ok {
							return false
						}
						return !isErrReturn(info, ret)
					}, raises)
					falls := fallsOffEndAvoiding(fl, After(pt), func(nd ast.Node) bool {
						if raises(nd) {
							return true
						}
						return isErrReturn(info, nd)
					})
					r.Check(!res.Found && !falls, rule, key, p.Pos(c), "every successful path after the Reset raises the data tags", "the cached output of the converter is deleted, but a successful path to the end of the function ("+fl.traceString(res)+") does not mark the tags with a data filter as pending: a tag defined by data.<converter>:… stays decided with matches that its definition no longer selects")
					return true
				})
			}
			r.Note("%s: %d functions raise data tags by effect", rule, len(raisers))
			r.Floor(rule, 3, n)
		})
}

// dataFilterPredicates: functions of package manager that answer with a boolean and read FeatureFilterData — the test
// "this tag searches stream data" extracted into a helper (`func (t *tag) filtersStreamData() bool`).
func dataFilterPredicates(p *Prog) map[*types.Func]bool {
	out := map[*types.Func]bool{}
	for _, g := range p.FnList {
		if g.Short != "manager" || g.Body() == nil || g.Lit != nil || g.Decl == nil {
			continue
		}
		res := g.Decl.Type.Results
		if res == nil || len(res.List) != 1 {
			continue
		}
		if t := g.Pkg.TypesInfo.TypeOf(res.List[0].Type); t == nil || types.TypeString(t, nil) != "bool" {
			continue
		}
		mentions := false
		ast.Inspect(g.Body(), func(y ast.Node) bool {
			switch s := y.(type) {
			case *ast.SelectorExpr:
				if s.Sel.Name == "FeatureFilterData" {
					mentions = true
				}
			case *ast.Ident:
				if s.Name == "FeatureFilterData" {
					mentions = true
				}
			}
			return !mentions
		})
		if mentions {
			if fo, ok := g.Pkg.TypesInfo.Defs[g.Decl.Name].(*types.Func); ok {
				out[fo] = true
			}
		}
	}
	return out
}
