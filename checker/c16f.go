package main

// c16f.go: C16-f invalidation-covers-registry.
//
// Converter output is cached per converter, not per tag: a View can run any registered converter on demand
// (StreamContext.Data(name)), so a converter that is attached to no tag may hold cached output too. When an import
// extends streams, the invalidation must therefore visit every registered converter — the Manager.converters registry —
// and not just the converters reachable through tags.

import (
	"fmt"
	"go/ast"
	"go/token"
	"go/types"
	"strings"
)

func init() {
	register("C16",
		"C16-f (AST, typed): every call of CachedConverter.InvalidateChangedStreams in package manager is made on the value variable of a range over the Manager.converters registry (the full set of converters that can hold cached output, attached to a tag or not), and the function doing so is called from the import completion; a loop over a narrower set (tag.converters) leaves output of on-demand conversions stale after the stream grew.",
		ruleC16Registry)
}

func ruleC16Registry(p *Prog, r *Res) {
	const rule = "C16-f invalidation-covers-registry"
	r.Rule(rule + ": InvalidateChangedStreams is applied to every element of Manager.converters")
	inv := p.Method("converters", "CachedConverter", "InvalidateChangedStreams")
	reg := p.Field("manager", "Manager", "converters")
	if inv == nil || reg == nil {
		p.anchorFail("converters.CachedConverter.InvalidateChangedStreams / manager.Manager.converters")
		return
	}
	matches := p.Field("manager", "tag", "Matches")
	n, exempt := 0, 0
	for _, f := range p.FnList {
		if f.Short != "manager" || f.Body() == nil {
			continue
		}
		info := f.Pkg.TypesInfo
		inspectParents(f.Body(), func(x ast.Node, parents []ast.Node) bool {
			c, ok := x.(*ast.CallExpr)
			if !ok {
				return true
			}
			fn := p.Callee(f.Pkg, c)
			if fn == nil || fn.Origin() != inv {
				return true
			}
			// not an invalidation of changed streams: the mask is built from a tag's Matches (a detach drops the output
			// only that tag had asked for — of the one converter that is detached)
			if matches != nil && len(c.Args) == 1 {
				a := ast.Unparen(c.Args[0])
				if u, ok := a.(*ast.UnaryExpr); ok {
					a = ast.Unparen(u.X)
				}
				if o := identObj(info, a); o != nil {
					fromMatches := false
					inspectShallow(f.Body(), func(y ast.Node) bool {
						as, ok := y.(*ast.AssignStmt)
						if !ok || as.Tok != token.DEFINE || len(as.Lhs) != len(as.Rhs) {
							return true
						}
						for i, l := range as.Lhs {
							if identObj(info, l) == o {
								ast.Inspect(as.Rhs[i], func(z ast.Node) bool {
									if e, ok := z.(ast.Expr); ok && isFieldOf(info, e, matches) {
										fromMatches = true
									}
									return true
								})
							}
						}
						return true
					})
					if fromMatches {
						exempt++
						return true
					}
				}
			}
			n++
			key := fmt.Sprintf("%s InvalidateChangedStreams receiver", f.Key())
			se, _ := c.Fun.(*ast.SelectorExpr)
			var recv types.Object
			if se != nil {
				recv = identObj(info, se.X)
			}
			ok2 := false
			over := ""
			for i := len(parents) - 1; i >= 0 && recv != nil; i-- {
				rs, isR := parents[i].(*ast.RangeStmt)
				if !isR || identObj(info, rs.Value) != recv {
					continue
				}
				over = types.ExprString(rs.X)
				if sx, isSel := ast.Unparen(rs.X).(*ast.SelectorExpr); isSel && info.Uses[sx.Sel] == types.Object(reg) {
					ok2 = true
				}
				break
			}
			if over == "" {
				over = "no enclosing range"
			}
			r.Check(ok2, rule, key, p.Pos(c), "receiver ranges over Manager.converters", "the changed streams are invalidated only for converters from "+over+", not for the whole Manager.converters registry: output cached by an on-demand conversion with an unattached converter survives an import that extended the stream")
			return true
		})
	}
	r.Note("%s: %d calls with a mask built from a tag's Matches are not invalidations of changed streams (detach)", rule, exempt)
	r.Floor(rule, 1, n)
}

// ---- C16-h: a converter process whose output was not read to the end is never reused ----

func init() {
	register("C16",
		"C16-h (sibling agreement inside Converter.Data): the protocol with a converter process is line-based and stateful; once a request has been written, a process may go back into the pool only after its whole answer was consumed. Every failing return of the closures in Converter.Data that is reached after the process was obtained is preceded, in its block, by releaseProcess(process, <negative constant>) — the 'discard this process' form used by all its siblings; releasing it with the live epoch after an error leaves unread lines in the pipe, and the next stream converted by that process gets them as its own output, which is then cached.",
		func(p *Prog, r *Res) {
			const rule = "C16-h failed-process-discarded"
			r.Rule(rule + ": error paths of Converter.Data release the process as failed")
			rel := p.Method("converters", "Converter", "releaseProcess")
			outer := p.Fn("converters.Converter.Data")
			if rel == nil || outer == nil {
				p.anchorFail("converters.Converter.releaseProcess / Data")
				return
			}
			n := 0
			fns := append([]*Fn{outer}, outer.Lits...)
			for _, f := range fns {
				info := f.Pkg.TypesInfo
				inspectShallow(f.Body(), func(x ast.Node) bool {
					blk, ok := x.(*ast.BlockStmt)
					if !ok {
						return true
					}
					for i, st := range blk.List {
						ret, ok := st.(*ast.ReturnStmt)
						if !ok || !isErrReturn(info, ret) {
							continue
						}
						// the release that belongs to this return: a call of releaseProcess among the preceding statements of the block
						var call *ast.CallExpr
						for _, prev := range blk.List[:i] {
							for _, c := range callsIn(prev) {
								if p.Callee(f.Pkg, c) == rel {
									call = c
								}
							}
						}
						if call == nil {
							continue // error before a process was obtained, or release handled by the caller of this closure
						}
						n++
						key := fmt.Sprintf("%s failing return (line +%d) discards the process", f.Key(), lineOf(p.Fset, ret)-lineOf(p.Fset, outer.Node()))
						neg := false
						if len(call.Args) == 2 {
							if tv, ok := info.Types[call.Args[1]]; ok && tv.Value != nil && strings.HasPrefix(tv.Value.ExactString(), "-") {
								neg = true
							}
						}
						r.Check(neg, rule, key, p.Pos(call), "releaseProcess(process, -1)", "after this error the process is put back into the pool as healthy ("+types.ExprString(call)+") although the rest of its answer has not been read: the next stream handled by it receives the leftover lines as its own converter output")
					}
					return true
				})
			}
			r.Floor(rule, 6, n)
		})
}
