package main

// c16n.go: C16-n detaching a converter queues no work for it.
//
// detachConverterFromTag takes a converter out of a tag's list and removes from Manager.streamsToConvert the streams
// only this tag had asked for: "detaching stops further runs". invalidateConverters — the import path's "these streams
// changed, drop their output" — does the opposite for every stream it drops: it queues it again. Called from the detach
// (seeded C16n, the open TODO "invalidate all streams in the cache that are only matched by this tag" filled in with the
// nearest helper) it re-queues what was just taken off the queue; the caller's startConverterJobIfNeeded then runs the
// detached converter over all the tag's streams once more and refills the cache that Reset had emptied.
//
// Rule (callee effect summary): a function of package manager that removes an element from a tag's converters list
// (assigns X.converters from slices of X.converters) neither adds to Manager.streamsToConvert (Or / Set on an element)
// nor calls a function of the package that may (depth 2).

import (
	"fmt"
	"go/ast"
	"go/types"
)

func init() {
	register("C16",
		"C16-n (callee effect summary): a function of package manager that removes an element from a tag's converters list — it assigns X.converters from parts of X.converters — neither adds streams to Manager.streamsToConvert (Or / Set on an element of the map) nor calls a function of the package that may (depth 2): detaching takes work off the queue. The invalidation helper of the import path queues again every stream whose output it drops; used in the detach it makes the detached converter run once more over all streams of the tag.",
		func(p *Prog, r *Res) {
			const rule = "C16-n detach-queues-no-work"
			r.Rule(rule + ": removing a converter from a tag adds nothing to streamsToConvert")
			convs := p.Field("manager", "tag", "converters")
			queue := p.Field("manager", "Manager", "streamsToConvert")
			if convs == nil || queue == nil {
				p.anchorFail("manager.tag.converters / manager.Manager.streamsToConvert")
				return
			}
			addsDirect := func(g *Fn) (bool, ast.Node) {
				info := g.Pkg.TypesInfo
				var at ast.Node
				inspectShallow(g.Body(), func(x ast.Node) bool {
					c, ok := x.(*ast.CallExpr)
					if !ok || at != nil {
						return true
					}
					se, ok := ast.Unparen(c.Fun).(*ast.SelectorExpr)
					if !ok || (se.Sel.Name != "Or" && se.Sel.Name != "Set" && se.Sel.Name != "OrCopy") {
						return true
					}
					if ix, ok := ast.Unparen(se.X).(*ast.IndexExpr); ok && isFieldOf(info, ix.X, queue) {
						at = c
					}
					return true
				})
				return at != nil, at
			}
			var adds func(g *Fn, d int, seen map[*Fn]bool) (bool, string)
			adds = func(g *Fn, d int, seen map[*Fn]bool) (bool, string) {
				if g == nil || g.Body() == nil || seen[g] {
					return false, ""
				}
				seen[g] = true
				if ok, _ := addsDirect(g); ok {
					return true, g.Key()
				}
				if d == 0 {
					return false, ""
				}
				for _, c := range callsIn(g.Body()) {
					if fn := p.Callee(g.Pkg, c); fn != nil {
						if h := p.FnOfObj(fn); h != nil && h.Short == "manager" {
							if ok, via := adds(h, d-1, seen); ok {
								return true, via
							}
						}
					}
				}
				return false, ""
			}
			n := 0
			for _, f := range p.FnList {
				if f.Short != "manager" || f.Lit != nil || f.Body() == nil {
					continue
				}
				info := f.Pkg.TypesInfo
				removes := false
				inspectShallow(f.Body(), func(x ast.Node) bool {
					as, ok := x.(*ast.AssignStmt)
					if !ok || len(as.Lhs) != 1 || len(as.Rhs) != 1 || !isFieldOf(info, as.Lhs[0], convs) {
						return true
					}
					// built from slices of the same list
					parts := 0
					ast.Inspect(as.Rhs[0], func(y ast.Node) bool {
						if se, ok := y.(*ast.SliceExpr); ok && isFieldOf(info, se.X, convs) {
							parts++
						}
						return true
					})
					if parts >= 1 {
						removes = true
					}
					return true
				})
				if !removes {
					continue
				}
				n++
				key := fmt.Sprintf("%s removes a converter from a tag", f.Key())
				bad := ""
				var pos ast.Node = f.Node()
				if ok, at := addsDirect(f); ok {
					bad, pos = "it adds to streamsToConvert itself", at
				} else {
					for _, c := range callsIn(f.Body()) {
						if fn := p.Callee(f.Pkg, c); fn != nil {
							if h := p.FnOfObj(fn); h != nil && h.Short == "manager" {
								if ok, via := adds(h, 2, map[*Fn]bool{f: true}); ok {
									bad, pos = "it calls "+h.Key()+", which queues streams ("+via+")", c
									break
								}
							}
						}
					}
				}
				_ = types.Universe
				r.Check(bad == "", rule, key, p.Pos(pos), "adds nothing to streamsToConvert", bad+": what the detach has just taken off the queue of the converter is queued again, the next converter job runs the detached converter over the streams of the tag once more and refills its cache")
			}
			r.Floor(rule, 1, n)
		})
}
