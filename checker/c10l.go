package main

// c10l.go: three small rules from the seeds of round 16.
//
// C10-l  MinStreamID() / MaxStreamID() are inclusive bounds. Seeded C10p added a fast path in front of the filter that
//        hides superseded streams: `if s.StreamID < r2.MinStreamID() || s.StreamID >= r2.MaxStreamID() { continue }`.
//        A stream whose id EQUALS the highest id of a younger index was no longer recognised as superseded and a search
//        returned it twice, in its stale and in its current version.
//        Rule (typed AST): a comparison that excludes equality with a bound — `x >= R.MaxStreamID()`, `R.MaxStreamID() <= x`,
//        `x <= R.MinStreamID()`, `R.MinStreamID() >= x` — does not occur in the repository's packages.
//
// C11-q  main-query and sub-query references of a tag are treated alike. Seeded C11o let the walk that looks for
//        reference cycles expand a tag only when its MAIN query filters on tags; an edge through `@s:tag:a` was not
//        followed, a cycle through it was accepted and the service hung.
//        Rule (typed AST): a function of package manager that tests MainFeatures against FeatureFilterTags also tests
//        SubQueryFeatures against it; one that reads features.MainTags also reads features.SubQueryTags.
//
// C12-t  every state file is a candidate at start. saveState writes the new file before it removes the old one; after a
//        kill in between the newest file is empty or half written and the older, complete one must be used. Seeded C12o
//        cut the list to its newest element before the loop "because only the newest has to be parsed".
//        Rule (typed AST): the list of state file names — the result of tools.ListFiles(…, "state.json") — is assigned
//        once; it is not re-sliced or replaced before it is ranged over.

import (
	"fmt"
	"go/ast"
	"go/token"
	"go/types"
)

func init() {
	register("C10",
		"C10-l (typed AST): Reader.MinStreamID() and MaxStreamID() are inclusive bounds; a comparison that excludes equality with one of them (`x >= R.MaxStreamID()`, `R.MaxStreamID() <= x`, `x <= R.MinStreamID()`, `R.MinStreamID() >= x`) does not occur. A range test written half-open in front of the filter that hides superseded streams lets the stream with the highest id of a younger index through: a search returns it twice, stale and current.",
		func(p *Prog, r *Res) {
			const rule = "C10-l stream-id-bounds-are-inclusive"
			r.Rule(rule + ": no comparison treats MinStreamID/MaxStreamID as an open bound")
			minM := p.Method("index", "Reader", "MinStreamID")
			maxM := p.Method("index", "Reader", "MaxStreamID")
			if minM == nil || maxM == nil {
				p.anchorFail("index.Reader.MinStreamID / MaxStreamID")
				return
			}
			n := 0
			for _, f := range p.FnList {
				if f.Body() == nil {
					continue
				}
				finfo := f.Pkg.TypesInfo
				var kind func(e ast.Expr) string
				kind = func(e ast.Expr) string {
					// a local that holds a bound: lo, hi := r.MinStreamID(), r.MaxStreamID()
					if o := identObj(finfo, e); o != nil {
						found := ""
						nDef := 0
						ast.Inspect(f.Root().Body(), func(y ast.Node) bool {
							if as, ok := y.(*ast.AssignStmt); ok && len(as.Lhs) == len(as.Rhs) {
								for i, l := range as.Lhs {
									if identObj(finfo, l) == o {
										nDef++
										if _, isCall := ast.Unparen(as.Rhs[i]).(*ast.CallExpr); isCall {
											found = kind(as.Rhs[i])
										}
									}
								}
							}
							return true
						})
						if nDef == 1 {
							return found
						}
						return ""
					}
					c, ok := ast.Unparen(e).(*ast.CallExpr)
					if !ok {
						return ""
					}
					switch p.Callee(f.Pkg, c) {
					case minM:
						return "min"
					case maxM:
						return "max"
					}
					return ""
				}
				inspectShallow(f.Body(), func(x ast.Node) bool {
					be, ok := x.(*ast.BinaryExpr)
					if !ok {
						return true
					}
					switch be.Op {
					case token.LSS, token.LEQ, token.GTR, token.GEQ:
					default:
						return true
					}
					l, rr := kind(be.X), kind(be.Y)
					if l == "" && rr == "" {
						return true
					}
					n++
					bad := false
					switch {
					case rr == "max" && be.Op == token.GEQ, l == "max" && be.Op == token.LEQ:
						bad = true
					case rr == "min" && be.Op == token.LEQ, l == "min" && be.Op == token.GEQ:
						bad = true
					}
					key := fmt.Sprintf("%s compares with a stream id bound@%s", f.Key(), relLine(p, f, be))
					r.Check(!bad, rule, key, p.Pos(be), "equality with the bound stays inside the range", "the comparison "+types.ExprString(be)+" puts the bound itself outside the range: MinStreamID and MaxStreamID are ids the index contains — a stream whose id equals the highest id of a younger index is not recognised as superseded and is returned twice")
					return true
				})
			}
			r.Floor(rule, 1, n)
		})

	register("C11",
		"C11-q (typed AST): a function of package manager that tests features.MainFeatures against FeatureFilterTags also tests features.SubQueryFeatures against it, and one that reads features.MainTags also reads features.SubQueryTags: references from a sub-query are references. A reference walk that expands a tag only when its main query filters on tags does not follow `@s:tag:a`; a cycle through such an edge is accepted and the propagation of uncertainty never terminates.",
		func(p *Prog, r *Res) {
			const rule = "C11-q main-and-subquery-references-alike"
			r.Rule(rule + ": MainFeatures/MainTags are never consulted without their sub-query counterparts")
			n := 0
			for _, f := range p.FnList {
				if f.Short != "manager" || f.Lit != nil || f.Body() == nil {
					continue
				}
				info := f.Pkg.TypesInfo
				mainTagsBit, subTagsBit, mainTags, subTags := false, false, false, false
				var at ast.Node
				ast.Inspect(f.Body(), func(x ast.Node) bool {
					switch s := x.(type) {
					case *ast.BinaryExpr:
						if s.Op != token.AND {
							return true
						}
						var fld, cst ast.Expr = s.X, s.Y
						for i := 0; i < 2; i++ {
							if se, ok := ast.Unparen(fld).(*ast.SelectorExpr); ok {
								if ce, ok := ast.Unparen(cst).(*ast.SelectorExpr); ok && ce.Sel.Name == "FeatureFilterTags" {
									if _, isConst := info.Uses[ce.Sel].(*types.Const); isConst {
										switch se.Sel.Name {
										case "MainFeatures":
											mainTagsBit = true
											if at == nil {
												at = s
											}
										case "SubQueryFeatures":
											subTagsBit = true
										}
									}
								}
							}
							fld, cst = cst, fld
						}
					case *ast.SelectorExpr:
						switch s.Sel.Name {
						case "MainTags":
							mainTags = true
							if at == nil {
								at = s
							}
						case "SubQueryTags":
							subTags = true
						}
					}
					return true
				})
				if !mainTagsBit && !mainTags {
					continue
				}
				n++
				ok := (!mainTagsBit || subTagsBit) && (!mainTags || subTags)
				r.Check(ok, rule, f.Key()+" consults the tag references of a main query", p.Pos(at), "the sub-query side is consulted too", "the function looks at the tag references of the main query only: a tag that references another from a sub-query (`@s:tag:a`) is treated as if it referenced nothing — a reference cycle through it is not seen and the manager hangs, its referenced tag can be deleted or renamed under it")
			}
			r.Floor(rule, 1, n)
		})

	register("C12",
		"C12-t (typed AST): in package manager the list of state file names — the result of tools.ListFiles(…, \"state.json\") — is assigned once: it is not re-sliced or replaced before it is ranged over. saveState creates the new file before it removes the old one; after a kill in between the newest file is empty or half written, and the start must fall back to the older, complete one. Cutting the list to its newest element loses every tag, the configuration, the webhooks and the endpoints, and the next save makes the loss permanent.",
		func(p *Prog, r *Res) {
			const rule = "C12-t every-state-file-is-a-candidate"
			r.Rule(rule + ": the list of state files is ranged over as ListFiles returned it")
			n := 0
			for _, f := range p.FnList {
				if f.Short != "manager" || f.Lit != nil || f.Body() == nil {
					continue
				}
				info := f.Pkg.TypesInfo
				inspectShallow(f.Body(), func(x ast.Node) bool {
					as, ok := x.(*ast.AssignStmt)
					if !ok || len(as.Rhs) != 1 || len(as.Lhs) < 1 {
						return true
					}
					c, ok := ast.Unparen(as.Rhs[0]).(*ast.CallExpr)
					if !ok || len(c.Args) != 2 {
						return true
					}
					fn := p.Callee(f.Pkg, c)
					if fn == nil || fn.Name() != "ListFiles" {
						return true
					}
					if tv, ok := info.Types[c.Args[1]]; !ok || tv.Value == nil || tv.Value.String() != `"state.json"` {
						return true
					}
					v := identObj(info, as.Lhs[0])
					if v == nil {
						return true
					}
					n++
					extra := 0
					var at ast.Node = as
					ast.Inspect(f.Body(), func(y ast.Node) bool {
						if a2, ok := y.(*ast.AssignStmt); ok && a2 != as {
							for _, l := range a2.Lhs {
								if identObj(info, l) == v {
									extra++
									at = a2
								}
							}
						}
						return true
					})
					ranged := false
					ast.Inspect(f.Body(), func(y ast.Node) bool {
						if rs, ok := y.(*ast.RangeStmt); ok && identObj(info, rs.X) == v {
							ranged = true
						}
						return true
					})
					r.Check(extra == 0 && ranged, rule, f.Key()+" loads the state files", p.Pos(at), "ranged over as listed", "the list of state files is changed before it is used (or not ranged over at all): after a kill inside saveState the newest file is empty or half written, and the older complete file — the only copy of the tags, the configuration, webhooks and endpoints — must still be tried")
					return true
				})
			}
			r.Floor(rule, 1, n)
		})
}
