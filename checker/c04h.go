package main

// c04h.go: C04-h an optional capture group is tested before its position is used.
//
// FindSubmatchIndex returns −1, −1 for a capture group that did not take part in the match ((?P<x>a)?b on "b").
// Positions 0 and 1 (the whole match) are never negative when the result is non-nil; every other position that is
// used as a bound of a slice expression, or as an index, has to be tested against 0 / −1 first. FLOW with edge
// facts: the use is reachable only over an edge that establishes res[i] >= 0 for the same index expression.

import (
	"fmt"
	"go/ast"
	"go/constant"
	"go/token"
	"go/types"
	"strings"

	"golang.org/x/tools/go/cfg"
)

func init() {
	register("C04",
		"C04-h (FLOW): in package index, where an element res[i] of a FindSubmatchIndex-style result is used as a bound of a slice expression and i is not the constant 0 or 1, the use is reachable only over an edge that establishes res[i] >= 0 (true edge of `res[i] >= 0` / `> -1` / `!= -1`, false edge of `res[i] < 0` / `== -1`): a capture group that does not take part in a match has position −1, and `buf[res[i]:res[i+1]]` panics in the middle of a search.",
		func(p *Prog, r *Res) {
			const rule = "C04-h optional-capture-guarded"
			r.Rule(rule + ": positions of capture groups are tested for −1 before they bound a slice")
			n := 0
			for _, f := range p.FnList {
				if f.Short != "index" || f.Body() == nil {
					continue
				}
				info := f.Pkg.TypesInfo
				// variables holding submatch index results
				results := map[types.Object]bool{}
				ast.Inspect(f.Root().Body(), func(x ast.Node) bool {
					as, ok := x.(*ast.AssignStmt)
					if !ok || len(as.Rhs) != 1 {
						return true
					}
					c, ok := ast.Unparen(as.Rhs[0]).(*ast.CallExpr)
					if !ok {
						return true
					}
					fn := p.Callee(f.Pkg, c)
					if fn == nil {
						// a call of a local helper that returns such a result: p.find(...)
						return true
					}
					if strings.Contains(fn.Name(), "SubmatchIndex") {
						if o := identObj(info, as.Lhs[0]); o != nil {
							results[o] = true
						}
					}
					// package helpers whose body returns a SubmatchIndex result
					if h := p.FnOfObj(fn); h != nil && h.Body() != nil && h.Pkg == f.Pkg {
						ret := false
						hinfo := h.Pkg.TypesInfo
						hres := map[types.Object]bool{}
						ast.Inspect(h.Body(), func(y ast.Node) bool {
							if a2, ok := y.(*ast.AssignStmt); ok && len(a2.Rhs) == 1 {
								if c2, ok := ast.Unparen(a2.Rhs[0]).(*ast.CallExpr); ok {
									if f2 := p.Callee(h.Pkg, c2); f2 != nil && strings.Contains(f2.Name(), "SubmatchIndex") {
										if o := identObj(hinfo, a2.Lhs[0]); o != nil {
											hres[o] = true
										}
									}
								}
							}
							if rt, ok := y.(*ast.ReturnStmt); ok {
								for _, e := range rt.Results {
									if o := identObj(hinfo, e); o != nil && hres[o] {
										ret = true
									}
									if c2, ok := ast.Unparen(e).(*ast.CallExpr); ok {
										if f2 := p.Callee(h.Pkg, c2); f2 != nil && strings.Contains(f2.Name(), "SubmatchIndex") {
											ret = true
										}
									}
								}
							}
							return true
						})
						if ret {
							if o := identObj(info, as.Lhs[0]); o != nil {
								if sl, ok := o.Type().Underlying().(*types.Slice); ok {
									if b, ok := sl.Elem().Underlying().(*types.Basic); ok && b.Kind() == types.Int {
										results[o] = true
									}
								}
							}
						}
					}
					return true
				})
				if len(results) == 0 {
					continue
				}
				fl := p.Flow(f)
				inspectShallow(f.Body(), func(x ast.Node) bool {
					sl, ok := x.(*ast.SliceExpr)
					if !ok {
						return true
					}
					for _, bnd := range []ast.Expr{sl.Low, sl.High} {
						if bnd == nil {
							continue
						}
						ix, ok := ast.Unparen(bnd).(*ast.IndexExpr)
						if !ok || !results[identObj(info, ix.X)] {
							continue
						}
						if tv, ok := info.Types[ix.Index]; ok && tv.Value != nil && tv.Value.Kind() == constant.Int {
							if v, _ := constant.Int64Val(tv.Value); v == 0 || v == 1 {
								continue // the whole match
							}
						}
						n++
						key := fmt.Sprintf("%s %s as slice bound@%s", f.Key(), exprString(p.Fset, ix), relLine(p, f, sl))
						// an index expression i+1 is covered by a test of res[i] (a group's two positions are −1 together)
						base := ix.Index
						if be, ok := ast.Unparen(ix.Index).(*ast.BinaryExpr); ok && be.Op == token.ADD {
							if bl, ok := ast.Unparen(be.Y).(*ast.BasicLit); ok && bl.Value == "1" {
								base = be.X
							}
						}
						want := []string{exprString(p.Fset, ix.X) + "[" + exprString(p.Fset, ast.Unparen(ix.Index)) + "]", exprString(p.Fset, ix.X) + "[" + exprString(p.Fset, ast.Unparen(base)) + "]"}
						isIt := func(e ast.Expr) bool {
							s := exprString(p.Fset, ast.Unparen(e))
							return s == want[0] || s == want[1]
						}
						constOf := func(e ast.Expr) (int64, bool) {
							if tv, ok := info.Types[e]; ok && tv.Value != nil && tv.Value.Kind() == constant.Int {
								v, ok := constant.Int64Val(tv.Value)
								return v, ok
							}
							return 0, false
						}
						establishes := func(c ast.Expr, trueEdge bool) bool {
							be, ok := ast.Unparen(c).(*ast.BinaryExpr)
							if !ok {
								return false
							}
							op := be.Op
							var other ast.Expr
							switch {
							case isIt(be.X):
								other = be.Y
							case isIt(be.Y):
								other = be.X
								switch op {
								case token.LSS:
									op = token.GTR
								case token.GTR:
									op = token.LSS
								case token.LEQ:
									op = token.GEQ
								case token.GEQ:
									op = token.LEQ
								}
							default:
								return false
							}
							v, ok := constOf(other)
							if !ok {
								return false
							}
							if trueEdge {
								return (op == token.GEQ && v >= 0) || (op == token.GTR && v >= -1) || (op == token.NEQ && v == -1)
							}
							return (op == token.LSS && v <= 0) || (op == token.LEQ && v <= -1) || (op == token.EQL && v == -1)
						}
						fl.EdgeOK = func(b *cfg.Block, succ int) bool {
							if len(b.Succs) != 2 || len(b.Nodes) == 0 {
								return true
							}
							cond, ok := b.Nodes[len(b.Nodes)-1].(ast.Expr)
							if !ok {
								return true
							}
							if succ == 0 {
								for _, c := range conjuncts(cond) {
									if establishes(c, true) {
										return false
									}
								}
							} else {
								for _, c := range disjuncts(cond) {
									if establishes(c, false) {
										return false
									}
								}
							}
							return true
						}
						pt, okp := fl.PointOf(sl)
						if !okp {
							fl.EdgeOK = nil
							r.Undecided(rule, key, p.Pos(sl), "slice expression not found in the CFG")
							continue
						}
						target := fl.node(pt)
						res := fl.Reach([]Pt{fl.Entry()}, func(nd ast.Node) bool { return nd == target }, nil)
						fl.EdgeOK = nil
						r.Check(!res.Found, rule, key, p.Pos(sl), "reached only where the position is known to be >= 0", "the position of a capture group bounds a slice on a path on which it was not tested for −1 ("+fl.traceString(res)+"): a group that does not take part in the match (an optional group) makes the search panic with 'slice bounds out of range'")
					}
					return true
				})
			}
			r.Floor(rule, 1, n)
		})
}
