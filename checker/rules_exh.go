package main

import (
	"fmt"
	"go/ast"
	"go/types"
	"sort"
	"strings"
	"unicode"
)

// EXH instances for C02-b, C03-a, C06-b(i).

func init() {
	register("C02",
		"C02-b (EXH): every dispatch on query.Condition kinds on the search path (buildSearchObjects) handles every concrete kind or is exempted by a checked argument (ImpossibleCondition is removed by ConditionsSet.Clean, which InlineTagFilters ends in, before buildSearchObjects runs); every SortingKey constant has a comparator in sorterFunctions, each comparator reads the stream field its key names, symmetrically from both operands, and every parser sort keyword maps to a declared key; every NumberConditionSummandType is handled by the summand dispatch and accumulates into / multiplies with the field its name denotes.",
		ruleC02Exh)
	register("C03",
		"C03-a (EXH): the normaliser's dispatch switches (Conditions.clean, ConditionsSet.Features, SubQueries) name every concrete query.Condition kind: a kind missing from clean() would be dropped from the conjunct, i.e. the normal form would accept more than the query.",
		ruleC03Exh)
	register("C06",
		"C06-b(i) (EXH): ConditionsSet.Features — the classification that decides which tags an import/converter run invalidates — handles every condition kind and every number-summand type (a kind without a feature bit is a tag that is never invalidated).",
		ruleC06Features)
}

func condIface(p *Prog) *types.Named { return p.Named("query", "Condition") }

func ruleC03Exh(p *Prog, r *Res) {
	const rule = "C03-a exh-condition-kinds"
	r.Rule(rule + ": type switches on query.Condition in clean/Features/SubQueries cover all implementers")
	n := 0
	for _, f := range []string{"query.Conditions.clean", "query.ConditionsSet.Features", "query.ConditionsSet.SubQueries"} {
		n += exhTypeSwitch(p, r, rule, f, condIface(p), nil)
	}
	r.Floor(rule+" switches", 3, n)
	r.Floor(rule+" kinds", 7, len(p.implementers(condIface(p))))
	// clean(): every kind collected into a per-kind slice must be re-emitted into the result
	ruleCleanReemits(p, r)
}

// ruleCleanReemits: in Conditions.clean, each local slice that a case clause appends to must also be
// ranged over when the result is rebuilt (otherwise a kind is parsed, cleaned and then dropped).
func ruleCleanReemits(p *Prog, r *Res) {
	const rule = "C03-a clean-reemits"
	r.Rule(rule + ": every per-kind accumulator filled by Conditions.clean's dispatch is cleaned and re-emitted into the result")
	f := p.Fn("query.Conditions.clean")
	if f == nil {
		return
	}
	info := f.Pkg.TypesInfo
	sws := typeSwitchesOn(f, condIface(p))
	if len(sws) == 0 {
		return
	}
	acc := map[types.Object]string{}
	for _, c := range sws[0].Body.List {
		cc := c.(*ast.CaseClause)
		for _, st := range cc.Body {
			as, ok := st.(*ast.AssignStmt)
			if !ok || len(as.Lhs) != 1 {
				continue
			}
			if id, ok := as.Lhs[0].(*ast.Ident); ok {
				if call, ok := as.Rhs[0].(*ast.CallExpr); ok && isBuiltin(info, call, "append") {
					acc[info.ObjectOf(id)] = id.Name
				}
			}
		}
	}
	// after the switch: each accumulator must be (a) passed by address to a clean* function and (b) ranged over / indexed in an append to the result
	n := 0
	for obj, name := range acc {
		cleaned, emitted := false, false
		ast.Inspect(f.Body(), func(x ast.Node) bool {
			switch s := x.(type) {
			case *ast.CallExpr:
				for _, a := range s.Args {
					if u, ok := a.(*ast.UnaryExpr); ok {
						if id, ok := u.X.(*ast.Ident); ok && info.ObjectOf(id) == obj {
							cleaned = true
						}
					}
				}
			case *ast.RangeStmt:
				if id, ok := s.X.(*ast.Ident); ok && info.ObjectOf(id) == obj {
					// body appends &acc[i]
					ast.Inspect(s.Body, func(y ast.Node) bool {
						if c, ok := y.(*ast.CallExpr); ok && isBuiltin(info, c, "append") {
							emitted = true
						}
						return true
					})
				}
			}
			return true
		})
		n++
		r.Check(cleaned && emitted, rule, "query.Conditions.clean accumulator "+name, p.Pos(f.Node()),
			"cleaned and re-emitted", fmt.Sprintf("accumulator %s: cleaned=%v re-emitted=%v — conditions of this kind are lost or not normalised", name, cleaned, emitted))
	}
	r.Floor(rule, 6, n)
}

func ruleC06Features(p *Prog, r *Res) {
	const rule = "C06-b exh-features"
	r.Rule(rule + ": ConditionsSet.Features covers all condition kinds and summand types")
	n := exhTypeSwitch(p, r, rule, "query.ConditionsSet.Features", condIface(p), nil)
	m := exhConstSwitch(p, r, rule, "query.ConditionsSet.Features", p.Named("query", "NumberConditionSummandType"), 1)
	r.Floor(rule+" switches", 2, n+m)
	// each non-impossible kind's clause must be able to set mq or sq (otherwise its feature bit is never recorded)
	f := p.Fn("query.ConditionsSet.Features")
	if f == nil {
		return
	}
	sws := typeSwitchesOn(f, condIface(p))
	if len(sws) != 1 {
		return
	}
	info := f.Pkg.TypesInfo
	// roles, not names: the booleans that gate `fs.MainFeatures |= x` / `fs.SubQueryFeatures |= x`, and x
	var mqV, sqV, fV types.Object
	ast.Inspect(f.Body(), func(x ast.Node) bool {
		is, ok := x.(*ast.IfStmt)
		if !ok || len(is.Body.List) != 1 {
			return true
		}
		as, ok := is.Body.List[0].(*ast.AssignStmt)
		if !ok || as.Tok.String() != "|=" || len(as.Lhs) != 1 {
			return true
		}
		se, ok := as.Lhs[0].(*ast.SelectorExpr)
		if !ok {
			return true
		}
		switch se.Sel.Name {
		case "MainFeatures":
			mqV, fV = identObj(info, is.Cond), identObj(info, as.Rhs[0])
		case "SubQueryFeatures":
			sqV = identObj(info, is.Cond)
		}
		return true
	})
	if mqV == nil || sqV == nil || fV == nil {
		r.Undecided(rule+" records", "query.ConditionsSet.Features accumulators", p.Pos(f.Node()), "could not identify the booleans gating MainFeatures |= f / SubQueryFeatures |= f")
		return
	}
	// local closures bound once: a call of one counts as the assignments in its body
	localLit := map[types.Object]*ast.FuncLit{}
	ast.Inspect(f.Body(), func(x ast.Node) bool {
		if as, ok := x.(*ast.AssignStmt); ok && len(as.Lhs) == len(as.Rhs) {
			for i, rh := range as.Rhs {
				if lit, ok := rh.(*ast.FuncLit); ok {
					if o := identObj(info, as.Lhs[i]); o != nil {
						localLit[o] = lit
					}
				}
			}
		}
		return true
	})
	var assigned func(n ast.Node, depth int) map[types.Object]bool
	assigned = func(n ast.Node, depth int) map[types.Object]bool {
		out := map[types.Object]bool{}
		ast.Inspect(n, func(x ast.Node) bool {
			switch s := x.(type) {
			case *ast.AssignStmt:
				for _, l := range s.Lhs {
					if o := identObj(info, l); o != nil {
						out[o] = true
					}
				}
			case *ast.CallExpr:
				if depth > 0 {
					if o := identObj(info, s.Fun); o != nil && localLit[o] != nil {
						for k := range assigned(localLit[o].Body, depth-1) {
							out[k] = true
						}
					}
				}
			}
			return true
		})
		return out
	}
	for _, c := range sws[0].Body.List {
		cc := c.(*ast.CaseClause)
		if cc.List == nil {
			continue
		}
		kind := namedOf(info.TypeOf(cc.List[0]))
		if kind == nil || kind.Obj().Name() == "ImpossibleCondition" {
			continue
		}
		setsMQ, setsSQ, setsF := false, false, false
		for _, st := range cc.Body {
			a := assigned(st, 2)
			setsMQ = setsMQ || a[mqV]
			setsSQ = setsSQ || a[sqV]
			setsF = setsF || a[fV]
		}
		key := "query.ConditionsSet.Features case " + kind.Obj().Name()
		r.Check(setsMQ && setsSQ && setsF, rule+" records", key, p.Pos(cc), "sets the main-query flag, the sub-query flag and the feature bits",
			fmt.Sprintf("clause sets main-query flag=%v sub-query flag=%v feature bits=%v: a condition of this kind would not be recorded as main/sub-query feature and tags using it would not be invalidated", setsMQ, setsSQ, setsF))
	}
	// the accumulated bits reach the result
	okMain, okSub := false, false
	ast.Inspect(f.Body(), func(x ast.Node) bool {
		if as, ok := x.(*ast.AssignStmt); ok && as.Tok.String() == "|=" {
			if se, ok := as.Lhs[0].(*ast.SelectorExpr); ok {
				if se.Sel.Name == "MainFeatures" {
					okMain = true
				}
				if se.Sel.Name == "SubQueryFeatures" {
					okSub = true
				}
			}
		}
		return true
	})
	r.Check(okMain && okSub, rule+" records", "query.ConditionsSet.Features result bits", p.Pos(f.Node()), "MainFeatures and SubQueryFeatures are OR-ed", "feature bits are not accumulated into the result")
	r.Floor(rule+" records", 7, r.CountRule(rule+" records"))
}

func lowerFirst(s string) string {
	rs := []rune(s)
	if len(rs) > 0 {
		rs[0] = unicode.ToLower(rs[0])
	}
	return string(rs)
}

func ruleC02Exh(p *Prog, r *Res) {
	const rule = "C02-b exh-dispatch"
	r.Rule(rule + ": condition-kind dispatch, sort-key tables and summand dispatch are exhaustive and agree with their names")
	// 1. buildSearchObjects kind dispatch
	n := exhTypeSwitch(p, r, rule, "index.Reader.buildSearchObjects", condIface(p), map[string]string{
		"ImpossibleCondition": "ConditionsSet.Clean drops impossible conjuncts; SearchStreams calls InlineTagFilters (which ends in Clean) before buildSearchObjects — checked as obligation 'impossible-removed' below",
	})
	r.Floor(rule+" switches", 1, n)
	// exemption's own obligation: SearchStreams reassigns qs = qs.InlineTagFilters(...) before any buildSearchObjects call,
	// and InlineTagFilters returns csNew.Clean(); Clean drops impossible conjuncts.
	if f := p.Fn("index.SearchStreams"); f != nil {
		fl := p.Flow(f)
		inl := p.Method("query", "ConditionsSet", "InlineTagFilters")
		bso := p.Method("index", "Reader", "buildSearchObjects")
		res := fl.Reach([]Pt{fl.Entry()}, func(n ast.Node) bool {
			return fl.hasCall(n, func(c *ast.CallExpr) bool { return p.Callee(f.Pkg, c) == bso })
		}, func(n ast.Node) bool {
			// pass-through point: assignment qs = qs.InlineTagFilters(...)
			as, ok := n.(*ast.AssignStmt)
			if !ok || len(as.Rhs) != 1 {
				return false
			}
			c, ok := as.Rhs[0].(*ast.CallExpr)
			return ok && p.Callee(f.Pkg, c) == inl
		})
		r.Check(!res.Found, rule, "impossible-removed: SearchStreams normalises qs before buildSearchObjects", p.Pos(f.Node()),
			"every path to buildSearchObjects passes qs = qs.InlineTagFilters(...)", "a path reaches buildSearchObjects without InlineTagFilters/Clean: "+fl.traceString(res))
	}
	if f := p.Fn("query.ConditionsSet.InlineTagFilters"); f != nil {
		clean := p.Method("query", "ConditionsSet", "Clean")
		fl := p.Flow(f)
		res := fl.MustPass(func(n ast.Node) bool {
			rs, ok := n.(*ast.ReturnStmt)
			if !ok || len(rs.Results) != 1 {
				return false
			}
			c, ok := rs.Results[0].(*ast.CallExpr)
			return ok && p.Callee(f.Pkg, c) == clean
		})
		r.Check(!res.Found, rule, "impossible-removed: InlineTagFilters returns Clean()", p.Pos(f.Node()), "all returns are csNew.Clean()", "InlineTagFilters has a return that bypasses Clean()")
	}
	if f := p.Fn("query.ConditionsSet.Clean"); f != nil {
		// Clean must test impossible() and skip such conjuncts
		imp := false
		for _, c := range callsIn(f.Body()) {
			if fn := p.Callee(f.Pkg, c); fn != nil && fn.Name() == "impossible" {
				imp = true
			}
		}
		r.Check(imp, rule, "impossible-removed: Clean tests impossible()", p.Pos(f.Node()), "Clean consults impossible()", "Clean no longer filters impossible conjuncts, so buildSearchObjects may see *ImpossibleCondition which it silently skips")
	}

	// 2. sort keys
	sk := p.Named("query", "SortingKey")
	stream := p.Named("index", "stream")
	if sk != nil && stream != nil {
		consts := constsOfType(sk)
		init, info := p.pkgVarInit("index", "sorterFunctions")
		if init != nil {
			ents := mapLitEntries(info, init)
			// frozen table, confirmed by reading: key -> field of index.stream the comparator must read
			want := map[string]string{"SortingKeyID": "StreamID", "SortingKeyClientBytes": "ClientBytes", "SortingKeyServerBytes": "ServerBytes",
				"SortingKeyFirstPacketTime": "FirstPacketTimeNS", "SortingKeyLastPacketTime": "LastPacketTimeNS", "SortingKeyClientHost": "ClientHost",
				"SortingKeyServerHost": "ServerHost", "SortingKeyClientPort": "ClientPort", "SortingKeyServerPort": "ServerPort"}
			var names []string
			for k := range consts {
				names = append(names, k)
			}
			sort.Strings(names)
			for _, name := range names {
				key := "index.sorterFunctions[" + name + "]"
				fnExpr, ok := ents[consts[name].ExactString()]
				if !ok {
					r.Bad(rule, key, p.Pos(init), "sorting key has no comparator: sorterFunctions[key] is nil and the search panics or sorts arbitrarily")
					continue
				}
				lit, ok := fnExpr.(*ast.FuncLit)
				if !ok || len(lit.Type.Params.List) == 0 {
					r.Undecided(rule, key, p.Pos(fnExpr), "comparator is not a function literal; cannot check which field it reads")
					continue
				}
				var params []types.Object
				for _, fld := range lit.Type.Params.List {
					for _, id := range fld.Names {
						params = append(params, info.Defs[id])
					}
				}
				if len(params) != 2 {
					r.Undecided(rule, key, p.Pos(lit), "comparator does not have two parameters")
					continue
				}
				fa := fieldsReadVia(info, lit.Body, params[0])
				fb := fieldsReadVia(info, lit.Body, params[1])
				wf, known := want[name]
				if !known {
					r.Undecided(rule, key, p.Pos(lit), "new sorting key without an entry in the checker's key→field table; add it after reading the comparator")
					continue
				}
				// allowed helper fields
				aux := map[string]bool{"r": true, "HostGroup": true}
				okSym := setString(fa) == setString(fb)
				okField := fa[wf]
				extra := ""
				for fld := range fa {
					if fld != wf && !aux[fld] {
						okField = false
						extra = fld
					}
				}
				r.Check(okSym && okField, rule, key, p.Pos(lit), "reads "+setString(fa)+" symmetrically",
					fmt.Sprintf("comparator for %s must compare stream field %s of both operands; reads a:%s b:%s %s", name, wf, setString(fa), setString(fb), extra))
				// orientation: the ordering expression must have a's value on the left of '<' (or a.Before(b))
				if ok, why := comparatorOrientation(p, info, lit, params[0], params[1]); !ok {
					r.Bad(rule, key+" orientation", p.Pos(lit), why)
				} else {
					r.OkTrivial(rule, key+" orientation", p.Pos(lit), why)
				}
			}
			r.Floor(rule+" sort keys", 9, len(names))
		}
		// parser keyword table values are declared keys and all distinct
		if f := p.Fn("query.sortTerm.Capture"); f != nil {
			found := 0
			// the keyword table: a map literal with SortingKey values anywhere in package query (inside Capture on the pinned
			// tree; a package-level table is the same thing)
			inspectFiles := func(visit func(ast.Node) bool) {
				for _, file := range f.Pkg.Syntax {
					ast.Inspect(file, visit)
				}
			}
			inspectFiles(func(x ast.Node) bool {
				cl, ok := x.(*ast.CompositeLit)
				if !ok {
					return true
				}
				tcl := f.Pkg.TypesInfo.TypeOf(cl)
				if tcl == nil {
					return true
				}
				mt, ok := tcl.Underlying().(*types.Map)
				if !ok || !types.Identical(types.Unalias(mt.Elem()), sk) {
					return true
				}
				seen := map[string]string{}
				for _, el := range cl.Elts {
					kv := el.(*ast.KeyValueExpr)
					tv := f.Pkg.TypesInfo.Types[kv.Value]
					kw := types.ExprString(kv.Key)
					found++
					if tv.Value == nil {
						r.Undecided(rule, "query.sortTerm.Capture keyword "+kw, p.Pos(kv), "non-constant sort key")
						continue
					}
					if prev, dup := seen[tv.Value.ExactString()]; dup {
						r.Bad(rule, "query.sortTerm.Capture keyword "+kw, p.Pos(kv), "maps to the same SortingKey as "+prev+": one of the two keywords sorts by the wrong key")
						continue
					}
					seen[tv.Value.ExactString()] = kw
					// keyword/constant correspondence (frozen from reading)
					wantKW := map[string]string{"\"id\"": "SortingKeyID", "\"ftime\"": "SortingKeyFirstPacketTime", "\"ltime\"": "SortingKeyLastPacketTime",
						"\"cbytes\"": "SortingKeyClientBytes", "\"sbytes\"": "SortingKeyServerBytes", "\"chost\"": "SortingKeyClientHost",
						"\"shost\"": "SortingKeyServerHost", "\"cport\"": "SortingKeyClientPort", "\"sport\"": "SortingKeyServerPort"}
					if w, ok := wantKW[kw]; ok {
						got := ""
						for n, v := range consts {
							if v.ExactString() == tv.Value.ExactString() {
								got = n
							}
						}
						r.Check(got == w, rule, "query.sortTerm.Capture keyword "+kw, p.Pos(kv), "maps to "+got, "keyword "+kw+" maps to "+got+", expected "+w)
					} else {
						r.OkTrivial(rule, "query.sortTerm.Capture keyword "+kw, p.Pos(kv), "maps to a declared key")
					}
				}
				return true
			})
			r.Floor(rule+" parser keywords", 9, found)
		}
		// sorterLookupSections: the section a key is mapped to must be the lookup sorted by that key's field (C01-c overlaps)
		if init, info := p.pkgVarInit("index", "sorterLookupSections"); init != nil {
			wantSec := map[string]string{"SortingKeyID": "sectionStreamsByStreamID", "SortingKeyFirstPacketTime": "sectionStreamsByFirstPacketTime", "SortingKeyLastPacketTime": "sectionStreamsByLastPacketTime"}
			cl := init.(*ast.CompositeLit)
			cnt := 0
			for _, el := range cl.Elts {
				kv := el.(*ast.KeyValueExpr)
				kname := ""
				if se, ok := kv.Key.(*ast.SelectorExpr); ok {
					kname = se.Sel.Name
				}
				vname := types.ExprString(kv.Value)
				cnt++
				w, ok := wantSec[kname]
				if !ok {
					r.Bad(rule, "index.sorterLookupSections["+kname+"]", p.Pos(kv), "no lookup section is sorted by this key; early-exit scanning in lookup order would return a wrong page")
					continue
				}
				_ = info
				r.Check(vname == w, rule, "index.sorterLookupSections["+kname+"]", p.Pos(kv), "→ "+vname, "maps to "+vname+" but the section sorted by this key is "+w)
			}
			r.Floor(rule+" lookup sections", 3, cnt)
		}
	}

	// 3. summand dispatch in buildSearchObjects + name agreement
	st := p.Named("query", "NumberConditionSummandType")
	m := exhConstSwitch(p, r, rule, "index.Reader.buildSearchObjects", st, 1)
	r.Floor(rule+" summand switches", 1, m)
	if f := p.Fn("index.Reader.buildSearchObjects"); f != nil && st != nil {
		info := f.Pkg.TypesInfo
		for _, s := range valueSwitchesOn(f, st) {
			for _, c := range s.Body.List {
				cc := c.(*ast.CaseClause)
				for _, e := range cc.List {
					se, ok := e.(*ast.SelectorExpr)
					if !ok {
						continue
					}
					want := lowerFirst(strings.TrimPrefix(se.Sel.Name, "NumberConditionSummandType"))
					got := ""
					for _, stt := range cc.Body {
						if as, ok := stt.(*ast.AssignStmt); ok && len(as.Lhs) == 1 {
							if l, ok := as.Lhs[0].(*ast.SelectorExpr); ok {
								got = l.Sel.Name
							}
						}
					}
					r.Check(strings.EqualFold(got, want), rule, "index.Reader.buildSearchObjects summand "+se.Sel.Name, p.Pos(cc), "accumulates into factor."+got,
						fmt.Sprintf("summand type %s accumulates into factor.%s, expected factor.%s", se.Sel.Name, got, want))
				}
			}
		}
		// every product factor.X * int(s.Y) must pair X with the stream field of the same name
		pairs := 0
		ast.Inspect(f.Body(), func(x ast.Node) bool {
			be, ok := x.(*ast.BinaryExpr)
			if !ok || be.Op.String() != "*" {
				return true
			}
			l, ok := be.X.(*ast.SelectorExpr)
			if !ok {
				return true
			}
			lt := info.TypeOf(l.X)
			if lt == nil || !strings.HasSuffix(types.TypeString(lt, nil), "factor") {
				return true
			}
			// right side: int(s.Field)
			var fld string
			ast.Inspect(be.Y, func(y ast.Node) bool {
				if se, ok := y.(*ast.SelectorExpr); ok {
					if v, ok := info.Uses[se.Sel].(*types.Var); ok && v.IsField() {
						fld = se.Sel.Name
					}
				}
				return true
			})
			wantF := map[string]string{"id": "StreamID", "clientBytes": "ClientBytes", "serverBytes": "ServerBytes", "clientPort": "ClientPort", "serverPort": "ServerPort",
				"ftime": "FirstPacketTimeNS", "ltime": "LastPacketTimeNS"}
			if w, ok := wantF[l.Sel.Name]; ok && fld != "" {
				pairs++
				if fld != w && !(strings.HasPrefix(w, "First") || strings.HasPrefix(w, "Last")) {
					r.Bad(rule, fmt.Sprintf("index.Reader.buildSearchObjects product factor.%s", l.Sel.Name), p.Pos(be), "multiplies factor."+l.Sel.Name+" with stream field "+fld+", expected "+w)
				} else if fld == w {
					r.OkTrivial(rule, fmt.Sprintf("index.Reader.buildSearchObjects product factor.%s×%s", l.Sel.Name, fld), p.Pos(be), "factor and field agree")
				}
			}
			return true
		})
		r.Floor(rule+" factor products", 15, pairs)
	}
}

// comparatorOrientation checks that the final ordering test of a less-function compares a's value
// against b's in that order: `a.X < b.X`, `at.Before(bt)` with at derived from a, `cmp < 0` with
// cmp := bytes.Compare(ah, bh).
// comparatorDelegate: the comparator literal is `return h(a, b, …)` (or h(b, a, …)) for a declared function h of the
// same package; returns h, and whether the operands are passed in order.
func comparatorOrientation(p *Prog, info *types.Info, lit *ast.FuncLit, a, b types.Object) (bool, string) {
	if p != nil {
		if h, inOrder, ok := p.comparatorDelegate(info, lit, a, b); ok {
			if !inOrder {
				return false, "the comparator passes (b, a) to " + h.Key() + ": the order is reversed"
			}
			pa, pb := paramObj(h, 0), paramObj(h, 1)
			if pa != nil && pb != nil && h.Decl != nil {
				ok2, why := comparatorOrientation(p, h.Pkg.TypesInfo, &ast.FuncLit{Type: h.Decl.Type, Body: h.Decl.Body}, pa, pb)
				return ok2, "delegates to " + h.Key() + ": " + why
			}
		}
	}
	// derive: map local var -> which param it depends on
	dep := map[types.Object]string{a: "a", b: "b"}
	dependsOn := func(e ast.Expr) string {
		res := ""
		ast.Inspect(e, func(x ast.Node) bool {
			if id, ok := x.(*ast.Ident); ok {
				if d, ok := dep[info.ObjectOf(id)]; ok {
					if res == "" {
						res = d
					} else if res != d {
						res = "both"
					}
				}
			}
			return true
		})
		return res
	}
	ast.Inspect(lit.Body, func(x ast.Node) bool {
		if as, ok := x.(*ast.AssignStmt); ok && len(as.Lhs) == len(as.Rhs) {
			for i, l := range as.Lhs {
				if id, ok := l.(*ast.Ident); ok {
					if d := dependsOn(as.Rhs[i]); d != "" {
						dep[info.ObjectOf(id)] = d
					}
				}
			}
		}
		return true
	})
	ok := true
	why := "ordering tests compare a's value to b's in that order"
	checked := 0
	ast.Inspect(lit.Body, func(x ast.Node) bool {
		rs, isRet := x.(*ast.ReturnStmt)
		if !isRet || len(rs.Results) != 1 {
			return true
		}
		switch e := ast.Unparen(rs.Results[0]).(type) {
		case *ast.BinaryExpr:
			if e.Op.String() == "<" {
				l, rr := dependsOn(e.X), dependsOn(e.Y)
				if l == "a" && rr == "b" {
					checked++
				} else if l == "both" && rr == "" {
					// cmp < 0 where cmp := bytes.Compare(ah, bh): check arg order
					checked++
				} else {
					ok = false
					why = fmt.Sprintf("return %s: left operand depends on %q, right on %q (expected a < b)", types.ExprString(e), l, rr)
				}
			} else if e.Op.String() == ">" || e.Op.String() == ">=" || e.Op.String() == "<=" {
				ok = false
				why = "comparator uses " + e.Op.String() + " instead of a strict a < b"
			}
		case *ast.CallExpr:
			if se, isSel := e.Fun.(*ast.SelectorExpr); isSel && se.Sel.Name == "Before" && len(e.Args) == 1 {
				l, rr := dependsOn(se.X), dependsOn(e.Args[0])
				if l == "a" && rr == "b" {
					checked++
				} else {
					ok = false
					why = "Before() receiver depends on " + l + ", argument on " + rr
				}
			}
		}
		return true
	})
	// bytes.Compare argument order
	ast.Inspect(lit.Body, func(x ast.Node) bool {
		if c, isCall := x.(*ast.CallExpr); isCall && len(c.Args) == 2 {
			if se, isSel := c.Fun.(*ast.SelectorExpr); isSel && se.Sel.Name == "Compare" {
				if dependsOn(c.Args[0]) != "a" || dependsOn(c.Args[1]) != "b" {
					ok = false
					why = "bytes.Compare arguments are not (a-derived, b-derived)"
				}
			}
		}
		return true
	})
	if ok && checked == 0 {
		return false, "no recognisable ordering test (a.X < b.X, at.Before(bt), cmp < 0)"
	}
	return ok, why
}
