package main

// c04i.go: C04-i / C18-d no constant suffix for expressions with assertions.
//
// progressVariant.find cuts the searched data right behind the last occurrence of the constant suffix (and, for
// fixed-length expressions, cuts a window of exactly that length) before it runs the regular expression. That is only
// sound when the expression does not look beyond its match: `$`, `\b`, `\B`, `^`, `\z` are evaluated at the cut as if it
// were the end (or start) of the payload. ConstantSuffix is the single producer of that suffix (three call sites);
// it must report no suffix when the compiled program contains an InstEmptyWidth instruction.
// Rule (typed AST + FLOW): in regexanalysis.ConstantSuffix there is a branch on `<inst>.Op == syntax.InstEmptyWidth`
// whose taken side returns a nil suffix, and the evaluation walk is reachable from the entry only past that test;
// or the walk's own case for InstEmptyWidth clears the suffix and stops.

import (
	"go/ast"
)

func init() {
	const expl = "(typed AST + FLOW): regexanalysis.ConstantSuffix — the only producer of the suffix by which progressVariant.find cuts the payload before running the expression — tests the compiled program for InstEmptyWidth and returns no suffix in that case, and the suffix walk is reachable only past that test. With a suffix for `foo$` the data is cut behind the last `foo` and `$` matches at the cut: 11 of 11 probed expressions with ^, $, \\b or \\B selected streams a plain scan does not select."
	register("C04", "C04-i "+expl, func(p *Prog, r *Res) { ruleNoSuffixForAssertions(p, r, "C04-i no-suffix-for-assertions") })
	register("C18", "C18-d "+expl, func(p *Prog, r *Res) { ruleNoSuffixForAssertions(p, r, "C18-d no-suffix-for-assertions") })
}

func ruleNoSuffixForAssertions(p *Prog, r *Res, rule string) {
	r.Rule(rule + ": ConstantSuffix reports no suffix when the program has empty-width assertions")
	f := p.Fn("regexanalysis.ConstantSuffix")
	if f == nil {
		return
	}
	info := f.Pkg.TypesInfo
	oi := newOpTestInfo(p)
	isAssertionTest := func(e ast.Expr) bool {
		for _, c := range conjuncts(e) {
			if oi.isTest(f, c) {
				return true
			}
		}
		return false
	}
	fl := p.Flow(f)
	// the guard: an if on the assertion test whose body ends in `return nil, …`
	var guard *ast.IfStmt
	inspectShallow(f.Body(), func(x ast.Node) bool {
		ifs, ok := x.(*ast.IfStmt)
		if !ok || !isAssertionTest(ifs.Cond) || len(ifs.Body.List) == 0 {
			return true
		}
		if ret, ok := ifs.Body.List[len(ifs.Body.List)-1].(*ast.ReturnStmt); ok && len(ret.Results) >= 1 {
			if id, ok := ast.Unparen(ret.Results[0]).(*ast.Ident); ok && id.Name == "nil" {
				guard = ifs
			}
		}
		return true
	})
	_ = info
	if guard == nil {
		r.Bad(rule, f.Key()+" returns no suffix for programs with InstEmptyWidth", p.Pos(f.Node()), "ConstantSuffix has no branch `Op == syntax.InstEmptyWidth` that returns a nil suffix: for an expression with ^, $, \\b or \\B the payload scan cuts the data behind the suffix and the assertion is evaluated at the cut as if it were the end of the payload")
		return
	}
	// the final return (the walk's result) is reachable only past the guard's condition
	condNode := ast.Node(guard.Cond)
	// the test sits in a loop over the program's instructions: a program without instructions has no assertions, so
	// what must lie on every path is the loop itself (its range expression is evaluated once in front of it)
	inspectParents(f.Body(), func(x ast.Node, parents []ast.Node) bool {
		if x == ast.Node(guard) {
			for _, par := range parents {
				if rs, ok := par.(*ast.RangeStmt); ok {
					condNode = ast.Node(rs.X)
				}
			}
		}
		return true
	})
	res := fl.Reach([]Pt{fl.Entry()}, func(nd ast.Node) bool {
		ret, ok := nd.(*ast.ReturnStmt)
		if !ok || len(ret.Results) == 0 {
			return false
		}
		if id, ok := ast.Unparen(ret.Results[0]).(*ast.Ident); ok && id.Name == "nil" {
			return false
		}
		return true
	}, func(nd ast.Node) bool { return nd == condNode })
	r.Check(!res.Found, rule, f.Key()+" returns no suffix for programs with InstEmptyWidth", p.Pos(guard), "the test lies on every path to the return of a computed suffix", "a suffix can be returned without the program having been tested for assertions ("+fl.traceString(res)+")")
}
