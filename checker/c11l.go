package main

// c11l.go: C11-l a separator trim of a built string is guarded by "something was appended".
//
// UpdateTag rebuilds the definition of a mark tag as text: a strings.Builder receives the constant prefix "id:" and
// then "%d," per stream; the trailing comma is cut with s[:len(s)-1] and the list part is taken with s[3:]. When the
// loop appended nothing the text is just the prefix: cutting one byte leaves "id", and s[3:] panics with
// `slice bounds out of range [3:2]` — on the service goroutine, which ends the process (seeded C11k: the guard
// `b.Len() != len("id:")` removed as redundant; every listed stream was already marked).
//
// Rule (FLOW): in package manager every trim `s = s[:len(s)-k]` (k ≥ 1 constant) of a string obtained from
// (*strings.Builder).String() is reached only over an edge that establishes that the Builder grew beyond what was
// written unconditionally: the true edge of `b.Len() != c` / `> c`, the false edge of `b.Len() == c` / `<= c`
// (c a constant or len of a constant), or the corresponding test on len(s).

import (
	"fmt"
	"go/ast"
	"go/token"
	"go/types"

	"golang.org/x/tools/go/cfg"
)

func init() {
	register("C11",
		"C11-l (FLOW): in package manager every trim s = s[:len(s)-k] (k ≥ 1) of a string taken from a strings.Builder is reached only over an edge that establishes that the Builder holds more than its unconditional prefix (`b.Len() != len(\"id:\")` true, `b.Len() == …` false, or the same test on len(s)). The mark-add path builds `id:` plus one `%d,` per stream that is not marked yet; when every listed stream is already marked the text is just the prefix, the trim leaves `id`, and `s[3:]` panics on the service goroutine — the call does not return an error, the process ends.",
		func(p *Prog, r *Res) {
			const rule = "C11-l separator-trim-guarded"
			r.Rule(rule + ": the trailing separator of a built string is cut only when something was appended")
			n := 0
			for _, f := range p.FnList {
				if f.Short != "manager" || f.Body() == nil {
					continue
				}
				info := f.Pkg.TypesInfo
				// strings built by a Builder: s := b.String()
				type built struct {
					s, b types.Object
				}
				var bs []built
				inspectShallow(f.Body(), func(x ast.Node) bool {
					as, ok := x.(*ast.AssignStmt)
					if !ok || len(as.Lhs) != 1 || len(as.Rhs) != 1 {
						return true
					}
					c, ok := ast.Unparen(as.Rhs[0]).(*ast.CallExpr)
					if !ok {
						return true
					}
					fn := p.Callee(f.Pkg, c)
					if fn == nil || fn.FullName() != "(*strings.Builder).String" {
						return true
					}
					se, _ := ast.Unparen(c.Fun).(*ast.SelectorExpr)
					if se == nil {
						return true
					}
					if s, b := identObj(info, as.Lhs[0]), identObj(info, se.X); s != nil && b != nil {
						bs = append(bs, built{s, b})
					}
					return true
				})
				if len(bs) == 0 {
					continue
				}
				fl := p.Flow(f)
				for _, bt := range bs {
					// trims of s
					for _, pt := range fl.Find(func(nd ast.Node) bool {
						as, ok := nd.(*ast.AssignStmt)
						if !ok || len(as.Lhs) != 1 || len(as.Rhs) != 1 {
							return false // (the trimmed text may go to another variable: markQuery := idList[:len(idList)-1])
						}
						sl, ok := ast.Unparen(as.Rhs[0]).(*ast.SliceExpr)
						if !ok || identObj(info, sl.X) != bt.s || sl.High == nil {
							return false
						}
						be, ok := ast.Unparen(sl.High).(*ast.BinaryExpr)
						if !ok || be.Op != token.SUB {
							return false
						}
						k, okk := constInt(info, be.Y)
						lc, okl := ast.Unparen(be.X).(*ast.CallExpr)
						return okk && k >= 1 && okl && isBuiltin(info, lc, "len") && len(lc.Args) == 1 && identObj(info, lc.Args[0]) == bt.s
					}) {
						n++
						trim := fl.node(pt)
						key := fmt.Sprintf("%s trim of %s@%s", f.Key(), bt.s.Name(), relLine(p, f, trim))
						isLen := func(e ast.Expr) bool {
							c, ok := stripConv(info, e).(*ast.CallExpr)
							if !ok {
								return false
							}
							if isBuiltin(info, c, "len") && len(c.Args) == 1 && identObj(info, c.Args[0]) == bt.s {
								return true
							}
							if se, ok := ast.Unparen(c.Fun).(*ast.SelectorExpr); ok && se.Sel.Name == "Len" && identObj(info, se.X) == bt.b {
								return true
							}
							return false
						}
						grew := func(c ast.Expr, trueEdge bool) bool {
							be, ok := ast.Unparen(c).(*ast.BinaryExpr)
							if !ok {
								return false
							}
							op, l, rr := be.Op, be.X, be.Y
							if !isLen(l) {
								if !isLen(rr) {
									return false
								}
								l, rr = rr, l
								switch op {
								case token.LSS:
									op = token.GTR
								case token.GTR:
									op = token.LSS
								case token.LEQ:
									op = token.GEQ
								case token.GEQ:
									op = token.LEQ
								}
							}
							if _, isC := constInt(info, rr); !isC {
								return false
							}
							if trueEdge {
								return op == token.NEQ || op == token.GTR
							}
							return op == token.EQL || op == token.LEQ
						}
						// switch form: the trim stands in the default clause of `switch <length> { case <constant>: … }`
						inSwitchDefault := false
						inspectParents(f.Body(), func(y ast.Node, ps []ast.Node) bool {
							if y != trim {
								return true
							}
							for i := len(ps) - 1; i >= 1; i-- {
								cc, ok := ps[i].(*ast.CaseClause)
								if !ok || cc.List != nil {
									continue
								}
								var sw *ast.SwitchStmt
								for j := i - 1; j >= 0 && sw == nil; j-- {
									sw, _ = ps[j].(*ast.SwitchStmt)
								}
								if sw == nil || sw.Tag == nil || !isLen(sw.Tag) {
									continue
								}
								for _, cl := range sw.Body.List {
									if oc, ok := cl.(*ast.CaseClause); ok && oc.List != nil {
										for _, e := range oc.List {
											if _, isC := constInt(info, e); isC {
												inSwitchDefault = true
											}
										}
									}
								}
							}
							return true
						})
						if inSwitchDefault {
							r.Ok(rule, key, p.Pos(trim), "default clause of a switch over the length whose case is the bare prefix")
							continue
						}
						g := p.Flow(f)
						g.EdgeOK = func(b *cfg.Block, succ int) bool {
							if len(b.Succs) != 2 || len(b.Nodes) == 0 {
								return true
							}
							cond, ok := b.Nodes[len(b.Nodes)-1].(ast.Expr)
							if !ok {
								return true
							}
							if succ == 0 {
								for _, c := range conjuncts(cond) {
									if grew(c, true) {
										return false
									}
								}
							} else {
								for _, c := range disjuncts(cond) {
									if grew(c, false) {
										return false
									}
								}
							}
							return true
						}
						res := g.Reach([]Pt{g.Entry()}, func(nd ast.Node) bool { return nd == trim }, nil)
						r.Check(!res.Found, rule, key, p.Pos(trim), "reached only where the Builder is known to hold more than its prefix", "the trailing separator is cut without a test that anything was appended ("+g.traceString(res)+"): with an empty list the text is just the constant prefix, the trim eats into it, and the slicing that follows panics on the service goroutine")
					}
				}
			}
			r.Floor(rule, 2, n)
		})
}
