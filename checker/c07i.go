package main

// c07i.go: C07-i / C02-i time-base-agreement (a unit rule for file-relative times).
//
// FirstPacketTimeNS / LastPacketTimeNS of a stream are offsets from the ReferenceTime of the index file the stream was
// read from. Whenever such an offset and a reference time are added up into one duration, both have to belong to the
// same file: a reader-bound Stream X goes with X.r.ReferenceTime, a raw `stream` record handled inside a method of
// Reader r goes with r.ReferenceTime. The rule computes, for every time.Duration local of package index, the set of
// owners of the reference times and of the time offsets that flow into it (through other duration locals), and
// requires the two sets to be equal when both are non-empty.

import (
	"fmt"
	"go/ast"
	"go/token"
	"go/types"
	"sort"
	"strings"
)

func init() {
	const expl = "(typed AST, value flow through duration locals): in package index every time.Duration local into which both a ReferenceTime and a FirstPacketTimeNS/LastPacketTimeNS offset flow takes them from the same file — a reader-bound Stream X with X.r.ReferenceTime, a raw stream record inside a method of Reader r with r.ReferenceTime. Mixing the bases is invisible while all files share one reference second and shifts every comparison by the difference otherwise: a query relating two streams by time gives different answers before and after a merge."
	register("C07", "C07-i "+expl, func(p *Prog, r *Res) { ruleTimeBase(p, r, "C07-i time-base-agreement") })
	register("C02", "C02-i "+expl, func(p *Prog, r *Res) { ruleTimeBase(p, r, "C02-i time-base-agreement") })
}

func ruleTimeBase(p *Prog, r *Res, rule string) {
	r.Rule(rule + ": offsets and reference times added into one duration belong to the same index file")
	n := 0
	for _, root := range p.FnList {
		if root.Short != "index" || root.Body() == nil || root.Lit != nil {
			continue
		}
		info := root.Pkg.TypesInfo
		var recvObj types.Object
		if root.Decl.Recv != nil && len(root.Decl.Recv.List) == 1 && len(root.Decl.Recv.List[0].Names) == 1 {
			if o := info.Defs[root.Decl.Recv.List[0].Names[0]]; o != nil {
				if nt := namedOf(derefType(o.Type())); nt != nil && nt.Obj().Name() == "Reader" {
					recvObj = o
				}
			}
		}
		typeName := func(t types.Type) string {
			if nt := namedOf(derefType(t)); nt != nil {
				return nt.Obj().Name()
			}
			return ""
		}
		isDuration := func(t types.Type) bool {
			return t != nil && types.TypeString(t, nil) == "time.Duration"
		}
		type terms struct{ refs, offs map[types.Object]string }
		// env binds the parameters of a local closure to the argument expressions of one of its call sites
		type tbEnv struct {
			bind   map[types.Object]ast.Expr
			parent *tbEnv
		}
		lookup := func(env *tbEnv, o types.Object) (ast.Expr, *tbEnv, bool) {
			if env == nil || o == nil {
				return nil, nil, false
			}
			a, ok := env.bind[o]
			return a, env.parent, ok
		}
		// local closures: a local defined once as a function literal, used only as the callee of calls
		closures := map[types.Object]*ast.FuncLit{}
		{
			defs := map[types.Object]int{}
			lits := map[types.Object]*ast.FuncLit{}
			ast.Inspect(root.Body(), func(x ast.Node) bool {
				if as, ok := x.(*ast.AssignStmt); ok && len(as.Lhs) == len(as.Rhs) {
					for i, l := range as.Lhs {
						if o := identObj(info, l); o != nil {
							if _, isFn := o.Type().Underlying().(*types.Signature); isFn {
								defs[o]++
								if fl, ok := ast.Unparen(as.Rhs[i]).(*ast.FuncLit); ok {
									lits[o] = fl
								}
							}
						}
					}
				}
				return true
			})
			calleeUse := map[*ast.Ident]bool{}
			ast.Inspect(root.Body(), func(x ast.Node) bool {
				if c, ok := x.(*ast.CallExpr); ok {
					if id, ok := ast.Unparen(c.Fun).(*ast.Ident); ok {
						calleeUse[id] = true
					}
				}
				return true
			})
			escapes := map[types.Object]bool{}
			ast.Inspect(root.Body(), func(x ast.Node) bool {
				if id, ok := x.(*ast.Ident); ok && !calleeUse[id] {
					if o := info.Uses[id]; o != nil && lits[o] != nil {
						escapes[o] = true
					}
				}
				return true
			})
			for o, fl := range lits {
				if defs[o] == 1 && !escapes[o] && fl.Type.Params != nil && fl.Type.Params.NumFields() > 0 {
					closures[o] = fl
				}
			}
		}
		inClosure := func(pos token.Pos) bool {
			for _, fl := range closures {
				if fl.Pos() <= pos && pos < fl.End() {
					return true
				}
			}
			return false
		}
		var streamOwner func(e ast.Expr, env *tbEnv, depth int) types.Object
		streamOwner = func(e ast.Expr, env *tbEnv, depth int) types.Object {
			if depth < 0 {
				return nil
			}
			e = ast.Unparen(e)
			if u, ok := e.(*ast.UnaryExpr); ok && u.Op == token.AND {
				e = ast.Unparen(u.X)
			}
			if st, ok := e.(*ast.StarExpr); ok {
				e = ast.Unparen(st.X)
			}
			switch y := e.(type) {
			case *ast.Ident:
				o := info.Uses[y]
				if o == nil {
					o = info.Defs[y]
				}
				if a, penv, ok := lookup(env, o); ok {
					return streamOwner(a, penv, depth-1)
				}
				if o == nil {
					return nil
				}
				switch typeName(o.Type()) {
				case "Stream":
					return o
				case "stream":
					return recvObj
				}
			case *ast.SelectorExpr:
				// X.stream: the record embedded in a reader-bound Stream
				if y.Sel.Name == "stream" {
					return streamOwner(y.X, env, depth-1)
				}
			}
			return nil
		}
		var readerOwner func(e ast.Expr, env *tbEnv, depth int) types.Object
		readerOwner = func(e ast.Expr, env *tbEnv, depth int) types.Object {
			if depth < 0 {
				return nil
			}
			e = ast.Unparen(e)
			if se, ok := e.(*ast.SelectorExpr); ok && se.Sel.Name == "r" {
				if o := streamOwner(se.X, env, depth-1); o != nil && typeName(o.Type()) == "Stream" {
					return o
				}
				return nil
			}
			if id, ok := e.(*ast.Ident); ok {
				o := info.Uses[id]
				if a, penv, ok := lookup(env, o); ok {
					return readerOwner(a, penv, depth-1)
				}
				if o != nil && typeName(o.Type()) == "Reader" {
					return o
				}
			}
			return nil
		}
		isTime := func(t types.Type) bool { return t != nil && types.TypeString(t, nil) == "time.Time" }
		memo := map[types.Object]*terms{}
		var termsOfVar func(v types.Object, env *tbEnv, depth int) *terms
		var termsOfExpr func(e ast.Node, env *tbEnv, depth int) *terms
		merge := func(a, b *terms) {
			for k, v := range b.refs {
				a.refs[k] = v
			}
			for k, v := range b.offs {
				a.offs[k] = v
			}
		}
		termsOfExpr = func(e ast.Node, env *tbEnv, depth int) *terms {
			t := &terms{map[types.Object]string{}, map[types.Object]string{}}
			if depth < 0 {
				return t
			}
			ast.Inspect(e, func(x ast.Node) bool {
				switch y := x.(type) {
				case *ast.FuncLit:
					return false
				case *ast.CallExpr:
					// a call of a local closure: its results with the parameters bound to this call's arguments
					if id, ok := ast.Unparen(y.Fun).(*ast.Ident); ok {
						if fl := closures[info.Uses[id]]; fl != nil {
							bind := map[types.Object]ast.Expr{}
							i := 0
							for _, fld := range fl.Type.Params.List {
								for _, nm := range fld.Names {
									if i < len(y.Args) {
										bind[info.Defs[nm]] = y.Args[i]
									}
									i++
								}
							}
							cenv := &tbEnv{bind, env}
							inspectShallow(fl.Body, func(z ast.Node) bool {
								if rs, ok := z.(*ast.ReturnStmt); ok {
									for _, res := range rs.Results {
										merge(t, termsOfExpr(res, cenv, depth-1))
									}
								}
								return true
							})
							return false
						}
					}
				case *ast.SelectorExpr:
					switch y.Sel.Name {
					case "ReferenceTime":
						if o := readerOwner(y.X, env, 4); o != nil {
							t.refs[o] = exprString(p.Fset, y)
						}
						return false
					case "FirstPacketTimeNS", "LastPacketTimeNS":
						if o := streamOwner(y.X, env, 4); o != nil {
							txt := exprString(p.Fset, y)
							if o == recvObj {
								txt += " (a record of " + recvObj.Name() + ")"
							}
							t.offs[o] = txt
						}
						return false
					}
				case *ast.Ident:
					o, ok := info.Uses[y].(*types.Var)
					if !ok || o.IsField() || !(isDuration(o.Type()) || isTime(o.Type())) {
						return true
					}
					if a, penv, ok := lookup(env, o); ok {
						merge(t, termsOfExpr(a, penv, depth-1))
					} else if depth > 0 {
						merge(t, termsOfVar(o, env, depth-1))
					}
				}
				return true
			})
			return t
		}
		termsOfVar = func(v types.Object, env *tbEnv, depth int) *terms {
			if env == nil {
				if t, ok := memo[v]; ok {
					return t
				}
			}
			t := &terms{map[types.Object]string{}, map[types.Object]string{}}
			if env == nil {
				memo[v] = t
			}
			ast.Inspect(root.Body(), func(x ast.Node) bool {
				if as, ok := x.(*ast.AssignStmt); ok {
					for i, l := range as.Lhs {
						if identObj(info, l) != v {
							continue
						}
						if len(as.Lhs) == len(as.Rhs) {
							merge(t, termsOfExpr(as.Rhs[i], env, depth))
						}
					}
				}
				return true
			})
			return t
		}
		// every duration local of the function (closures included); the locals of a parameterised local closure are
		// evaluated through its call sites, with the parameters bound
		var vars []types.Object
		seen := map[types.Object]bool{}
		ast.Inspect(root.Body(), func(x ast.Node) bool {
			if as, ok := x.(*ast.AssignStmt); ok {
				for _, l := range as.Lhs {
					if o, ok := identObj(info, l).(*types.Var); ok && o != nil && isDuration(o.Type()) && !seen[o] && !inClosure(o.Pos()) {
						seen[o] = true
						vars = append(vars, o)
					}
				}
			}
			return true
		})
		for _, v := range vars {
			t := termsOfVar(v, nil, 6)
			if len(t.refs) == 0 || len(t.offs) == 0 {
				continue
			}
			n++
			names := func(m map[types.Object]string) string {
				var l []string
				for _, s := range m {
					l = append(l, s)
				}
				sort.Strings(l)
				return strings.Join(l, ", ")
			}
			same := len(t.refs) == len(t.offs)
			for o := range t.offs {
				if _, ok := t.refs[o]; !ok {
					same = false
				}
			}
			key := fmt.Sprintf("%s duration %s@%s", root.Key(), v.Name(), relLinePos(p, root, v.Pos()))
			r.Check(same, rule, key, p.PosOf(v.Pos()), "offsets {"+names(t.offs)+"} and reference times {"+names(t.refs)+"} belong to the same files", "the duration adds up offsets {"+names(t.offs)+"} with reference times {"+names(t.refs)+"}: an offset is measured from the reference time of its own file; with another file's reference time every stream of a file with a different reference second is shifted by the difference")
		}
	}
	r.Floor(rule, 2, n)
}

func relLinePos(p *Prog, f *Fn, pos token.Pos) string {
	return fmt.Sprintf("+%d", p.Fset.Position(pos).Line-p.Fset.Position(f.Node().Pos()).Line)
}
