package main

// c07i.go: C07-i / C02-i time-base-agreement (a unit rule for file-relative times).
//
// FirstPacketTimeNS / LastPacketTimeNS of a stream are offsets from the ReferenceTime of the index file the stream was
// read from. Whenever such an offset and a reference time are added up into one duration, both have to belong to the
// same file: a reader-bound Stream X goes with X.r.ReferenceTime, a raw `stream` record handled inside a method of
// Reader r goes with r.ReferenceTime. The rule computes, for every time.Duration local of package index, the set of
// owners of the reference times and of the time offsets that flow into it (through other duration locals), and
// requires the two sets to be equal when both are non-empty.

import (
	"fmt"
	"go/ast"
	"go/token"
	"go/types"
	"sort"
	"strings"
)

func init() {
	const expl = "(typed AST, value flow through duration locals): in package index every time.Duration local into which both a ReferenceTime and a FirstPacketTimeNS/LastPacketTimeNS offset flow takes them from the same file — a reader-bound Stream X with X.r.ReferenceTime, a raw stream record inside a method of Reader r with r.ReferenceTime. Mixing the bases is invisible while all files share one reference second and shifts every comparison by the difference otherwise: a query relating two streams by time gives different answers before and after a merge."
	register("C07", "C07-i "+expl, func(p *Prog, r *Res) { ruleTimeBase(p, r, "C07-i time-base-agreement") })
	register("C02", "C02-i "+expl, func(p *Prog, r *Res) { ruleTimeBase(p, r, "C02-i time-base-agreement") })
}

func ruleTimeBase(p *Prog, r *Res, rule string) {
	r.Rule(rule + ": offsets and reference times added into one duration belong to the same index file")
	n := 0
	for _, root := range p.FnList {
		if root.Short != "index" || root.Body() == nil || root.Lit != nil {
			continue
		}
		info := root.Pkg.TypesInfo
		var recvObj types.Object
		if root.Decl.Recv != nil && len(root.Decl.Recv.List) == 1 && len(root.Decl.Recv.List[0].Names) == 1 {
			if o := info.Defs[root.Decl.Recv.List[0].Names[0]]; o != nil {
				if nt := namedOf(derefType(o.Type())); nt != nil && nt.Obj().Name() == "Reader" {
					recvObj = o
				}
			}
		}
		typeName := func(t types.Type) string {
			if nt := namedOf(derefType(t)); nt != nil {
				return nt.Obj().Name()
			}
			return ""
		}
		isDuration := func(t types.Type) bool {
			return t != nil && types.TypeString(t, nil) == "time.Duration"
		}
		type terms struct{ refs, offs map[types.Object]string }
		memo := map[types.Object]*terms{}
		var termsOfVar func(v types.Object, depth int) *terms
		var termsOfExpr func(e ast.Node, depth int) *terms
		merge := func(a, b *terms) {
			for k, v := range b.refs {
				a.refs[k] = v
			}
			for k, v := range b.offs {
				a.offs[k] = v
			}
		}
		termsOfExpr = func(e ast.Node, depth int) *terms {
			t := &terms{map[types.Object]string{}, map[types.Object]string{}}
			ast.Inspect(e, func(x ast.Node) bool {
				switch y := x.(type) {
				case *ast.FuncLit:
					return false
				case *ast.SelectorExpr:
					switch y.Sel.Name {
					case "ReferenceTime":
						base := ast.Unparen(y.X)
						if se, ok := base.(*ast.SelectorExpr); ok && se.Sel.Name == "r" {
							if o := identObj(info, se.X); o != nil && typeName(o.Type()) == "Stream" {
								t.refs[o] = exprString(p.Fset, y)
							}
						} else if o := identObj(info, base); o != nil && typeName(o.Type()) == "Reader" {
							t.refs[o] = exprString(p.Fset, y)
						}
						return false
					case "FirstPacketTimeNS", "LastPacketTimeNS":
						if o := identObj(info, y.X); o != nil {
							switch typeName(o.Type()) {
							case "Stream":
								t.offs[o] = exprString(p.Fset, y)
							case "stream":
								if recvObj != nil {
									t.offs[recvObj] = exprString(p.Fset, y) + " (a record of " + recvObj.Name() + ")"
								}
							}
						}
						return false
					}
				case *ast.Ident:
					if o, ok := info.Uses[y].(*types.Var); ok && isDuration(o.Type()) && !o.IsField() && depth > 0 {
						merge(t, termsOfVar(o, depth-1))
					}
				}
				return true
			})
			return t
		}
		termsOfVar = func(v types.Object, depth int) *terms {
			if t, ok := memo[v]; ok {
				return t
			}
			t := &terms{map[types.Object]string{}, map[types.Object]string{}}
			memo[v] = t
			ast.Inspect(root.Body(), func(x ast.Node) bool {
				if as, ok := x.(*ast.AssignStmt); ok {
					for i, l := range as.Lhs {
						if identObj(info, l) != v {
							continue
						}
						if len(as.Lhs) == len(as.Rhs) {
							merge(t, termsOfExpr(as.Rhs[i], depth))
						}
					}
				}
				return true
			})
			return t
		}
		// every duration local of the function (closures included)
		var vars []types.Object
		seen := map[types.Object]bool{}
		ast.Inspect(root.Body(), func(x ast.Node) bool {
			if as, ok := x.(*ast.AssignStmt); ok {
				for _, l := range as.Lhs {
					if o, ok := identObj(info, l).(*types.Var); ok && o != nil && isDuration(o.Type()) && !seen[o] {
						seen[o] = true
						vars = append(vars, o)
					}
				}
			}
			return true
		})
		for _, v := range vars {
			t := termsOfVar(v, 4)
			if len(t.refs) == 0 || len(t.offs) == 0 {
				continue
			}
			n++
			names := func(m map[types.Object]string) string {
				var l []string
				for _, s := range m {
					l = append(l, s)
				}
				sort.Strings(l)
				return strings.Join(l, ", ")
			}
			same := len(t.refs) == len(t.offs)
			for o := range t.offs {
				if _, ok := t.refs[o]; !ok {
					same = false
				}
			}
			key := fmt.Sprintf("%s duration %s@%s", root.Key(), v.Name(), relLinePos(p, root, v.Pos()))
			r.Check(same, rule, key, p.PosOf(v.Pos()), "offsets {"+names(t.offs)+"} and reference times {"+names(t.refs)+"} belong to the same files", "the duration adds up offsets {"+names(t.offs)+"} with reference times {"+names(t.refs)+"}: an offset is measured from the reference time of its own file; with another file's reference time every stream of a file with a different reference second is shifted by the difference")
		}
	}
	r.Floor(rule, 2, n)
}

func relLinePos(p *Prog, f *Fn, pos token.Pos) string {
	return fmt.Sprintf("+%d", p.Fset.Position(pos).Line-p.Fset.Position(f.Node().Pos()).Line)
}
