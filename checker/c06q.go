package main

// c06q.go: C06-q a conversion that stored output is announced when it happens.
//
// The workers of a converter job store each stream's output in the live cache, where `data:` searches find it at
// once. The tags with data filters were marked pending for the converted streams only in the job's completion: while
// the job ran, `data:"CONVERTED"` found [0 1 2] and `tag:conv` — the same definition — found [], with nothing pending;
// a converter that hangs on one stream (no timeout) left the tags stale for good
// (#79, probes/c06_data_tag_during_converter_job).
//
// Rule (typed AST + callee summary): in Manager.convertStreamJob the handler of a successful result — the `case nil`
// of a switch over an error, or the branch of `err == nil` — sends to Manager.jobs a function literal that calls a
// function of package manager which assigns a tag's Uncertain.

import (
	"go/ast"
	"go/token"
	"go/types"
)

func init() {
	register("C06",
		"C06-q (typed AST + callee summary): in Manager.convertStreamJob the handler of a successful result — the `case nil` of a switch over an error value, or the branch taken for `err == nil` — sends to Manager.jobs a function literal that calls a function of package manager which assigns a tag's Uncertain. Output stored by a worker is found by data searches at once; announced only when the whole job ends, every tag with a data filter disagrees with its own definition for as long as the job runs, with nothing reported pending.",
		func(p *Prog, r *Res) {
			const rule = "C06-q stored-conversion-announced-at-once"
			r.Rule(rule + ": a successful conversion in the job marks the stream pending on data tags when it happens")
			jf := p.Fns["manager.Manager.convertStreamJob"]
			jobs := p.Field("manager", "Manager", "jobs")
			unc := p.Field("query", "TagDetails", "Uncertain")
			if jf == nil || jobs == nil || unc == nil {
				p.anchorFail("manager.Manager.convertStreamJob / Manager.jobs / TagDetails.Uncertain")
				return
			}
			raises := map[*Fn]bool{}
			for _, g := range p.FnList {
				if g.Short != "manager" || g.Lit != nil || g.Body() == nil {
					continue
				}
				ginfo := g.Pkg.TypesInfo
				inspectShallow(g.Body(), func(x ast.Node) bool {
					if as, ok := x.(*ast.AssignStmt); ok {
						for _, l := range as.Lhs {
							if isFieldOf(ginfo, l, unc) {
								raises[g] = true
							}
						}
					}
					return true
				})
			}
			// … or call one that does (helpers extracted from the raise), two levels
			for round := 0; round < 2; round++ {
				for _, g := range p.FnList {
					if g.Short != "manager" || g.Lit != nil || g.Body() == nil || raises[g] {
						continue
					}
					for _, c := range callsIn(g.Body()) {
						if fn := p.Callee(g.Pkg, c); fn != nil && raises[p.FnOfObj(fn)] {
							raises[g] = true
						}
					}
				}
			}
			info := jf.Pkg.TypesInfo
			isErr := func(e ast.Expr) bool {
				t := info.TypeOf(e)
				return t != nil && types.TypeString(t, nil) == "error"
			}
			isNil := func(e ast.Expr) bool {
				id, ok := ast.Unparen(e).(*ast.Ident)
				return ok && id.Name == "nil"
			}
			announces := func(body []ast.Stmt) bool {
				hit := false
				for _, st := range body {
					ast.Inspect(st, func(x ast.Node) bool {
						snd, ok := x.(*ast.SendStmt)
						if !ok || hit || !isFieldOf(info, snd.Chan, jobs) {
							return !hit
						}
						if fl, ok := ast.Unparen(snd.Value).(*ast.FuncLit); ok {
							for _, c := range callsInDeep(fl.Body) {
								if fn := p.Callee(jf.Pkg, c); fn != nil && raises[p.FnOfObj(fn)] {
									hit = true
								}
							}
						}
						return !hit
					})
				}
				return hit
			}
			n := 0
			ast.Inspect(jf.Body(), func(x ast.Node) bool {
				switch s := x.(type) {
				case *ast.SwitchStmt:
					if s.Tag == nil || !isErr(s.Tag) {
						return true
					}
					for _, cl := range s.Body.List {
						cc := cl.(*ast.CaseClause)
						for _, e := range cc.List {
							if isNil(e) {
								n++
								r.Check(announces(cc.Body), rule, "manager.Manager.convertStreamJob success case of the result switch", p.Pos(cc), "sends a raise of Uncertain to the service goroutine", "a successful conversion is only counted: its output is searchable now, but the tags with data filters stay decided for the stream until the whole job has ended — `tag:X` and the definition of X disagree meanwhile, and for ever if another stream's conversion hangs")
							}
						}
					}
				case *ast.IfStmt:
					be, ok := ast.Unparen(s.Cond).(*ast.BinaryExpr)
					if !ok || be.Op != token.EQL {
						return true
					}
					if (isErr(be.X) && isNil(be.Y)) || (isErr(be.Y) && isNil(be.X)) {
						// only result handlers: the branch is not the worker's own error check (it must not call Data itself)
						n++
						r.Check(announces(s.Body.List), rule, "manager.Manager.convertStreamJob success branch", p.Pos(s), "sends a raise of Uncertain to the service goroutine", "a successful conversion is not announced to the service goroutine when it happens")
					}
				}
				return true
			})
			r.Floor(rule, 1, n)
		})
}
