package main

// c12r.go: C12-r / C15-k a cache file that is rewritten in place is marked unusable while the rewrite runs.
//
// cacheFile.truncateFile compacts the converter cache by moving the live records towards the front of the SAME file and
// shortening the file at the end; NewCacheFile runs it at every start when the file holds an invalidated record. A kill
// in between leaves the moved records in front, the old bytes behind them and no trace of what happened: the record scan
// of the next start walks from the moved part into the old part, and a record is accepted whose bytes belong to two
// streams — output of stream 6 served for stream 7, for ever, because a stream the cache contains is never converted
// again (#64, probes/c12_cache_compaction_kill). The records carry neither length nor checksum; what can be made safe
// is the bracket: before the first byte is moved the header is replaced (and synced) by one the loader refuses — it
// resets such a file — and the regular header comes back only after the file has been shortened and synced.
//
// Rule (FLOW + callee summaries): in package converters a function that writes through a file it also shortens with a
// non-constant Truncate — an in-place rewrite — (1) reaches the creation of its writer only through a call of a header
// writer (a function of the package that calls (*os.File).WriteAt at offset 0 and (*os.File).Sync), (2) reaches a
// successful return from the Truncate only through another such call, and (3) the first call passes a constant that
// differs from the version the loader accepts, the last one that version.

import (
	"fmt"
	"go/ast"
	"go/constant"
	"go/token"
	"go/types"
)

func init() {
	const expl = "(FLOW + callee summaries): in package converters a function that writes through an *os.File it also shortens with a non-constant Truncate rewrites the cache in place. It (1) creates its writer only after a call of a header writer — a function of the package that stores at offset 0 with (*os.File).WriteAt and calls (*os.File).Sync — (2) returns successfully after the Truncate only through another such call, and (3) hands the first call a constant other than the version NewCacheFile accepts and the last call that version. Records have no length or checksum: without the bracket a kill during the compaction leaves a file whose record scan runs from moved into old bytes and accepts a record spliced from two streams; with it the loader sees a version it refuses and resets the file."
	register("C12", "C12-r "+expl, func(p *Prog, r *Res) { ruleInPlaceRewriteBracketed(p, r, "C12-r in-place-rewrite-is-bracketed") })
	register("C15", "C15-k "+expl, func(p *Prog, r *Res) { ruleInPlaceRewriteBracketed(p, r, "C15-k in-place-rewrite-is-bracketed") })
}

func ruleInPlaceRewriteBracketed(p *Prog, r *Res, rule string) {
	r.Rule(rule + ": the in-place compaction of the converter cache is bracketed by a header the loader refuses")
	isFileMethod := func(fn *types.Func, name string) bool {
		return fn != nil && fn.FullName() == "(*os.File)."+name
	}
	// header writers: WriteAt(…, 0) and Sync on a file, in one function of the package
	headerWriters := map[*Fn]bool{}
	for _, f := range p.FnList {
		if f.Short != "converters" || f.Body() == nil || f.Lit != nil {
			continue
		}
		info := f.Pkg.TypesInfo
		at0, sync := false, false
		inspectShallow(f.Body(), func(x ast.Node) bool {
			if c, ok := x.(*ast.CallExpr); ok {
				fn := p.Callee(f.Pkg, c)
				if isFileMethod(fn, "WriteAt") && len(c.Args) == 2 {
					if k, isC := constInt(info, c.Args[1]); isC && k == 0 {
						at0 = true
					}
				}
				if isFileMethod(fn, "Sync") {
					sync = true
				}
			}
			return true
		})
		if at0 && sync {
			headerWriters[f] = true
		}
	}
	// the version the loader accepts: X.Version != C in a function that opens the file
	var accepted constant.Value
	verFld := p.Field("converters", "converterCacheFileHeader", "Version")
	if verFld != nil {
		for _, f := range p.FnList {
			if f.Short != "converters" || f.Body() == nil {
				continue
			}
			info := f.Pkg.TypesInfo
			inspectShallow(f.Body(), func(x ast.Node) bool {
				if be, ok := x.(*ast.BinaryExpr); ok && (be.Op == token.NEQ || be.Op == token.EQL) && isFieldOf(info, be.X, verFld) {
					if tv, ok := info.Types[be.Y]; ok && tv.Value != nil {
						accepted = tv.Value
					}
				}
				return true
			})
		}
	}
	n := 0
	for _, f := range p.FnList {
		if f.Short != "converters" || f.Body() == nil || f.Lit != nil {
			continue
		}
		info := f.Pkg.TypesInfo
		// files shortened with a non-constant size
		var truncs []*ast.CallExpr
		inspectShallow(f.Body(), func(x ast.Node) bool {
			if c, ok := x.(*ast.CallExpr); ok && isFileMethod(p.Callee(f.Pkg, c), "Truncate") && len(c.Args) == 1 {
				if tv, ok := info.Types[c.Args[0]]; !ok || tv.Value == nil {
					truncs = append(truncs, c)
				}
			}
			return true
		})
		if len(truncs) == 0 {
			continue
		}
		fileText := func(c *ast.CallExpr) string {
			return exprString(p.Fset, ast.Unparen(ast.Unparen(c.Fun).(*ast.SelectorExpr).X))
		}
		for _, tr := range truncs {
			ft := fileText(tr)
			// writers over the same file: bufio.NewWriter(file), binary.Write(file, …), file.Write(…), io.Copy(file, …)
			var writers []ast.Node
			inspectShallow(f.Body(), func(x ast.Node) bool {
				c, ok := x.(*ast.CallExpr)
				if !ok {
					return true
				}
				fn := p.Callee(f.Pkg, c)
				if fn == nil {
					return true
				}
				switch fn.FullName() {
				case "bufio.NewWriter", "bufio.NewWriterSize", "encoding/binary.Write", "io.Copy", "io.CopyN":
					if len(c.Args) >= 1 && exprString(p.Fset, ast.Unparen(c.Args[0])) == ft {
						writers = append(writers, c)
					}
				case "(*os.File).Write", "(*os.File).WriteString":
					if fileText(c) == ft {
						writers = append(writers, c)
					}
				}
				return true
			})
			if len(writers) == 0 {
				continue // shortening without rewriting (dropping a partly written tail)
			}
			n++
			key := fmt.Sprintf("%s rewrites %s in place", f.Key(), ft)
			fl := p.Flow(f)
			var marks []*ast.CallExpr
			isMark := func(nd ast.Node) bool {
				hit := false
				inspectShallow(nd, func(x ast.Node) bool {
					if c, ok := x.(*ast.CallExpr); ok {
						if fn := p.Callee(f.Pkg, c); fn != nil && headerWriters[p.FnOfObj(fn)] {
							hit = true
						}
					}
					return !hit
				})
				return hit
			}
			inspectShallow(f.Body(), func(x ast.Node) bool {
				if c, ok := x.(*ast.CallExpr); ok {
					if fn := p.Callee(f.Pkg, c); fn != nil && headerWriters[p.FnOfObj(fn)] {
						marks = append(marks, c)
					}
				}
				return true
			})
			contains := func(nd ast.Node, target ast.Node) bool {
				hit := false
				ast.Inspect(nd, func(x ast.Node) bool {
					if x == target {
						hit = true
					}
					return !hit
				})
				return hit
			}
			// (1)
			var problems []string
			for _, w := range writers {
				if res := fl.Reach([]Pt{fl.Entry()}, func(nd ast.Node) bool { return contains(nd, w) }, isMark); res.Found {
					problems = append(problems, fmt.Sprintf("the writer at line %d is reached without the header having been replaced (%s)", lineOf(p.Fset, w), fl.traceString(res)))
					break
				}
			}
			// (2)
			if pt, ok := fl.PointOf(tr); ok {
				if res := fl.Reach([]Pt{After(pt)}, func(nd ast.Node) bool { return isReturn(nd) && !isErrReturn(info, nd) }, isMark); res.Found {
					problems = append(problems, fmt.Sprintf("a successful return is reached from the Truncate at line %d without the regular header having been restored (%s)", lineOf(p.Fset, tr), fl.traceString(res)))
				}
			} else {
				r.Undecided(rule, key, p.Pos(tr), "Truncate call not found in the CFG")
				continue
			}
			// (3)
			if len(problems) == 0 {
				constOf := func(c *ast.CallExpr) constant.Value {
					for _, a := range c.Args {
						if tv, ok := info.Types[a]; ok && tv.Value != nil {
							return tv.Value
						}
					}
					return nil
				}
				var first, last *ast.CallExpr
				for _, m := range marks {
					if first == nil || m.Pos() < first.Pos() {
						first = m
					}
					if last == nil || m.Pos() > last.Pos() {
						last = m
					}
				}
				switch {
				case accepted == nil:
					problems = append(problems, "the version the loader accepts was not found (no comparison with converterCacheFileHeader.Version)")
				case first == nil || constOf(first) == nil || constOf(last) == nil:
					problems = append(problems, "the header writer is not called with constant versions")
				case constant.Compare(constOf(first), token.EQL, accepted):
					problems = append(problems, fmt.Sprintf("the header written before the rewrite (line %d) carries the version the loader accepts: a file left behind by a kill is loaded", lineOf(p.Fset, first)))
				case !constant.Compare(constOf(last), token.EQL, accepted):
					problems = append(problems, fmt.Sprintf("the header written after the rewrite (line %d) does not carry the version the loader accepts: every compaction empties the cache at the next start", lineOf(p.Fset, last)))
				}
			}
			if len(problems) != 0 {
				r.Bad(rule, key, p.Pos(tr), problems[0]+" — the records have neither length nor checksum; after a kill during the compaction the record scan of the next start runs from moved into old bytes and accepts a record spliced from two streams, which is then served as the stream's converter output for ever")
			} else {
				r.Ok(rule, key, p.Pos(tr), fmt.Sprintf("%d writers behind a header mark, regular header restored after the Truncate", len(writers)))
			}
		}
	}
	r.Note("%s: %d header writers (WriteAt offset 0 + Sync) in package converters", rule, len(headerWriters))
	r.Floor(rule, 1, n)
}
