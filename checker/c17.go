package main

import (
	"fmt"
	"go/ast"
	"go/token"
	"go/types"
	"sort"
	"strings"

	"golang.org/x/tools/go/ssa"
)

func init() {
	register("C17",
		"C17-a (SSA effect analysis, operands are not modified): for all three bitmask types, observers (IsSet, OnesCount, Len, IsZero, Equal, Next, TrailingZerosFrom, Mask, Copy) and the …Copy combinators contain no store into memory reachable from the receiver or from `other`; the in-place combinators (Or, And, Xor, Sub) contain no store into memory reachable from `other`; Copy and the …Copy combinators return memory disjoint from their operands. Decided on go/ssa by a may-alias taint from each parameter (through spilled value receivers, field/index addresses, loads, slices, phis, append) with recursive summaries for callees in the package; a store, copy() destination or append base that is tainted is a violation. Also: the list of methods the copy-on-write rule (C06-a) treats as mutating equals the set of methods that store through their receiver. The set algebra itself — run merging, carries, two-pointer walks — is value-level and NOT decided.",
		ruleC17)
}

type aliasKey struct {
	fn  *ssa.Function
	par int
}

type aliasAnalysis struct {
	p        *Prog
	writes   map[aliasKey]int // 1 in progress, 2 no, 3 yes
	writeWhy map[aliasKey]string
	returns  map[aliasKey]int
}

func pointerLike(t types.Type) bool {
	switch u := t.Underlying().(type) {
	case *types.Pointer, *types.Slice, *types.Map, *types.Chan, *types.Interface, *types.Signature:
		return true
	case *types.Struct:
		for i := 0; i < u.NumFields(); i++ {
			if pointerLike(u.Field(i).Type()) {
				return true
			}
		}
	case *types.Array:
		return pointerLike(u.Elem())
	}
	return false
}

// taint computes the set of SSA values that may hold or point into memory reachable from parameter par.
// byValue: the parameter is a struct value (its own header is a private copy; only memory behind its
// pointers/slices is shared).
func (a *aliasAnalysis) taint(fn *ssa.Function, par int) (shared map[ssa.Value]bool, local map[ssa.Value]bool) {
	shared = map[ssa.Value]bool{} // value IS (or points into) caller-visible memory
	local = map[ssa.Value]bool{}  // address of a private copy that CONTAINS shared references
	p := fn.Params[par]
	if _, isPtr := p.Type().Underlying().(*types.Pointer); isPtr {
		shared[p] = true
	} else if _, isSl := p.Type().Underlying().(*types.Slice); isSl {
		shared[p] = true
	} else {
		// struct by value: a private copy holding shared references
		local[p] = true
	}
	for changed := true; changed; {
		changed = false
		set := func(m map[ssa.Value]bool, v ssa.Value) {
			if !m[v] {
				m[v] = true
				changed = true
			}
		}
		for _, b := range fn.Blocks {
			for _, ins := range b.Instrs {
				switch x := ins.(type) {
				case *ssa.Store:
					// spilling a value that holds shared references into a local slot (or a field/element of one)
					if (local[x.Val] || shared[x.Val]) && pointerLike(x.Val.Type()) {
						base := x.Addr
						for {
							if fa, ok := base.(*ssa.FieldAddr); ok {
								base = fa.X
								continue
							}
							if ia, ok := base.(*ssa.IndexAddr); ok {
								base = ia.X
								continue
							}
							break
						}
						if _, isAlloc := base.(*ssa.Alloc); isAlloc && !shared[base] {
							set(local, base)
						}
					}
				case *ssa.FieldAddr:
					if shared[x.X] {
						set(shared, x)
					} else if local[x.X] {
						set(local, x) // address of a field in the private copy
					}
				case *ssa.IndexAddr:
					if shared[x.X] {
						set(shared, x)
					} else if local[x.X] {
						// x.X is a private array or a pointer to one
						set(local, x)
					}
				case *ssa.Field:
					if local[x.X] || shared[x.X] {
						if pointerLike(x.Type()) {
							// a field value of a by-value struct: slices/pointers in it are shared references
							switch x.Type().Underlying().(type) {
							case *types.Slice, *types.Pointer, *types.Map:
								set(shared, x)
							default:
								set(local, x)
							}
						}
					}
				case *ssa.UnOp:
					if x.Op == token.MUL { // load
						if shared[x.X] {
							if pointerLike(x.Type()) {
								set(shared, x)
							}
						} else if local[x.X] && pointerLike(x.Type()) {
							switch x.Type().Underlying().(type) {
							case *types.Slice, *types.Pointer, *types.Map:
								set(shared, x) // the reference stored in the private copy points to shared memory
							default:
								set(local, x)
							}
						}
					}
				case *ssa.Slice:
					if shared[x.X] {
						set(shared, x)
					} else if local[x.X] {
						set(local, x)
					}
				case *ssa.Phi:
					for _, e := range x.Edges {
						if shared[e] {
							set(shared, x)
						}
						if local[e] {
							set(local, x)
						}
					}
				case *ssa.ChangeType:
					if shared[x.X] {
						set(shared, x)
					}
					if local[x.X] {
						set(local, x)
					}
				case *ssa.Convert:
					if shared[x.X] && pointerLike(x.Type()) {
						set(shared, x)
					}
				case *ssa.MakeInterface:
					if shared[x.X] {
						set(shared, x)
					}
				case *ssa.Extract:
					if shared[x.Tuple] {
						set(shared, x)
					}
				case *ssa.Call:
					if bi, ok := x.Call.Value.(*ssa.Builtin); ok && bi.Name() == "append" {
						if shared[x.Call.Args[0]] {
							set(shared, x)
						}
						continue
					}
					// result of a callee that returns memory derived from a tainted argument
					if callee := x.Call.StaticCallee(); callee != nil && callee.Pkg == fn.Pkg && len(callee.Blocks) > 0 {
						for i, arg := range x.Call.Args {
							if (shared[arg] || local[arg]) && a.returnsParam(callee, i) && pointerLike(x.Type()) {
								set(shared, x)
							}
						}
					}
				}
			}
		}
	}
	return shared, local
}

// writesParam: fn may store into memory reachable from parameter par (not counting the private copy of a by-value struct).
func (a *aliasAnalysis) writesParam(fn *ssa.Function, par int) (bool, string) {
	k := aliasKey{fn, par}
	switch a.writes[k] {
	case 1:
		return false, ""
	case 2:
		return false, ""
	case 3:
		return true, a.writeWhy[k]
	}
	a.writes[k] = 1
	shared, local := a.taint(fn, par)
	res, why := false, ""
	pos := func(ins ssa.Instruction) string { return a.p.PosOf(ins.Pos()) }
	for _, b := range fn.Blocks {
		for _, ins := range b.Instrs {
			if res {
				break
			}
			switch x := ins.(type) {
			case *ssa.Store:
				if shared[x.Addr] {
					res, why = true, "store through "+x.Addr.Name()+" at "+pos(x)
				}
			case *ssa.MapUpdate:
				if shared[x.Map] {
					res, why = true, "map update at "+pos(x)
				}
			case *ssa.Call:
				if bi, ok := x.Call.Value.(*ssa.Builtin); ok {
					switch bi.Name() {
					case "copy", "clear":
						if shared[x.Call.Args[0]] {
							res, why = true, bi.Name()+"() into operand memory at "+pos(x)
						}
					case "append":
						// append may write into spare capacity of a shared array
						if shared[x.Call.Args[0]] {
							res, why = true, "append onto operand memory at "+pos(x)+" (writes into its spare capacity)"
						}
					case "delete":
						if shared[x.Call.Args[0]] {
							res, why = true, "delete at "+pos(x)
						}
					}
					continue
				}
				callee := x.Call.StaticCallee()
				for i, arg := range x.Call.Args {
					if !shared[arg] && !local[arg] {
						continue
					}
					if callee == nil {
						if pointerLike(arg.Type()) && shared[arg] {
							res, why = true, "operand memory passed to a dynamic call at "+pos(x)
						}
						continue
					}
					if callee.Pkg == fn.Pkg && len(callee.Blocks) > 0 {
						if shared[arg] {
							if w, wy := a.writesParam(callee, i); w {
								res, why = true, "via "+callee.Name()+": "+wy
							}
						} else if local[arg] {
							// address of the private copy passed to a pointer-receiver method: the callee writes the copy's
							// header (fine) but may also write through the references stored in it
							if w, wy := a.writesThroughRefs(callee, i); w {
								res, why = true, "via "+callee.Name()+" on the private copy: "+wy
							}
						}
						continue
					}
					// external callee: pure helpers only
					name := callee.String()
					if strings.HasPrefix(name, "math/bits.") || readOnlyStdlib(callee) {
						continue
					}
					if shared[arg] && pointerLike(arg.Type()) {
						res, why = true, "operand memory passed to "+name+" at "+pos(x)
					}
				}
			}
		}
	}
	if res {
		a.writes[k], a.writeWhy[k] = 3, why
	} else {
		a.writes[k] = 2
	}
	return res, why
}

// writesThroughRefs: callee receives a pointer to a struct (param par); does it store through the slices/pointers
// *loaded from* that struct (as opposed to storing new values into the struct's fields)?
func (a *aliasAnalysis) writesThroughRefs(fn *ssa.Function, par int) (bool, string) {
	// treat the pointee as a private copy: param is `local`
	shared := map[ssa.Value]bool{}
	local := map[ssa.Value]bool{fn.Params[par]: true}
	for changed := true; changed; {
		changed = false
		set := func(m map[ssa.Value]bool, v ssa.Value) {
			if !m[v] {
				m[v] = true
				changed = true
			}
		}
		for _, b := range fn.Blocks {
			for _, ins := range b.Instrs {
				switch x := ins.(type) {
				case *ssa.FieldAddr:
					if local[x.X] {
						set(local, x)
					} else if shared[x.X] {
						set(shared, x)
					}
				case *ssa.IndexAddr:
					if shared[x.X] {
						set(shared, x)
					}
				case *ssa.UnOp:
					if x.Op == token.MUL && local[x.X] && pointerLike(x.Type()) {
						set(shared, x)
					} else if x.Op == token.MUL && shared[x.X] && pointerLike(x.Type()) {
						set(shared, x)
					}
				case *ssa.Slice:
					if shared[x.X] {
						set(shared, x)
					}
				case *ssa.Phi:
					for _, e := range x.Edges {
						if shared[e] {
							set(shared, x)
						}
					}
				case *ssa.Call:
					if bi, ok := x.Call.Value.(*ssa.Builtin); ok && bi.Name() == "append" && shared[x.Call.Args[0]] {
						set(shared, x)
					}
				}
			}
		}
	}
	for _, b := range fn.Blocks {
		for _, ins := range b.Instrs {
			switch x := ins.(type) {
			case *ssa.Store:
				if shared[x.Addr] {
					return true, "store through a reference loaded from the receiver at " + a.p.PosOf(x.Pos())
				}
			case *ssa.Call:
				if bi, ok := x.Call.Value.(*ssa.Builtin); ok && (bi.Name() == "copy" || bi.Name() == "append") && shared[x.Call.Args[0]] {
					return true, bi.Name() + " into memory referenced by the receiver at " + a.p.PosOf(x.Pos())
				}
			}
		}
	}
	return false, ""
}

// returnsParam: some returned value may alias memory reachable from parameter par.
func (a *aliasAnalysis) returnsParam(fn *ssa.Function, par int) bool {
	k := aliasKey{fn, par}
	switch a.returns[k] {
	case 1, 2:
		return false
	case 3:
		return true
	}
	a.returns[k] = 1
	shared, local := a.taint(fn, par)
	res := false
	for _, b := range fn.Blocks {
		for _, ins := range b.Instrs {
			if ret, ok := ins.(*ssa.Return); ok {
				for _, v := range ret.Results {
					if shared[v] {
						res = true
					}
					// returning a struct built from a shared slice: look through local composite
					if local[v] && pointerLike(v.Type()) {
						res = true
					}
				}
			}
		}
	}
	if res {
		a.returns[k] = 3
	} else {
		a.returns[k] = 2
	}
	return res
}

func ruleC17(p *Prog, r *Res) {
	const rule = "C17-a operands-unmodified"
	r.Rule(rule + ": observers and …Copy combinators do not write operand memory; in-place combinators do not write `other`; copies are disjoint")
	p.BuildSSA()
	a := &aliasAnalysis{p: p, writes: map[aliasKey]int{}, writeWhy: map[aliasKey]string{}, returns: map[aliasKey]int{}}
	observers := map[string]bool{"IsSet": true, "OnesCount": true, "Len": true, "IsZero": true, "Equal": true, "Next": true, "TrailingZerosFrom": true, "Mask": true, "Copy": true,
		"OrCopy": true, "AndCopy": true, "XorCopy": true, "SubCopy": true}
	inplace := map[string]bool{"Or": true, "And": true, "Xor": true, "Sub": true}
	mustBeDisjoint := map[string]bool{"Copy": true, "OrCopy": true, "AndCopy": true, "XorCopy": true, "SubCopy": true}
	n := 0
	var storesThroughRecv []string
	for _, tname := range []string{"LongBitmask", "ShortBitmask", "ConnectedBitmask"} {
		named := p.Named("bitmask", tname)
		if named == nil {
			continue
		}
		var methods []*types.Func
		for i := 0; i < named.NumMethods(); i++ {
			methods = append(methods, named.Method(i))
		}
		sort.Slice(methods, func(i, j int) bool { return methods[i].Name() < methods[j].Name() })
		for _, m := range methods {
			sf := p.SSA.FuncValue(m)
			if sf == nil || len(sf.Blocks) == 0 {
				r.Undecided(rule, tname+"."+m.Name(), "", "no SSA body")
				continue
			}
			pos := p.PosOf(m.Pos())
			// which methods store through their receiver (for agreement with the C06-a mutator list)
			if w, _ := a.writesParam(sf, 0); w {
				storesThroughRecv = append(storesThroughRecv, tname+"."+m.Name())
			} else if _, isPtr := sf.Params[0].Type().Underlying().(*types.Pointer); isPtr {
				// pointer receiver: also counts as mutating if it stores into the receiver struct itself
				if w2 := storesIntoPointee(sf, 0); w2 {
					storesThroughRecv = append(storesThroughRecv, tname+"."+m.Name())
				}
			}
			switch {
			case observers[m.Name()]:
				for pi := range sf.Params {
					if !pointerLike(sf.Params[pi].Type()) {
						continue
					}
					n++
					role := "receiver"
					if pi > 0 {
						role = "operand " + sf.Params[pi].Name()
					}
					key := fmt.Sprintf("%s.%s does not write its %s", tname, m.Name(), role)
					// `bit *uint` of Next is an output parameter by design
					if m.Name() == "Next" && pi > 0 {
						r.Exempt(rule, key, pos, "Next(bit *uint) reports the position through its pointer argument by design")
						continue
					}
					w, why := a.writesParam(sf, pi)
					// a pointer receiver on an observer (ShortBitmask.OrCopy etc.): storing into the receiver struct is a write too
					if !w && pi == 0 {
						if _, isPtr := sf.Params[0].Type().Underlying().(*types.Pointer); isPtr && storesIntoPointee(sf, 0) {
							w, why = true, "stores into the receiver struct"
						}
					}
					r.Check(!w, rule, key, pos, "no store, copy or append reaches memory of this operand", "the method modifies its operand ("+why+"): a.OrCopy(b) / a.Equal(b) / a.Copy() changes a or b for every later operation")
				}
				if mustBeDisjoint[m.Name()] {
					for pi := range sf.Params {
						if !pointerLike(sf.Params[pi].Type()) {
							continue
						}
						n++
						key := fmt.Sprintf("%s.%s result is disjoint from %s", tname, m.Name(), sf.Params[pi].Name())
						r.Check(!a.returnsParam(sf, pi), rule, key, pos, "the result does not alias the operand's memory", "the returned bitmask shares memory with its operand: a later in-place operation on the copy changes the original (and every snapshot holding it)")
					}
				}
			case inplace[m.Name()]:
				for pi := 1; pi < len(sf.Params); pi++ {
					if !pointerLike(sf.Params[pi].Type()) {
						continue
					}
					n++
					key := fmt.Sprintf("%s.%s does not write operand %s", tname, m.Name(), sf.Params[pi].Name())
					w, why := a.writesParam(sf, pi)
					r.Check(!w, rule, key, pos, "no store reaches memory of `other`", "a.Or(b) modifies b ("+why+")")
					n++
					key2 := fmt.Sprintf("%s.%s does not retain operand %s", tname, m.Name(), sf.Params[pi].Name())
					ret := retainsParam(a, sf, pi)
					r.Check(!ret, rule, key2, pos, "the receiver does not keep a reference into `other`", "a.Or(b) stores a reference to b's memory into a: later in-place changes of a write into b")
				}
			}
		}
	}
	r.Floor(rule, 50, n)
	// agreement with the mutator list used by the copy-on-write rule
	sort.Strings(storesThroughRecv)
	for _, m := range storesThroughRecv {
		name := m[strings.IndexByte(m, '.')+1:]
		if !ast.IsExported(name) {
			continue // a helper of the package: only exported methods can be called on a published bitmask from outside
		}
		r.Check(bmMutators[name], rule+" mutator-list", m+" stores through its receiver", "", "listed as mutating in the copy-on-write rule (C06-a)", "this method writes its receiver but is not in the list of mutating methods the copy-on-write rule checks: in-place changes through it on published bitmasks would go unnoticed")
	}
	for name := range bmMutators {
		found := false
		for _, m := range storesThroughRecv {
			if strings.HasSuffix(m, "."+name) {
				found = true
			}
		}
		r.Check(found, rule+" mutator-list", "mutator "+name+" exists and writes its receiver", "", "confirmed on SSA", "listed as mutating but no bitmask type has such a method that writes its receiver (renamed?)")
	}
}

// storesIntoPointee: the function stores into the struct its pointer parameter points to (its fields).
func storesIntoPointee(fn *ssa.Function, par int) bool {
	addr := map[ssa.Value]bool{fn.Params[par]: true}
	for changed := true; changed; {
		changed = false
		for _, b := range fn.Blocks {
			for _, ins := range b.Instrs {
				if fa, ok := ins.(*ssa.FieldAddr); ok && addr[fa.X] && !addr[fa] {
					addr[fa] = true
					changed = true
				}
			}
		}
	}
	for _, b := range fn.Blocks {
		for _, ins := range b.Instrs {
			if st, ok := ins.(*ssa.Store); ok && addr[st.Addr] {
				return true
			}
			if c, ok := ins.(*ssa.Call); ok {
				if callee := c.Call.StaticCallee(); callee != nil && callee.Pkg == fn.Pkg && len(callee.Blocks) > 0 {
					for i, arg := range c.Call.Args {
						if addr[arg] && i < len(callee.Params) && storesIntoPointee(callee, i) && callee != fn {
							return true
						}
					}
				}
			}
		}
	}
	return false
}

// retainsParam: a value aliasing parameter par is stored into memory reachable from the receiver.
func retainsParam(a *aliasAnalysis, fn *ssa.Function, par int) bool {
	shared, _ := a.taint(fn, par)
	for _, b := range fn.Blocks {
		for _, ins := range b.Instrs {
			if st, ok := ins.(*ssa.Store); ok && shared[st.Val] {
				if _, isAlloc := st.Addr.(*ssa.Alloc); !isAlloc {
					switch st.Val.Type().Underlying().(type) {
					case *types.Slice, *types.Pointer, *types.Map:
						return true
					}
				}
			}
		}
	}
	return false
}

// C17-b: set bits live in the words below len(mask); shrinking operations (And, Shrink, Extract) re-slice and
// leave old words in the backing array. Growing by re-slicing into spare capacity would bring them back.
func init() {
	register("C17",
		"C17-b (disallowed construct with positive control): no bitmask method grows its word slice by re-slicing into spare capacity — shrinking operations (And, Shrink) leave stale non-zero words behind the length, so growth must go through append/make, which zero the new words. The rule reports any use of cap() on a bitmask's slice field, or a slice expression x[:n] assigned back to such a field whose bound is not derived from a len(), unless the exposed words are cleared in the same function.",
		ruleC17Grow)
}

func ruleC17Grow(p *Prog, r *Res) {
	const rule = "C17-b no-growth-by-reslice"
	r.Rule(rule + ": word slices grow only through append/make")
	n := 0
	for _, f := range p.FnList {
		if f.Short != "bitmask" {
			continue
		}
		info := f.Pkg.TypesInfo
		clears := false
		for _, c := range callsIn(f.Body()) {
			if isBuiltin(info, c, "clear") {
				clears = true
			}
		}
		inspectShallow(f.Body(), func(x ast.Node) bool {
			switch s := x.(type) {
			case *ast.CallExpr:
				if isBuiltin(info, s, "cap") && len(s.Args) == 1 {
					if se, ok := ast.Unparen(s.Args[0]).(*ast.SelectorExpr); ok {
						if v, ok := info.Uses[se.Sel].(*types.Var); ok && v.IsField() && isBitmaskNamed(info.TypeOf(se.X)) {
							n++
							r.Check(clears, rule, f.Key()+" uses cap("+types.ExprString(s.Args[0])+")", p.Pos(s), "the function clears what it exposes", "capacity of the word slice is consulted: growing into spare capacity re-exposes words that And/Shrink cut off but did not zero — removed bits come back")
						}
					}
				}
			case *ast.AssignStmt:
				for i, l := range s.Lhs {
					se, ok := ast.Unparen(l).(*ast.SelectorExpr)
					if !ok || i >= len(s.Rhs) {
						continue
					}
					if v, ok := info.Uses[se.Sel].(*types.Var); !ok || !v.IsField() || !isBitmaskNamed(info.TypeOf(se.X)) {
						continue
					}
					sl, ok := ast.Unparen(s.Rhs[i]).(*ast.SliceExpr)
					if !ok || sl.High == nil || types.ExprString(sl.X) != types.ExprString(se) {
						continue
					}
					n++
					// the bound must be derived from a len(): len(x)-k, len(other…), or a loop index below len
					hasLen := false
					ast.Inspect(sl.High, func(y ast.Node) bool {
						if c, ok := y.(*ast.CallExpr); ok && isBuiltin(info, c, "len") {
							hasLen = true
						}
						return true
					})
					r.Check(hasLen || clears, rule, f.Key()+" reslices "+types.ExprString(se)+"[:"+types.ExprString(sl.High)+"]", p.Pos(s), "bound derived from a length (shrinks only)", "the word slice is re-sliced to a bound that is not derived from a length: if it exceeds len, stale words from the backing array become visible")
				}
			}
			return true
		})
	}
	r.Note("%s: %d reslice/cap sites examined", rule, n)
	r.Floor(rule, 2, n)
}

// readOnlyStdlib: generic helpers of the standard library that only read the slices they are given
// (instantiations print as slices.Equal[…]; the origin's name decides).
func readOnlyStdlib(callee *ssa.Function) bool {
	o := callee
	if o.Origin() != nil {
		o = o.Origin()
	}
	if o.Pkg == nil || o.Pkg.Pkg == nil {
		return false
	}
	switch o.Pkg.Pkg.Path() {
	case "slices":
		switch o.Name() {
		case "Equal", "EqualFunc", "Compare", "CompareFunc", "Contains", "ContainsFunc", "Index", "IndexFunc",
			"BinarySearch", "BinarySearchFunc", "IsSorted", "IsSortedFunc", "Max", "MaxFunc", "Min", "MinFunc", "Clone", "All", "Values", "Backward":
			return true
		}
	case "bytes":
		switch o.Name() {
		case "Equal", "Compare", "Contains", "Index", "IndexByte", "HasPrefix", "HasSuffix":
			return true
		}
	case "sort":
		switch o.Name() {
		case "Search", "SearchInts", "SearchStrings", "SliceIsSorted":
			return true
		}
	}
	return false
}
