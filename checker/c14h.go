package main

// c14h.go: index expressions with a decidable bound (bounds.go).
//
//	C14-h  package query: an index v/c into an array or into a slice that always has a constant length by
//	       construction (maskParser's V4Mask/V6Mask) is bounded above and below on every path — Parse must not
//	       panic with an index out of range for a host mask like /200.
//	C15-i  package converters, C17-k package bitmask: a slice that is grown on demand in the same function
//	       (B = append(B, …) next to a comparison of the index variable with len(B)) is indexed only where
//	       v/c < len(B) has been established — by the exit edge of the growing loop, by the guard, or by a growth
//	       to exactly v+1 elements.

import (
	"fmt"
	"go/ast"
	"go/token"
	"go/types"
	"strings"
)

func init() {
	register("C14",
		"C14-h (FLOW, path-based bounds): in package query every index expression B[v/c] (c ≥ 1) whose B is an array or a slice with constant length k by construction is reached only where v < k·c and, for signed v, v ≥ 0 have been established after the last definition of v that could invalidate them — by a branch edge (`v < K`, `v >= K` false, switch cases), by a constant or range definition, or, for the lower bound, by v := w + C where w ≥ −C holds there (recursively). A host mask /N is user input: without the `i < 128` branch Parse panics for host:1.2.3.4/200.",
		func(p *Prog, r *Res) { ruleConstIndexBounded(p, r, "C14-h constant-length-index-bounded", "query") })
	register("C15",
		"C15-i (FLOW, path-based bounds): in package converters a slice that is grown on demand in the same function is indexed with v/c only where v < len(B)·c has been established on every path from the last definition of v (or shrinking assignment to B): by the exit edge of the growing loop `for v >= len(B)*c { B = append(B, …) }`, by a guard, or by growth to exactly v+1 elements. With `if` instead of `for` the record encoder of setData panics for a chunk index that is more than one byte of bitmask ahead.",
		func(p *Prog, r *Res) { ruleGrownIndexBounded(p, r, "C15-i grown-slice-index-bounded", "converters", 1) })
	register("C17",
		"C17-k (FLOW, path-based bounds): in package bitmask a word slice that is grown on demand in the same function is indexed with v/c only where v < len(B)·c has been established on every path (guard edge, growing loop, or growth to exactly v+1 words): Set and friends must not panic on a bit beyond the current length.",
		func(p *Prog, r *Res) { ruleGrownIndexBounded(p, r, "C17-k grown-slice-index-bounded", "bitmask", 1) })
}

func ruleConstIndexBounded(p *Prog, r *Res, rule, pkg string) {
	r.Rule(rule + ": B[v/c] on constant-length B needs 0 ≤ v < len·c on every path")
	n, skipped := 0, []string{}
	for _, f := range p.FnList {
		if f.Short != pkg || f.Body() == nil {
			continue
		}
		info := f.Pkg.TypesInfo
		var site *boundSite
		inspectShallow(f.Body(), func(x ast.Node) bool {
			ix, ok := x.(*ast.IndexExpr)
			if !ok {
				return true
			}
			if _, isConst := constInt(info, ix.Index); isConst {
				return true
			}
			t := info.TypeOf(ix.X)
			if t == nil {
				return true
			}
			var k int64 = -1
			switch u := t.Underlying().(type) {
			case *types.Array:
				k = u.Len()
			case *types.Pointer:
				if a, ok := u.Elem().Underlying().(*types.Array); ok {
					k = a.Len()
				}
			case *types.Slice:
				if kk, ok := constLenOfExpr(p, f, ix.X, map[types.Object]bool{}); ok && kk >= 0 {
					k = int64(kk)
				}
			}
			if k < 0 {
				return true
			}
			form, ok := indexForm(info, ix.Index)
			where := fmt.Sprintf("%s %s[%s]", f.Key(), exprString(p.Fset, ix.X), exprString(p.Fset, ix.Index))
			if !ok {
				skipped = append(skipped, where+" (index form)")
				return true
			}
			if site == nil {
				site = &boundSite{p: p, f: f, info: info, fl: p.Flow(f)}
			}
			pt, okp := site.fl.PointOf(ix)
			if !okp {
				skipped = append(skipped, where+" (not in the CFG)")
				return true
			}
			target := site.fl.node(pt)
			K := bnd{k: k * form.div}
			key := fmt.Sprintf("%s@%s", where, relLine(p, f, ix))
			upOK, dec, res := false, true, pathResult{}
			if site.sameNodeGuard(target, ix, func(c ast.Expr, te bool) bool {
				b, ok := site.upperFrom(c, form.v, te)
				return ok && bndLE(b, K)
			}) {
				upOK = true
			} else {
				upOK, dec, res = site.upperHolds(target, form.v, K)
			}
			if !dec {
				skipped = append(skipped, where+" (definitions of "+form.v.Name()+" cannot be followed)")
				return true
			}
			n++
			r.Check(upOK, rule, key+" upper", p.Pos(ix), fmt.Sprintf("%s < %d is established on every path from the last definition of %s", form.v.Name(), K.k, form.v.Name()), fmt.Sprintf("the index is reached with nothing bounding %s below %d (%s): B has %d elements, the expression panics with an index out of range", form.v.Name(), K.k, site.fl.traceString(res), k))
			loOK, decL, resL := site.lowerHolds(target, form.v, 0, 3)
			if !decL {
				skipped = append(skipped, where+" (lower bound: definitions cannot be followed)")
				return true
			}
			n++
			r.Check(loOK, rule, key+" lower", p.Pos(ix), fmt.Sprintf("%s ≥ 0 is established on every path", form.v.Name()), fmt.Sprintf("the index is reached with nothing keeping %s from being negative (%s): the expression panics with an index out of range", form.v.Name(), site.fl.traceString(resL)))
			return true
		})
	}
	if len(skipped) > 0 {
		r.Note("%s: %d index expressions outside the rule's vocabulary (not obligations): %s", rule, len(skipped), strings.Join(skipped, "; "))
	}
	r.Floor(rule, 30, n)
}

func ruleGrownIndexBounded(p *Prog, r *Res, rule, pkg string, floor int) {
	r.Rule(rule + ": a slice grown on demand is indexed only where the index has been brought below its length")
	n, skipped := 0, []string{}
	// growers: methods of the package that leave `param < len(recv.F)` behind on every way out (Set's growth moved
	// into a helper)
	type growerInfo struct {
		field *types.Var
		param int
	}
	growers := map[*types.Func]growerInfo{}
	for _, h := range p.FnList {
		if h.Short != pkg || h.Decl == nil || h.Body() == nil || h.Decl.Recv == nil || len(h.Decl.Recv.List) != 1 || len(h.Decl.Recv.List[0].Names) != 1 {
			continue
		}
		hinfo := h.Pkg.TypesInfo
		recv := hinfo.Defs[h.Decl.Recv.List[0].Names[0]]
		hobj, _ := hinfo.Defs[h.Decl.Name].(*types.Func)
		if recv == nil || hobj == nil {
			continue
		}
		// appends to recv.F
		var target *ast.SelectorExpr
		inspectShallow(h.Body(), func(x ast.Node) bool {
			as, ok := x.(*ast.AssignStmt)
			if !ok || len(as.Lhs) != 1 || len(as.Rhs) != 1 {
				return true
			}
			se, ok := ast.Unparen(as.Lhs[0]).(*ast.SelectorExpr)
			if !ok || identObj(hinfo, se.X) != recv {
				return true
			}
			if c, ok := ast.Unparen(as.Rhs[0]).(*ast.CallExpr); ok && isBuiltin(hinfo, c, "append") && len(c.Args) >= 1 && exprString(p.Fset, ast.Unparen(c.Args[0])) == exprString(p.Fset, se) {
				target = se
			}
			return true
		})
		if target == nil {
			continue
		}
		fld, _ := hinfo.Uses[target.Sel].(*types.Var)
		if fld == nil {
			continue
		}
		pi := 0
		for _, pf := range h.Decl.Type.Params.List {
			for _, nm := range pf.Names {
				q, _ := hinfo.Defs[nm].(*types.Var)
				if q != nil {
					if bt, ok := q.Type().Underlying().(*types.Basic); ok && bt.Info()&types.IsInteger != 0 {
						site := &boundSite{p: p, f: h, info: hinfo, fl: p.Flow(h), B: target, bStr: exprString(p.Fset, target)}
						if site.ensuresOnExit(q, bnd{sym: true, mult: 1}) {
							growers[hobj] = growerInfo{fld, pi}
						}
					}
				}
				pi++
			}
		}
	}
	for _, f := range p.FnList {
		if f.Short != pkg || f.Body() == nil {
			continue
		}
		info := f.Pkg.TypesInfo
		// slices appended to themselves in this function
		type grown struct {
			e   ast.Expr
			str string
		}
		var grows []grown
		inspectShallow(f.Body(), func(x ast.Node) bool {
			as, ok := x.(*ast.AssignStmt)
			if !ok || len(as.Lhs) != len(as.Rhs) {
				return true
			}
			for i, l := range as.Lhs {
				c, ok := ast.Unparen(as.Rhs[i]).(*ast.CallExpr)
				if !ok || !isBuiltin(info, c, "append") || len(c.Args) < 1 {
					continue
				}
				if exprString(p.Fset, ast.Unparen(c.Args[0])) == exprString(p.Fset, ast.Unparen(l)) {
					grows = append(grows, grown{l, exprString(p.Fset, ast.Unparen(l))})
				}
			}
			return true
		})
		// calls of growers: X.h(E) grows X.F
		type growCall struct {
			call *ast.CallExpr
			str  string
			arg  ast.Expr
		}
		var growCalls []growCall
		inspectShallow(f.Body(), func(x ast.Node) bool {
			c, ok := x.(*ast.CallExpr)
			if !ok {
				return true
			}
			fn := p.Callee(f.Pkg, c)
			if fn == nil {
				return true
			}
			gi, ok := growers[fn.Origin()]
			if !ok || gi.param >= len(c.Args) {
				return true
			}
			if se, ok := ast.Unparen(c.Fun).(*ast.SelectorExpr); ok {
				str := exprString(p.Fset, ast.Unparen(se.X)) + "." + gi.field.Name()
				growCalls = append(growCalls, growCall{c, str, c.Args[gi.param]})
				grows = append(grows, grown{nil, str})
			}
			return true
		})
		if len(grows) == 0 {
			continue
		}
		inspectShallow(f.Body(), func(x ast.Node) bool {
			ix, ok := x.(*ast.IndexExpr)
			if !ok {
				return true
			}
			if _, isSl := info.TypeOf(ix.X).Underlying().(*types.Slice); !isSl {
				return true
			}
			bStr := exprString(p.Fset, ast.Unparen(ix.X))
			var g *grown
			for i := range grows {
				if grows[i].str == bStr {
					g = &grows[i]
				}
			}
			if g == nil {
				return true
			}
			if _, isConst := constInt(info, ix.Index); isConst {
				return true
			}
			form, ok := indexForm(info, ix.Index)
			if !ok {
				return true
			}
			site := &boundSite{p: p, f: f, info: info, fl: p.Flow(f), B: ix.X, bStr: bStr}
			// on demand: the function compares the index variable with len(B) somewhere
			compares := false
			inspectShallow(f.Body(), func(y ast.Node) bool {
				if be, ok := y.(*ast.BinaryExpr); ok {
					switch be.Op {
					case token.LSS, token.LEQ, token.GTR, token.GEQ, token.EQL, token.NEQ:
						for _, pair := range [][2]ast.Expr{{be.X, be.Y}, {be.Y, be.X}} {
							if fm, ok := indexForm(info, pair[0]); ok && fm.v == form.v {
								if b, ok := site.boundExpr(pair[1]); ok && b.sym {
									compares = true
								}
							}
						}
					}
				}
				return true
			})
			for _, gc := range growCalls {
				if gc.str == bStr {
					if fm, ok := indexForm(info, gc.arg); ok && fm.v == form.v && fm.div == 1 {
						compares = true
						site.estCalls = append(site.estCalls, gc.call)
					}
				}
			}
			if !compares {
				return true
			}
			where := fmt.Sprintf("%s %s[%s]", f.Key(), bStr, exprString(p.Fset, ix.Index))
			pt, okp := site.fl.PointOf(ix)
			if !okp {
				skipped = append(skipped, where+" (not in the CFG)")
				return true
			}
			target := site.fl.node(pt)
			K := bnd{sym: true, mult: form.div}
			key := fmt.Sprintf("%s@%s", where, relLine(p, f, ix))
			upOK, dec, res := false, true, pathResult{}
			if site.sameNodeGuard(target, ix, func(c ast.Expr, te bool) bool {
				b, ok := site.upperFrom(c, form.v, te)
				return ok && bndLE(b, K)
			}) {
				upOK = true
			} else {
				upOK, dec, res = site.upperHolds(target, form.v, K)
			}
			if !dec {
				skipped = append(skipped, where+" (definitions of "+form.v.Name()+" cannot be followed)")
				return true
			}
			n++
			r.Check(upOK, rule, key, p.Pos(ix), fmt.Sprintf("%s/%d < len(%s) is established on every path from the last definition of %s and the last shrinking assignment to %s", form.v.Name(), form.div, bStr, form.v.Name(), bStr), fmt.Sprintf("the index is reached without %s/%d < len(%s) having been established (%s): the slice is grown on demand, and on this path it has not been grown far enough — index out of range", form.v.Name(), form.div, bStr, site.fl.traceString(res)))
			return true
		})
	}
	if len(skipped) > 0 {
		r.Note("%s: %d index expressions outside the rule's vocabulary (not obligations): %s", rule, len(skipped), strings.Join(skipped, "; "))
	}
	r.Floor(rule, floor, n)
}
