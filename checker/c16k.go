package main

// c16k.go: C16-k a converter is removed or reset only for its own file.
//
// The converter directory is watched; a converter is registered under the name of its executable without the extension
// (foo.py → foo). The handlers for remove / write / chmod events derived that name from the path of ANY file the event
// was about: deleting `foo.txt` or an editor backup next to `foo.py` unregistered converter foo, detached it from all
// tags and reset its cache although foo.py was untouched (#58); writing such a file reset the cache.
//
// Rule (FLOW): in package manager a function that derives a converter name from a path parameter
// (strings.TrimSuffix(filepath.Base(p), filepath.Ext(p))) reaches a destructive step on the registered converter —
// CachedConverter.Reset / Remove, a delete from Manager.converters, detachConverterFromTag — only over an edge of a condition
// that consults the converter's own ExecutablePath().

import (
	"fmt"
	"go/ast"
	"go/types"

	"golang.org/x/tools/go/cfg"
)

func init() {
	register("C16",
		"C16-k (FLOW): in package manager a function that derives a converter name from a path parameter (the file name without its extension) reaches a destructive step on the converter registered under that name — CachedConverter.Reset or Remove, delete from Manager.converters, detachConverterFromTag — only over an edge of a condition that reads the converter's ExecutablePath(). Events of the watched directory are about files; `foo.txt`, `foo.py~` and `foo.py` all give the name foo, and without the comparison deleting a sibling file removes converter foo with all its output.",
		func(p *Prog, r *Res) {
			const rule = "C16-k converter-addressed-by-its-own-file"
			r.Rule(rule + ": a name derived from a path is confirmed against the converter's executable before anything is dropped")
			reset := p.Method("converters", "CachedConverter", "Reset")
			// further methods of the converter that drop its cache (Remove since #65): they reach cacheFile.Reset
			cfReset := p.Method("converters", "cacheFile", "Reset")
			dropsCache := map[*types.Func]string{}
			for _, g := range p.FnList {
				if g.Short != "converters" || g.Decl == nil || g.Decl.Recv == nil || g.Body() == nil || recvTypeName(g.Decl.Recv.List[0].Type) != "CachedConverter" {
					continue
				}
				gobj, _ := g.Pkg.TypesInfo.Defs[g.Decl.Name].(*types.Func)
				if gobj == nil || gobj == reset {
					continue
				}
				for _, c := range callsIn(g.Body()) {
					fn := p.Callee(g.Pkg, c)
					if fn == nil {
						continue
					}
					if cfReset != nil && fn.Origin() == cfReset {
						dropsCache[gobj] = "CachedConverter." + gobj.Name()
					}
					if h := p.FnOfObj(fn); h != nil && h.Short == "converters" && h.Body() != nil {
						for _, c2 := range callsIn(h.Body()) {
							if fn2 := p.Callee(h.Pkg, c2); fn2 != nil && cfReset != nil && fn2.Origin() == cfReset {
								dropsCache[gobj] = "CachedConverter." + gobj.Name()
							}
						}
					}
				}
			}
			convFld := p.Field("manager", "Manager", "converters")
			detach := p.Method("manager", "Manager", "detachConverterFromTag")
			if reset == nil || convFld == nil {
				p.anchorFail("converters.CachedConverter.Reset / manager.Manager.converters")
				return
			}
			// helpers that turn a path into a converter name: one string in, one string out, TrimSuffix(…, filepath.Ext(…))
			nameHelpers := map[*types.Func]bool{}
			for _, g := range p.FnList {
				if g.Short != "manager" || g.Lit != nil || g.Decl == nil || g.Body() == nil || g.Decl.Type.Results == nil || len(g.Decl.Type.Results.List) != 1 {
					continue
				}
				ginfo := g.Pkg.TypesInfo
				if t := ginfo.TypeOf(g.Decl.Type.Results.List[0].Type); t == nil || types.TypeString(t, nil) != "string" {
					continue
				}
				hit := false
				inspectShallow(g.Body(), func(x ast.Node) bool {
					if c, ok := x.(*ast.CallExpr); ok {
						if fn := p.Callee(g.Pkg, c); fn != nil && fn.FullName() == "strings.TrimSuffix" && len(c.Args) == 2 {
							ast.Inspect(c.Args[1], func(y ast.Node) bool {
								if cc, ok := y.(*ast.CallExpr); ok {
									if e := p.Callee(g.Pkg, cc); e != nil && e.FullName() == "path/filepath.Ext" {
										hit = true
									}
								}
								return true
							})
						}
					}
					return true
				})
				if hit {
					if fo, ok := ginfo.Defs[g.Decl.Name].(*types.Func); ok {
						nameHelpers[fo] = true
					}
				}
			}
			n := 0
			for _, f := range p.FnList {
				if f.Short != "manager" || f.Decl == nil || f.Body() == nil {
					continue
				}
				if fo, ok := f.Pkg.TypesInfo.Defs[f.Decl.Name].(*types.Func); ok && nameHelpers[fo] {
					continue
				}
				info := f.Pkg.TypesInfo
				// string parameters
				params := map[types.Object]bool{}
				for _, fld := range f.Decl.Type.Params.List {
					for _, nm := range fld.Names {
						if o := info.Defs[nm]; o != nil && types.TypeString(o.Type(), nil) == "string" {
							params[o] = true
						}
					}
				}
				if len(params) == 0 {
					continue
				}
				// name := strings.TrimSuffix(filepath.Base(p), filepath.Ext(p)), in place or through a helper of the package
				derives := false
				inspectShallow(f.Body(), func(x ast.Node) bool {
					c, ok := x.(*ast.CallExpr)
					if !ok {
						return true
					}
					fn := p.Callee(f.Pkg, c)
					if fn != nil && nameHelpers[fn.Origin()] {
						for _, a := range c.Args {
							if params[identObj(info, a)] {
								derives = true
							}
						}
						return true
					}
					if fn == nil || fn.FullName() != "strings.TrimSuffix" || len(c.Args) != 2 {
						return true
					}
					usesParam, usesExt := false, false
					ast.Inspect(c, func(y ast.Node) bool {
						if id, ok := y.(*ast.Ident); ok && params[info.Uses[id]] {
							usesParam = true
						}
						if cc, ok := y.(*ast.CallExpr); ok {
							if g := p.Callee(f.Pkg, cc); g != nil && g.FullName() == "path/filepath.Ext" {
								usesExt = true
							}
						}
						return true
					})
					if usesParam && usesExt {
						derives = true
					}
					return true
				})
				if !derives {
					continue
				}
				exeLocals := map[types.Object]bool{}
				inspectShallow(f.Body(), func(x ast.Node) bool {
					if as, ok := x.(*ast.AssignStmt); ok && len(as.Lhs) == len(as.Rhs) {
						for i, l := range as.Lhs {
							uses := false
							ast.Inspect(as.Rhs[i], func(y ast.Node) bool {
								if c, ok := y.(*ast.CallExpr); ok {
									if se, ok := ast.Unparen(c.Fun).(*ast.SelectorExpr); ok && se.Sel.Name == "ExecutablePath" {
										uses = true
									}
								}
								return true
							})
							if o := identObj(info, l); o != nil && uses {
								exeLocals[o] = true
							}
						}
					}
					return true
				})
				fl := p.Flow(f)
				destructive := func(nd ast.Node) (bool, string) {
					hit, what := false, ""
					inspectShallow(nd, func(x ast.Node) bool {
						c, ok := x.(*ast.CallExpr)
						if !ok || hit {
							return true
						}
						if isBuiltin(info, c, "delete") && len(c.Args) == 2 && isFieldOf(info, c.Args[0], convFld) {
							hit, what = true, "delete(Manager.converters, …)"
						}
						if fn := p.Callee(f.Pkg, c); fn != nil {
							if fn.Origin() == reset {
								hit, what = true, "CachedConverter.Reset"
							}
							if w, ok := dropsCache[fn.Origin()]; ok {
								hit, what = true, w
							}
							if detach != nil && fn.Origin() == detach {
								hit, what = true, "detachConverterFromTag"
							}
						}
						return true
					})
					return hit, what
				}
				fl.EdgeOK = func(b *cfg.Block, succ int) bool {
					if len(b.Succs) != 2 || len(b.Nodes) == 0 {
						return true
					}
					cond, ok := b.Nodes[len(b.Nodes)-1].(ast.Expr)
					if !ok {
						return true
					}
					consults := false
					ast.Inspect(cond, func(y ast.Node) bool {
						if c, ok := y.(*ast.CallExpr); ok {
							if se, ok := ast.Unparen(c.Fun).(*ast.SelectorExpr); ok && se.Sel.Name == "ExecutablePath" {
								consults = true
							}
						}
						// a local that holds (something computed from) the executable path
						if id, ok := y.(*ast.Ident); ok && exeLocals[info.Uses[id]] {
							consults = true
						}
						return true
					})
					return !consults
				}
				for _, pt := range fl.Find(func(nd ast.Node) bool { h, _ := destructive(nd); return h }) {
					nd := fl.node(pt)
					_, what := destructive(nd)
					n++
					key := fmt.Sprintf("%s %s@%s", f.Key(), what, relLine(p, f, nd))
					res := fl.Reach([]Pt{fl.Entry()}, func(x ast.Node) bool { return x == nd }, nil)
					r.Check(!res.Found, rule, key, p.Pos(nd), "reached only after the path was compared with the converter's executable", "the converter registered under the name derived from the path is dropped or reset without a comparison of the path with its executable ("+fl.traceString(res)+"): an event about another file with the same base name (foo.txt, foo.py~) removes converter foo, detaches it from its tags and deletes its output")
				}
				fl.EdgeOK = nil
			}
			r.Floor(rule, 2, n)
		})
}
