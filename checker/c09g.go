package main

// c09g.go: C09-g a finished tagging job leaves its tag decided.
//
// startTaggingJobIfNeeded starts a job for every tag whose Uncertain mask is not empty, and the completion of a job
// installs the job's copy of the tag. If a job can post its completion with a non-empty Uncertain — for instance only
// the successful evaluation empties it — a tag whose definition cannot be evaluated (a converter that does not exist,
// a sub-query the engine refuses) is started again by its own completion, for ever: taggingJobRunning never stays
// false, merges never start. FLOW in Manager.updateTagJob: every path from the entry to the send on Manager.jobs passes
// an assignment of the empty mask to the Uncertain field of the job's tag copy; an immediately invoked closure counts
// only if each of its returns passes such an assignment.

import (
	"go/ast"
	"go/types"
)

func init() {
	register("C09",
		"C09-g (FLOW): in Manager.updateTagJob every path from the entry to the send of the completion on Manager.jobs passes an assignment of an empty bitmask to the Uncertain field of the job's by-value tag copy (inside an immediately invoked closure only if every return of the closure passes one): a job that can finish with its tag still pending — e.g. when only the successful evaluation clears the mask — is restarted by its own completion for ever whenever the definition cannot be evaluated.",
		func(p *Prog, r *Res) {
			const rule = "C09-g finished-job-leaves-tag-decided"
			r.Rule(rule + ": the tagging job clears Uncertain on every path to its completion")
			f := p.Fn("manager.Manager.updateTagJob")
			unc := p.Field("query", "TagDetails", "Uncertain")
			jobs := p.Field("manager", "Manager", "jobs")
			if f == nil || unc == nil || jobs == nil {
				return
			}
			info := f.Pkg.TypesInfo
			// the by-value tag parameter
			var tagParam types.Object
			for i := 0; ; i++ {
				o := paramObj(f, i)
				if o == nil {
					break
				}
				if nt := namedOf(o.Type()); nt != nil && nt.Obj().Name() == "tag" {
					tagParam = o
				}
			}
			if tagParam == nil {
				p.anchorFail("by-value tag parameter of manager.Manager.updateTagJob")
				return
			}
			clears := func(nd ast.Node) bool {
				as, ok := nd.(*ast.AssignStmt)
				if !ok {
					return false
				}
				for i, l := range as.Lhs {
					if !isFieldOf(info, l, unc) {
						continue
					}
					if ri := rootIdentOf(l); ri == nil || info.Uses[ri] != tagParam {
						continue
					}
					if i < len(as.Rhs) {
						if cl, ok := ast.Unparen(as.Rhs[i]).(*ast.CompositeLit); ok && len(cl.Elts) == 0 {
							return true
						}
					}
				}
				return false
			}
			var passes func(nd ast.Node) bool
			passes = func(nd ast.Node) bool {
				if clears(nd) {
					return true
				}
				// an immediately invoked closure all of whose returns pass a clearing assignment
				hit := false
				inspectShallow(nd, func(x ast.Node) bool {
					c, ok := x.(*ast.CallExpr)
					if !ok {
						return true
					}
					lit, ok := ast.Unparen(c.Fun).(*ast.FuncLit)
					if !ok {
						return true
					}
					g := p.FnOfLit(lit)
					if g == nil {
						return true
					}
					gfl := p.Flow(g)
					if !gfl.MustPass(clears).Found && !fallsOffEndAvoiding(gfl, gfl.Entry(), clears) {
						hit = true
					}
					return true
				})
				return hit
			}
			fl := p.Flow(f)
			sends := fl.Find(func(nd ast.Node) bool {
				s, ok := nd.(*ast.SendStmt)
				return ok && isFieldOf(info, s.Chan, jobs)
			})
			if len(sends) == 0 {
				p.anchorFail("send on Manager.jobs in manager.Manager.updateTagJob")
				return
			}
			for _, sp := range sends {
				send := fl.node(sp)
				res := fl.Reach([]Pt{fl.Entry()}, func(nd ast.Node) bool { return nd == send }, passes)
				r.Check(!res.Found, rule, f.Key()+" completion@"+relLine(p, f, send), p.Pos(send), "every path to the completion clears "+tagParam.Name()+".Uncertain", "the completion can be posted with the tag still pending ("+fl.traceString(res)+"): when the evaluation fails, the completion's startTaggingJobIfNeeded starts the same job again, for ever — taggingJobRunning never stays false and merges never start")
			}
			r.Floor(rule, 1, len(sends))
		})
}
