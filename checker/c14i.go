package main

// c14i.go: C14-i every step that deepens the nesting is followed by the bound check.
//
// C14-g requires a guard function with a bounded comparison in front of the recursive-descent parser. The guard counts
// levels while it walks the tokens; the count is only a bound if the comparison sees every increase. Seeded C14k moves
// the comparison into the bracket-open case ("the only place where the nesting gets deeper"): negations directly in
// front of a term are counted but never compared, and 2·10⁶ leading `-` overflow the stack again.
//
// Rule (FLOW, block level): in every guard function (package query, error result, returns an error under a comparison
// with a constant, does not enter the parser) every increase of an integer variable that flows into the compared
// expression — v++, v += e, inside the loop that holds the comparison — is followed by the comparison before the loop
// head is reached again.

import (
	"fmt"
	"go/ast"
	"go/token"
	"go/types"
	"strings"

	"golang.org/x/tools/go/cfg"
)

func init() {
	register("C14",
		"C14-i (FLOW, block level): in the nesting guard of query.Parse (C14-g) every increase (v++, v += e) of an integer variable that flows into the expression compared with the bound is followed, before the token loop starts its next iteration, by that comparison. A counter that is increased on one kind of token and compared only on another is not bounded: with the check inside the bracket-open case, 2·10⁶ negations in front of a term are accepted and the parser overflows the stack — a fatal error no recover() catches.",
		func(p *Prog, r *Res) {
			const rule = "C14-i every-deepening-step-is-checked"
			r.Rule(rule + ": no counter that feeds the depth bound grows without the bound being tested in the same iteration")
			n := 0
			for _, f := range p.FnList {
				if f.Short != "query" || f.Decl == nil || f.Body() == nil {
					continue
				}
				info := f.Pkg.TypesInfo
				sig, _ := info.Defs[f.Decl.Name].Type().(*types.Signature)
				if sig == nil || sig.Results().Len() != 1 || !types.Identical(sig.Results().At(0).Type(), types.Universe.Lookup("error").Type()) {
					continue
				}
				// a guard takes the text it bounds and nothing else: func(string) error
				if sig.Recv() != nil || sig.Params().Len() != 1 || types.TypeString(sig.Params().At(0).Type(), nil) != "string" {
					continue
				}
				// bound comparisons: `if <int expr> > const { return err }` inside a loop
				type bound struct {
					ifs  *ast.IfStmt
					cmp  *ast.BinaryExpr
					loop ast.Stmt
				}
				var bounds []bound
				entersParser := false
				inspectParents(f.Body(), func(x ast.Node, parents []ast.Node) bool {
					if c, ok := x.(*ast.CallExpr); ok {
						if se, ok := ast.Unparen(c.Fun).(*ast.SelectorExpr); ok && strings.HasPrefix(se.Sel.Name, "Parse") {
							if t := info.TypeOf(se.X); t != nil && strings.Contains(types.TypeString(t, nil), "participle") {
								entersParser = true
							}
						}
					}
					ifs, ok := x.(*ast.IfStmt)
					if !ok || len(ifs.Body.List) == 0 {
						return true
					}
					if ret, ok := ifs.Body.List[len(ifs.Body.List)-1].(*ast.ReturnStmt); !ok || !isErrReturn(info, ret) {
						return true
					}
					var loop ast.Stmt
					for _, par := range parents {
						switch par.(type) {
						case *ast.ForStmt, *ast.RangeStmt:
							loop = par.(ast.Stmt)
						}
					}
					if loop == nil {
						return true
					}
					for _, cj := range conjuncts(ifs.Cond) {
						be, ok := ast.Unparen(cj).(*ast.BinaryExpr)
						if !ok {
							continue
						}
						switch be.Op {
						case token.GTR, token.GEQ, token.LSS, token.LEQ:
						default:
							continue
						}
						_, cx := constInt(info, be.X)
						_, cy := constInt(info, be.Y)
						if cx != cy {
							bounds = append(bounds, bound{ifs, be, loop})
						}
					}
					return true
				})
				if len(bounds) == 0 || entersParser {
					continue
				}
				fl := p.Flow(f)
				for _, b := range bounds {
					// integer variables feeding the compared expression (transitively through assignments in f)
					feeds := map[types.Object]bool{}
					var mark func(e ast.Node)
					mark = func(e ast.Node) {
						ast.Inspect(e, func(y ast.Node) bool {
							id, ok := y.(*ast.Ident)
							if !ok {
								return true
							}
							o, ok := info.Uses[id].(*types.Var)
							if !ok || o.IsField() || feeds[o] {
								return true
							}
							if bt, ok := o.Type().Underlying().(*types.Basic); !ok || bt.Info()&types.IsInteger == 0 {
								return true
							}
							feeds[o] = true
							ast.Inspect(f.Body(), func(z ast.Node) bool {
								if as, ok := z.(*ast.AssignStmt); ok {
									for i, l := range as.Lhs {
										if identObj(info, l) == types.Object(o) {
											if len(as.Lhs) == len(as.Rhs) {
												mark(as.Rhs[i])
											}
										}
									}
								}
								return true
							})
							return true
						})
					}
					mark(b.cmp)
					var head []*cfg.Block
					for _, blk := range fl.G.Blocks {
						if blk.Stmt == b.loop && (blk.Kind == cfg.KindRangeLoop || blk.Kind == cfg.KindForLoop || blk.Kind == cfg.KindForPost) {
							head = append(head, blk)
						}
					}
					isHead := func(x *cfg.Block) bool {
						for _, h := range head {
							if h == x {
								return true
							}
						}
						return false
					}
					isCheck := func(nd ast.Node) bool {
						e, ok := nd.(ast.Expr)
						return ok && containsNode(e, b.cmp) || nd == ast.Node(b.ifs.Cond)
					}
					for _, pt := range fl.Find(func(nd ast.Node) bool {
						if !(b.loop.Pos() <= nd.Pos() && nd.End() <= b.loop.End()) {
							return false
						}
						switch s := nd.(type) {
						case *ast.IncDecStmt:
							return s.Tok == token.INC && feeds[identObj(info, s.X)]
						case *ast.AssignStmt:
							return s.Tok == token.ADD_ASSIGN && len(s.Lhs) == 1 && feeds[identObj(info, s.Lhs[0])]
						}
						return false
					}) {
						inc := fl.node(pt)
						n++
						incText := ""
						switch st := inc.(type) {
						case *ast.IncDecStmt:
							incText = exprString(p.Fset, st.X) + "++"
						case *ast.AssignStmt:
							incText = exprString(p.Fset, st.Lhs[0]) + " += " + exprString(p.Fset, st.Rhs[0])
						}
						key := fmt.Sprintf("%s %s is followed by the bound check", f.Key(), incText)
						type st struct {
							b *cfg.Block
							i int
						}
						seen := map[st]bool{}
						work := []st{{pt.B, pt.I + 1}}
						found := false
						for len(work) > 0 && !found {
							s := work[0]
							work = work[1:]
							if seen[s] {
								continue
							}
							seen[s] = true
							if isHead(s.b) {
								found = true
								break
							}
							if s.i < len(s.b.Nodes) {
								nd := s.b.Nodes[s.i]
								if isCheck(nd) || isReturn(nd) {
									continue
								}
								work = append(work, st{s.b, s.i + 1})
								continue
							}
							for _, nb := range s.b.Succs {
								work = append(work, st{nb, 0})
							}
						}
						r.Check(!found, rule, key, p.Pos(inc), "the comparison with the bound lies on every path to the next iteration", "the counter grows and the loop goes on to the next token without the comparison with the bound: the depth the guard lets through is not bounded on this kind of token, and the recursive-descent parser behind it overflows the stack for a long enough run of them")
					}
				}
			}
			r.Floor(rule, 2, n)
		})
}
