package main

// c08o.go: C08-o a snapshot keeps what the reassembler still keeps.
//
// A reassembly snapshot lists the packets of every stream that is still open at the snapshot point, so that a later
// import can resume there instead of re-reading old captures. "Still open" for the snapshot meant "not flagged
// Complete". The reassembler disagrees: a TCP connection that has seen both FINs is flagged Complete but stays in its
// pool until it has been idle for five minutes (ReassemblyComplete answers false), and later packets — the last ACK of
// the close, sitting at the start of the next capture after a rotation — are still added to it. Resumed from a snapshot
// that had dropped the connection, the ACK opened a stream of its own: 10.0.1.1:80 -> 10.0.0.1:40000, endpoints swapped,
// one packet, a second id for one connection — while the same captures imported in one batch, or without a snapshot,
// give one stream (#87, probes/c08_snapshot_forgets_closed_connection). Seen in 1 of 24 (third hunt) and 2 of 40 (second
// hunt) snapshot-sized fuzz cases and in 143 streams of one 25000-flow run.
//
// Rule (typed AST): in package builder, in a loop over StreamFactory.Streams that fills a snapshot's referencedPackets,
// every `continue` that leaves a stream out lies under a condition that compares a packet time (a call of Before / After
// on a time.Time) — the idle test the reassembler itself applies; a skip on the stream's Flags alone is not enough.

import (
	"fmt"
	"go/ast"
	"go/token"
	"go/types"
)

func init() {
	register("C08",
		"C08-o (typed AST): in package builder, in the loop over StreamFactory.Streams that fills a snapshot's referencedPackets, every `continue` that leaves a stream out of the snapshot lies under a condition that compares a packet time (Before / After on a time.Time) — the idle test the reassembler applies. A connection flagged Complete stays in the reassembler's pool until it was idle for the inactivity timeout and still receives packets; a snapshot that leaves it out on the flag alone makes the final ACK of a close, read from the next capture, open a second stream for the same connection.",
		func(p *Prog, r *Res) {
			const rule = "C08-o snapshot-keeps-what-the-reassembler-keeps"
			r.Rule(rule + ": streams are left out of a snapshot only on an idle-time test")
			n := 0
			for _, f := range p.FnList {
				if f.Short != "builder" || f.Body() == nil {
					continue
				}
				info := f.Pkg.TypesInfo
				ast.Inspect(f.Body(), func(x ast.Node) bool {
					// the loop over the streams: a range over X.Streams or a counted loop bounded by len(X.Streams)
					var body *ast.BlockStmt
					var loopNode ast.Node
					switch l := x.(type) {
					case *ast.RangeStmt:
						if se, ok := ast.Unparen(l.X).(*ast.SelectorExpr); ok && se.Sel.Name == "Streams" {
							body, loopNode = l.Body, l
						}
					case *ast.ForStmt:
						if lx := countedLoopOver(info, l); lx != nil {
							if se, ok := ast.Unparen(lx).(*ast.SelectorExpr); ok && se.Sel.Name == "Streams" {
								body, loopNode = l.Body, l
							}
						}
					}
					if body == nil {
						return true
					}
					// the stores into the snapshot's map of referenced packets
					var stores []ast.Node
					ast.Inspect(body, func(y ast.Node) bool {
						if as, ok := y.(*ast.AssignStmt); ok {
							for _, l := range as.Lhs {
								if ix, ok := ast.Unparen(l).(*ast.IndexExpr); ok {
									if _, isMap := info.TypeOf(ix.X).Underlying().(*types.Map); isMap {
										if mv, ok := identObj(info, ix.X).(*types.Var); ok && mv.Pos() < loopNode.Pos() {
											stores = append(stores, as)
										}
									}
								}
							}
						}
						return true
					})
					if len(stores) == 0 {
						return true
					}
					timeTestRaw := func(e ast.Node) bool {
						hit := false
						ast.Inspect(e, func(y ast.Node) bool {
							if c, ok := y.(*ast.CallExpr); ok {
								if fn := p.Callee(f.Pkg, c); fn != nil && (fn.FullName() == "(time.Time).Before" || fn.FullName() == "(time.Time).After" || fn.FullName() == "(time.Time).Compare") {
									hit = true
								}
							}
							return !hit
						})
						return hit
					}
					// a condition is an idle-time test if it compares times itself or through a boolean defined from one
					timeTest := func(cond ast.Expr) bool {
						if timeTestRaw(cond) {
							return true
						}
						hit := false
						ast.Inspect(cond, func(z ast.Node) bool {
							id, ok := z.(*ast.Ident)
							if !ok {
								return true
							}
							o := info.Uses[id]
							if o == nil {
								return true
							}
							ast.Inspect(body, func(w ast.Node) bool {
								if as, ok := w.(*ast.AssignStmt); ok && len(as.Lhs) == len(as.Rhs) {
									for i, l := range as.Lhs {
										if identObj(info, l) == o && timeTestRaw(as.Rhs[i]) {
											hit = true
										}
									}
								}
								return true
							})
							return true
						})
						return hit
					}
					mentionsFlags := func(cond ast.Expr) bool {
						hit := false
						ast.Inspect(cond, func(z ast.Node) bool {
							if se, ok := z.(*ast.SelectorExpr); ok && se.Sel.Name == "Flags" {
								hit = true
							}
							return !hit
						})
						return hit
					}
					idx := 0
					// (a) every continue of this loop lies under an idle-time test
					inspectParents(body, func(y ast.Node, ps []ast.Node) bool {
						br, ok := y.(*ast.BranchStmt)
						if !ok || br.Tok != token.CONTINUE {
							return true
						}
						for _, q := range ps {
							switch q.(type) {
							case *ast.ForStmt, *ast.RangeStmt, *ast.FuncLit:
								return true
							}
						}
						idx++
						n++
						timed := false
						for _, q := range ps {
							if ifs, ok := q.(*ast.IfStmt); ok && timeTest(ifs.Cond) {
								timed = true
							}
						}
						key := fmt.Sprintf("%s snapshot leaves a stream out #%d", f.Key(), idx)
						r.Check(timed, rule, key, p.Pos(br), "under an idle-time test", "a stream is left out of the snapshot on a condition that does not look at the time of its last packet: the reassembler keeps a closed connection until it has been idle for the timeout, later packets of it (the last ACK of the close, in the next capture) then open a second stream with swapped endpoints when the import resumes from this snapshot")
						return true
					})
					// (b) no store of referenced packets depends on the stream's flags alone
					inspectParents(body, func(y ast.Node, ps []ast.Node) bool {
						isStore := false
						for _, st := range stores {
							if st == y {
								isStore = true
							}
						}
						if !isStore {
							return true
						}
						n++
						bad := false
						for _, q := range ps {
							if ifs, ok := q.(*ast.IfStmt); ok && mentionsFlags(ifs.Cond) && !timeTest(ifs.Cond) {
								bad = true
							}
						}
						key := fmt.Sprintf("%s snapshot records the packets of a stream", f.Key())
						r.Check(!bad, rule, key, p.Pos(y), "not conditional on the stream's flags", "the packets of a stream are recorded in the snapshot only under a condition on the stream's Flags: a connection flagged Complete is still in the reassembler's pool until it was idle for the timeout")
						return false
					})
					return true
				})
			}
			r.Floor(rule, 1, n)
		})
}
