package main

// c02k.go: C02-k the early exit is armed only for a single-key order.
//
// The sorted-section lookup that allows a scan to stop at "limit reached" (C02-g) is ordered by ONE stream field, the
// first sorting key. The result-owner closure decides "nothing better can follow" with the FULL comparator. With a
// second key the two disagree on streams that tie on the first key: the scan stops at a tied stream that is not
// better than the page's last entry although a later tied stream is. The lookup closure may therefore be created only
// where len(sorting) == 1 is established.

import (
	"go/ast"
	"go/constant"
	"go/token"
	"go/types"

	"golang.org/x/tools/go/cfg"
)

func init() {
	register("C02",
		"C02-k (FLOW with edge facts): in index.SearchStreams the function literal that becomes the sorted-section lookup handed to Reader.searchStreams (the closure that arms the early exit of C02-g) is created only on paths over an edge that establishes len(sorting) == 1 (the true edge of a conjunct `len(sorting) == 1`, `< 2`, `<= 1`; the false edge of `!= 1`, `> 1`, `>= 2`): the section is ordered by the first key alone, the page by all keys, and with ties on the first key the scan would stop before it has seen the tied stream a later key puts first.",
		func(p *Prog, r *Res) {
			const rule = "C02-k early-exit-only-for-single-key-order"
			r.Rule(rule + ": the sorted-section lookup exists only where len(sorting) == 1")
			f := p.Fn("index.SearchStreams")
			callee := p.Method("index", "Reader", "searchStreams")
			if f == nil || callee == nil {
				return
			}
			info := f.Pkg.TypesInfo
			// the []query.Sorting parameter
			var sortingParam types.Object
			for i := 0; ; i++ {
				o := paramObj(f, i)
				if o == nil {
					break
				}
				if sl, ok := o.Type().Underlying().(*types.Slice); ok {
					if nt := namedOf(sl.Elem()); nt != nil && nt.Obj().Name() == "Sorting" {
						sortingParam = o
					}
				}
			}
			// the lookup variable: the function-typed argument `func() ([]uint32, error)` of the searchStreams call
			var lookupVar types.Object
			for _, c := range callsIn(f.Body()) {
				if p.Callee(f.Pkg, c) != callee {
					continue
				}
				for _, a := range c.Args {
					if o := identObj(info, a); o != nil {
						if sig, ok := o.Type().Underlying().(*types.Signature); ok && sig.Params().Len() == 0 && sig.Results().Len() == 2 {
							lookupVar = o
						}
					}
				}
			}
			if sortingParam == nil || lookupVar == nil {
				p.anchorFail("sorting parameter / lookup variable of index.SearchStreams")
				return
			}
			fl := p.Flow(f)
			isLen := func(e ast.Expr) bool {
				c, ok := ast.Unparen(e).(*ast.CallExpr)
				return ok && isBuiltin(info, c, "len") && len(c.Args) == 1 && identObj(info, c.Args[0]) == sortingParam
			}
			constOf := func(e ast.Expr) (int64, bool) {
				if tv, ok := info.Types[e]; ok && tv.Value != nil && tv.Value.Kind() == constant.Int {
					return constant.Int64Val(tv.Value)
				}
				return 0, false
			}
			establishes := func(c ast.Expr, trueEdge bool) bool {
				be, ok := ast.Unparen(c).(*ast.BinaryExpr)
				if !ok {
					return false
				}
				op := be.Op
				var other ast.Expr
				switch {
				case isLen(be.X):
					other = be.Y
				case isLen(be.Y):
					other = be.X
					switch op {
					case token.LSS:
						op = token.GTR
					case token.GTR:
						op = token.LSS
					case token.LEQ:
						op = token.GEQ
					case token.GEQ:
						op = token.LEQ
					}
				default:
					return false
				}
				v, ok := constOf(other)
				if !ok {
					return false
				}
				if trueEdge {
					return (op == token.EQL && v == 1) || (op == token.LSS && v == 2) || (op == token.LEQ && v == 1)
				}
				return (op == token.NEQ && v == 1) || (op == token.GTR && v == 1) || (op == token.GEQ && v == 2)
			}
			// a boolean local with a single definition stands for its defining expression (useSortedSection := a && b && …)
			defOf := func(e ast.Expr) ast.Expr {
				id, ok := ast.Unparen(e).(*ast.Ident)
				if !ok {
					return nil
				}
				o := info.Uses[id]
				if o == nil {
					return nil
				}
				var def ast.Expr
				nDef := 0
				inspectShallow(f.Body(), func(y ast.Node) bool {
					if as, ok := y.(*ast.AssignStmt); ok && len(as.Lhs) == len(as.Rhs) {
						for i, l := range as.Lhs {
							if identObj(info, l) == o {
								nDef++
								def = as.Rhs[i]
							}
						}
					}
					return true
				})
				if nDef == 1 {
					return def
				}
				return nil
			}
			var holdsWhenTrue func(c ast.Expr, depth int) bool
			holdsWhenTrue = func(c ast.Expr, depth int) bool {
				for _, cj := range conjuncts(c) {
					if establishes(cj, true) {
						return true
					}
					if d := defOf(cj); d != nil && depth > 0 && holdsWhenTrue(d, depth-1) {
						return true
					}
				}
				return false
			}
			fl.EdgeOK = func(b *cfg.Block, succ int) bool {
				if len(b.Succs) != 2 || len(b.Nodes) == 0 {
					return true
				}
				cond, ok := b.Nodes[len(b.Nodes)-1].(ast.Expr)
				if !ok {
					return true
				}
				if succ == 0 {
					if holdsWhenTrue(cond, 2) {
						return false
					}
				} else {
					for _, c := range disjuncts(cond) {
						if establishes(c, false) {
							return false
						}
						if ue, ok := ast.Unparen(c).(*ast.UnaryExpr); ok && ue.Op == token.NOT && holdsWhenTrue(ue.X, 2) {
							return false
						}
					}
				}
				return true
			}
			n := 0
			for _, pt := range fl.Find(func(nd ast.Node) bool {
				as, ok := nd.(*ast.AssignStmt)
				if !ok || len(as.Lhs) != 1 || len(as.Rhs) != 1 || identObj(info, as.Lhs[0]) != lookupVar {
					return false
				}
				_, isLit := ast.Unparen(as.Rhs[0]).(*ast.FuncLit)
				return isLit
			}) {
				n++
				node := fl.node(pt)
				res := fl.Reach([]Pt{fl.Entry()}, func(nd ast.Node) bool { return nd == node }, nil)
				r.Check(!res.Found, rule, f.Key()+" arms "+lookupVar.Name()+"@"+relLine(p, f, node), p.Pos(node), "only where len("+sortingParam.Name()+") == 1", "the sorted-section lookup is created on a path on which the order may have more than one key ("+fl.traceString(res)+"): the section is sorted by the first key only, so with ties on it the scan stops before the tied stream that the next key puts first — the page holds the wrong streams")
			}
			fl.EdgeOK = nil
			r.Floor(rule, 1, n)
		})
}
