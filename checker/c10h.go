package main

// c10h.go: C10-h record positions are not compared across files.
//
// index.Stream.Index() is the position of the record inside its index file. Outside package index the reader a stream
// came from is not visible, so two such positions cannot be known to belong to one file: comparing them (to decide
// whether a stream is "the same record" as the newest version of its id) is wrong whenever the two versions sit at the
// same position of two different files.

import (
	"fmt"
	"go/ast"
	"go/token"
)

func init() {
	register("C10",
		"C10-h (typed AST): outside package index no comparison relates the record positions (index.Stream.Index()) of two different stream expressions: the position is relative to the index file, and code outside package index cannot establish that two streams come from the same file. A view that skips outdated versions by `newest.Index() != s.Index()` lists a continued stream twice whenever the old and the new version sit at the same position of two files.",
		func(p *Prog, r *Res) {
			const rule = "C10-h record-position-not-compared-across-files"
			r.Rule(rule + ": Stream.Index() of two streams is never compared outside package index")
			idx := p.Method("index", "Stream", "Index")
			if idx == nil {
				return
			}
			nCalls, n := 0, 0
			for _, f := range p.FnList {
				if f.Short == "index" || f.Body() == nil {
					continue
				}
				recvOf := func(e ast.Expr) (string, bool) {
					c, ok := ast.Unparen(e).(*ast.CallExpr)
					if !ok || p.Callee(f.Pkg, c) != idx {
						return "", false
					}
					se, ok := ast.Unparen(c.Fun).(*ast.SelectorExpr)
					if !ok {
						return "", false
					}
					return exprString(p.Fset, se.X), true
				}
				inspectShallow(f.Body(), func(x ast.Node) bool {
					if c, ok := x.(*ast.CallExpr); ok && p.Callee(f.Pkg, c) == idx {
						nCalls++
					}
					be, ok := x.(*ast.BinaryExpr)
					if !ok {
						return true
					}
					switch be.Op {
					case token.EQL, token.NEQ, token.LSS, token.GTR, token.LEQ, token.GEQ:
					default:
						return true
					}
					a, oka := recvOf(be.X)
					b, okb := recvOf(be.Y)
					if oka && okb && a != b {
						n++
						r.Bad(rule, fmt.Sprintf("%s compares %s.Index() with %s.Index()", f.Key(), a, b), p.Pos(be), "two record positions are compared although nothing says the two streams come from the same index file: equal positions in different files are different records")
					}
					return true
				})
			}
			r.Note("%s: %d calls of Stream.Index() outside package index, %d cross-stream comparisons", rule, nCalls, n)
			r.Ok(rule, "no cross-stream comparison of record positions outside package index", "", fmt.Sprintf("%d calls of Stream.Index() examined in packages other than index", nCalls))
		})
}
