package main

// c04m.go: C04-m giving up on the rest of the data needs a literal that is not there.
//
// progressVariant.find may skip the rest of a data source by moving the scan position to its end. That is sound when a
// literal every match must contain — the prefix or the suffix — does not occur in the rest (bytes.Index / LastIndex
// answered −1): no later call can match either. It is NOT sound after the expression itself failed to match: the element
// is tried again in the next recheck round, now on the EMPTY rest, and an expression that accepts empty input under an
// assertion (^$, ^\s*$, \A\z) matches there — `sdata:"\r\n\r\n" then sdata:"^$"` selected a stream whose data goes on
// behind the empty line (#60).
//
// Rule (FLOW): in package index every assignment of len(<data>) to progressVariant.streamOffset[…] — the position moved
// to the end of the data — is reached only over the true edge of a test `pos < 0` on a result of bytes.Index /
// bytes.LastIndex (or the corresponding `pos == -1`), or of a test that the rest is shorter than the shortest match
// (`len(rest) < ….MinLength`): it is still too short when it is tried again.

import (
	"fmt"
	"go/ast"
	"go/token"
	"go/types"

	"golang.org/x/tools/go/cfg"
)

func init() {
	register("C04",
		"C04-m (FLOW): in package index the scan position progressVariant.streamOffset[…] is moved to the end of the data (assigned len(…)) only over the true edge of a test that a literal search — bytes.Index / bytes.LastIndex for the prefix or suffix every match contains — answered −1, or that the rest is shorter than the shortest match. After a failed MATCH the position stays: the element is retried in the next round, and on an emptied rest an expression that accepts empty input under an assertion matches although the data behind the previous element is not empty.",
		func(p *Prog, r *Res) {
			const rule = "C04-m rest-skipped-only-without-the-literal"
			r.Rule(rule + ": the scan position jumps to the end only when a required literal is absent")
			fld := p.Field("index", "progressVariant", "streamOffset")
			if fld == nil {
				p.anchorFail("index.progressVariant.streamOffset")
				return
			}
			n := 0
			for _, f := range p.FnList {
				if f.Short != "index" || f.Body() == nil {
					continue
				}
				info := f.Pkg.TypesInfo
				// locals assigned from bytes.Index / LastIndex
				literalPos := map[types.Object]bool{}
				inspectShallow(f.Body(), func(x ast.Node) bool {
					if as, ok := x.(*ast.AssignStmt); ok && len(as.Lhs) == 1 && len(as.Rhs) == 1 {
						if c, ok := ast.Unparen(as.Rhs[0]).(*ast.CallExpr); ok {
							if fn := p.Callee(f.Pkg, c); fn != nil && (fn.FullName() == "bytes.Index" || fn.FullName() == "bytes.LastIndex") {
								if o := identObj(info, as.Lhs[0]); o != nil {
									literalPos[o] = true
								}
							}
						}
					}
					return true
				})
				fl := p.Flow(f)
				mentionsLen := func(e ast.Expr) bool {
					hit := false
					ast.Inspect(e, func(y ast.Node) bool {
						if c, ok := y.(*ast.CallExpr); ok && isBuiltin(info, c, "len") {
							hit = true
						}
						return !hit
					})
					return hit
				}
				mentionsMinLength := func(e ast.Expr) bool {
					hit := false
					ast.Inspect(e, func(y ast.Node) bool {
						if se, ok := y.(*ast.SelectorExpr); ok && se.Sel.Name == "MinLength" {
							hit = true
						}
						return !hit
					})
					return hit
				}
				absent := func(c ast.Expr, trueEdge bool) bool {
					be, ok := ast.Unparen(c).(*ast.BinaryExpr)
					if !ok {
						return false
					}
					// the rest is shorter than every match: it stays too short when it is tried again
					if be.Op == token.LSS && trueEdge && mentionsLen(be.X) && mentionsMinLength(be.Y) {
						return true
					}
					if be.Op == token.GEQ && !trueEdge && mentionsLen(be.X) && mentionsMinLength(be.Y) {
						return true
					}
					if !literalPos[identObj(info, be.X)] {
						return false
					}
					k, isC := constInt(info, be.Y)
					if !isC {
						return false
					}
					switch be.Op {
					case token.LSS:
						return trueEdge && k == 0
					case token.EQL:
						return trueEdge && k == -1
					case token.GEQ:
						return !trueEdge && k == 0
					case token.NEQ:
						return !trueEdge && k == -1
					}
					return false
				}
				for _, pt := range fl.Find(func(nd ast.Node) bool {
					as, ok := nd.(*ast.AssignStmt)
					if !ok || as.Tok != token.ASSIGN || len(as.Lhs) != 1 || len(as.Rhs) != 1 {
						return false
					}
					ix, ok := ast.Unparen(as.Lhs[0]).(*ast.IndexExpr)
					if !ok || !isFieldOf(info, ix.X, fld) {
						return false
					}
					c, ok := ast.Unparen(as.Rhs[0]).(*ast.CallExpr)
					return ok && isBuiltin(info, c, "len")
				}) {
					nd := fl.node(pt)
					n++
					key := fmt.Sprintf("%s moves the scan position to the end@%s", f.Key(), relLine(p, f, nd))
					g := p.Flow(f)
					g.EdgeOK = func(b *cfg.Block, succ int) bool {
						if len(b.Succs) != 2 || len(b.Nodes) == 0 {
							return true
						}
						cond, ok := b.Nodes[len(b.Nodes)-1].(ast.Expr)
						if !ok {
							return true
						}
						if succ == 0 {
							for _, c := range conjuncts(cond) {
								if absent(c, true) {
									return false
								}
							}
						} else {
							for _, c := range disjuncts(cond) {
								if absent(c, false) {
									return false
								}
							}
						}
						return true
					}
					res := g.Reach([]Pt{g.Entry()}, func(x ast.Node) bool { return x == nd }, nil)
					r.Check(!res.Found, rule, key, p.Pos(nd), "reached only where bytes.Index / LastIndex answered −1 for a literal every match contains", "the rest of the data is skipped without a literal search having failed ("+g.traceString(res)+"): after a failed match the element is tried again on the emptied rest, where ^$ and its kin match — a later element of a sequence is accepted although the data behind the previous one does not match it")
				}
			}
			r.Floor(rule, 2, n)
		})
}
