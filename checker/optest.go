package main

// optest.go: which expressions / functions answer "the program has an empty-width assertion".
//
// Shared by C04-i / C18-d (suffix) and C04-j (prefix). An expression is an assertion test when it is
//   - X.Op == syntax.InstEmptyWidth,
//   - slices.ContainsFunc(_, lit) with a literal whose body answers by such a test,
//   - a call of a function of the repository that answers by such a test (its first result).
// A function body answers when it has `return E…` with an assertion-test disjunct in E, or
// `if <assertion-test disjunct> { …; return true… }`.

import (
	"go/ast"
	"go/token"
)

type opTestInfo struct {
	p       *Prog
	answers map[*Fn]bool
}

func isOpEqTest(c ast.Expr) bool {
	be, ok := ast.Unparen(c).(*ast.BinaryExpr)
	if !ok || be.Op != token.EQL {
		return false
	}
	for _, side := range []ast.Expr{be.X, be.Y} {
		if se, ok := ast.Unparen(side).(*ast.SelectorExpr); ok && se.Sel.Name == "InstEmptyWidth" {
			return true
		}
	}
	return false
}

func newOpTestInfo(p *Prog) *opTestInfo {
	oi := &opTestInfo{p: p, answers: map[*Fn]bool{}}
	for changed := true; changed; {
		changed = false
		for _, h := range p.FnList {
			if h.Body() == nil || h.Lit != nil || oi.answers[h] {
				continue
			}
			if oi.bodyAnswers(h, h.Body()) {
				oi.answers[h] = true
				changed = true
			}
		}
	}
	return oi
}

// isTest: e (evaluated in function f) is true exactly when the program has an assertion
func (oi *opTestInfo) isTest(f *Fn, e ast.Expr) bool {
	e = ast.Unparen(e)
	if isOpEqTest(e) {
		return true
	}
	call, ok := e.(*ast.CallExpr)
	if !ok {
		return false
	}
	fn := oi.p.Callee(f.Pkg, call)
	if fn == nil {
		return false
	}
	if fn.FullName() == "slices.ContainsFunc" && len(call.Args) == 2 {
		if lit, ok := ast.Unparen(call.Args[1]).(*ast.FuncLit); ok && oi.bodyAnswers(f, lit.Body) {
			return true
		}
	}
	if h := oi.p.FnOfObj(fn); h != nil && oi.answers[h] {
		return true
	}
	return false
}

func (oi *opTestInfo) bodyAnswers(f *Fn, body *ast.BlockStmt) bool {
	hit := false
	inspectShallow(body, func(x ast.Node) bool {
		switch y := x.(type) {
		case *ast.ReturnStmt:
			if len(y.Results) >= 1 {
				for _, d := range disjuncts(y.Results[0]) {
					if oi.isTest(f, d) {
						hit = true
					}
				}
			}
		case *ast.IfStmt:
			if len(y.Body.List) > 0 {
				if ret, ok := y.Body.List[len(y.Body.List)-1].(*ast.ReturnStmt); ok && len(ret.Results) >= 1 {
					if id, ok := ast.Unparen(ret.Results[0]).(*ast.Ident); ok && id.Name == "true" {
						for _, d := range disjuncts(y.Cond) {
							if oi.isTest(f, d) {
								hit = true
							}
						}
					}
				}
			}
		}
		return true
	})
	return hit
}
