package main

// c20d.go: C20-d / C10-g a slice field whose elements were handed to a goroutine is never rewritten in place.
//
// `go mgr.importPcapJob(mgr.importJobs[:n], …)` gives the job a window into the backing array of Manager.importJobs;
// the job reads it when it reports which captures it processed. The service goroutine may go on APPENDING to the
// field (that writes behind every window handed out) and may RE-SLICE it (that writes nothing), but it must not move
// elements inside the array: `append(F[:0], F[k:]...)`, `copy(F, …)`, `slices.Delete(F, …)`, `F[i] = …` rewrite the
// window under the job.

import (
	"fmt"
	"go/ast"
	"go/types"
)

func init() {
	const expl = "(typed AST, ownership): a slice-typed field of Manager of which a (sub-)slice is passed as an argument of a `go` statement is, anywhere in package manager, only assigned a re-slice of itself, an append to the whole field, or a value that does not mention it; no element store F[i] = …, no copy(F…, …), no append(F[:k], …), no slices.Delete/Insert/Replace on it. The job keeps reading its window (the processed-files report, the webhook list) after the service loop has moved on; compacting the queue in place shows the job the names of captures it never imported."
	register("C20", "C20-d "+expl, func(p *Prog, r *Res) { ruleHandedOffField(p, r, "C20-d handed-off-field-not-rewritten") })
	register("C10", "C10-g "+expl, func(p *Prog, r *Res) { ruleHandedOffField(p, r, "C10-g handed-off-field-not-rewritten") })
}

func ruleHandedOffField(p *Prog, r *Res, rule string) {
	r.Rule(rule + ": fields whose windows were handed to goroutines are append-only / re-slice-only")
	mgrT := p.Named("manager", "Manager")
	if mgrT == nil {
		return
	}
	fieldOf := func(info *types.Info, e ast.Expr) *types.Var {
		for {
			switch x := ast.Unparen(e).(type) {
			case *ast.SliceExpr:
				e = x.X
				continue
			case *ast.SelectorExpr:
				if v, ok := info.Uses[x.Sel].(*types.Var); ok && v.IsField() {
					if _, isSl := v.Type().Underlying().(*types.Slice); isSl {
						if nt := namedOf(derefType(info.TypeOf(x.X))); nt == mgrT {
							return v
						}
					}
				}
			}
			return nil
		}
	}
	handed := map[*types.Var]string{}
	for _, f := range p.FnList {
		if f.Short != "manager" || f.Body() == nil {
			continue
		}
		info := f.Pkg.TypesInfo
		inspectShallow(f.Body(), func(x ast.Node) bool {
			gs, ok := x.(*ast.GoStmt)
			if !ok {
				return true
			}
			for _, a := range gs.Call.Args {
				if fld := fieldOf(info, a); fld != nil && handed[fld] == "" {
					handed[fld] = p.Pos(gs)
				}
			}
			return true
		})
	}
	n := 0
	for _, f := range p.FnList {
		if f.Short != "manager" || f.Body() == nil {
			continue
		}
		info := f.Pkg.TypesInfo
		mentions := func(e ast.Node, fld *types.Var) bool {
			hit := false
			ast.Inspect(e, func(y ast.Node) bool {
				if se, ok := y.(*ast.SelectorExpr); ok && info.Uses[se.Sel] == types.Object(fld) {
					hit = true
				}
				return !hit
			})
			return hit
		}
		inspectShallow(f.Body(), func(x ast.Node) bool {
			switch s := x.(type) {
			case *ast.AssignStmt:
				for i, l := range s.Lhs {
					// element store F[i] = …
					if ix, ok := ast.Unparen(l).(*ast.IndexExpr); ok {
						if fld := fieldOf(info, ix.X); fld != nil && handed[fld] != "" {
							n++
							r.Bad(rule, fmt.Sprintf("%s stores into %s", f.Key(), exprString(p.Fset, l)), p.Pos(s), "an element of a field whose window was handed to a goroutine at "+handed[fld]+" is overwritten in place: the job still reads that window")
						}
						continue
					}
					se, ok := ast.Unparen(l).(*ast.SelectorExpr)
					if !ok {
						continue
					}
					fld, _ := info.Uses[se.Sel].(*types.Var)
					if fld == nil || handed[fld] == "" || i >= len(s.Rhs) || len(s.Lhs) != len(s.Rhs) {
						continue
					}
					n++
					key := fmt.Sprintf("%s %s = %s", f.Key(), exprString(p.Fset, l), exprString(p.Fset, s.Rhs[i]))
					rh := ast.Unparen(s.Rhs[i])
					switch v := rh.(type) {
					case *ast.SliceExpr:
						if fieldOf(info, v.X) == fld {
							r.Ok(rule, key, p.Pos(s), "re-slice of the field: nothing is written")
							continue
						}
					case *ast.CallExpr:
						if isBuiltin(info, v, "append") && len(v.Args) >= 1 {
							if base, ok := ast.Unparen(v.Args[0]).(*ast.SelectorExpr); ok && info.Uses[base.Sel] == types.Object(fld) {
								r.Ok(rule, key, p.Pos(s), "append to the whole field: writes only behind every window handed out")
								continue
							}
							if mentions(v.Args[0], fld) {
								r.Bad(rule, key, p.Pos(s), "the field is compacted in place (append onto a prefix of itself): the elements move under the window that was handed to a goroutine at "+handed[fld]+"; the job's later read of its file names sees the names of other captures")
								continue
							}
						}
						if fn := p.Callee(f.Pkg, v); fn != nil && fn.Pkg() != nil && fn.Pkg().Path() == "slices" && len(v.Args) >= 1 && mentions(v.Args[0], fld) {
							switch fn.Name() {
							case "Delete", "DeleteFunc", "Insert", "Replace", "Compact", "CompactFunc":
								r.Bad(rule, key, p.Pos(s), "slices."+fn.Name()+" moves the elements of the field in place under the window handed to a goroutine at "+handed[fld])
								continue
							}
						}
					}
					if !mentions(rh, fld) {
						r.Ok(rule, key, p.Pos(s), "a value that does not share the field's array")
						continue
					}
					r.Exempt(rule, key, p.Pos(s), "derived from the field in a way this rule does not classify")
				}
			case *ast.CallExpr:
				if isBuiltin(info, s, "copy") && len(s.Args) == 2 {
					if fld := fieldOf(info, s.Args[0]); fld != nil && handed[fld] != "" {
						n++
						r.Bad(rule, fmt.Sprintf("%s copy into %s", f.Key(), exprString(p.Fset, s.Args[0])), p.Pos(s), "copy into a field whose window was handed to a goroutine at "+handed[fld])
					}
				}
			}
			return true
		})
	}
	r.Note("%s: fields with windows handed to goroutines: %d", rule, len(handed))
	r.Floor(rule, 1, n)
}
