package main

// c05j.go: C05-j an update of flow state is not made on a copy that is thrown away.
//
// The UDP assembler keeps one `connection` value per flow in a slice per hash bucket; "this flow was active at t" is the
// assignment cs[i].lastActivity = t, and FlushCloseOlderThan closes the flows whose lastActivity is older than five
// minutes. Seeded C05n extracted the lookup into a helper that returns the connection BY VALUE and wrote
// `c.lastActivity = ts` into that local copy: go vet is silent, the field of the stored element never changes, every UDP
// flow is closed five minutes after it began however active it is, and its later datagrams open a second stream.
//
// Rule (FLOW): in the packages of the import path (builder, udpreassembly, streams, index) an assignment X.F = E to a
// field of a local variable X of struct type (a value, not a pointer) is followed on some path by a read of X.F or by a
// use of X as a whole (stored, passed, returned, its address taken, captured by a literal); otherwise the update dies
// with the copy.

import (
	"fmt"
	"go/ast"
	"go/token"
	"go/types"
)

func init() {
	register("C05",
		"C05-j (FLOW): in packages builder, udpreassembly, streams and index an assignment X.F = E to a field of a local variable X of struct type — a value, not a pointer — is followed on some path by a read of X.F or by a use of X as a whole (stored back, passed, returned, address taken, captured by a function literal). An update that is only ever made on a copy is lost: `c.lastActivity = ts` on the connection a lookup helper returned by value leaves the stored flow untouched, the flow is closed five minutes after its first datagram, and the datagrams after that form a second stream.",
		func(p *Prog, r *Res) {
			const rule = "C05-j no-update-on-a-dead-copy"
			r.Rule(rule + ": a field assignment on a local struct value is read again or the value is used as a whole")
			n := 0
			for _, f := range p.FnList {
				switch f.Short {
				case "builder", "udpreassembly", "streams", "index":
				default:
					continue
				}
				if f.Body() == nil {
					continue
				}
				info := f.Pkg.TypesInfo
				fl := p.Flow(f)
				// variables captured by a nested literal are used as a whole
				captured := map[types.Object]bool{}
				ast.Inspect(f.Body(), func(x ast.Node) bool {
					if lit, ok := x.(*ast.FuncLit); ok && (f.Lit == nil || lit != f.Lit) {
						ast.Inspect(lit.Body, func(y ast.Node) bool {
							if id, ok := y.(*ast.Ident); ok {
								if o := info.Uses[id]; o != nil {
									captured[o] = true
								}
							}
							return true
						})
						return false
					}
					return true
				})
				for _, pt := range fl.Find(func(nd ast.Node) bool {
					as, ok := nd.(*ast.AssignStmt)
					return ok && (as.Tok == token.ASSIGN || as.Tok == token.ADD_ASSIGN || as.Tok == token.SUB_ASSIGN || as.Tok == token.OR_ASSIGN)
				}) {
					as := fl.node(pt).(*ast.AssignStmt)
					for _, l := range as.Lhs {
						se, ok := ast.Unparen(l).(*ast.SelectorExpr)
						if !ok {
							continue
						}
						id, ok := ast.Unparen(se.X).(*ast.Ident)
						if !ok {
							continue
						}
						v, ok := info.Uses[id].(*types.Var)
						if !ok || v.IsField() || captured[v] {
							continue
						}
						// a local declared in this function (not a parameter: the caller may look at a by-value
						// parameter? no — but named results are read by the caller)
						if !(f.Body().Pos() <= v.Pos() && v.Pos() < f.Body().End()) {
							continue
						}
						if _, isStruct := v.Type().Underlying().(*types.Struct); !isStruct {
							continue
						}
						fld, ok := info.Uses[se.Sel].(*types.Var)
						if !ok || !fld.IsField() {
							continue
						}
						n++
						key := fmt.Sprintf("%s %s.%s = …@%s", f.Key(), v.Name(), fld.Name(), relLine(p, f, as))
						live := func(nd ast.Node) bool {
							hit := false
							inspectParents(nd, func(y ast.Node, parents []ast.Node) bool {
								yid, ok := y.(*ast.Ident)
								if !ok || info.Uses[yid] != types.Object(v) || hit {
									return true
								}
								// v.G …
								if len(parents) > 0 {
									if ps, ok := parents[len(parents)-1].(*ast.SelectorExpr); ok && ps.X == ast.Expr(yid) {
										if info.Uses[ps.Sel] != types.Object(fld) {
											// another field: but a method call on v uses v as a whole
											if _, isMethod := info.Selections[ps]; isMethod && info.Selections[ps].Kind() != types.FieldVal {
												hit = true
											}
											return true
										}
										// v.F: a read unless it is the target of a plain assignment
										if len(parents) > 1 {
											if pas, ok := parents[len(parents)-2].(*ast.AssignStmt); ok && pas.Tok == token.ASSIGN {
												for _, pl := range pas.Lhs {
													if pl == ast.Expr(ps) {
														return true
													}
												}
											}
										}
										hit = true
										return true
									}
								}
								hit = true // v as a whole
								return true
							})
							return hit
						}
						res := fl.Reach([]Pt{After(pt)}, live, nil)
						// the assignment itself may read v on its right-hand side; that does not keep the write alive
						r.Check(res.Found, rule, key, p.Pos(as), "the field is read again or the value is used as a whole afterwards", fmt.Sprintf("%s is a local copy of a %s; after this assignment neither %s.%s is read nor is %s stored, passed or returned: the update is lost with the copy — the value it was copied from keeps its old %s", v.Name(), types.TypeString(v.Type(), func(pk *types.Package) string { return pk.Name() }), v.Name(), fld.Name(), v.Name(), fld.Name()))
					}
				}
			}
			r.Floor(rule, 3, n)
		})
}
