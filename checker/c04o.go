package main

// c04o.go: C04-o a match position handed out by the scan comes from the expression.
//
// progressVariant.find narrows the data with the literal prefix and suffix and then runs the compiled expression; what
// it returns is the submatch index list the caller reads capture groups from (variables bound by captures, the position
// behind the match). A shortcut that answers by itself — "the expression accepts nothing but its literal prefix, the
// match is where the prefix was found: return []int{0, len(prefix)}" (seeded C04m) — has no entries for the groups:
// binaryregexp reports "abc" as the complete literal prefix of (?P<k>abc), the capture never binds its variable, and
// `cdata:"(?P<k>abc)" then sdata:"x@k@"` fails with 'variable "k" not defined'.
//
// Rule (typed AST, value flow): in package index every value a method of progressVariant returns as []int is nil, the
// result of (*binaryregexp.Regexp).FindSubmatchIndex, or a local all of whose definitions are such.

import (
	"fmt"
	"go/ast"
	"go/types"
)

func init() {
	register("C04",
		"C04-o (typed AST, value flow): every []int a method of index.progressVariant returns — the submatch positions the sequence logic reads capture groups and the end of the match from — is nil, the result of (*binaryregexp.Regexp).FindSubmatchIndex, or a local that is only ever assigned such results. A position list made up by a shortcut (a literal found with bytes.Index and reported as the match) carries no capture groups: variables are not bound, and a later element that uses them cannot be evaluated.",
		func(p *Prog, r *Res) {
			const rule = "C04-o positions-come-from-the-expression"
			r.Rule(rule + ": progressVariant methods return match positions only from FindSubmatchIndex")
			pv := p.Named("index", "progressVariant")
			if pv == nil {
				p.anchorFail("index.progressVariant")
				return
			}
			isFind := func(pk *Fn, c *ast.CallExpr) bool {
				fn := p.Callee(pk.Pkg, c)
				return fn != nil && fn.Name() == "FindSubmatchIndex" && fn.Pkg() != nil && fn.Pkg().Path() == "rsc.io/binaryregexp"
			}
			n := 0
			for _, f := range p.FnList {
				if f.Short != "index" || f.Lit != nil || f.Decl == nil || f.Decl.Recv == nil || f.Body() == nil {
					continue
				}
				if rn := namedOf(recvTypeOfFn(f)); rn == nil || rn.Obj() != pv.Obj() {
					continue
				}
				res := f.Decl.Type.Results
				if res == nil || len(res.List) != 1 {
					continue
				}
				info := f.Pkg.TypesInfo
				if t := info.TypeOf(res.List[0].Type); t == nil || types.TypeString(t, nil) != "[]int" {
					continue
				}
				var okExpr func(e ast.Expr, seen map[types.Object]bool) bool
				okExpr = func(e ast.Expr, seen map[types.Object]bool) bool {
					e = ast.Unparen(e)
					switch x := e.(type) {
					case *ast.Ident:
						if x.Name == "nil" {
							return true
						}
						o := info.Uses[x]
						if o == nil || seen[o] {
							return o != nil
						}
						seen[o] = true
						defs, all := 0, true
						inspectShallow(f.Body(), func(y ast.Node) bool {
							switch s := y.(type) {
							case *ast.AssignStmt:
								for i, l := range s.Lhs {
									if identObj(info, l) == o {
										defs++
										if len(s.Lhs) != len(s.Rhs) || !okExpr(s.Rhs[i], seen) {
											all = false
										}
									}
								}
							case *ast.ValueSpec:
								for i, nm := range s.Names {
									if info.Defs[nm] == o {
										defs++
										if i < len(s.Values) && !okExpr(s.Values[i], seen) {
											all = false
										}
									}
								}
							}
							return true
						})
						return defs > 0 && all
					case *ast.CallExpr:
						return isFind(f, x)
					}
					return false
				}
				inspectShallow(f.Body(), func(x ast.Node) bool {
					ret, ok := x.(*ast.ReturnStmt)
					if !ok || len(ret.Results) != 1 {
						return true
					}
					n++
					key := fmt.Sprintf("%s return@%s", f.Key(), relLine(p, f, ret))
					r.Check(okExpr(ret.Results[0], map[types.Object]bool{}), rule, key, p.Pos(ret), "nil or the result of FindSubmatchIndex", "the scan hands out a position list ("+exprString(p.Fset, ret.Results[0])+") that the expression did not produce: it has no entries for the capture groups, so variables bound by the expression stay undefined and the position behind the match is whatever the shortcut assumed — a literal prefix is 'complete' for binaryregexp also when it is wrapped in a capture group")
					return true
				})
			}
			r.Floor(rule, 4, n)
		})
}
