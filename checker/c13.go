package main

import (
	"fmt"
	"go/ast"
	"go/token"
	"go/types"
	"strings"
)

func init() {
	register("C13",
		"C13 (FLOW, pairing): every acquisition of index use-counts — a call of (*Manager).lock or of the wrapper getIndexesCopy — is classified as a service hold (the locked slice is what the same closure adds to Manager.indexes) or a loan. A loan's releaser must reach, on every path, exactly one `go` call of a job function; that job must post exactly one completion closure on every path, and the closure must call release on the parameter on every path exactly once (must-pass and no-second-release CFG queries). Loans stored in View.releaser are released by View.Release, and every GetView() in cmd/pkappa2 is followed on all paths by v.Release(). Every statement changing Manager.indexes is paired in the same closure with lock of what it adds and, before the change, release of exactly the sub-slice it removes (same bounds). (*index.Reader).Close and os.Remove of an index file are called only from release and from error cleanup over readers/writers created in the same function. Counter arithmetic and the directory contents when removal fails are NOT decided.",
		ruleC13)
}

// sameObj reports whether expression e is an identifier bound to obj.
func sameObj(info *types.Info, e ast.Expr, obj types.Object) bool {
	id, ok := ast.Unparen(e).(*ast.Ident)
	return ok && obj != nil && info.ObjectOf(id) == obj
}

func identObj(info *types.Info, e ast.Expr) types.Object {
	if id, ok := ast.Unparen(e).(*ast.Ident); ok {
		return info.ObjectOf(id)
	}
	return nil
}

// isMgrIndexes: expression selects field Manager.indexes
func isFieldOf(info *types.Info, e ast.Expr, fld *types.Var) bool {
	se, ok := ast.Unparen(e).(*ast.SelectorExpr)
	return ok && fld != nil && info.Uses[se.Sel] == types.Object(fld)
}

// paramIndex returns the index of obj among f's parameters, or -1.
func paramIndex(f *Fn, obj types.Object) int {
	i := 0
	info := f.Pkg.TypesInfo
	for _, fld := range f.Type().Params.List {
		for _, id := range fld.Names {
			if info.Defs[id] == obj {
				return i
			}
			i++
		}
		if len(fld.Names) == 0 {
			i++
		}
	}
	return -1
}

func paramObj(f *Fn, idx int) types.Object {
	i := 0
	info := f.Pkg.TypesInfo
	for _, fld := range f.Type().Params.List {
		for _, id := range fld.Names {
			if i == idx {
				return info.Defs[id]
			}
			i++
		}
	}
	return nil
}

func ruleC13(p *Prog, r *Res) { ruleC13parts(p, r, "C13-b membership-hold", true, true) }

// ruleIndexesMembership is the C13-b clause alone (also claimed by C07-d and C10-b).
func ruleIndexesMembership(rule string) func(*Prog, *Res) {
	return func(p *Prog, r *Res) { ruleC13parts(p, r, rule, false, true) }
}

func ruleC13parts(p *Prog, r *Res, ruleB string, partA, partB bool) {
	ctx := p.Contexts()
	lockM := p.Method("manager", "Manager", "lock")
	copyM := p.Method("manager", "Manager", "getIndexesCopy")
	relM := p.Method("manager", "indexReleaser", "release")
	indexesFld := p.Field("manager", "Manager", "indexes")
	releaserFld := p.Field("manager", "View", "releaser")
	if lockM == nil || copyM == nil || relM == nil || indexesFld == nil || releaserFld == nil {
		return
	}
	const ruleA = "C13-a acquire-release"
	if partA {
		r.Rule(ruleA + ": every lock/getIndexesCopy is a service hold or a loan that is released exactly once on every path")
	}
	r.Rule(ruleB + ": adding to Manager.indexes is paired with lock of the same slice; removing with release of exactly the removed sub-slice, before the change")

	isRelease := func(f *Fn, n ast.Node, obj types.Object) bool {
		fl := p.Flow(f)
		return fl.hasCall(n, func(c *ast.CallExpr) bool {
			if p.Callee(f.Pkg, c) != relM {
				return false
			}
			se, ok := ast.Unparen(c.Fun).(*ast.SelectorExpr)
			return ok && (obj == nil || sameObj(f.Pkg.TypesInfo, se.X, obj))
		})
	}

	// checkJobReleases: job function jf receives the releaser as parameter pidx.
	checkedJobs := map[string]bool{}
	checkJob := func(jf *Fn, pidx int, from string) {
		key := fmt.Sprintf("%s param#%d", jf.Key(), pidx)
		if checkedJobs[key] {
			return
		}
		checkedJobs[key] = true
		obj := paramObj(jf, pidx)
		if obj == nil {
			r.Undecided(ruleA, key, p.Pos(jf.Node()), "releaser parameter not found")
			return
		}
		posted := ctx.postedIn(jf)
		// every path of the job posts exactly one completion
		fl := p.Flow(jf)
		isPost := func(n ast.Node) bool {
			s, ok := n.(*ast.SendStmt)
			return ok && ctx.isJobsChan(jf.Pkg.TypesInfo, s.Chan)
		}
		res := fl.MustPass(isPost)
		r.Check(!res.Found, ruleA, key+" job posts completion on every path", p.Pos(jf.Node()), "every path to return sends on Manager.jobs",
			"a path of the job returns without posting its completion closure, so the loan is never released: "+fl.traceString(res))
		for _, pt := range fl.Find(isPost) {
			res := fl.Reach([]Pt{After(pt)}, isPost, nil)
			if res.Found {
				r.Bad(ruleA, key+" job posts completion once", p.Pos(fl.node(pt)), "a second completion can be posted after the first: the loan would be released twice")
			}
		}
		// the parameter must be released in exactly one posted closure, on all its paths, exactly once
		var users []*Fn
		for _, l := range posted {
			uses := false
			ast.Inspect(l.Body(), func(x ast.Node) bool {
				if id, ok := x.(*ast.Ident); ok && l.Pkg.TypesInfo.ObjectOf(id) == obj {
					uses = true
				}
				return true
			})
			if uses {
				users = append(users, l)
			}
		}
		if len(users) != 1 {
			r.Bad(ruleA, key+" released in completion", p.Pos(jf.Node()), fmt.Sprintf("releaser parameter is used in %d posted closures (expected exactly 1)", len(users)))
			return
		}
		l, tr := ctx.effective(users[0])
		obj = tr(obj)
		lfl := p.Flow(l)
		pass := func(n ast.Node) bool { return isRelease(l, n, obj) }
		res = lfl.MustPass(pass)
		r.Check(!res.Found, ruleA, key+" released on every path of "+l.Key(), p.Pos(l.Node()), "must-pass release holds (loan from "+from+")",
			"a path through the completion closure returns without releasing the loaned indexes: "+lfl.traceString(res))
		pts := lfl.Find(pass)
		double := false
		for _, pt := range pts {
			if rr := lfl.Reach([]Pt{After(pt)}, pass, nil); rr.Found {
				double = true
				r.Bad(ruleA, key+" released once in "+l.Key(), p.Pos(lfl.node(pt)), "a second release of the same loan is reachable after the first: "+lfl.traceString(rr))
			}
		}
		if !double {
			r.Ok(ruleA, key+" released once in "+l.Key(), p.Pos(l.Node()), fmt.Sprintf("%d release site(s), none reachable from another", len(pts)))
		}
		// the releaser must not be used anywhere else in the job (e.g. released early on the job goroutine)
		other := 0
		inspectShallow(jf.Body(), func(x ast.Node) bool {
			if id, ok := x.(*ast.Ident); ok && jf.Pkg.TypesInfo.ObjectOf(id) == obj {
				other++
			}
			return true
		})
		r.Check(other == 0, ruleA, key+" not touched off-loop", p.Pos(jf.Node()), "releaser only used inside the completion closure", "the releaser is used on the job goroutine itself; release mutates usedIndexes and must run on the service goroutine")
	}

	if partA {
		acq := 0
		for _, f := range p.FnList {
			if f.Short != "manager" {
				continue
			}
			info := f.Pkg.TypesInfo
			fl := p.Flow(f)
			inspectShallow(f.Body(), func(x ast.Node) bool {
				call, ok := x.(*ast.CallExpr)
				if !ok {
					return true
				}
				callee := p.Callee(f.Pkg, call)
				if callee != lockM && callee != copyM {
					return true
				}
				acq++
				key := fmt.Sprintf("%s: %s", f.Key(), types.ExprString(call))
				pt, okpt := fl.PointOf(call)
				if !okpt {
					r.Undecided(ruleA, key, p.Pos(call), "acquisition not found in CFG")
					return true
				}
				node := fl.node(pt)
				switch st := node.(type) {
				case *ast.ExprStmt:
					// result discarded: service hold. The locked slice must be what this function adds to Manager.indexes.
					arg := call.Args[0]
					added := false
					inspectShallow(f.Body(), func(y ast.Node) bool {
						as, ok := y.(*ast.AssignStmt)
						if !ok || len(as.Lhs) != 1 || !isFieldOf(info, as.Lhs[0], indexesFld) {
							return true
						}
						if isFieldOf(info, arg, indexesFld) {
							added = true // lock(mgr.indexes) in New: holds everything that was appended
							return true
						}
						ast.Inspect(as.Rhs[0], func(z ast.Node) bool {
							if e, ok := z.(ast.Expr); ok && identObj(info, arg) != nil && sameObj(info, e, identObj(info, arg)) {
								added = true
							}
							return true
						})
						return true
					})
					if !added && isFieldOf(info, arg, indexesFld) {
						// the additions were moved into a helper of the package that this function calls
						for _, c := range callsIn(f.Body()) {
							hfn := p.Callee(f.Pkg, c)
							if hfn == nil {
								continue
							}
							if h := p.FnOfObj(hfn); h != nil && h.Pkg == f.Pkg && h != f && h.Body() != nil {
								inspectShallow(h.Body(), func(y ast.Node) bool {
									if as, ok := y.(*ast.AssignStmt); ok && len(as.Lhs) == 1 && isFieldOf(h.Pkg.TypesInfo, as.Lhs[0], indexesFld) {
										added = true
									}
									return true
								})
							}
						}
					}
					r.Check(added, ruleA, key+" [service hold]", p.Pos(call), "the locked slice is added to Manager.indexes in the same function",
						"lock() result is discarded but the locked slice is not what this function adds to Manager.indexes: the use-count can never be released")
					// a hold on the WHOLE list is taken once: inside a loop that adds readers one at a time it would count the
					// readers added earlier again on every iteration, and those extra holds are never given back
					if isFieldOf(info, arg, indexesFld) {
						again := fl.Reach([]Pt{After(pt)}, func(nd ast.Node) bool { return nd == node }, nil)
						r.Check(!again.Found, ruleA, key+" [service hold] taken once", p.Pos(call), "not on a cycle of the control-flow graph", "the service hold on the whole of Manager.indexes can be taken again ("+fl.traceString(again)+"): every reader already in the list gets one more hold per repetition, which no release pairs with — the files stay open and on disk after they were merged away")
					}
				case *ast.ReturnStmt:
					// wrapper: getIndexesCopy returns lock's result
					r.Check(f.Key() == "manager.Manager.getIndexesCopy", ruleA, key+" [wrapper]", p.Pos(call), "acquisition wrapper returns the releaser to its caller", "unexpected function returns a releaser; classify it as a wrapper in the checker after reading it")
				case *ast.AssignStmt:
					// loan: find the releaser variable (2nd result of getIndexesCopy / result of lock)
					var relExpr ast.Expr
					if callee == copyM && len(st.Lhs) == 2 {
						relExpr = st.Lhs[1]
					} else if callee == lockM && len(st.Lhs) == 1 {
						relExpr = st.Lhs[0]
					}
					if relExpr == nil {
						r.Undecided(ruleA, key, p.Pos(call), "cannot identify releaser variable")
						return true
					}
					if isFieldOf(info, relExpr, releaserFld) {
						r.Ok(ruleA, key+" [loan → View.releaser]", p.Pos(call), "stored in View.releaser; released by View.Release (checked separately)")
						return true
					}
					robj := identObj(info, relExpr)
					if robj == nil {
						r.Undecided(ruleA, key, p.Pos(call), "releaser stored in an unrecognised place")
						return true
					}
					// every path from here to exit passes a go statement that receives robj
					isGo := func(n ast.Node) bool {
						gs, ok := n.(*ast.GoStmt)
						if !ok {
							return false
						}
						for _, a := range gs.Call.Args {
							if sameObj(info, a, robj) {
								return true
							}
						}
						return false
					}
					res := fl.ExitAvoiding([]Pt{After(pt)}, isGo)
					r.Check(!res.Found, ruleA, key+" [loan] handed to a job on every path", p.Pos(call), "every path from the acquisition reaches `go job(..., releaser)`",
						"a path from the acquisition returns without handing the releaser to a job: the indexes stay locked forever: "+fl.traceString(res))
					for _, gp := range fl.Find(isGo) {
						gs := fl.node(gp).(*ast.GoStmt)
						var jf *Fn
						if fn := p.Callee(f.Pkg, gs.Call); fn != nil {
							jf = p.FnOfObj(fn)
						}
						if jf == nil {
							r.Undecided(ruleA, key+" job", p.Pos(gs), "go callee is not a declared function")
							continue
						}
						for i, a := range gs.Call.Args {
							if sameObj(info, a, robj) {
								checkJob(jf, i, f.Key())
							}
						}
					}
				default:
					r.Undecided(ruleA, key, p.Pos(call), fmt.Sprintf("acquisition in unrecognised statement form %T", node))
				}
				return true
			})
		}
		r.Floor(ruleA+" acquisitions", 10, acq)
		r.Floor(ruleA+" jobs", 4, len(checkedJobs))

		// View.Release releases View.releaser on the loop
		if f := p.Fn("manager.View.Release"); f != nil {
			ok := false
			for _, l := range ctx.postedIn(f) {
				for _, c := range callsIn(l.Body()) {
					if p.Callee(l.Pkg, c) == relM {
						if se, isSel := ast.Unparen(c.Fun).(*ast.SelectorExpr); isSel && isFieldOf(l.Pkg.TypesInfo, se.X, releaserFld) {
							ok = true
						}
					}
				}
			}
			r.Check(ok, ruleA, "manager.View.Release posts release of View.releaser", p.Pos(f.Node()), "release runs in a closure posted on Manager.jobs", "View.Release no longer releases View.releaser on the service goroutine")
		}
		// release only runs in LOOP context (it mutates usedIndexes)
		for _, f := range p.FnList {
			if f.Short != "manager" {
				continue
			}
			for _, c := range callsIn(f.Body()) {
				if p.Callee(f.Pkg, c) == relM {
					r.Check(ctx.OnlyLoopInit(f), "C13-c release-on-loop", "release call in "+f.Key(), p.Pos(c), "context "+ctxString(ctx.Of(f)), "release() is called in context "+ctxString(ctx.Of(f))+"; it mutates Manager.usedIndexes and closes readers, which is only safe on the service goroutine")
				}
			}
		}

	}
	if partB {
		// C13-b: statements assigning Manager.indexes
		nb := 0
		for _, f := range p.FnList {
			if f.Short != "manager" {
				continue
			}
			info := f.Pkg.TypesInfo
			fl := p.Flow(f)
			inspectShallow(f.Body(), func(x ast.Node) bool {
				as, ok := x.(*ast.AssignStmt)
				if !ok || len(as.Lhs) != 1 || !isFieldOf(info, as.Lhs[0], indexesFld) {
					return true
				}
				nb++
				key := fmt.Sprintf("%s: %s = …", f.Key(), types.ExprString(as.Lhs[0]))
				outer, ok := as.Rhs[0].(*ast.CallExpr)
				apt, _ := fl.PointOf(as)
				if ok && !isBuiltin(info, outer, "append") {
					// slices.Replace(mgr.indexes, i, j, inserted...)
					if fn := p.Callee(f.Pkg, outer); fn != nil && fn.FullName() == "slices.Replace" && len(outer.Args) >= 3 && isFieldOf(info, outer.Args[0], indexesFld) {
						a, b := types.ExprString(outer.Args[1]), types.ExprString(outer.Args[2])
						var y ast.Expr
						if len(outer.Args) == 4 {
							y = outer.Args[3]
						}
						checkSplice(p, r, f, fl, as, key, ruleB, a, b, y, lockM, relM, indexesFld)
						return true
					}
				}
				if !ok || !isBuiltin(info, outer, "append") {
					r.Undecided(ruleB, key, p.Pos(as), "Manager.indexes assigned from something other than append(...) or slices.Replace(...)")
					return true
				}
				first := outer.Args[0]
				if isFieldOf(info, first, indexesFld) {
					// add: append(mgr.indexes, X...) or append(mgr.indexes, idx)
					x := outer.Args[1]
					lockOf := func(n ast.Node) bool {
						return fl.hasCall(n, func(c *ast.CallExpr) bool {
							if p.Callee(f.Pkg, c) != lockM {
								return false
							}
							a := c.Args[0]
							return isFieldOf(info, a, indexesFld) || (identObj(info, x) != nil && sameObj(info, a, identObj(info, x)))
						})
					}
					// every path from the add to a successful exit passes the lock (a constructor's failing return discards the manager)
					res := fl.search([]Pt{After(apt)}, func(n ast.Node) bool {
						rs, ok := n.(*ast.ReturnStmt)
						if !ok {
							return false
						}
						if len(rs.Results) > 0 {
							last := rs.Results[len(rs.Results)-1]
							if id, ok := last.(*ast.Ident); !ok || id.Name != "nil" {
								if t := info.TypeOf(last); t != nil && types.Implements(t, errorIface()) {
									return false // failing return
								}
							}
						}
						return true
					}, lockOf)
					if res.Found {
						// the hold may also be taken before the add
						if pre := fl.Reach([]Pt{fl.Entry()}, func(n ast.Node) bool { return n == ast.Node(as) }, lockOf); !pre.Found {
							res.Found = false
						}
					}
					if res.Found && f.Lit == nil && f.Decl != nil && !ast.IsExported(f.Decl.Name.Name) {
						// an unexported helper that only adds (loadIndexFiles, extracted from New): every caller takes the hold on
						// the whole list on every successful path after the call
						if fobj, _ := info.Defs[f.Decl.Name].(*types.Func); fobj != nil {
							sites, good := 0, 0
							for _, g := range p.FnList {
								if g.Pkg != f.Pkg || g.Body() == nil || g == f {
									continue
								}
								var gfl *Flow
								for _, c := range callsIn(g.Body()) {
									if fn := p.Callee(g.Pkg, c); fn == nil || fn.Origin() != fobj {
										continue
									}
									sites++
									if gfl == nil {
										gfl = p.Flow(g)
									}
									cpt, okc := gfl.PointOf(c)
									if !okc {
										continue
									}
									wholeLock := func(n ast.Node) bool {
										return gfl.hasCall(n, func(c2 *ast.CallExpr) bool {
											return p.Callee(g.Pkg, c2) == lockM && len(c2.Args) == 1 && isFieldOf(g.Pkg.TypesInfo, c2.Args[0], indexesFld)
										})
									}
									ginfo := g.Pkg.TypesInfo
									miss := gfl.search([]Pt{After(cpt)}, func(n ast.Node) bool {
										rs, ok := n.(*ast.ReturnStmt)
										if !ok {
											return false
										}
										if len(rs.Results) > 0 {
											last := rs.Results[len(rs.Results)-1]
											if id, ok := last.(*ast.Ident); !ok || id.Name != "nil" {
												if t := ginfo.TypeOf(last); t != nil && types.Implements(t, errorIface()) {
													return false
												}
											}
										}
										return true
									}, wholeLock)
									if !miss.Found {
										good++
									}
								}
							}
							if sites > 0 && sites == good {
								res.Found = false
							}
						}
					}
					r.Check(!res.Found, ruleB, key+" [add]", p.Pos(as), "the added readers are locked on every successful path (before or after the add; for an unexported helper: by every caller after the call)",
						"readers are added to Manager.indexes on a path that never takes the service hold: the first loan release would close and delete a served file: "+fl.traceString(res))
					return true
				}
				// splice: append(mgr.indexes[:a], append(Y, mgr.indexes[b:]...)...)
				sl, ok := ast.Unparen(first).(*ast.SliceExpr)
				if !ok || !isFieldOf(info, sl.X, indexesFld) || sl.Low != nil || sl.High == nil {
					r.Undecided(ruleB, key, p.Pos(as), "unrecognised form of replacement of Manager.indexes")
					return true
				}
				a := types.ExprString(sl.High)
				inner, ok := outer.Args[1].(*ast.CallExpr)
				if !ok || !isBuiltin(info, inner, "append") || len(inner.Args) != 2 {
					r.Bad(ruleB, key+" [splice] keeps the readers after the removed run", p.Pos(as), "Manager.indexes is rebuilt from Manager.indexes[:"+a+"] plus new readers only: every reader after the removed run — e.g. one appended by an import that finished during the merge — is dropped from the served list (its streams vanish) while its service hold stays")
					return true
				}
				y := inner.Args[0]
				tail, ok := ast.Unparen(inner.Args[1]).(*ast.SliceExpr)
				if !ok || !isFieldOf(info, tail.X, indexesFld) || tail.Low == nil || tail.High != nil {
					r.Bad(ruleB, key+" [splice] keeps the readers after the removed run", p.Pos(as), "the tail Manager.indexes[b:] is not re-appended after the inserted readers")
					return true
				}
				b := types.ExprString(tail.Low)
				checkSplice(p, r, f, fl, as, key, ruleB, a, b, y, lockM, relM, indexesFld)
				// the release must not happen when the splice does not (same branch): no path from release to exit avoiding the splice
				return true
			})
		}
		r.Floor(ruleB+" changes of Manager.indexes", 3, nb)

	}
	if !partA {
		return
	}
	// C13-c: views are released by their users (cmd/pkappa2)
	const ruleC = "C13-c view-released"
	r.Rule(ruleC + ": every GetView() result is released on all paths")
	getView := p.Method("manager", "Manager", "GetView")
	viewRel := p.Method("manager", "View", "Release")
	nv := 0
	for _, f := range p.FnList {
		if f.Short != "main" {
			continue
		}
		info := f.Pkg.TypesInfo
		fl := p.Flow(f)
		inspectShallow(f.Body(), func(x ast.Node) bool {
			as, ok := x.(*ast.AssignStmt)
			if !ok || len(as.Rhs) != 1 {
				return true
			}
			c, ok := as.Rhs[0].(*ast.CallExpr)
			if !ok || p.Callee(f.Pkg, c) != getView {
				return true
			}
			nv++
			vobj := identObj(info, as.Lhs[0])
			pt, _ := fl.PointOf(as)
			pass := func(n ast.Node) bool {
				// defer v.Release() or v.Release()
				hit := false
				inspectShallow(n, func(z ast.Node) bool {
					if cc, ok := z.(*ast.CallExpr); ok && p.Callee(f.Pkg, cc) == viewRel {
						if se, ok := ast.Unparen(cc.Fun).(*ast.SelectorExpr); ok && sameObj(info, se.X, vobj) {
							hit = true
						}
					}
					return true
				})
				return hit
			}
			res := fl.ExitAvoiding([]Pt{After(pt)}, pass)
			r.Check(!res.Found, ruleC, "GetView in "+f.Key(), p.Pos(as), "Release is deferred/called on every path", "a path returns without releasing the view: its index files can never be deleted: "+fl.traceString(res))
			return true
		})
	}
	// GetView results used anywhere other than an assignment (e.g. passed directly) are undecided
	for _, f := range p.FnList {
		if f.Short == "manager" || f.Short == "main" {
			for _, c := range callsIn(f.Body()) {
				if p.Callee(f.Pkg, c) == getView {
					fl := p.Flow(f)
					if pt, ok := fl.PointOf(c); ok {
						if _, isAssign := fl.node(pt).(*ast.AssignStmt); !isAssign {
							r.Undecided(ruleC, "GetView in "+f.Key(), p.Pos(c), "GetView() result not bound to a variable; cannot follow its release")
						}
					}
				}
			}
		}
	}
	r.Floor(ruleC, 4, nv)

	// C13-d: who may close readers / remove index files
	const ruleD = "C13-d close-owner"
	r.Rule(ruleD + ": (*index.Reader).Close is called only from release, NewReader's own error path, and cleanup of readers created in the same function")
	closeM := p.Method("index", "Reader", "Close")
	nd := 0
	for _, f := range p.FnList {
		info := f.Pkg.TypesInfo
		for _, c := range callsIn(f.Body()) {
			if p.Callee(f.Pkg, c) != closeM {
				continue
			}
			nd++
			key := "Reader.Close in " + f.Key()
			se := ast.Unparen(c.Fun).(*ast.SelectorExpr)
			root := f.Root()
			switch {
			case f.Key() == "manager.indexReleaser.release":
				// must be guarded by the use-count reaching zero: the call lies inside an if whose condition compares usedIndexes[...] == 0
				guarded := useCountZeroGuards(p, f, c)
				r.Check(guarded, ruleD, key, p.Pos(c), "guarded by usedIndexes[i] == 0", "Reader.Close in release() is not guarded by the use-count reaching zero")
			default:
				// receiver must derive from a local (non-parameter) variable of the enclosing declaration
				obj := identObj(info, se.X)
				okLocal := false
				why := "receiver is not a plain local variable"
				if obj != nil {
					src := localSource(info, root, obj)
					okLocal = src != nil && paramIndexDeep(f, src) < 0
					if src != nil {
						why = "receiver derives from " + src.Name()
					}
					if src != nil && !okLocal {
						if okc, whyc := localAtCallSites(p, root, src, 1); okc {
							okLocal, why = true, "cleanup helper: receiver derives from parameter "+src.Name()+"; "+whyc
						}
					}
				}
				r.Check(okLocal, ruleD, key, p.Pos(c), why+" (created in this function)", "Reader.Close called on a reader this function did not create ("+why+"): a reader that views or jobs still use could be closed")
			}
		}
	}
	r.Floor(ruleD, 4, nd)
}

// localSource follows range-loop provenance: for `for _, r := range rs`, the source of r is rs.
func localSource(info *types.Info, root *Fn, obj types.Object) types.Object {
	var src types.Object = obj
	ast.Inspect(root.Body(), func(x ast.Node) bool {
		if rs, ok := x.(*ast.RangeStmt); ok && rs.Value != nil {
			if id, ok := rs.Value.(*ast.Ident); ok && info.Defs[id] == obj {
				// X may be a slice expression of a local
				xe := rs.X
				if sl, ok := ast.Unparen(xe).(*ast.SliceExpr); ok {
					xe = sl.X
				}
				if o := identObj(info, xe); o != nil {
					src = o
				} else {
					src = nil
				}
			}
		}
		return true
	})
	return src
}

// localAtCallSites: obj is a parameter of the unexported, declared function f; reports whether at every static call
// site of f the corresponding argument derives (through range loops and sub-slices) from a variable created in the
// calling function — followed through at most `depth` further helper levels. A cleanup helper such as
// discardWriters(ws) inherits the justification of its callers.
func localAtCallSites(p *Prog, f *Fn, obj types.Object, depth int) (bool, string) {
	if f.Lit != nil || f.Decl == nil || ast.IsExported(f.Decl.Name.Name) || depth < 0 {
		return false, ""
	}
	idx := paramIndex(f, obj)
	if idx < 0 {
		return false, ""
	}
	fobj, _ := f.Pkg.TypesInfo.Defs[f.Decl.Name].(*types.Func)
	if fobj == nil {
		return false, ""
	}
	n := 0
	var callers []string
	for _, g := range p.FnList {
		if g.Body() == nil || g.Pkg != f.Pkg {
			continue
		}
		ginfo := g.Pkg.TypesInfo
		for _, c := range func() []*ast.CallExpr {
			var out []*ast.CallExpr
			inspectShallow(g.Body(), func(x ast.Node) bool {
				if c, ok := x.(*ast.CallExpr); ok {
					out = append(out, c)
				}
				return true
			})
			return out
		}() {
			if fn := p.Callee(g.Pkg, c); fn == nil || fn.Origin() != fobj || idx >= len(c.Args) {
				continue
			}
			n++
			a := ast.Unparen(c.Args[idx])
			if sl, ok := a.(*ast.SliceExpr); ok {
				a = ast.Unparen(sl.X)
			}
			ao := identObj(ginfo, a)
			if ao == nil {
				return false, "argument " + types.ExprString(c.Args[idx]) + " in " + g.Key() + " is not a variable"
			}
			src := localSource(ginfo, g.Root(), ao)
			if src == nil {
				return false, "provenance of " + ao.Name() + " in " + g.Key() + " unknown"
			}
			if paramIndexDeep(g, src) >= 0 {
				if ok, _ := localAtCallSites(p, g.Root(), src, depth-1); !ok {
					return false, src.Name() + " is itself a parameter of " + g.Key()
				}
			}
			callers = append(callers, g.Key()+":"+src.Name())
		}
	}
	if n == 0 {
		return false, "no call site found"
	}
	return true, "at every call site the argument was created by the caller (" + strings.Join(callers, ", ") + ")"
}

// paramIndexDeep: obj is a parameter or receiver of f or of any enclosing function.
func paramIndexDeep(f *Fn, obj types.Object) int {
	for g := f; g != nil; g = g.Parent {
		if i := paramIndex(g, obj); i >= 0 {
			return i
		}
		if g.Lit == nil && g.Decl.Recv != nil {
			for _, fld := range g.Decl.Recv.List {
				for _, id := range fld.Names {
					if g.Pkg.TypesInfo.Defs[id] == obj {
						return 1000
					}
				}
			}
		}
	}
	return -1
}

// checkSplice: Manager.indexes[a:b] is replaced by y. Requires lock(y) in the same function and a release of
// exactly indexReleaser(Manager.indexes[a:b]) that dominates the replacement.
func checkSplice(p *Prog, r *Res, f *Fn, fl *Flow, as *ast.AssignStmt, key, ruleB, a, b string, y ast.Expr, lockM, relM *types.Func, indexesFld *types.Var) {
	info := f.Pkg.TypesInfo
	locked := false
	if y != nil {
		for _, c := range callsIn(f.Body()) {
			if p.Callee(f.Pkg, c) == lockM && identObj(info, y) != nil && sameObj(info, c.Args[0], identObj(info, y)) {
				locked = true
			}
		}
	}
	r.Check(locked, ruleB, key+" [splice] inserted readers locked", p.Pos(as), "lock of the inserted readers present", "the readers spliced into Manager.indexes are never locked by the service")
	copies := map[types.Object]*ast.AssignStmt{} // window locals that hold a copy of the run (safe to release after the splice)
	var relObj types.Object
	isRelOfRemoved := func(n ast.Node) (bool, string) {
		found, bounds := false, ""
		inspectShallow(n, func(z ast.Node) bool {
			c, ok := z.(*ast.CallExpr)
			if !ok || p.Callee(f.Pkg, c) != relM {
				return true
			}
			se := ast.Unparen(c.Fun).(*ast.SelectorExpr)
			robj := identObj(info, se.X)
			if robj == nil {
				return true
			}
			inspectShallow(f.Body(), func(w ast.Node) bool {
				das, ok := w.(*ast.AssignStmt)
				if !ok || len(das.Lhs) != 1 || !sameObj(info, das.Lhs[0], robj) {
					return true
				}
				conv, ok := das.Rhs[0].(*ast.CallExpr)
				if !ok || len(conv.Args) != 1 {
					return true
				}
				arg, isCopy := stripSliceCopy(p, f, conv.Args[0])
				ssl, ok := arg.(*ast.SliceExpr)
				if !ok || !isFieldOf(info, ssl.X, indexesFld) {
					return true
				}
				if isCopy {
					copies[robj] = das
				}
				lo, hi := "0", "len(mgr.indexes)"
				if ssl.Low != nil {
					lo = types.ExprString(ssl.Low)
				}
				if ssl.High != nil {
					hi = types.ExprString(ssl.High)
				}
				found, bounds = true, lo+":"+hi
				relObj = robj
				return true
			})
			return true
		})
		return found, bounds
	}
	var relBounds string
	res := fl.Reach([]Pt{fl.Entry()}, func(n ast.Node) bool { return n == ast.Node(as) }, func(n ast.Node) bool {
		ok, bb := isRelOfRemoved(n)
		if ok {
			relBounds = bb
		}
		return ok
	})
	if res.Found {
		// the other sound order: a COPY of the removed run is taken on every path before the replacement and released on
		// every path after it (an alias of the window would have been overwritten by the in-place splice)
		afterBounds := ""
		var afterObj types.Object
		isCopyRelease := func(n ast.Node) bool {
			relObj = nil
			ok, bb := isRelOfRemoved(n)
			if ok && relObj != nil && copies[relObj] != nil {
				afterBounds, afterObj = bb, relObj
				return true
			}
			return false
		}
		// populate copies
		for _, b := range fl.G.Blocks {
			for _, n := range b.Nodes {
				isRelOfRemoved(n)
			}
		}
		missing := fl.ExitAvoiding([]Pt{After(mustPoint(fl, as))}, isCopyRelease)
		if !missing.Found && !fallsOffEndAvoiding(fl, After(mustPoint(fl, as)), isCopyRelease) && afterObj != nil {
			def := copies[afterObj]
			undominated := fl.Reach([]Pt{fl.Entry()}, func(n ast.Node) bool { return n == ast.Node(as) }, func(n ast.Node) bool { return n == ast.Node(def) })
			want := a + ":" + b
			if !undominated.Found {
				r.Check(afterBounds == want, ruleB, key+" [splice] removed readers released first", p.Pos(as), "a copy of Manager.indexes["+afterBounds+"] taken before the replacement is released on every path after it",
					"the released copy Manager.indexes["+afterBounds+"] differs from the removed run ["+want+"]")
				return
			}
		}
		r.Bad(ruleB, key+" [splice] removed readers released first", p.Pos(as), "the replacement is reachable without first releasing the service hold of the removed run: "+fl.traceString(res))
	} else {
		want := a + ":" + b
		r.Check(relBounds == want, ruleB, key+" [splice] removed readers released first", p.Pos(as), "release of Manager.indexes["+relBounds+"] dominates the replacement and has its bounds",
			"the released sub-slice Manager.indexes["+relBounds+"] differs from the removed run ["+want+"]: readers that stay served lose their hold, or removed ones keep it — or readers outside the merged run are dropped from the list")
	}
}

// stripSliceCopy removes copy wrappers (append([]T(nil), x...), slices.Clone(x)) from e.
func stripSliceCopy(p *Prog, f *Fn, e ast.Expr) (ast.Expr, bool) {
	info := f.Pkg.TypesInfo
	arg := ast.Unparen(e)
	isCopy := false
	for {
		cc, ok := arg.(*ast.CallExpr)
		if !ok {
			break
		}
		if isBuiltin(info, cc, "append") && len(cc.Args) == 2 && cc.Ellipsis.IsValid() && isEmptySliceExpr(cc.Args[0]) {
			// the destination must be fresh: nil conversion or empty literal
			arg = ast.Unparen(cc.Args[1])
			isCopy = true
			continue
		}
		if fn := p.Callee(f.Pkg, cc); fn != nil && fn.Pkg() != nil && fn.Pkg().Path() == "slices" && fn.Name() == "Clone" && len(cc.Args) == 1 {
			arg = ast.Unparen(cc.Args[0])
			isCopy = true
			continue
		}
		break
	}
	return arg, isCopy
}

func mustPoint(fl *Flow, n ast.Node) Pt {
	if pt, ok := fl.at[n]; ok {
		return pt
	}
	pt, _ := fl.PointOf(n)
	return pt
}

// isEmptySliceExpr: []T(nil), []T{}, nil, make([]T, 0, …)
func isEmptySliceExpr(e ast.Expr) bool {
	switch x := ast.Unparen(e).(type) {
	case *ast.Ident:
		return x.Name == "nil"
	case *ast.CompositeLit:
		return len(x.Elts) == 0
	case *ast.CallExpr:
		if len(x.Args) == 1 {
			if id, ok := ast.Unparen(x.Args[0]).(*ast.Ident); ok && id.Name == "nil" {
				return true
			}
		}
		if id, ok := x.Fun.(*ast.Ident); ok && id.Name == "make" && len(x.Args) >= 2 {
			if bl, ok := x.Args[1].(*ast.BasicLit); ok && bl.Value == "0" {
				return true
			}
		}
	}
	return false
}

// useCountZeroGuards: node c of function f is reached only when the use count of an index has reached zero. A count is
// an element of Manager.usedIndexes or a local whose only definition is computed from one; the guard is an enclosing
// `if count == 0 { … c … }` or a preceding `if count != 0 { continue / return }` in a block that encloses c.
func useCountZeroGuards(p *Prog, f *Fn, c ast.Node) bool {
	info := f.Pkg.TypesInfo
	fld := p.Field("manager", "Manager", "usedIndexes")
	if fld == nil {
		return false
	}
	var isCount func(e ast.Expr, depth int) bool
	isCount = func(e ast.Expr, depth int) bool {
		e = ast.Unparen(e)
		if ix, ok := e.(*ast.IndexExpr); ok && isFieldOf(info, ix.X, fld) {
			return true
		}
		if o := identObj(info, e); o != nil && depth < 2 {
			nDef, from := 0, false
			ast.Inspect(f.Body(), func(y ast.Node) bool {
				if as, ok := y.(*ast.AssignStmt); ok && len(as.Lhs) == len(as.Rhs) {
					for i, l := range as.Lhs {
						if identObj(info, l) == o {
							nDef++
							ast.Inspect(as.Rhs[i], func(z ast.Node) bool {
								if ze, ok := z.(ast.Expr); ok && isCount(ze, depth+1) {
									from = true
								}
								return !from
							})
						}
					}
				}
				return true
			})
			return nDef == 1 && from
		}
		return false
	}
	cmpZero := func(cond ast.Expr, op token.Token) bool {
		be, ok := ast.Unparen(cond).(*ast.BinaryExpr)
		if !ok || be.Op != op {
			return false
		}
		return (isCount(be.X, 0) && isZeroLit(be.Y)) || (isCount(be.Y, 0) && isZeroLit(be.X))
	}
	guarded := false
	inspectParents(f.Body(), func(y ast.Node, ps []ast.Node) bool {
		if y != c {
			return true
		}
		for i, par := range ps {
			switch s := par.(type) {
			case *ast.IfStmt:
				var child ast.Node = c
				if i+1 < len(ps) {
					child = ps[i+1]
				}
				if child == ast.Node(s.Body) && cmpZero(s.Cond, token.EQL) {
					guarded = true
				}
			case *ast.BlockStmt:
				for _, st := range s.List {
					if st.End() > c.Pos() {
						break
					}
					ifs, ok := st.(*ast.IfStmt)
					if !ok || ifs.Else != nil || len(ifs.Body.List) == 0 || !cmpZero(ifs.Cond, token.NEQ) {
						continue
					}
					switch last := ifs.Body.List[len(ifs.Body.List)-1].(type) {
					case *ast.BranchStmt:
						if last.Tok == token.CONTINUE {
							guarded = true
						}
					case *ast.ReturnStmt:
						guarded = true
					}
				}
			}
		}
		return true
	})
	return guarded
}
