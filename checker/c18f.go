package main

// c18f.go: C18-f lengths are increased with the "unbounded" sentinel in view.
//
// AcceptedLength computes the shortest and the longest match of an expression; math.MaxUint stands for "unbounded" and,
// inside a loop that is being walked, for "cannot finish on this path". Both bounds are therefore increased only through
// code that knows the sentinel: `inc` leaves MaxUint alone, `add` saturates. A plain `r.MinLength += r1.MinLength`
// ("the minimum is always finite": seeded C18a and C18m) wraps when both branches of an inner `?`, `*` or `|` inside a
// loop answered with the sentinel: k bytes walked so far plus MaxUint is k−1, which is cached as the loop's minimum —
// (?:ab?)*cd gets MinLength 0 although no match is shorter than "cd".
//
// Rule (FLOW + callee summary): in package regexanalysis every statement that increases a MinLength / MaxLength field of
// AcceptedLengths either (1) does so through a function or closure whose body mentions the sentinel (math.MaxUint…) —
// the field, or its address, is an argument — or (2) adds in place and is reached only over an edge of a comparison of
// one of the operands with the sentinel.

import (
	"fmt"
	"go/ast"
	"go/token"
	"go/types"
	"strings"

	"golang.org/x/tools/go/cfg"
)

func init() {
	register("C18",
		"C18-f (FLOW + callee summary): in package regexanalysis every increase of a MinLength / MaxLength field of AcceptedLengths either goes through a function or closure whose body mentions the 'unbounded' sentinel math.MaxUint (the field or its address is an argument: inc, add), or is an addition in place that is reached only over an edge of a comparison of one of its operands with the sentinel. The sentinel also means 'this path cannot finish' inside a loop being walked; a plain += on it wraps around to a small number, which is cached as the minimum of the loop — MinLength then lies below the shortest match.",
		func(p *Prog, r *Res) {
			const rule = "C18-f length-arithmetic-knows-the-sentinel"
			r.Rule(rule + ": MinLength / MaxLength are increased only by saturating code or behind a sentinel test")
			al := p.Named("regexanalysis", "AcceptedLengths")
			if al == nil {
				p.anchorFail("regexanalysis.AcceptedLengths")
				return
			}
			isSentinel := func(info *types.Info, e ast.Node) bool {
				hit := false
				ast.Inspect(e, func(y ast.Node) bool {
					if se, ok := y.(*ast.SelectorExpr); ok {
						if c, ok := info.Uses[se.Sel].(*types.Const); ok && c.Pkg() != nil && c.Pkg().Path() == "math" && strings.HasPrefix(c.Name(), "MaxUint") {
							hit = true
						}
					}
					return !hit
				})
				return hit
			}
			n := 0
			for _, f := range p.FnList {
				if f.Short != "regexanalysis" || f.Body() == nil {
					continue
				}
				info := f.Pkg.TypesInfo
				isLenField := func(e ast.Expr) bool {
					e = ast.Unparen(e)
					if u, ok := e.(*ast.UnaryExpr); ok && u.Op == token.AND {
						e = ast.Unparen(u.X)
					}
					se, ok := e.(*ast.SelectorExpr)
					if !ok || (se.Sel.Name != "MinLength" && se.Sel.Name != "MaxLength") {
						return false
					}
					nt := namedOf(info.TypeOf(se.X))
					return nt != nil && nt.Obj() == al.Obj()
				}
				// closures of this function by variable
				localLit := map[types.Object]*ast.FuncLit{}
				// (of this function and of the functions it is nested in: helpers declared next to the walking closure)
				for g := f; g != nil; g = g.Parent {
					inspectShallow(g.Body(), func(x ast.Node) bool {
						if as, ok := x.(*ast.AssignStmt); ok && len(as.Lhs) == len(as.Rhs) {
							for i, rh := range as.Rhs {
								if lit, ok := ast.Unparen(rh).(*ast.FuncLit); ok {
									if o := identObj(info, as.Lhs[i]); o != nil {
										localLit[o] = lit
									}
								}
							}
						}
						return true
					})
				}
				fl := p.Flow(f)
				for _, pt := range fl.Find(func(nd ast.Node) bool { return true }) {
					nd := fl.node(pt)
					// (1) through a helper
					inspectShallow(nd, func(x ast.Node) bool {
						c, ok := x.(*ast.CallExpr)
						if !ok {
							return true
						}
						passes := false
						for _, a := range c.Args {
							if isLenField(a) {
								passes = true
							}
						}
						if !passes {
							return true
						}
						var body ast.Node
						var hinfo = info
						if id, ok := ast.Unparen(c.Fun).(*ast.Ident); ok {
							if lit := localLit[info.Uses[id]]; lit != nil {
								body = lit.Body
							}
						}
						if body == nil {
							if fn := p.Callee(f.Pkg, c); fn != nil {
								if h := p.FnOfObj(fn); h != nil && h.Body() != nil {
									body, hinfo = h.Body(), h.Pkg.TypesInfo
								}
							}
						}
						if body == nil {
							return true // min/max builtins, fmt…: not an increase
						}
						// does the helper add at all?
						adds := false
						ast.Inspect(body, func(y ast.Node) bool {
							switch s := y.(type) {
							case *ast.BinaryExpr:
								if s.Op == token.ADD {
									adds = true
								}
							case *ast.IncDecStmt:
								if s.Tok == token.INC {
									adds = true
								}
							case *ast.AssignStmt:
								if s.Tok == token.ADD_ASSIGN {
									adds = true
								}
							}
							return true
						})
						if !adds {
							return true
						}
						n++
						key := fmt.Sprintf("%s increases a length through %s@%s", f.Key(), exprString(p.Fset, c.Fun), relLine(p, f, c))
						r.Check(isSentinel(hinfo, body), rule, key, p.Pos(c), "the helper knows the sentinel", "the function that adds to the length never looks at math.MaxUint: the 'unbounded / cannot finish' sentinel wraps around to a small number, and the minimum cached for a loop lies below its shortest match")
						return true
					})
					// (2) in place
					var lhs ast.Expr
					var operands []ast.Expr
					switch s := nd.(type) {
					case *ast.AssignStmt:
						if len(s.Lhs) == 1 && len(s.Rhs) == 1 && isLenField(s.Lhs[0]) {
							if s.Tok == token.ADD_ASSIGN {
								lhs, operands = s.Lhs[0], []ast.Expr{s.Lhs[0], s.Rhs[0]}
							} else if be, ok := ast.Unparen(s.Rhs[0]).(*ast.BinaryExpr); ok && s.Tok == token.ASSIGN && be.Op == token.ADD {
								lhs, operands = s.Lhs[0], []ast.Expr{be.X, be.Y}
							}
						}
					case *ast.IncDecStmt:
						if s.Tok == token.INC && isLenField(s.X) {
							lhs, operands = s.X, []ast.Expr{s.X}
						}
					}
					if lhs == nil {
						continue
					}
					n++
					key := fmt.Sprintf("%s adds to %s in place@%s", f.Key(), exprString(p.Fset, lhs), relLine(p, f, nd))
					opText := map[string]bool{}
					for _, o := range operands {
						opText[exprString(p.Fset, ast.Unparen(o))] = true
					}
					g := p.Flow(f)
					g.EdgeOK = func(b *cfg.Block, succ int) bool {
						if len(b.Succs) != 2 || len(b.Nodes) == 0 {
							return true
						}
						cond, ok := b.Nodes[len(b.Nodes)-1].(ast.Expr)
						if !ok {
							return true
						}
						tested := false
						ast.Inspect(cond, func(y ast.Node) bool {
							be, ok := y.(*ast.BinaryExpr)
							if !ok {
								return true
							}
							switch be.Op {
							case token.EQL, token.NEQ, token.LSS, token.GEQ, token.GTR, token.LEQ:
								l, rr := exprString(p.Fset, ast.Unparen(be.X)), exprString(p.Fset, ast.Unparen(be.Y))
								if (opText[l] && isSentinel(info, be.Y)) || (opText[rr] && isSentinel(info, be.X)) {
									tested = true
								}
							}
							return true
						})
						return !tested // either edge of such a test: the code distinguishes the sentinel
					}
					res := g.Reach([]Pt{g.Entry()}, func(m ast.Node) bool { return m == nd }, nil)
					r.Check(!res.Found, rule, key, p.Pos(nd), "reached only behind a comparison of an operand with the sentinel", "the length is increased in place without any of the operands having been compared with math.MaxUint ("+g.traceString(res)+"): the sentinel for 'unbounded / cannot finish on this path' wraps around, k bytes walked so far plus MaxUint is k−1, and that becomes the cached minimum of the loop — MinLength lies below the shortest match")
				}
			}
			r.Floor(rule, 3, n)
		})
}
