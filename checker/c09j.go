package main

// c09j.go: C09-j / C16-o a wakeup that is sent without waiting is sent on a channel that keeps it.
//
// Converter.reserveProcess waits for a free converter process by releasing both of its locks and then receiving from
// converter.signal; releaseProcess (and Reset) announce a free process with `select { case signal <- struct{}{}: default: }`.
// On an unbuffered channel that send succeeds only while a receiver is parked in the receive: a waiter that has released
// the locks and not reached the receive yet misses it. When it was the last release, the waiter — a worker of the
// converter job — waits for ever, the job never completes (#69, probes/c09_lost_wakeup: nine goroutines reserving and
// releasing, 20 000 short rounds, hangs within seconds).
//
// Rule (typed AST): for every `select` that consists of a send with an empty body and an empty default — fire and forget —
// the channel is a struct field whose every creation (`make(chan T, n)` in a composite literal or an assignment) has a
// constant capacity ≥ 1: the event is kept until the waiter looks.

import (
	"fmt"
	"go/ast"
	"go/types"
)

func init() {
	const expl = "(typed AST): every fire-and-forget send — `select { case ch <- v: default: }` with both bodies empty — goes to a channel that is a struct field and is created with a constant capacity ≥ 1 wherever it is created. The receiver of such a wakeup releases its locks before it receives; on an unbuffered channel a send in that window finds no parked receiver and is dropped. A worker of the converter job that misses the last 'process available' signal waits for ever: the job never completes and converter work is never done."
	register("C09", "C09-j "+expl, func(p *Prog, r *Res) { ruleWakeupKept(p, r, "C09-j wakeup-is-kept") })
	register("C16", "C16-o "+expl, func(p *Prog, r *Res) { ruleWakeupKept(p, r, "C16-o wakeup-is-kept") })
}

func ruleWakeupKept(p *Prog, r *Res, rule string) {
	r.Rule(rule + ": channels that receive fire-and-forget sends are buffered")
	// fields that receive such sends
	type site struct {
		f   *Fn
		pos ast.Node
	}
	fields := map[*types.Var][]site{}
	for _, f := range p.FnList {
		if f.Body() == nil || (f.Short != "converters" && f.Short != "manager" && f.Short != "builder" && f.Short != "index" && f.Short != "main") {
			continue
		}
		info := f.Pkg.TypesInfo
		inspectShallow(f.Body(), func(x ast.Node) bool {
			sel, ok := x.(*ast.SelectStmt)
			if !ok || len(sel.Body.List) != 2 {
				return true
			}
			var send *ast.SendStmt
			hasDefault, empty := false, true
			for _, cl := range sel.Body.List {
				cc := cl.(*ast.CommClause)
				if len(cc.Body) != 0 {
					empty = false
				}
				if cc.Comm == nil {
					hasDefault = true
				} else if s, ok := cc.Comm.(*ast.SendStmt); ok {
					send = s
				}
			}
			if send == nil || !hasDefault || !empty {
				return true
			}
			se, ok := ast.Unparen(send.Chan).(*ast.SelectorExpr)
			if !ok {
				return true
			}
			if v, ok := info.Uses[se.Sel].(*types.Var); ok && v.IsField() {
				fields[v] = append(fields[v], site{f, sel})
			}
			return true
		})
	}
	n := 0
	for v, sites := range fields {
		n++
		key := fmt.Sprintf("channel %s.%s receives fire-and-forget sends", v.Pkg().Name(), v.Name())
		// creations of the field
		var bad ast.Node
		creations := 0
		for _, g := range p.FnList {
			if g.Body() == nil || g.Pkg.Types != v.Pkg() {
				continue
			}
			ginfo := g.Pkg.TypesInfo
			check := func(e ast.Expr) {
				c, ok := ast.Unparen(e).(*ast.CallExpr)
				if !ok || !isBuiltin(ginfo, c, "make") {
					return
				}
				creations++
				if len(c.Args) < 2 {
					bad = c
					return
				}
				if k, isC := constInt(ginfo, c.Args[1]); !isC || k < 1 {
					bad = c
				}
			}
			inspectShallow(g.Body(), func(x ast.Node) bool {
				switch s := x.(type) {
				case *ast.KeyValueExpr:
					if id, ok := s.Key.(*ast.Ident); ok && ginfo.Uses[id] == types.Object(v) {
						check(s.Value)
					}
				case *ast.AssignStmt:
					if len(s.Lhs) == len(s.Rhs) {
						for i, l := range s.Lhs {
							if isFieldOf(ginfo, l, v) {
								check(s.Rhs[i])
							}
						}
					}
				}
				return true
			})
		}
		switch {
		case creations == 0:
			r.Undecided(rule, key, p.Pos(sites[0].pos), "no make(chan …) for this field was found")
		case bad != nil:
			r.Bad(rule, key, p.Pos(bad), fmt.Sprintf("the channel is created without a buffer (%s) and is sent to with `select { case … <- …: default: }` in %s: a send that finds no receiver parked in the receive is dropped; a waiter that released its locks and has not reached the receive yet misses the wakeup and, if it was the last one, waits for ever", exprString(p.Fset, bad), sites[0].f.Key()))
		default:
			r.Ok(rule, key, p.Pos(sites[0].pos), fmt.Sprintf("%d creation(s), all with a constant capacity ≥ 1; %d send site(s)", creations, len(sites)))
		}
	}
	r.Floor(rule, 1, n)
}
