package main

import (
	"fmt"
	"go/ast"
	"go/token"
	"go/types"
	"sort"
	"strings"
)

func init() {
	register("C20",
		"C20 (a static race check specialised to this architecture: goroutine-context confinement): every field of the service's shared structs (manager.Manager, manager.tag, manager.listener, manager.pcapOverIPEndpoint incl. its embedded info, builder.Builder, converters.Process) is classified by the contexts that access it — INIT (constructor before the loop starts), LOOP (closures received on Manager.jobs and what only they call), JOB:<f> (callee of a go statement), TIMER, API (exported entry points up to their post on Manager.jobs). A field written only in INIT is immutable afterwards and may be read anywhere; for every other field the rule reports each pair of conflicting accesses (one of them a write; writes include map/slice element stores, delete, in-place bitmask mutation, ++) from contexts that can run concurrently — LOOP against any JOB/TIMER/API context, two different JOB contexts, or two instances of one JOB — unless both are under a common mutex (converters) . Accesses through a by-value copy made on the service goroutine are accesses to private memory. Second clause: no address of a Manager field escapes the loop (event payloads, results). The published-value clauses are the copy-on-write rule (C06-a) and the index-list ownership rule (C10-b). The check over-approximates: it models no happens-before through channels except the three hand-off idioms (posted-and-awaited result, passed at go, returned in completion).",
		ruleC20,
		func(p *Prog, r *Res) { ruleFreshBitmasks(p, r, "C20 cow-published-bitmask", []string{"manager"}, 30) })
}

type fieldAccess struct {
	f     *Fn
	write bool
	pos   ast.Node
	ctxs  []string
	locks map[string]byte // mutex field name -> 'W' exclusive / 'R' shared, held at the access
}

// excluded: the two accesses cannot overlap because they hold a common lock, at least one of them exclusively.
func excluded(a, b fieldAccess) bool {
	for l, ka := range a.locks {
		if kb, ok := b.locks[l]; ok && (ka == 'W' || kb == 'W') {
			return true
		}
	}
	return false
}

func ruleC20(p *Prog, r *Res) {
	const rule = "C20 confine"
	r.Rule(rule + ": conflicting accesses to shared service state from contexts that may run concurrently")
	ctx := p.Contexts()
	type owner struct{ pkg, typ string }
	guardedTypes := []owner{{"manager", "Manager"}, {"manager", "tag"}, {"manager", "listener"}, {"manager", "pcapOverIPEndpoint"}, {"manager", "PcapOverIPEndpointInfo"}, {"builder", "Builder"}, {"converters", "Process"}, {"converters", "Converter"}}
	fieldOwner := map[*types.Var]string{}
	for _, o := range guardedTypes {
		n := p.Named(o.pkg, o.typ)
		if n == nil {
			continue
		}
		st, ok := n.Underlying().(*types.Struct)
		if !ok {
			continue
		}
		for i := 0; i < st.NumFields(); i++ {
			fieldOwner[st.Field(i)] = o.pkg + "." + o.typ
		}
	}
	// embedded query.TagDetails inside manager.tag: its bitmask fields are published values (C06-a), Conditions is set at construction
	acc := map[*types.Var][]fieldAccess{}
	for _, f := range p.FnList {
		if !ctxPkgs[f.Short] {
			continue
		}
		info := f.Pkg.TypesInfo
		cs := ctx.Of(f)
		if len(cs) == 0 {
			// never called from any classified context (dead or test-only): treat unexported as unreachable
			continue
		}
		// locks: mutex expressions locked somewhere in this function
		fl := p.Flow(f)
		lockExprs := map[string]bool{}
		for _, c := range callsIn(f.Body()) {
			if se, ok := ast.Unparen(c.Fun).(*ast.SelectorExpr); ok && (se.Sel.Name == "Lock" || se.Sel.Name == "RLock") {
				if t := info.TypeOf(se.X); t != nil && strings.Contains(t.String(), "sync.") {
					lockExprs[types.ExprString(se.X)] = true
				}
			}
		}
		heldAt := func(at ast.Node) map[string]byte {
			held := map[string]byte{}
			if len(lockExprs) == 0 {
				return held
			}
			pt, ok := fl.PointOf(at)
			if !ok {
				return held
			}
			target := fl.node(pt)
			for l := range lockExprs {
				for _, kind := range []struct {
					name string
					k    byte
				}{{"Lock", 'W'}, {"RLock", 'R'}} {
					isLock := func(n ast.Node) bool {
						return fl.hasCall(n, func(c *ast.CallExpr) bool {
							se, ok := ast.Unparen(c.Fun).(*ast.SelectorExpr)
							return ok && se.Sel.Name == kind.name && types.ExprString(se.X) == l
						})
					}
					if len(fl.Find(isLock)) == 0 {
						continue
					}
					un := map[string]string{"Lock": "Unlock", "RLock": "RUnlock"}[kind.name]
					isUnlock := func(n ast.Node) bool {
						if _, isDefer := n.(*ast.DeferStmt); isDefer {
							return false
						}
						return fl.hasCall(n, func(c *ast.CallExpr) bool {
							se, ok := ast.Unparen(c.Fun).(*ast.SelectorExpr)
							return ok && se.Sel.Name == un && types.ExprString(se.X) == l
						})
					}
					if res := fl.Reach([]Pt{fl.Entry()}, func(n ast.Node) bool { return n == target }, isLock); res.Found {
						continue
					}
					var unl []Pt
					for _, u := range fl.Find(isUnlock) {
						unl = append(unl, After(u))
					}
					if res := fl.Reach(unl, func(n ast.Node) bool { return n == target }, isLock); res.Found {
						continue
					}
					held[l[strings.LastIndexByte(l, '.')+1:]] = kind.k
				}
			}
			return held
		}
		inspectParents(f.Body(), func(n ast.Node, parents []ast.Node) bool {
			se, ok := n.(*ast.SelectorExpr)
			if !ok {
				return true
			}
			fv, ok := info.Uses[se.Sel].(*types.Var)
			if !ok || !fv.IsField() || fieldOwner[fv] == "" {
				return true
			}
			// by-value copies are private: base must be a pointer, a map/slice element of shared state, or a field of such
			bt := info.TypeOf(se.X)
			if bt == nil {
				return true
			}
			if _, isPtr := bt.Underlying().(*types.Pointer); !isPtr {
				// value: private if the base is a local variable / parameter of struct type
				if obj := identObj(info, se.X); obj != nil {
					if _, isVar := obj.(*types.Var); isVar {
						// `mgr` in New is a local Manager value until &mgr is returned: still INIT-confined; count it
						if f.Root().Key() != "manager.New" {
							return true
						}
					}
				}
			}
			write := false
			for i := len(parents) - 1; i >= 0 && !write; i-- {
				switch pn := parents[i].(type) {
				case *ast.AssignStmt:
					for _, l := range pn.Lhs {
						if within(se, l) {
							// x.f = …, x.f[k] = …, x.f.g = … all change what x.f denotes or refers to
							write = true
						}
					}
				case *ast.IncDecStmt:
					if within(se, pn.X) {
						write = true
					}
				case *ast.CallExpr:
					if isBuiltin(info, pn, "delete") && len(pn.Args) > 0 && within(se, pn.Args[0]) {
						write = true
					}
					// in-place bitmask mutation through the field: mgr.allStreams.Set(…)
					if fse, ok := ast.Unparen(pn.Fun).(*ast.SelectorExpr); ok && bmMutators[fse.Sel.Name] && within(se, fse.X) {
						if t := info.TypeOf(fse.X); t != nil && isBitmaskNamed(t) {
							write = true
						}
					}
				case *ast.UnaryExpr:
					if pn.Op == token.AND && within(se, pn.X) {
						// address taken: conservative write only if it escapes (handled by the escape clause)
					}
				case ast.Stmt:
					i = -1 // stop at the enclosing statement
				}
			}
			held := heldAt(se)
			acc[fv] = append(acc[fv], fieldAccess{f: f, write: write, pos: se, ctxs: cs, locks: held})
			// reading an embedded guarded struct as a whole reads all of its fields (e.PcapOverIPEndpointInfo)
			if nn := namedOf(fv.Type()); nn != nil && !write {
				if st, ok := nn.Underlying().(*types.Struct); ok {
					for i := 0; i < st.NumFields(); i++ {
						if fieldOwner[st.Field(i)] != "" {
							whole := true
							if len(parents) > 0 {
								if ps, ok := parents[len(parents)-1].(*ast.SelectorExpr); ok && ps.X == ast.Expr(se) {
									whole = false // e.Info.Field: only that field
								}
							}
							if whole {
								acc[st.Field(i)] = append(acc[st.Field(i)], fieldAccess{f: f, write: false, pos: se, ctxs: cs, locks: held})
							}
						}
					}
				}
			}
			return true
		})
	}
	// multi-instance job contexts: go statements inside loops, or in functions that can run repeatedly while an earlier instance lives
	multi := map[string]bool{}
	for _, gs := range ctx.GoSites {
		if gs.Callee == nil {
			continue
		}
		k := "JOB:" + gs.Callee.Key()
		// one goroutine per endpoint object / per Process object: same-context pairs touch different objects
		perObject := strings.HasPrefix(gs.Callee.Key(), "manager.Manager.newPcapOverIPEndpoint$") || strings.HasPrefix(gs.Callee.Key(), "converters.Process.run")
		single := perObject || gs.Callee.Name == "Manager.pcapOverIPPacketHandler" || gs.Callee.Name == "Manager.tagUpdateEventWorker" ||
			strings.HasPrefix(gs.Callee.Key(), "manager.Manager.startMonitoring") || gs.Callee.Name == "New$1"
		// the four flag-guarded jobs are single-flight by their running flags (merge, tagging, converter) or by the import queue discipline
		for _, sf := range []string{"Manager.mergeIndexesJob", "Manager.updateTagJob", "Manager.convertStreamJob", "Manager.importPcapJob"} {
			if gs.Callee.Name == sf {
				single = true
			}
		}
		if !single {
			multi[k] = true
		}
	}
	concurrent := func(a, b string) bool {
		if a == ctxINIT || b == ctxINIT {
			return false
		}
		if a == ctxLOOP && b == ctxLOOP {
			return false
		}
		if a == b {
			return multi[a] || a == ctxAPI || a == ctxTIMER
		}
		return true
	}
	var fields []*types.Var
	for fv := range acc {
		fields = append(fields, fv)
	}
	sort.Slice(fields, func(i, j int) bool {
		return fieldOwner[fields[i]]+"."+fields[i].Name() < fieldOwner[fields[j]]+"."+fields[j].Name()
	})
	nFields := 0
	for _, fv := range fields {
		as := acc[fv]
		name := fieldOwner[fv] + "." + fv.Name()
		// init-only?
		initOnly := true
		nW := 0
		for _, a := range as {
			if a.write {
				nW++
				for _, c := range a.ctxs {
					if c != ctxINIT {
						initOnly = false
					}
				}
			}
		}
		nFields++
		if initOnly {
			r.OkTrivial(rule, name, p.PosOf(fv.Pos()), fmt.Sprintf("written only during construction (%d writes), immutable afterwards; %d accesses", nW, len(as)))
			continue
		}
		// mutex fields and channels used for synchronisation are not data
		if strings.Contains(fv.Type().String(), "sync.") {
			r.OkTrivial(rule, name, p.PosOf(fv.Pos()), "synchronisation primitive")
			continue
		}
		conflict := ""
		var cpos ast.Node
		for i := 0; i < len(as) && conflict == ""; i++ {
			for j := i; j < len(as) && conflict == ""; j++ {
				a, b := as[i], as[j]
				if !a.write && !b.write {
					continue
				}
				if excluded(a, b) {
					continue
				}
				for _, ca := range a.ctxs {
					for _, cb := range b.ctxs {
						if i == j && ca == cb && !multi[ca] && ca != ctxAPI {
							continue
						}
						if concurrent(ca, cb) && conflict == "" {
							wa, wb := "read", "read"
							if a.write {
								wa = "write"
							}
							if b.write {
								wb = "write"
							}
							conflict = fmt.Sprintf("%s in %s [%s] at %s vs %s in %s [%s] at %s", wa, a.f.Key(), ca, p.Pos(a.pos), wb, b.f.Key(), cb, p.Pos(b.pos))
							cpos = a.pos
						}
					}
				}
			}
		}
		if conflict == "" {
			ctxsSeen := map[string]bool{}
			for _, a := range as {
				for _, c := range a.ctxs {
					ctxsSeen[c] = true
				}
			}
			var cl []string
			for c := range ctxsSeen {
				cl = append(cl, c)
			}
			sort.Strings(cl)
			r.Ok(rule, name, p.PosOf(fv.Pos()), fmt.Sprintf("%d accesses (%d writes) confined to %s", len(as), nW, ctxString(cl)))
		} else {
			r.Bad(rule, name, p.Pos(cpos), "unsynchronised conflicting accesses from contexts that may run concurrently: "+conflict)
		}
	}
	r.Floor(rule+" fields classified", 45, nFields)
	r.Floor(rule+" closures posted on Manager.jobs", 34, len(ctx.Posted))
	r.Floor(rule+" go statements", 18, len(ctx.GoSites))
	var ctxDump []string
	for _, f := range p.FnList {
		if f.Short == "manager" && f.Lit == nil {
			ctxDump = append(ctxDump, f.Name+ctxString(ctx.Of(f)))
		}
	}
	r.Note("contexts of declared functions in manager: %s", strings.Join(ctxDump, " "))
	r.Assume("importPcapJob is single-flight: it is started only when the import queue was empty or by its own completion (value-level discipline of Manager.importJobs)")
	r.Assume("the three flag-guarded jobs (merge, tagging, converter) are single-flight by their running flags (C09-b)")

	// ---------- escape clause ----------
	const ruleE = "C20 escape"
	r.Rule(ruleE + ": no address of a Manager field leaves the service goroutine")
	ne := 0
	mgrT := p.Named("manager", "Manager")
	for _, f := range p.FnList {
		if f.Short != "manager" {
			continue
		}
		info := f.Pkg.TypesInfo
		inspectParents(f.Body(), func(n ast.Node, parents []ast.Node) bool {
			u, ok := n.(*ast.UnaryExpr)
			if !ok || u.Op != token.AND {
				return true
			}
			se, ok := ast.Unparen(u.X).(*ast.SelectorExpr)
			if !ok {
				return true
			}
			if nn := namedOf(info.TypeOf(se.X)); nn == nil || mgrT == nil || nn.Obj() != mgrT.Obj() {
				return true
			}
			fv, _ := info.Uses[se.Sel].(*types.Var)
			if fv == nil || !fv.IsField() {
				return true
			}
			ne++
			// allowed: argument of a call to a method on the same goroutine that does not retain (lock(&…), bitmask operand)
			okUse, why := false, "stored or sent"
			if len(parents) > 0 {
				switch pn := parents[len(parents)-1].(type) {
				case *ast.CallExpr:
					if fn := p.Callee(f.Pkg, pn); fn != nil {
						okUse, why = true, "argument of "+fn.Name()+" (synchronous call on this goroutine)"
						if _, isGo := parentGo(parents); isGo {
							okUse, why = false, "passed to a goroutine"
						}
					}
				}
			}
			key := fmt.Sprintf("%s &Manager.%s", f.Key(), fv.Name())
			r.Check(okUse, ruleE, key, p.Pos(u), why, "the address of a field owned by the service goroutine is "+why+": whoever receives it reads the field while the service goroutine keeps changing it")
			return true
		})
	}
	r.Note("%s: %d address-of-Manager-field expressions examined", ruleE, ne)
	r.OkTrivial(ruleE, fmt.Sprintf("address-of-Manager-field expressions in package manager: %d examined", ne), "", "each is judged as its own obligation above; a positive control (the pre-repair webhook event) is replayed in the thorough tier")
	// results and events must not carry Manager-owned slices/maps themselves: `c <- mgr.field` / Event{…: mgr.field}
	nv := 0
	for _, f := range p.FnList {
		if f.Short != "manager" || !ctx.Has(f, ctxLOOP) {
			continue
		}
		info := f.Pkg.TypesInfo
		check := func(e ast.Expr, how string, at ast.Node) {
			se, ok := ast.Unparen(e).(*ast.SelectorExpr)
			if !ok {
				return
			}
			if nn := namedOf(info.TypeOf(se.X)); nn == nil || mgrT == nil || nn.Obj() != mgrT.Obj() {
				return
			}
			t := info.TypeOf(se)
			switch t.Underlying().(type) {
			case *types.Slice, *types.Map, *types.Pointer:
				nv++
				fv, _ := info.Uses[se.Sel].(*types.Var)
				initOnly := true
				for _, a := range acc[fv] {
					if a.write {
						for _, c := range a.ctxs {
							if c != ctxINIT {
								initOnly = false
							}
						}
					}
				}
				r.Check(initOnly, ruleE, fmt.Sprintf("%s %s Manager.%s", f.Key(), how, se.Sel.Name), p.Pos(at), "field is immutable after construction", "a slice/map/pointer owned by the service goroutine is "+how+" as is: the receiver reads it on another goroutine while later calls change it in place (copy it first)")
			}
		}
		inspectShallow(f.Body(), func(x ast.Node) bool {
			switch s := x.(type) {
			case *ast.SendStmt:
				if !ctx.isJobsChan(info, s.Chan) {
					check(s.Value, "sent on a channel", s)
				}
			case *ast.CompositeLit:
				if nn := namedOf(info.TypeOf(s)); nn != nil && nn.Obj().Name() == "Event" {
					for _, el := range s.Elts {
						if kv, ok := el.(*ast.KeyValueExpr); ok {
							check(kv.Value, "put into an Event", kv)
						}
					}
				}
			}
			return true
		})
	}
	r.Floor(ruleE+" escaping values examined", 0, nv)
}

func parentGo(parents []ast.Node) (*ast.GoStmt, bool) {
	for i := len(parents) - 1; i >= 0; i-- {
		if g, ok := parents[i].(*ast.GoStmt); ok {
			return g, true
		}
		if _, ok := parents[i].(ast.Stmt); ok {
			break
		}
	}
	return nil, false
}
