package main

// c05m.go: C05-m a pointer handed out of a loop points at the element, not at the loop's copy.
//
// `for _, c := range a.connections[hash]` copies each `connection` into c. Seeded C05o extracted the flow lookup of the
// UDP assembler into a helper that returns `&c`: the caller's `c.lastActivity = ts` lands in the copy, the stored element
// never registers activity, and every UDP flow is closed five minutes after its first datagram however busy it is — one
// conversation becomes three streams. (C05-j is the same defect with the copy returned by value.)
//
// Rule (typed AST): in packages builder, udpreassembly, streams and index the address of a range value variable of struct
// type (`&v`, `&v.F`) is not returned, sent, or stored (right side of an assignment to anything but a local that is only
// read, element of a composite literal or of append). Passing it to a call is using the copy, which is fine.

import (
	"fmt"
	"go/ast"
	"go/token"
	"go/types"
)

func init() {
	register("C05",
		"C05-m (typed AST): in packages builder, udpreassembly, streams and index the address of a range value variable of struct type (`&v`, `&v.F`) is not returned, sent on a channel, or stored (assigned, put into a composite literal, appended): the variable is the loop's copy of the element. A lookup helper that returns `&c` from `for _, c := range list` hands out a pointer to the copy; what the caller writes through it — the last activity of a UDP flow — never reaches the stored element, and a busy flow is closed and split five minutes after it began.",
		func(p *Prog, r *Res) {
			const rule = "C05-m no-pointer-to-the-loop-copy"
			r.Rule(rule + ": the address of a struct-valued range variable does not leave the iteration")
			n := 0
			for _, f := range p.FnList {
				switch f.Short {
				case "builder", "udpreassembly", "streams", "index":
				default:
					continue
				}
				if f.Body() == nil {
					continue
				}
				info := f.Pkg.TypesInfo
				idx := 0
				inspectShallow(f.Body(), func(x ast.Node) bool {
					rs, ok := x.(*ast.RangeStmt)
					if !ok || rs.Value == nil || rs.Tok != token.DEFINE {
						return true
					}
					v := identObj(info, rs.Value)
					if v == nil {
						return true
					}
					if _, isStruct := v.Type().Underlying().(*types.Struct); !isStruct {
						return true
					}
					idx++
					n++
					bad := ""
					var at ast.Node = rs
					inspectParents(rs.Body, func(y ast.Node, ps []ast.Node) bool {
						u, ok := y.(*ast.UnaryExpr)
						if !ok || u.Op != token.AND || bad != "" {
							return true
						}
						// &v or &v.F…
						e := ast.Unparen(u.X)
						for {
							se, ok := e.(*ast.SelectorExpr)
							if !ok {
								break
							}
							e = ast.Unparen(se.X)
						}
						if identObj(info, e) != v || len(ps) == 0 {
							return true
						}
						switch par := ps[len(ps)-1].(type) {
						case *ast.ReturnStmt:
							bad = "returned"
						case *ast.SendStmt:
							bad = "sent on a channel"
						case *ast.KeyValueExpr, *ast.CompositeLit:
							bad = "stored in a composite literal"
						case *ast.AssignStmt:
							for i, rh := range par.Rhs {
								if rh == ast.Expr(u) && i < len(par.Lhs) {
									if lo, ok := identObj(info, par.Lhs[i]).(*types.Var); ok && !lo.IsField() && lo.Parent() != nil && lo.Parent() != lo.Pkg().Scope() && lo.Pos() > rs.Pos() && lo.Pos() < rs.End() {
										continue // a local of the iteration
									}
									bad = "assigned to " + types.ExprString(par.Lhs[i])
								}
							}
						case *ast.CallExpr:
							if isBuiltin(info, par, "append") {
								bad = "appended"
							}
						}
						if bad != "" {
							at = u
						}
						return true
					})
					key := fmt.Sprintf("%s range #%d over %s", f.Key(), idx, types.ExprString(rs.X))
					r.Check(bad == "", rule, key, p.Pos(at), "no address of the loop's copy leaves the iteration", "the address of the range variable "+v.Name()+" is "+bad+": it points at the loop's copy of the element, not at the element — what is written through it (the last activity of a flow, a counter, a flag) never reaches the stored element")
					return true
				})
			}
			r.Floor(rule, 3, n)
		})
}
