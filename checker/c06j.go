package main

// c06j.go: C06-j / C02-o conditions are evaluated against the reference time they were parsed with.
//
// query.Parse turns every time filter into a duration relative to the moment of the parse (Query.ReferenceTime); the
// search adds the offset between a file's reference time and the refTime it is given. Conditions and reference time
// belong together. A tag keeps the Conditions of the parse that defined it. The tagging job re-parses the definition
// and uses the new pair (right); the two on-demand paths used the STORED conditions with another reference time —
// View.prefetchTags with the zero time, the inlining of a pending tag with the reference time of the surrounding
// search: a pending tag with an absolute time filter was decided wrongly by a view, and `tag:x` answered differently
// before and after the tagging job (#50, probes/c06_tag_time_reference).
//
// Rule (typed AST):
//   (1) at every call of index.SearchStreams outside package index the refTime argument is X.ReferenceTime for the
//       same X whose X.Conditions is the conditions argument;
//   (2) at every call of ConditionsSet.InlineTagFilters whose receiver is T.Conditions of a TagDetails T, the reference
//       time argument is T.ReferenceTime;
//   (3) a function of package query that reads TagDetails.Conditions and has a time.Time parameter P — the reference
//       time of the surrounding conditions — contains a call that receives both a TagDetails' ReferenceTime and P:
//       the re-basing of what is inlined.

import (
	"fmt"
	"go/ast"
	"go/types"
)

func init() {
	const expl = "(typed AST): conditions and the reference time of their parse stay together. (1) At every call of index.SearchStreams from outside package index the refTime argument is X.ReferenceTime of the same X whose X.Conditions is passed. (2) Where the conditions of a TagDetails T are inlined (T.Conditions.InlineTagFilters), the reference time passed is T.ReferenceTime. (3) The inlining function, which knows the reference time P of the surrounding conditions, contains a call that receives both T.ReferenceTime and P — the re-basing. A tag's stored conditions evaluated against another reference time shift every absolute time filter by the age of the tag (or, with the zero time, by two thousand years): a pending tag is decided wrongly on demand."
	register("C06", "C06-j "+expl, func(p *Prog, r *Res) { ruleRefTimeWithConditions(p, r, "C06-j conditions-with-their-reference-time") })
	register("C02", "C02-o "+expl, func(p *Prog, r *Res) { ruleRefTimeWithConditions(p, r, "C02-o conditions-with-their-reference-time") })
}

func ruleRefTimeWithConditions(p *Prog, r *Res, rule string) {
	r.Rule(rule + ": refTime arguments are the ReferenceTime of the object whose Conditions are evaluated")
	search := p.Fn("index.SearchStreams")
	if search == nil || search.Decl == nil {
		p.anchorFail("index.SearchStreams")
		return
	}
	refIdx, condIdx, i := -1, -1, 0
	for _, fld := range search.Decl.Type.Params.List {
		for _, nm := range fld.Names {
			o := search.Pkg.TypesInfo.Defs[nm]
			if o != nil {
				ts := types.TypeString(o.Type(), func(pk *types.Package) string { return pk.Name() })
				if ts == "time.Time" && refIdx < 0 {
					refIdx = i
				}
				if ts == "query.ConditionsSet" && condIdx < 0 {
					condIdx = i
				}
			}
			i++
		}
	}
	if refIdx < 0 || condIdx < 0 {
		p.anchorFail("the time.Time and query.ConditionsSet parameters of index.SearchStreams")
		return
	}
	sobj, _ := search.Pkg.TypesInfo.Defs[search.Decl.Name].(*types.Func)
	inline := p.Method("query", "ConditionsSet", "InlineTagFilters")
	tdNamed := p.Named("query", "TagDetails")
	// X.F with X rendered as text
	selOf := func(e ast.Expr, field string) (string, bool) {
		se, ok := ast.Unparen(e).(*ast.SelectorExpr)
		if !ok || se.Sel.Name != field {
			return "", false
		}
		return exprString(p.Fset, ast.Unparen(se.X)), true
	}
	n1, n2, n3 := 0, 0, 0
	for _, f := range p.FnList {
		if f.Body() == nil {
			continue
		}
		info := f.Pkg.TypesInfo
		inspectShallow(f.Body(), func(x ast.Node) bool {
			c, ok := x.(*ast.CallExpr)
			if !ok {
				return true
			}
			fn := p.Callee(f.Pkg, c)
			if fn == nil {
				return true
			}
			// (1)
			if fn == sobj && f.Short != "index" && len(c.Args) > refIdx && len(c.Args) > condIdx {
				n1++
				key := fmt.Sprintf("%s evaluates %s", f.Key(), exprString(p.Fset, c.Args[condIdx]))
				cx, ok1 := selOf(c.Args[condIdx], "Conditions")
				rx, ok2 := selOf(c.Args[refIdx], "ReferenceTime")
				r.Check(ok1 && ok2 && cx == rx, rule, key, p.Pos(c), "against "+exprString(p.Fset, c.Args[refIdx]), "the conditions "+exprString(p.Fset, c.Args[condIdx])+" are evaluated against "+exprString(p.Fset, c.Args[refIdx])+", which is not the reference time of their parse: every absolute time filter in them is shifted by the difference — a pending tag with a time filter is decided wrongly when a view evaluates it on demand")
			}
			// (2)
			if inline != nil && fn.Origin() == inline && len(c.Args) >= 2 {
				if se, ok := ast.Unparen(c.Fun).(*ast.SelectorExpr); ok {
					if tx, isCond := selOf(se.X, "Conditions"); isCond {
						if rs, ok := ast.Unparen(se.X).(*ast.SelectorExpr); ok && tdNamed != nil {
							if nt := namedOf(info.TypeOf(rs.X)); nt != nil && nt.Obj() == tdNamed.Obj() {
								n2++
								key := fmt.Sprintf("%s inlines %s.Conditions", f.Key(), tx)
								okArg := false
								for _, a := range c.Args[1:] {
									if ax, isRef := selOf(a, "ReferenceTime"); isRef && ax == tx {
										okArg = true
									}
								}
								r.Check(okArg, rule, key, p.Pos(c), "with "+tx+".ReferenceTime", "the conditions of tag details "+tx+" are inlined with a reference time other than "+tx+".ReferenceTime: the tags they reference in turn are re-based from the wrong origin")
							}
						}
					}
				}
			}
			return true
		})
		// (3)
		if f.Short == "query" && f.Decl != nil && tdNamed != nil {
			var P types.Object
			for _, fld := range f.Decl.Type.Params.List {
				for _, nm := range fld.Names {
					if o := info.Defs[nm]; o != nil && types.TypeString(o.Type(), nil) == "time.Time" {
						P = o
					}
				}
			}
			readsCond := false
			inspectShallow(f.Body(), func(x ast.Node) bool {
				if se, ok := x.(*ast.SelectorExpr); ok && se.Sel.Name == "Conditions" {
					if nt := namedOf(info.TypeOf(se.X)); nt != nil && nt.Obj() == tdNamed.Obj() {
						readsCond = true
					}
				}
				return true
			})
			if readsCond {
				n3++
				key := fmt.Sprintf("%s re-bases what it inlines", f.Key())
				ok := false
				if P != nil {
					inspectShallow(f.Body(), func(x ast.Node) bool {
						c, isCall := x.(*ast.CallExpr)
						if !isCall {
							return true
						}
						hasP, hasRef := false, false
						for _, a := range c.Args {
							if identObj(info, a) == P {
								hasP = true
							}
							if se, isSel := ast.Unparen(a).(*ast.SelectorExpr); isSel && se.Sel.Name == "ReferenceTime" {
								if nt := namedOf(info.TypeOf(se.X)); nt != nil && nt.Obj() == tdNamed.Obj() {
									hasRef = true
								}
							}
						}
						if hasP && hasRef {
							ok = true
						}
						return true
					})
				}
				r.Check(ok, rule, key, p.Pos(f.Node()), "a call receives the tag's ReferenceTime and the reference time of the surrounding conditions", "the stored conditions of a tag are merged into other conditions without being re-based from the tag's reference time to the one of the surrounding query: every absolute time filter of the tag is shifted by the age of the tag, so `tag:x` answers differently while the tag is pending and after the tagging job has decided it")
			}
		}
	}
	r.Floor(rule+" search calls", 3, n1)
	r.Note("%s: %d SearchStreams calls, %d inlinings of tag conditions, %d inlining functions", rule, n1, n2, n3)
}
