package main

// c03l.go: C03-l the constant of a number condition is divided only by what was tested to divide it.
//
// cleanNumberConditions shortens `c·X + n ≥ 0` by the common factor of the summands. That is an equivalence only when the
// factor also divides n (for whole X the exact rewrite of 2·X − 1 ≥ 0 is X − 1 ≥ 0, the floor — Go's `/` truncates towards
// zero and gives X ≥ 0). The function therefore lowers the factor until it divides |n| and only then divides. Seeded C03m
// dropped the search ("n/c rounded"): `cport::@sport@+@sport@-@cport@-1` normalises to cport ≤ sport and accepts the
// stream with cport = sport that the query as written rejects.
//
// Rule (FLOW, value flow): in package query every plain division of a NumberCondition's Number by a non-constant d
// (`X.Number /= d`, `X.Number = X.Number / d`) is reached only through a node that computes `E % d` for an E derived from
// that Number (the field itself or a local assigned from it, its negation included).

import (
	"fmt"
	"go/ast"
	"go/token"
	"go/types"
)

func init() {
	register("C03",
		"C03-l (FLOW, value flow): in package query a plain division of NumberCondition.Number by a non-constant divisor d is reached only through a node that computes E % d with E derived from that Number: the divisor was tested to divide the constant. Shortening c·X + n ≥ 0 by a factor that does not divide n needs the floor of n/c; Go's division truncates towards zero, so for negative n the normalised condition accepts values the written one rejects.",
		func(p *Prog, r *Res) {
			const rule = "C03-l exact-division-of-the-constant"
			r.Rule(rule + ": NumberCondition.Number is divided only by a tested divisor")
			numF := p.Field("query", "NumberCondition", "Number")
			if numF == nil {
				p.anchorFail("query.NumberCondition.Number")
				return
			}
			n := 0
			for _, f := range p.FnList {
				if f.Short != "query" || f.Body() == nil {
					continue
				}
				info := f.Pkg.TypesInfo
				isNum := func(e ast.Expr) bool {
					se, ok := ast.Unparen(e).(*ast.SelectorExpr)
					return ok && info.Uses[se.Sel] == types.Object(numF)
				}
				// locals derived from Number
				derived := map[types.Object]bool{}
				for changed := true; changed; {
					changed = false
					inspectShallow(f.Body(), func(x ast.Node) bool {
						as, ok := x.(*ast.AssignStmt)
						if !ok || len(as.Lhs) != len(as.Rhs) {
							return true
						}
						for i, l := range as.Lhs {
							o := identObj(info, l)
							if o == nil || derived[o] {
								continue
							}
							hit := false
							ast.Inspect(as.Rhs[i], func(y ast.Node) bool {
								if e, ok := y.(ast.Expr); ok && (isNum(e) || derived[identObj(info, e)]) {
									hit = true
								}
								return !hit
							})
							if hit {
								derived[o] = true
								changed = true
							}
						}
						return true
					})
				}
				fl := p.Flow(f)
				for _, pt := range fl.Find(func(nd ast.Node) bool {
					as, ok := nd.(*ast.AssignStmt)
					if !ok || len(as.Lhs) != 1 || len(as.Rhs) != 1 || !isNum(as.Lhs[0]) {
						return false
					}
					if as.Tok == token.QUO_ASSIGN {
						return true
					}
					be, ok := ast.Unparen(as.Rhs[0]).(*ast.BinaryExpr)
					return ok && as.Tok == token.ASSIGN && be.Op == token.QUO && isNum(be.X)
				}) {
					as := fl.node(pt).(*ast.AssignStmt)
					div := as.Rhs[0]
					if as.Tok == token.ASSIGN {
						div = ast.Unparen(as.Rhs[0]).(*ast.BinaryExpr).Y
					}
					if _, isC := constInt(info, div); isC {
						continue
					}
					n++
					dtxt := exprString(p.Fset, ast.Unparen(div))
					key := fmt.Sprintf("%s divides Number by %s@%s", f.Key(), dtxt, relLine(p, f, as))
					tests := func(nd ast.Node) bool {
						hit := false
						inspectShallow(nd, func(y ast.Node) bool {
							be, ok := y.(*ast.BinaryExpr)
							if !ok || be.Op != token.REM || exprString(p.Fset, ast.Unparen(be.Y)) != dtxt {
								return true
							}
							ast.Inspect(be.X, func(z ast.Node) bool {
								if e, ok := z.(ast.Expr); ok && (isNum(e) || derived[identObj(info, e)]) {
									hit = true
								}
								return !hit
							})
							return !hit
						})
						return hit
					}
					res := fl.Reach([]Pt{fl.Entry()}, func(nd ast.Node) bool { return nd == ast.Node(as) }, tests)
					r.Check(!res.Found, rule, key, p.Pos(as), "reached only through a test `… % "+dtxt+"` on the constant", "the constant of the condition is divided by "+dtxt+" without that divisor having been tested against it ("+fl.traceString(res)+"): when it does not divide the constant the exact rewrite needs the floor, Go's division truncates towards zero — for a negative constant the normalised condition accepts a value the query as written rejects")
				}
			}
			r.Floor(rule, 1, n)
		})
}
