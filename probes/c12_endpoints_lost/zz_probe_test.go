package manager

// Probe for defect D27 (C12): copy into internal/index/manager of a scratch worktree and run
//   go test -count=1 -vet=off -run TestProbeEndpointsSurvive ./internal/index/manager/
// New() saved the state — and deleted the old state file — when the pcap directory held a capture the state file did
// not know, BEFORE it had restored the PCAP-over-IP endpoints of the old state. The new file listed no endpoints; a kill
// before the next save lost them. The probe looks at the state file on disk right after the restart.

import (
	"os"
	"path/filepath"
	"strings"
	"testing"
)

func TestProbeEndpointsSurvive(t *testing.T) {
	dirs := makeTempdirs(t)
	mgr := makeManager(t, dirs)
	if err := mgr.AddPcapOverIPEndpoint("127.0.0.1:1"); err != nil {
		t.Fatal(err)
	}
	mgr.Close()
	// a capture that the state file does not know appears while the service is down
	if _, err := writePcaps(dirs.pcap, []pcapOverIPPacket{makeUDPPacket("1.2.3.4:1", "4.3.2.1:2", t1, "x")}); err != nil {
		t.Fatal(err)
	}
	mgr2 := makeManager(t, dirs)
	// what would a kill at this point leave behind?
	files, _ := filepath.Glob(filepath.Join(dirs.state, "*.state.json"))
	if len(files) != 1 {
		t.Fatalf("state files: %v", files)
	}
	b, _ := os.ReadFile(files[0])
	if !strings.Contains(string(b), "127.0.0.1:1") {
		t.Errorf("the state file written during start-up no longer lists the PCAP-over-IP endpoint: %s", b)
	}
	mgr2.Close()
}
