package manager

import (
	"testing"
	"time"

	"github.com/spq/pkappa2/internal/index"
	"github.com/spq/pkappa2/internal/query"
	"github.com/spq/pkappa2/internal/tools/bitmask"
)

func onLoop(mgr *Manager, f func()) {
	c := make(chan struct{})
	mgr.jobs <- func() { f(); close(c) }
	<-c
}

func settle2(t *testing.T, mgr *Manager) {
	deadline := time.Now().Add(10 * time.Second)
	for time.Now().Before(deadline) {
		s := mgr.Status()
		if s.ImportJobCount == 0 && !s.TaggingJobRunning && !s.MergeJobRunning && !s.ConverterJobRunning {
			pending := false
			for _, ti := range mgr.ListTags() {
				if ti.UncertainCount != 0 {
					pending = true
				}
			}
			if !pending {
				time.Sleep(200 * time.Millisecond)
				return
			}
		}
		time.Sleep(50 * time.Millisecond)
	}
	t.Fatalf("did not settle")
}

func counts(mgr *Manager) map[string]uint {
	m := map[string]uint{}
	for _, ti := range mgr.ListTags() {
		m[ti.Name] = ti.MatchingCount
	}
	return m
}

// query change of a referenced tag while the referencing tag's job is in flight
func TestProbeRaiseDuringJobQuery(t *testing.T) {
	dirs := makeTempdirs(t)
	mgr := makeManager(t, dirs)
	defer mgr.Close()
	t1 := time.Date(2020, 1, 1, 0, 0, 0, 0, time.UTC)
	importSomePackets(t, mgr, t1, "pcapProcessed") // cports 1..4 -> stream ids 0..3
	settle2(t, mgr)
	if err := mgr.AddTag("tag/r", "red", "cport:1,2"); err != nil {
		t.Fatal(err)
	}
	settle2(t, mgr)
	if err := mgr.AddTag("tag/x", "red", "tag:r"); err != nil {
		t.Fatal(err)
	}
	settle2(t, mgr)
	if c := counts(mgr); c["tag/r"] != 2 || c["tag/x"] != 2 {
		t.Fatalf("setup: %v", c)
	}
	var job func()
	onLoop(mgr, func() {
		// x becomes uncertain and its job is started exactly like startTaggingJobIfNeeded does, but held by the test
		x := *mgr.tags["tag/x"]
		x.Uncertain = mgr.allStreams
		mgr.tags["tag/x"] = &x
		tagDetails := map[string]query.TagDetails{}
		for _, tn := range x.referencedTags() {
			tagDetails[tn] = mgr.tags[tn].TagDetails
		}
		mgr.updatedStreamsDuringTaggingJob = bitmask.LongBitmask{}
		mgr.resetStreamsDuringTaggingJob = bitmask.LongBitmask{}
		mgr.addedStreamsDuringTaggingJob = bitmask.LongBitmask{}
		mgr.taggingJobRunning = true
		indexes, releaser := mgr.getIndexesCopy(0)
		converters := map[string]index.ConverterAccess{}
		job = func() { mgr.updateTagJob("tag/x", x, tagDetails, converters, indexes, releaser) }
	})
	// while the job is "in flight": r changes
	if err := mgr.UpdateTag("tag/r", UpdateTagOperationUpdateQuery("cport:4")); err != nil {
		t.Fatal(err)
	}
	job() // evaluates x against the OLD r and posts its completion
	settle2(t, mgr)
	c := counts(mgr)
	t.Logf("after: %v", c)
	if c["tag/r"] != 1 || c["tag/x"] != 1 {
		t.Errorf("tag/x is stale: r=%d x=%d, want 1 and 1", c["tag/r"], c["tag/x"])
	}
}

// mark change while the job of a tag that references the mark is in flight
func TestProbeRaiseDuringJobMark(t *testing.T) {
	dirs := makeTempdirs(t)
	mgr := makeManager(t, dirs)
	defer mgr.Close()
	t1 := time.Date(2020, 1, 1, 0, 0, 0, 0, time.UTC)
	importSomePackets(t, mgr, t1, "pcapProcessed")
	settle2(t, mgr)
	if err := mgr.AddTag("mark/m", "red", "id:0,1"); err != nil {
		t.Fatal(err)
	}
	settle2(t, mgr)
	if err := mgr.AddTag("tag/x", "red", "mark:m"); err != nil {
		t.Fatal(err)
	}
	settle2(t, mgr)
	if c := counts(mgr); c["mark/m"] != 2 || c["tag/x"] != 2 {
		t.Fatalf("setup: %v", c)
	}
	var job func()
	onLoop(mgr, func() {
		x := *mgr.tags["tag/x"]
		x.Uncertain = mgr.allStreams
		mgr.tags["tag/x"] = &x
		tagDetails := map[string]query.TagDetails{}
		for _, tn := range x.referencedTags() {
			tagDetails[tn] = mgr.tags[tn].TagDetails
		}
		mgr.updatedStreamsDuringTaggingJob = bitmask.LongBitmask{}
		mgr.resetStreamsDuringTaggingJob = bitmask.LongBitmask{}
		mgr.addedStreamsDuringTaggingJob = bitmask.LongBitmask{}
		mgr.taggingJobRunning = true
		indexes, releaser := mgr.getIndexesCopy(0)
		converters := map[string]index.ConverterAccess{}
		job = func() { mgr.updateTagJob("tag/x", x, tagDetails, converters, indexes, releaser) }
	})
	if err := mgr.UpdateTag("mark/m", UpdateTagOperationMarkAddStream([]uint64{3})); err != nil {
		t.Fatal(err)
	}
	job()
	settle2(t, mgr)
	c := counts(mgr)
	t.Logf("after: %v", c)
	if c["mark/m"] != 3 || c["tag/x"] != 3 {
		t.Errorf("tag/x is stale: m=%d x=%d, want 3 and 3", c["mark/m"], c["tag/x"])
	}
}
