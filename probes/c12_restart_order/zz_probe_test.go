package manager

// Probe for reported defect D15 (C07/C12): copy into internal/index/manager of a scratch worktree and run
//   go test -count=1 -vet=off -run TestProbeRestartOrder ./internal/index/manager/
//
// Manager.indexes is ordered by installation (a later element supersedes earlier ones); manager.New rebuilds the list
// in file-name order, and a name is the wall-clock time at which the file was CREATED. An import creates its index
// file some time before its completion installs it; a merge that starts in between creates its output later, but
// installs it at the position of its inputs — in front of the import's file. After a restart the merged file sorts
// behind the import's file and its old versions of the streams win.
//
// The schedule is produced with real jobs: merging is held back by setting mergeJobRunning (which stands for "a merge
// is running"), and it is released — as the completion of that merge would — the moment the import's index file
// appears in the index directory.

import (
	"fmt"
	"os"
	"path/filepath"
	"sort"
	"testing"
	"time"
)

func TestProbeRestartOrder(t *testing.T) {
	for attempt := 0; attempt < 10; attempt++ {
		if probeRestartOrderOnce(t) {
			return
		}
	}
	t.Skip("the import always completed before the merge could start: schedule not produced")
}

func probeRestartOrderOnce(t *testing.T) bool {
	dirs := makeTempdirs(t)
	mgr := makeManager(t, dirs)
	closed := false
	defer func() {
		if !closed {
			mgr.Close()
		}
	}()
	hold := make(chan struct{})
	mgr.jobs <- func() { mgr.mergeJobRunning = true; close(hold) }
	<-hold
	importPackets := func(m *Manager, packets []pcapOverIPPacket) {
		pcaps, err := writePcaps(m.PcapDir, packets)
		if err != nil {
			t.Fatalf("writePcaps: %v", err)
		}
		events, eventCloser := m.Listen()
		m.ImportPcaps(pcaps)
		waitForEvent(t, events, eventCloser, "pcapProcessed")
	}
	// A: 6000 streams; B: 6001 streams plus the flow that continues later. Merging them takes a while, and the merged
	// file is bigger than the later import, so no second merge follows.
	many := func(net int, n int, start time.Duration) []pcapOverIPPacket {
		var ps []pcapOverIPPacket
		for i := 0; i < n; i++ {
			ps = append(ps, makeUDPPacket(fmt.Sprintf("10.%d.%d.%d:1000", net, (i>>8)&255, i&255), "2.3.4.5:9001", t1.Add(start+time.Duration(i)*time.Millisecond), "x"))
		}
		return ps
	}
	importPackets(mgr, many(1, 6000, 0))
	importPackets(mgr, append(many(2, 6001, 10*time.Second), makeUDPPacket("7.7.7.7:777", "2.3.4.5:9001", t1.Add(30*time.Second), "old")))
	idxFiles := func() []string {
		fs, _ := filepath.Glob(filepath.Join(mgr.IndexDir, "*.idx"))
		sort.Strings(fs)
		return fs
	}
	before := idxFiles()
	if len(before) != 2 {
		t.Fatalf("expected two index files, got %v", before)
	}
	// release the merge the moment the third index file exists
	released := make(chan struct{})
	go func() {
		for len(idxFiles()) < 3 {
			time.Sleep(200 * time.Microsecond)
		}
		mgr.jobs <- func() {
			mgr.mergeJobRunning = false
			mgr.startMergeJobIfNeeded()
			close(released)
		}
	}()
	// I: the continuation of the flow and one other flow
	packets := []pcapOverIPPacket{
		makeUDPPacket("7.7.7.7:777", "2.3.4.5:9001", t1.Add(31*time.Second), "new"),
		makeUDPPacket("9.9.9.9:999", "2.3.4.5:9001", t1.Add(32*time.Second), "y"),
	}
	events, eventCloser := mgr.Listen()
	importPackets(mgr, packets)
	<-released
	// wait for the merge to finish
	deadline := time.Now().Add(30 * time.Second)
	for {
		s := mgr.Status()
		if !s.MergeJobRunning && s.ImportJobCount == 0 {
			break
		}
		if time.Now().After(deadline) {
			t.Fatalf("merge did not finish")
		}
		time.Sleep(10 * time.Millisecond)
	}
	eventCloser()
	_ = events
	var order []string
	got := make(chan struct{})
	mgr.jobs <- func() {
		for _, idx := range mgr.indexes {
			order = append(order, filepath.Base(idx.Filename()))
		}
		close(got)
	}
	<-got
	t.Logf("installed order: %v", order)
	if len(order) != 2 {
		t.Logf("the import completed before the merge started (everything was merged into one file): retry")
		mgr.Close()
		closed = true
		return false
	}
	payload := func(m *Manager) string {
		v := m.GetView()
		defer v.Release()
		res := ""
		err := v.AllStreams(t.Context(), func(sc StreamContext) error {
			s := sc.Stream()
			if s.ClientPort != 777 {
				return nil
			}
			data, err := sc.Data("")
			if err != nil {
				return err
			}
			for _, d := range data {
				res += string(d.Content)
			}
			return nil
		})
		if err != nil {
			t.Fatalf("AllStreams: %v", err)
		}
		return res
	}
	want := payload(mgr)
	if want != "oldnew" {
		t.Fatalf("before the restart the flow reads %q, expected %q", want, "oldnew")
	}
	mgr.Close()
	closed = true
	mgr2, err := New(dirs.pcap, dirs.index, dirs.snapshot, dirs.state, dirs.converter, dirs.watch)
	if err != nil {
		t.Fatalf("restart: %v", err)
	}
	defer mgr2.Close()
	if got := payload(mgr2); got != want {
		fs, _ := os.ReadDir(dirs.index)
		names := []string{}
		for _, f := range fs {
			names = append(names, f.Name())
		}
		t.Fatalf("after a restart the flow reads %q, before it read %q: installed order %v, start-up order %v", got, want, order, names)
	}
	return true
}
