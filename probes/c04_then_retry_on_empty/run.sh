#!/bin/sh
# usage: demo.sh <project root>
# exits non-zero iff the violation shows (test TestZZHuntThenRetriesOnEmptiedData fails)
ROOT="${1:?usage: demo.sh <project root>}"
HERE="$(cd "$(dirname "$0")" && pwd)"
export GOFLAGS=-mod=mod GOPROXY=off
unset GOWORK
DST="$ROOT/internal/index/zz_hunt_then_retry_test.go"
cp "$HERE/zz_hunt_then_retry_test.go" "$DST" || exit 0
OUT="$(cd "$ROOT" && go test ./internal/index/ -run '^TestZZHuntThenRetriesOnEmptiedData$' -count=1 -v 2>&1)"
rm -f "$DST"
echo "$OUT"
if echo "$OUT" | grep -q -- '--- FAIL: TestZZHuntThenRetriesOnEmptiedData'; then
	echo "VIOLATION SHOWN"
	exit 1
fi
if echo "$OUT" | grep -q -- '--- PASS: TestZZHuntThenRetriesOnEmptiedData'; then
	echo "no violation"
	exit 0
fi
echo "test did not run (build or environment problem)"
exit 0
