package index

import (
	"context"
	"fmt"
	"testing"
	"time"

	"github.com/spq/pkappa2/internal/query"
	"rsc.io/binaryregexp"
)

// "sdata:A then sdata:B" selects a stream when B matches in the server data that
// follows the first match of A. With B = ^$ ("nothing follows") the plain scan is:
// find A, look at the rest, the rest has to be empty.
func TestZZHuntThenRetriesOnEmptiedData(t *testing.T) {
	converters := map[string]ConverterAccess{}
	payload := map[uint64]string{
		0: "HTTP/1.1 200 OK\r\n\r\nflag{x}", // something follows the empty line
		1: "HTTP/1.1 200 OK\r\n\r\n",        // nothing follows the empty line
	}
	r, err := makeIndex(t.TempDir(), map[uint64]streamInfo{
		0: makeStream("10.0.0.1:1000", "10.0.0.2:80", t1.Add(1*time.Hour), []string{"GET / HTTP/1.1\r\n\r\n", payload[0]}),
		1: makeStream("10.0.0.1:1001", "10.0.0.2:80", t1.Add(2*time.Hour), []string{"GET / HTTP/1.1\r\n\r\n", payload[1]}),
	}, &converters)
	if err != nil {
		t.Fatal(err)
	}
	defer r.Close()

	search := func(qs string) string {
		q, err := query.Parse(qs)
		if err != nil {
			t.Fatalf("parse %q: %v", qs, err)
		}
		res, _, _, err := SearchStreams(context.Background(), []*Reader{r}, nil, q.ReferenceTime, q.Conditions, nil, []query.Sorting{{Key: query.SortingKeyID, Dir: query.SortingDirAscending}}, 100, 0, nil, converters, false)
		if err != nil {
			t.Fatalf("search %q: %v", qs, err)
		}
		ids := []uint64{}
		for _, s := range res {
			ids = append(ids, s.StreamID)
		}
		return fmt.Sprint(ids)
	}

	for _, tc := range []struct{ first, second string }{
		{`\r\n\r\n`, `^$`},
		{`200 OK`, `^\s*$`},
	} {
		// plain left-to-right scan
		want, wantNot := []uint64{}, []uint64{}
		a, b := binaryregexp.MustCompile(tc.first), binaryregexp.MustCompile(tc.second)
		for id := uint64(0); id < 2; id++ {
			loc := a.FindStringIndex(payload[id])
			if loc != nil && b.MatchString(payload[id][loc[1]:]) {
				want = append(want, id)
			} else {
				wantNot = append(wantNot, id)
			}
		}
		qs := fmt.Sprintf(`sdata:"%s" then sdata:"%s"`, tc.first, tc.second)
		if got := search(qs); got != fmt.Sprint(want) {
			t.Errorf("%s: got streams %s, a plain scan selects %v", qs, got, want)
		}
		qs = "-(" + qs + ")"
		if got := search(qs); got != fmt.Sprint(wantNot) {
			t.Errorf("%s: got streams %s, a plain scan selects %v", qs, got, wantNot)
		}
	}
}
