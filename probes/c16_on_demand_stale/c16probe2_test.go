package manager

// Probe for: "Converter output always belongs to the stream's current data"
// -- the ON-DEMAND path (StreamContext.Data(converterName) on a View whose
// index snapshot predates an import that extended the stream).
//
// The history is built with the public Manager API only (GetView, View.Stream,
// StreamContext.Data, ImportPcaps, View.Release, SearchStreams). Internal
// identifiers are only used to READ bookkeeping (settledness, cache
// membership). The converter executable is a copy of
// testdata/test_converter.py that additionally appends the id of every stream
// it converts to a "started" file (its gate is open from the start, so it
// never blocks). The converter is attached to NO tag, so the background
// converter job never converts anything.

import (
	"context"
	"encoding/base64"
	"encoding/json"
	"fmt"
	"os"
	"path"
	"strings"
	"testing"
	"time"

	"github.com/spq/pkappa2/internal/query"
)

const c16ConverterName = "gated"

const c16GatedConverter = `#!/usr/bin/python3
import base64
import json
import os
import sys
import time

STARTED = %q
GATE = %q

lines = []
while 1:
    line = sys.stdin.readline()
    if line == "":
        sys.exit(0)
    line = line.strip()
    if line != "":
        lines.append(json.loads(line))
        continue
    # the whole stream has been received: the payload this conversion is
    # based on is fixed now.
    with open(STARTED, "a") as f:
        f.write("%%d\n" %% lines[0]["StreamID"])
    while not os.path.exists(GATE):
        time.sleep(0.01)
    print(json.dumps({
        "Direction": "client-to-server",
        "Content": base64.b64encode(json.dumps({
            "info": lines[0],
            "data": lines[1:]
        }).encode()).decode(),
        "Time": "2222-02-22T22:22:22.222222"
    }))
    print()
    print("{}", flush=True)
    lines = []
`

type c16Env struct {
	t       *testing.T
	mgr     *Manager
	started string
	gate    string
}

func c16Setup(t *testing.T) *c16Env {
	dirs := makeTempdirs(t)
	e := &c16Env{
		t:       t,
		started: path.Join(dirs.base, "started"),
		gate:    path.Join(dirs.base, "gate"),
	}
	script := fmt.Sprintf(c16GatedConverter, e.started, e.gate)
	if err := os.WriteFile(path.Join(dirs.converter, c16ConverterName), []byte(script), 0775); err != nil {
		t.Fatalf("SETUP: writing converter failed: %v", err)
	}
	e.mgr = makeManager(t, dirs)
	if got := e.mgr.ListConverters(); len(got) != 1 || got[0].Name != c16ConverterName {
		t.Fatalf("SETUP: ListConverters() = %v", got)
	}
	return e
}

func (e *c16Env) openGate() {
	if err := os.WriteFile(e.gate, []byte("open"), 0644); err != nil {
		e.t.Fatalf("SETUP: opening gate failed: %v", err)
	}
}

func (e *c16Env) waitFor(what string, cond func() bool) {
	e.t.Helper()
	deadline := time.Now().Add(30 * time.Second)
	for !cond() {
		if time.Now().After(deadline) {
			e.t.Fatalf("SETUP: timeout waiting for %s", what)
		}
		time.Sleep(10 * time.Millisecond)
	}
}

type c16State struct {
	importJobs, pcaps                 int
	tagging, converting, merging      bool
	queuedConversions, uncertainCount int
}

func (s c16State) settled() bool {
	return s.importJobs == 0 && !s.tagging && !s.converting && !s.merging && s.queuedConversions == 0 && s.uncertainCount == 0
}

// state reads the manager's bookkeeping on the manager goroutine.
func (e *c16Env) state() c16State {
	c := make(chan c16State)
	e.mgr.jobs <- func() {
		s := c16State{
			importJobs: len(e.mgr.importJobs),
			pcaps:      len(e.mgr.builder.KnownPcaps()),
			tagging:    e.mgr.taggingJobRunning,
			converting: e.mgr.converterJobRunning,
			merging:    e.mgr.mergeJobRunning,
		}
		for _, bm := range e.mgr.streamsToConvert {
			s.queuedConversions += bm.OnesCount()
		}
		for _, tg := range e.mgr.tags {
			s.uncertainCount += tg.Uncertain.OnesCount()
		}
		c <- s
	}
	return <-c
}

func (e *c16Env) waitSettled(what string) {
	e.t.Helper()
	// require the settled state to be observed for a while, so that follow-up
	// jobs that are started from completion handlers are not missed.
	e.waitFor(what, func() bool {
		for i := 0; i < 10; i++ {
			if !e.state().settled() {
				return false
			}
			time.Sleep(10 * time.Millisecond)
		}
		st := e.mgr.Status()
		return !st.ConverterJobRunning && !st.TaggingJobRunning && !st.MergeJobRunning && st.ImportJobCount == 0
	})
}

func (e *c16Env) importPackets(pkts ...pcapOverIPPacket) {
	e.t.Helper()
	before := e.state().pcaps
	pcaps, err := writePcaps(e.mgr.PcapDir, pkts)
	if err != nil {
		e.t.Fatalf("SETUP: writePcaps failed: %v", err)
	}
	e.mgr.ImportPcaps(pcaps)
	e.waitFor("import to be processed", func() bool {
		s := e.state()
		return s.importJobs == 0 && s.pcaps == before+len(pcaps)
	})
}

func (e *c16Env) startedStreams() []string {
	b, err := os.ReadFile(e.started)
	if err != nil {
		return nil
	}
	return strings.Fields(string(b))
}

// payloads returns, through a fresh view, the chunks of the plain payload of
// the stream and the chunks the cached converter output was computed from.
func (e *c16Env) payloads(streamID uint64) (current, converted []string) {
	e.t.Helper()
	if !e.containsOnMgr(streamID) {
		e.t.Fatalf("SETUP: converter cache does not contain stream %d, StreamContext.Data would convert on demand", streamID)
	}
	view := e.mgr.GetView()
	defer view.Release()
	sc, err := view.Stream(streamID)
	if err != nil {
		e.t.Fatalf("SETUP: View.Stream(%d) failed: %v", streamID, err)
	}
	plain, err := sc.Data("")
	if err != nil {
		e.t.Fatalf("SETUP: StreamContext.Data(\"\") failed: %v", err)
	}
	for _, d := range plain {
		current = append(current, string(d.Content))
	}
	conv, err := sc.Data(c16ConverterName)
	if err != nil {
		e.t.Fatalf("SETUP: StreamContext.Data(%q) failed: %v", c16ConverterName, err)
	}
	if len(conv) != 1 {
		e.t.Fatalf("SETUP: StreamContext.Data(%q) = %v, want one chunk", c16ConverterName, conv)
	}
	out := struct {
		Info struct{ StreamID uint64 }
		Data []struct{ Content string }
	}{}
	if err := json.Unmarshal(conv[0].Content, &out); err != nil {
		e.t.Fatalf("SETUP: converter output is not json: %v: %q", err, conv[0].Content)
	}
	if out.Info.StreamID != streamID {
		e.t.Fatalf("SETUP: converter output is for stream %d, want %d", out.Info.StreamID, streamID)
	}
	for _, d := range out.Data {
		b, err := base64.StdEncoding.DecodeString(d.Content)
		if err != nil {
			e.t.Fatalf("SETUP: bad base64 in converter output: %v", err)
		}
		converted = append(converted, string(b))
	}
	return current, converted
}

func (e *c16Env) containsOnMgr(streamID uint64) bool {
	c := make(chan bool)
	e.mgr.jobs <- func() {
		c <- e.mgr.converters[c16ConverterName].Contains(streamID)
	}
	return <-c
}

// search runs a query on a fresh view and returns the matching stream ids.
func (e *c16Env) search(q string) []uint64 {
	e.t.Helper()
	pq, err := query.Parse(q)
	if err != nil {
		e.t.Fatalf("SETUP: query.Parse(%q) failed: %v", q, err)
	}
	view := e.mgr.GetView()
	defer view.Release()
	ids := []uint64{}
	if _, _, _, err := view.SearchStreams(context.Background(), pq, func(sc StreamContext) error {
		ids = append(ids, sc.Stream().ID())
		return nil
	}); err != nil {
		e.t.Fatalf("SETUP: SearchStreams(%q) failed: %v", q, err)
	}
	return ids
}

func (e *c16Env) check(streamID uint64) {
	e.t.Helper()
	current, converted := e.payloads(streamID)
	e.t.Logf("stream %d: current payload chunks %q, cached converter output was computed from %q, state %+v, status %+v", streamID, current, converted, e.state(), e.mgr.Status())
	if strings.Join(current, "|") != strings.Join(converted, "|") {
		e.t.Errorf("STALE_CONVERTER_OUTPUT: stream %d has payload %q but the settled system serves converter output computed from %q", streamID, current, converted)
	}
	// "bar" is only part of the extended payload; the converter output contains it base64 encoded.
	needle := base64.StdEncoding.EncodeToString([]byte("bar"))
	ids := e.search(fmt.Sprintf("data.%s:%s", c16ConverterName, needle))
	e.t.Logf("search data.%s:%s -> %v", c16ConverterName, needle, ids)
	found := false
	for _, id := range ids {
		found = found || id == streamID
	}
	if !found {
		e.t.Errorf("STALE_CONVERTER_OUTPUT: searching the converter output of stream %d for the extended payload finds %v", streamID, ids)
	}
}

var c16PktA, c16PktB, c16Other pcapOverIPPacket

func init() {
	base, _ := time.Parse(time.RFC3339, "2020-01-01T12:00:00Z")
	c16PktA = makeUDPPacket("1.2.3.4:1", "4.3.2.1:4321", base.Add(time.Second*0), "foo")
	c16PktB = makeUDPPacket("1.2.3.4:1", "4.3.2.1:4321", base.Add(time.Second*1), "bar")
	c16Other = makeUDPPacket("1.2.3.4:2", "4.3.2.1:4321", base.Add(time.Second*2), "qux")
}

func (e *c16Env) plain(sc StreamContext) string {
	e.t.Helper()
	d, err := sc.Data("")
	if err != nil {
		e.t.Fatalf("SETUP: StreamContext.Data(\"\") failed: %v", err)
	}
	parts := []string{}
	for _, c := range d {
		parts = append(parts, string(c.Content))
	}
	return strings.Join(parts, "|")
}

// Control: the stream is extended, THEN a fresh view converts it on demand.
func TestC16bControlOnDemandOnFreshView(t *testing.T) {
	e := c16Setup(t)
	defer e.mgr.Close()
	e.openGate()
	e.importPackets(c16PktA)
	e.waitSettled("import A")
	e.importPackets(c16PktB)
	e.waitSettled("import B")
	if e.containsOnMgr(0) {
		t.Fatalf("SETUP: stream 0 is cached although the converter is attached to no tag")
	}
	view := e.mgr.GetView()
	sc, err := view.Stream(0)
	if err != nil {
		t.Fatalf("SETUP: View.Stream(0) failed: %v", err)
	}
	if _, err := sc.Data(c16ConverterName); err != nil {
		t.Fatalf("SETUP: on-demand conversion failed: %v", err)
	}
	view.Release()
	e.waitSettled("after on-demand conversion")
	e.check(0)
}

// Suspected history: on-demand conversion through a view that was opened
// before the import that extended the stream.
func TestC16bOnDemandOnOldView(t *testing.T) {
	e := c16Setup(t)
	defer e.mgr.Close()
	e.openGate()

	// 1. pcap A, converter registered but attached to no tag
	e.importPackets(c16PktA)
	e.waitSettled("import A")
	if got := e.startedStreams(); len(got) != 0 {
		t.Fatalf("SETUP: converter already ran for %v", got)
	}

	// 2. a view and the stream context of S, kept open
	oldView := e.mgr.GetView()
	oldSC, err := oldView.Stream(0)
	if err != nil || oldSC.Stream() == nil {
		t.Fatalf("SETUP: old View.Stream(0) failed: %v", err)
	}
	if got := e.plain(oldSC); got != "foo" {
		t.Fatalf("SETUP: old view sees payload %q, want foo", got)
	}

	// 3. pcap B continues the flow; import completed and its completion handler processed
	e.importPackets(c16PktB)
	e.waitSettled("import B")
	if e.containsOnMgr(0) {
		t.Fatalf("SETUP: stream 0 is cached although nobody converted it")
	}
	if got := e.startedStreams(); len(got) != 0 {
		t.Fatalf("SETUP: converter already ran for %v", got)
	}
	func() {
		v := e.mgr.GetView()
		defer v.Release()
		sc, err := v.Stream(0)
		if err != nil {
			t.Fatalf("SETUP: View.Stream(0) failed: %v", err)
		}
		if got := e.plain(sc); got != "foo|bar" {
			t.Fatalf("SETUP: stream 0 was not extended by pcap B: %q", got)
		}
	}()

	// 4. on-demand conversion through the OLD stream context
	if got := e.plain(oldSC); got != "foo" {
		t.Fatalf("SETUP: old view sees payload %q, want foo", got)
	}
	if _, err := oldSC.Data(c16ConverterName); err != nil {
		t.Fatalf("SETUP: on-demand conversion on the old view failed: %v", err)
	}
	t.Logf("converter was run for streams (in order): %v", e.startedStreams())

	// 5. release the old view, let everything settle, look through fresh views
	oldView.Release()
	e.waitSettled("after on-demand conversion")
	e.check(0)
	// stays that way
	time.Sleep(1500 * time.Millisecond)
	e.waitSettled("still settled")
	t.Logf("converter was run for streams (in order): %v", e.startedStreams())
	e.check(0)
}
