package manager

import (
	"bytes"
	"context"
	"os"
	"path/filepath"
	"testing"
	"time"

	"github.com/gopacket/gopacket/layers"
	"github.com/gopacket/gopacket/pcapgo"
	"github.com/spq/pkappa2/internal/index"
)

// helper: write a classic pcap file with the given packets (may be none)
func zzHuntWritePcap(t *testing.T, dir, name string, packets []pcapOverIPPacket) {
	t.Helper()
	buf := bytes.Buffer{}
	w := pcapgo.NewWriter(&buf)
	if err := w.WriteFileHeader(0xffff, layers.LinkTypeIPv4); err != nil {
		t.Fatal(err)
	}
	for _, p := range packets {
		ci := p.ci
		ci.Length = ci.CaptureLength
		if err := w.WritePacket(ci, p.data); err != nil {
			t.Fatal(err)
		}
	}
	// the upload handler creates the file completely before it tells the manager
	if err := os.WriteFile(filepath.Join(dir, name), buf.Bytes(), 0o644); err != nil {
		t.Fatal(err)
	}
}

func zzHuntWaitIdle(t *testing.T, mgr *Manager) {
	t.Helper()
	deadline := time.Now().Add(30 * time.Second)
	stable := 0
	for time.Now().Before(deadline) {
		s := mgr.Status()
		if s.ImportJobCount == 0 && !s.MergeJobRunning && !s.TaggingJobRunning && !s.ConverterJobRunning {
			stable++
			if stable >= 3 {
				return
			}
		} else {
			stable = 0
		}
		time.Sleep(10 * time.Millisecond)
	}
	t.Fatalf("manager did not become idle")
}

type zzHuntStream struct {
	id          uint64
	first, last time.Time
	data        []index.Data
}

func zzHuntAllStreams(t *testing.T, mgr *Manager) []zzHuntStream {
	t.Helper()
	v := mgr.GetView()
	defer v.Release()
	res := []zzHuntStream{}
	if err := v.AllStreams(context.Background(), func(sc StreamContext) error {
		d, err := sc.Stream().Data()
		if err != nil {
			return err
		}
		res = append(res, zzHuntStream{sc.Stream().ID(), sc.Stream().FirstPacket(), sc.Stream().LastPacket(), d})
		return nil
	}); err != nil {
		t.Fatalf("AllStreams: %v", err)
	}
	return res
}

// history of one run; withEmpty tells whether a capture without packets is uploaded too
func zzHuntEmptyPcapHistory(t *testing.T, withEmpty bool) string {
	dirs := makeTempdirs(t)
	mgr := makeManager(t, dirs)
	client, server := "10.0.0.1:4000", "10.0.0.2:53"
	zzHuntWritePcap(t, dirs.pcap, "a.pcap", []pcapOverIPPacket{
		makeUDPPacket(client, server, t1, "AAAA"),
		makeUDPPacket(server, client, t1.Add(time.Second), "BBBB"),
	})
	mgr.ImportPcaps([]string{"a.pcap"})
	zzHuntWaitIdle(t, mgr)
	if withEmpty {
		// e.g. a rotating tcpdump that saw no traffic in one interval
		zzHuntWritePcap(t, dirs.pcap, "b.pcap", nil)
		mgr.ImportPcaps([]string{"b.pcap"})
		zzHuntWaitIdle(t, mgr)
	}
	if got := len(zzHuntAllStreams(t, mgr)); got != 1 {
		t.Fatalf("want 1 stream before the restart, got %d", got)
	}
	mgr.Close()

	// restart
	mgr = makeManager(t, dirs)
	defer mgr.Close()
	zzHuntWaitIdle(t, mgr)
	zzHuntWritePcap(t, dirs.pcap, "c.pcap", []pcapOverIPPacket{
		makeUDPPacket(client, server, t1.Add(2*time.Second), "CCCC"),
		makeUDPPacket(server, client, t1.Add(3*time.Second), "DDDD"),
	})
	mgr.ImportPcaps([]string{"c.pcap"})
	zzHuntWaitIdle(t, mgr)
	streams := zzHuntAllStreams(t, mgr)
	if len(streams) != 1 {
		t.Fatalf("want 1 stream after the restart, got %d", len(streams))
	}
	s := streams[0]
	got := ""
	for _, d := range s.data {
		got += string(d.Content)
	}
	t.Logf("withEmpty=%v: stream %d first=%s last=%s data=%q", withEmpty, s.id, s.first.UTC().Format(time.RFC3339), s.last.UTC().Format(time.RFC3339), got)
	if !s.first.Equal(t1) || !s.last.Equal(t1.Add(3*time.Second)) {
		t.Errorf("VIOLATION withEmpty=%v: stream times are %s .. %s, want %s .. %s", withEmpty, s.first.UTC(), s.last.UTC(), t1, t1.Add(3*time.Second))
	}
	return got
}

func TestZZHuntEmptyPcapThenRestart(t *testing.T) {
	want := "AAAABBBBCCCCDDDD"
	if got := zzHuntEmptyPcapHistory(t, false); got != want {
		t.Errorf("VIOLATION (control run without the empty capture): data %q, want %q", got, want)
	}
	if got := zzHuntEmptyPcapHistory(t, true); got != want {
		t.Errorf("VIOLATION: after an empty capture and a restart the stream reads %q, want %q", got, want)
	}
}
