package manager

// C16 (converter restarts): when the executable of a converter changes, pkappa2 restarts the converter,
// drops the cached output and converts the streams again (startMonitoringConverters -> restartConverterProcess).
// That only happens when the file is rewritten in place. When the new version is moved over the old one
// (mv, rsync, sed -i, install, editors that save through a temporary file), the watcher sees a Create event
// for the name, tries addConverter, gets "already exists" and returns: nothing is restarted, the old
// processes keep serving, the old output stays, and streams converted from now on get the output of
// whatever process is free - old or new version.

import (
	"fmt"
	"os"
	"path"
	"strings"
	"testing"
	"time"
)

const huntReplaceConverter = `#!/usr/bin/env python3
import sys, json, base64
VERSION = b"@VERSION@"
while True:
    meta = sys.stdin.readline()
    if not meta:
        break
    c = b""
    while True:
        line = sys.stdin.readline().strip()
        if not line:
            break
        c += base64.b64decode(json.loads(line)["Content"])
    print(json.dumps({"Direction": "client-to-server", "Content": base64.b64encode(VERSION + b"[" + c + b"]").decode(), "Time": "2020-01-01T12:00:00"}))
    print()
    print("{}", flush=True)
`

func huntReplaceQuiet(t *testing.T, mgr *Manager) {
	t.Helper()
	deadline := time.Now().Add(60 * time.Second)
	for calm := 0; calm < 5; time.Sleep(20 * time.Millisecond) {
		if time.Now().After(deadline) {
			t.Fatalf("manager does not come to rest: %+v", mgr.Status())
		}
		st := mgr.Status()
		pending := false
		c := make(chan struct{})
		mgr.jobs <- func() {
			for _, s := range mgr.streamsToConvert {
				pending = pending || !s.IsZero()
			}
			for _, tg := range mgr.tags {
				pending = pending || !tg.Uncertain.IsZero()
			}
			close(c)
		}
		<-c
		if st.ImportJobCount == 0 && !st.ConverterJobRunning && !st.TaggingJobRunning && !st.MergeJobRunning && !pending {
			calm++
		} else {
			calm = 0
		}
	}
}

func huntReplaceOutputs(t *testing.T, mgr *Manager, n int) []string {
	t.Helper()
	v := mgr.GetView()
	defer v.Release()
	res := []string{}
	for id := 0; id < n; id++ {
		sc, err := v.Stream(uint64(id))
		if err != nil || sc.Stream() == nil {
			t.Fatalf("stream %d: %v", id, err)
		}
		data, err := sc.Data("conv")
		if err != nil {
			t.Fatalf("stream %d: %v", id, err)
		}
		s := ""
		for _, c := range data {
			s += string(c.Content)
		}
		res = append(res, s)
	}
	return res
}

func huntReplaceRun(t *testing.T, replace func(dir string, script []byte)) (before, after []string) {
	d := makeTempdirs(t)
	if err := os.WriteFile(path.Join(d.converter, "conv"), []byte(strings.ReplaceAll(huntReplaceConverter, "@VERSION@", "V1")), 0775); err != nil {
		t.Fatal(err)
	}
	mgr := makeManager(t, d)
	defer mgr.Close()
	if err := mgr.AddTag("tag/all", "red", ""); err != nil {
		t.Fatal(err)
	}
	if err := mgr.UpdateTag("tag/all", UpdateTagOperationSetConverter([]string{"conv"})); err != nil {
		t.Fatal(err)
	}
	pkts := []pcapOverIPPacket{}
	for i := 0; i < 3; i++ {
		pkts = append(pkts, makeUDPPacket(fmt.Sprintf("1.2.3.4:%d", i+1), "4.3.2.1:4321", t1.Add(time.Duration(i)*time.Second), fmt.Sprintf("s%d", i)))
	}
	pcaps, err := writePcaps(mgr.PcapDir, pkts)
	if err != nil {
		t.Fatal(err)
	}
	mgr.ImportPcaps(pcaps)
	time.Sleep(100 * time.Millisecond)
	huntReplaceQuiet(t, mgr)
	before = huntReplaceOutputs(t, mgr, 3)

	replace(d.converter, []byte(strings.ReplaceAll(huntReplaceConverter, "@VERSION@", "V2")))
	// the watcher waits 500ms for more events before it acts
	time.Sleep(1500 * time.Millisecond)
	huntReplaceQuiet(t, mgr)
	after = huntReplaceOutputs(t, mgr, 3)
	return before, after
}

func TestHuntConverterReplacedByRename(t *testing.T) {
	// control: the new version is written into the existing file
	before, after := huntReplaceRun(t, func(dir string, script []byte) {
		if err := os.WriteFile(path.Join(dir, "conv"), script, 0775); err != nil {
			t.Fatal(err)
		}
	})
	t.Logf("rewritten in place: before %q, after %q", before, after)
	if fmt.Sprint(after) != "[V2[s0] V2[s1] V2[s2]]" {
		t.Skipf("the control does not behave as expected, the watcher might not work here")
	}
	// the new version is moved over the file (mv, rsync, sed -i, ...)
	before, after = huntReplaceRun(t, func(dir string, script []byte) {
		// the temporary file lives outside the watched directory like "mv /some/where/conv converters/conv" has it
		tmp := path.Join(path.Dir(path.Clean(dir)), "conv.new")
		if err := os.WriteFile(tmp, script, 0775); err != nil {
			t.Fatal(err)
		}
		if err := os.Rename(tmp, path.Join(dir, "conv")); err != nil {
			t.Fatal(err)
		}
	})
	t.Logf("moved over the file: before %q, after %q", before, after)
	if fmt.Sprint(after) != "[V2[s0] V2[s1] V2[s2]]" {
		t.Errorf("VIOLATION: the converter executable was replaced by version V2 (moved over the old file), the streams are still shown with %q; rewriting the file in place gave V2 output for all of them", after)
	}
}
