#!/bin/bash
# usage: demo.sh <project root>
# copies zz_hunt_replace_test.go into internal/index/manager of that tree, runs it, removes it again.
# exit 1 if and only if the violation shows, 0 otherwise (also when the test could not run)
root="${1:?usage: demo.sh <project root>}"
here="$(cd "$(dirname "$0")" && pwd)"
export GOFLAGS=-mod=mod GOPROXY=off
unset GOWORK
pkg=internal/index/manager
f=zz_hunt_replace_test.go
[ -d "$root/$pkg" ] || { echo "no $pkg in $root"; exit 0; }
cp "$here/$f" "$root/$pkg/$f" || exit 0
cd "$root" || exit 0
out=$(timeout 170 go test -vet=off -count=1 -timeout 160s -run '^TestHuntConverterReplacedByRename$' -v ./$pkg/ 2>&1)
rm -f "$root/$pkg/$f"
echo "$out" | grep -v '^20[0-9][0-9]/' | grep -v 'event: {' | tail -40
if echo "$out" | grep -q 'VIOLATION'; then
	exit 1
fi
exit 0
