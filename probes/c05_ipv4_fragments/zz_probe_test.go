package manager

// Probe for a defect reported by a round-7 agent (C05): copy into internal/index/manager of a scratch worktree and run
//   go test -count=1 -vet=off -run TestProbeIPv4Fragments ./internal/index/manager/
// The importer reassembles IPv4 fragments and builds a new packet from the complete datagram — but then reads the
// transport layer from the layers of the LAST FRAGMENT it had parsed before. That fragment has no transport layer (or,
// if the first fragment arrives last, a truncated one): a fragmented UDP datagram never reaches the stream assembler.

import (
	"bytes"
	"context"
	"net"
	"testing"
	"time"

	"github.com/gopacket/gopacket"
	"github.com/gopacket/gopacket/layers"
)

func probeFragments(t *testing.T, src, dst string, sport, dport uint16, ts time.Time, payload []byte, fragSize int, order []int) []pcapOverIPPacket {
	ip := layers.IPv4{Version: 4, TTL: 64, SrcIP: net.ParseIP(src).To4(), DstIP: net.ParseIP(dst).To4(), Protocol: layers.IPProtocolUDP}
	udp := layers.UDP{SrcPort: layers.UDPPort(sport), DstPort: layers.UDPPort(dport)}
	if err := udp.SetNetworkLayerForChecksum(&ip); err != nil {
		t.Fatal(err)
	}
	buf := gopacket.NewSerializeBuffer()
	if err := gopacket.SerializeLayers(buf, gopacket.SerializeOptions{ComputeChecksums: true, FixLengths: true}, &udp, gopacket.Payload(payload)); err != nil {
		t.Fatal(err)
	}
	ipPayload := append([]byte(nil), buf.Bytes()...)
	var frags [][]byte
	for off := 0; off < len(ipPayload); off += fragSize {
		end := off + fragSize
		if end > len(ipPayload) {
			end = len(ipPayload)
		}
		fip := layers.IPv4{Version: 4, TTL: 64, Id: 4242, SrcIP: ip.SrcIP, DstIP: ip.DstIP, Protocol: layers.IPProtocolUDP, FragOffset: uint16(off / 8)}
		if end < len(ipPayload) {
			fip.Flags = layers.IPv4MoreFragments
		}
		fb := gopacket.NewSerializeBuffer()
		if err := gopacket.SerializeLayers(fb, gopacket.SerializeOptions{ComputeChecksums: true, FixLengths: true}, &fip, gopacket.Payload(ipPayload[off:end])); err != nil {
			t.Fatal(err)
		}
		frags = append(frags, append([]byte(nil), fb.Bytes()...))
	}
	var out []pcapOverIPPacket
	for i, fi := range order {
		d := frags[fi]
		out = append(out, pcapOverIPPacket{
			linkType: layers.LinkTypeIPv4,
			ci:       gopacket.CaptureInfo{Timestamp: ts.Add(time.Duration(i) * time.Millisecond), CaptureLength: len(d), Length: len(d)},
			data:     d,
		})
	}
	return out
}

func TestProbeIPv4Fragments(t *testing.T) {
	payload := bytes.Repeat([]byte("0123456789abcdef"), 200) // 3200 bytes: three fragments of 1480
	for name, order := range map[string][]int{"in order": {0, 1, 2}, "first fragment last": {1, 2, 0}} {
		dirs := makeTempdirs(t)
		mgr := makeManager(t, dirs)
		packets := probeFragments(t, "9.0.0.1", "2.3.4.5", 1234, 9001, t1, payload, 1480, order)
		// an ordinary datagram of another flow, so that the import is not empty either way
		packets = append(packets, makeUDPPacket("9.0.0.2:1", "2.3.4.5:9001", t1.Add(time.Second), "plain"))
		pcaps, err := writePcaps(mgr.PcapDir, packets)
		if err != nil {
			t.Fatalf("writePcaps: %v", err)
		}
		events, eventCloser := mgr.Listen()
		mgr.ImportPcaps(pcaps)
		waitForEvent(t, events, eventCloser, "pcapProcessed")
		v := mgr.GetView()
		got := map[uint16][]byte{}
		if err := v.AllStreams(context.Background(), func(sc StreamContext) error {
			data, err := sc.Data("")
			if err != nil {
				return err
			}
			for _, d := range data {
				got[sc.Stream().ClientPort] = append(got[sc.Stream().ClientPort], d.Content...)
			}
			return nil
		}); err != nil {
			t.Fatalf("AllStreams: %v", err)
		}
		v.Release()
		mgr.Close()
		if string(got[1]) != "plain" {
			t.Errorf("%s: the plain datagram reads %q", name, got[1])
		}
		if !bytes.Equal(got[1234], payload) {
			t.Errorf("%s: the fragmented datagram of %d bytes is indexed with %d bytes of payload", name, len(payload), len(got[1234]))
		}
	}
}
