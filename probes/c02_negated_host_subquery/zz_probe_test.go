package index

// Probe for defect D18 (C02): copy into internal/index of a scratch worktree and run
//   go test -count=1 -vet=off -run TestProbeNegatedHostSubQuery ./internal/index/
// `@sub:id:0 -chost:@sub:chost@`: the streams whose client differs from the client of stream 0. The per-stream filter
// marked EVERY sub-query result as forbidden when the condition was inverted — also those whose host differs — so the
// negated comparison selected nothing at all.

import (
	"context"
	"slices"
	"testing"
	"time"

	"github.com/spq/pkappa2/internal/query"
)

func TestProbeNegatedHostSubQuery(t *testing.T) {
	converters := map[string]ConverterAccess{}
	streams := map[uint64]streamInfo{
		0: makeStream("10.0.0.1:123", "192.168.0.1:80", t1.Add(time.Hour), []string{"a"}),
		1: makeStream("10.0.0.2:124", "192.168.0.1:80", t1.Add(2*time.Hour), []string{"b"}),
		2: makeStream("10.0.0.1:125", "192.168.0.1:80", t1.Add(3*time.Hour), []string{"c"}),
		3: makeStream("10.0.0.3:126", "192.168.0.1:80", t1.Add(4*time.Hour), []string{"d"}),
	}
	r, err := makeIndex(t.TempDir(), streams, &converters)
	if err != nil {
		t.Fatal(err)
	}
	for q, want := range map[string][]uint64{
		"@sub:id:0 chost:@sub:chost@ sort:id":          {0, 2},
		"@sub:id:0 -chost:@sub:chost@ sort:id":         {1, 3},
		"@sub:id:0 -chost:@sub:chost@ id:1,2 sort:id":  {1},
		"@sub:id:0 -chost:@sub:chost@/24 sort:id":      {},
		"@sub:id:0 -chost:@sub:chost@/32 id:3 sort:id": {3},
	} {
		pq, err := query.Parse(q)
		if err != nil {
			t.Fatalf("parse %q: %v", q, err)
		}
		res, _, _, err := SearchStreams(context.Background(), []*Reader{r}, nil, pq.ReferenceTime, pq.Conditions, pq.Grouping, pq.Sorting, 100, 0, nil, converters, false)
		if err != nil {
			t.Fatalf("search %q: %v", q, err)
		}
		got := []uint64{}
		for _, s := range res {
			got = append(got, s.StreamID)
		}
		if !slices.Equal(got, want) {
			t.Errorf("%q returned %v, want %v", q, got, want)
		}
	}
}
