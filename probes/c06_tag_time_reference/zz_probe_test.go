package manager

// Probe for a defect reported by a round-7 agent (C06): copy into internal/index/manager of a scratch worktree and run
//   go test -count=1 -vet=off -run TestProbeTagTimeReference ./internal/index/manager/
// The conditions of a tag are parsed once; the durations of its time filters are relative to the moment of that parse.
// The tagging job parses the definition again and evaluates it against its own reference time (right). The two
// on-demand paths evaluate the STORED conditions against another reference time: View.prefetchTags against the zero
// time, and a search that inlines a pending tag against the reference time of the search. A pending tag with an
// absolute time filter is then decided wrongly by a view, and `tag:x` answers differently before and after the tagging
// job has run.

import (
	"context"
	"slices"
	"testing"
	"time"

	"github.com/spq/pkappa2/internal/query"
)

func TestProbeTagTimeReference(t *testing.T) {
	dirs := makeTempdirs(t)
	mgr := makeManager(t, dirs)
	defer mgr.Close()
	base := time.Date(2020, 1, 2, 0, 0, 0, 0, time.Local)
	pcaps, err := writePcaps(mgr.PcapDir, []pcapOverIPPacket{
		makeUDPPacket("9.0.0.1:1", "2.3.4.5:9001", base.Add(-24*time.Hour), "early"),
		makeUDPPacket("9.0.0.2:2", "2.3.4.5:9001", base.Add(1*time.Second), "just after"),
		makeUDPPacket("9.0.0.3:3", "2.3.4.5:9001", base.Add(24*time.Hour), "late"),
	})
	if err != nil {
		t.Fatalf("writePcaps: %v", err)
	}
	events, eventCloser := mgr.Listen()
	mgr.ImportPcaps(pcaps)
	waitForEvent(t, events, eventCloser, "pcapProcessed")
	// keep the tag pending: no tagging job starts while one is (said to be) running
	hold := make(chan struct{})
	mgr.jobs <- func() { mgr.taggingJobRunning = true; close(hold) }
	<-hold
	if err := mgr.AddTag("tag/late", "red", `ftime:"2020-01-02 0000:"`); err != nil {
		t.Fatalf("AddTag: %v", err)
	}
	want := []uint64{1, 2}
	// the search inlines the pending tag: parse the search a while after the tag
	time.Sleep(2500 * time.Millisecond)
	search := func(q string, opts ...StreamsOption) []uint64 {
		pq, err := query.Parse(q)
		if err != nil {
			t.Fatalf("parse %q: %v", q, err)
		}
		v := mgr.GetView()
		defer v.Release()
		got := []uint64{}
		if _, _, _, err := v.SearchStreams(context.Background(), pq, func(sc StreamContext) error {
			got = append(got, sc.Stream().ID())
			return nil
		}, opts...); err != nil {
			t.Fatalf("search %q: %v", q, err)
		}
		slices.Sort(got)
		return got
	}
	if got := search("tag:late sort:id"); !slices.Equal(got, want) {
		t.Errorf("search tag:late while the tag is pending selects %v, its definition selects %v", got, want)
	}
	// a view decides the pending tag on demand
	{
		v := mgr.GetView()
		got := []uint64{}
		if err := v.AllStreams(context.Background(), func(sc StreamContext) error {
			has, err := sc.HasTag("tag/late")
			if err != nil {
				return err
			}
			if has {
				got = append(got, sc.Stream().ID())
			}
			return nil
		}, PrefetchAllTags()); err != nil {
			t.Fatalf("AllStreams: %v", err)
		}
		v.Release()
		slices.Sort(got)
		if !slices.Equal(got, want) {
			t.Errorf("a view that prefetches the pending tag reports it for %v, its definition selects %v", got, want)
		}
	}
	// the tagging job agrees with the definition
	done := make(chan struct{})
	mgr.jobs <- func() { mgr.taggingJobRunning = false; mgr.startTaggingJobIfNeeded(); close(done) }
	<-done
	deadline := time.Now().Add(10 * time.Second)
	for mgr.Status().TaggingJobRunning || func() bool {
		for _, ti := range mgr.ListTags() {
			if ti.UncertainCount != 0 {
				return true
			}
		}
		return false
	}() {
		if time.Now().After(deadline) {
			t.Fatalf("tagging did not settle")
		}
		time.Sleep(20 * time.Millisecond)
	}
	if got := search("tag:late sort:id"); !slices.Equal(got, want) {
		t.Errorf("after the tagging job tag:late selects %v, want %v", got, want)
	}
}
