package manager

import (
	"context"
	"fmt"
	"os"
	"path"
	"testing"
	"time"
)

// A converter that follows the pkappa2 converter protocol and answers with one chunk
// "CONV[<payload of all packets it was given>]". Before it answers it waits as long as the
// file <base>/gate/hold_<client port> exists, so that the test can decide when a conversion ends.
const huntGatedConverter3 = `#!/usr/bin/python3
import base64, json, os, sys, time
gate = os.path.join(os.path.dirname(os.path.abspath(sys.argv[0])), "..", "gate")
lines = []
while 1:
    line = sys.stdin.readline()
    if line == "":
        sys.exit(0)
    line = line.strip()
    if line != "":
        lines.append(json.loads(line))
        continue
    hold = os.path.join(gate, "hold_%d" % lines[0]["ClientPort"])
    while os.path.exists(hold):
        time.sleep(0.02)
    payload = b"".join(base64.b64decode(p["Content"]) for p in lines[1:])
    print(json.dumps({
        "Direction": "client-to-server",
        "Content": base64.b64encode(b"CONV[" + payload + b"]").decode(),
        "Time": lines[1]["Time"],
    }))
    print()
    print("{}", flush=True)
    lines = []
`

func huntWaitFor3(t *testing.T, what string, cond func() bool) {
	t.Helper()
	deadline := time.Now().Add(30 * time.Second)
	for !cond() {
		if time.Now().After(deadline) {
			t.Fatalf("timeout waiting for %s", what)
		}
		time.Sleep(20 * time.Millisecond)
	}
}

func huntIdle3(mgr *Manager) bool {
	for i := 0; i < 3; i++ {
		s := mgr.Status()
		if s.ImportJobCount != 0 || s.TaggingJobRunning || s.ConverterJobRunning || s.MergeJobRunning {
			return false
		}
		time.Sleep(100 * time.Millisecond)
	}
	return true
}

// huntOutputs3 returns, for the stream of the given client port, the plain payload and the converter output.
func huntOutputs3(t *testing.T, mgr *Manager, clientPort uint16, converter string) (plain, converted string) {
	t.Helper()
	view := mgr.GetView()
	defer view.Release()
	found := false
	if err := view.AllStreams(context.Background(), func(sc StreamContext) error {
		if sc.Stream().ClientPort != clientPort {
			return nil
		}
		found = true
		d, err := sc.Data("")
		if err != nil {
			return err
		}
		for _, c := range d {
			plain += string(c.Content)
		}
		d, err = sc.Data(converter)
		if err != nil {
			return fmt.Errorf("Data(%q): %w", converter, err)
		}
		for _, c := range d {
			converted += string(c.Content)
		}
		return nil
	}); err != nil {
		t.Errorf("VIOLATION: reading stream with client port %d failed: %v", clientPort, err)
	}
	if !found {
		t.Fatalf("stream with client port %d not found", clientPort)
	}
	return plain, converted
}

// History: converter conv is attached to a tag that matches stream B, the converter job is busy with B.
// The converter executable is replaced (rm conv; cp new conv - here with the same content). A user
// looks at stream A with converter conv. The converter job finishes B.
func TestHuntReplacedConverterShowsOutputOfOtherStream(t *testing.T) {
	dirs := makeTempdirs(t)
	gate := path.Join(dirs.base, "gate")
	if err := os.Mkdir(gate, 0755); err != nil {
		t.Fatal(err)
	}
	convPath := path.Join(dirs.converter, "conv")
	if err := os.WriteFile(convPath, []byte(huntGatedConverter3), 0775); err != nil {
		t.Fatal(err)
	}
	holdB := path.Join(gate, "hold_2")
	if err := os.WriteFile(holdB, nil, 0644); err != nil {
		t.Fatal(err)
	}
	mgr := makeManager(t, dirs)
	defer mgr.Close()

	pcaps, err := writePcaps(mgr.PcapDir, []pcapOverIPPacket{
		makeUDPPacket("1.2.3.4:1", "4.3.2.1:4321", t1.Add(time.Second*0), "AAAA-payload"),
		makeUDPPacket("1.2.3.4:2", "4.3.2.1:4321", t1.Add(time.Second*1), "BBBB-payload"),
	})
	if err != nil {
		t.Fatalf("writePcaps failed: %v", err)
	}
	events, closer := mgr.Listen()
	mgr.ImportPcaps(pcaps)
	waitForEvent(t, events, closer, "pcapProcessed")

	if err := mgr.AddTag("tag/b", "red", "cport:2"); err != nil {
		t.Fatalf("AddTag failed: %v", err)
	}
	huntWaitFor3(t, "tag evaluation", func() bool { return huntIdle3(mgr) })
	if err := mgr.UpdateTag("tag/b", UpdateTagOperationSetConverter([]string{"conv"})); err != nil {
		t.Fatalf("UpdateTag failed: %v", err)
	}
	// the converter job runs now, its conversion of B is held back by the converter
	huntWaitFor3(t, "converter job start", func() bool { return mgr.Status().ConverterJobRunning })
	time.Sleep(300 * time.Millisecond) // let the conversion of B reach the converter process

	// the converter executable is replaced: rm conv; cp conv.new conv
	events, closer = mgr.Listen()
	if err := os.Remove(convPath); err != nil {
		t.Fatal(err)
	}
	waitForEvent(t, events, closer, "converterDeleted")
	events, closer = mgr.Listen()
	if err := os.WriteFile(convPath, []byte(huntGatedConverter3), 0775); err != nil {
		t.Fatal(err)
	}
	waitForEvent(t, events, closer, "converterAdded")
	if !mgr.Status().ConverterJobRunning {
		t.Fatalf("scenario broken: converter job ended too early")
	}

	// a user looks at stream A with the converter
	plainA, convA := huntOutputs3(t, mgr, 1, "conv")
	t.Logf("stream A, first look: payload %q, converter output %q", plainA, convA)
	if convA != "CONV["+plainA+"]" {
		t.Fatalf("scenario broken: first conversion of A gave %q", convA)
	}

	// the conversion of B ends, the converter job ends
	if err := os.Remove(holdB); err != nil {
		t.Fatal(err)
	}
	huntWaitFor3(t, "idle", func() bool { return huntIdle3(mgr) })

	plainA, convA = huntOutputs3(t, mgr, 1, "conv")
	t.Logf("stream A, second look: payload %q, converter output %q", plainA, convA)
	if want := "CONV[" + plainA + "]"; convA != want {
		t.Errorf("VIOLATION: converter output shown for stream A is %q, want %q", convA, want)
	}
}
