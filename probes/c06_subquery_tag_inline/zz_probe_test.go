package manager

// Probe for the finding C06-m/C02-p (repaired): copy into internal/index/manager of a scratch worktree and run
//   go test -count=1 -vet=off -run TestHuntSubQueryTagFilterWhilePending ./internal/index/manager/
// A tag filter inside a sub-query (@s:tag:a …) is replaced, while the tag is pending, by the tag's conditions written for
// sub-query "": they constrain the main stream. Failed before the repair (#68), passes after.
