package manager

import (
	"testing"
	"time"
)

func settle(t *testing.T, mgr *Manager) {
	deadline := time.Now().Add(10 * time.Second)
	for time.Now().Before(deadline) {
		s := mgr.Status()
		if s.ImportJobCount == 0 && !s.TaggingJobRunning && !s.MergeJobRunning && !s.ConverterJobRunning {
			pending := false
			for _, ti := range mgr.ListTags() {
				if ti.UncertainCount != 0 {
					pending = true
				}
			}
			if !pending {
				time.Sleep(200 * time.Millisecond)
				return
			}
		}
		time.Sleep(50 * time.Millisecond)
	}
	t.Fatalf("did not settle")
}

func TestProbeOpenIDRangeTag(t *testing.T) {
	dirs := makeTempdirs(t)
	mgr := makeManager(t, dirs)
	defer mgr.Close()
	t1 := time.Date(2020, 1, 1, 0, 0, 0, 0, time.UTC)
	importSomePackets(t, mgr, t1, "pcapProcessed") // streams 0..3
	settle(t, mgr)
	if err := mgr.AddTag("tag/open", "red", "id:2:"); err != nil {
		t.Fatal(err)
	}
	if err := mgr.AddTag("tag/port", "red", "sport:4321"); err != nil {
		t.Fatal(err)
	}
	settle(t, mgr)
	for _, ti := range mgr.ListTags() {
		t.Logf("before: %s matching=%d uncertain=%d", ti.Name, ti.MatchingCount, ti.UncertainCount)
	}
	// second import: 4 new streams (different client ports → new stream ids 4..7)
	pcaps, err := writePcaps(mgr.PcapDir, []pcapOverIPPacket{
		makeUDPPacket("1.2.3.4:11", "4.3.2.1:4321", t1.Add(time.Second*10), "foo"),
		makeUDPPacket("1.2.3.4:12", "4.3.2.1:4321", t1.Add(time.Second*11), "bar"),
		makeUDPPacket("1.2.3.4:13", "4.3.2.1:4321", t1.Add(time.Second*12), "baz"),
		makeUDPPacket("1.2.3.4:14", "4.3.2.1:4321", t1.Add(time.Second*13), "qux"),
	})
	if err != nil {
		t.Fatal(err)
	}
	events, closer := mgr.Listen()
	mgr.ImportPcaps(pcaps)
	waitForEvent(t, events, closer, "pcapProcessed")
	settle(t, mgr)
	want := map[string]uint{"tag/open": 6, "tag/port": 8}
	for _, ti := range mgr.ListTags() {
		t.Logf("after: %s matching=%d uncertain=%d", ti.Name, ti.MatchingCount, ti.UncertainCount)
		if ti.MatchingCount != want[ti.Name] {
			t.Errorf("%s: matching=%d want %d (streams total %d)", ti.Name, ti.MatchingCount, want[ti.Name], mgr.Status().StreamCount)
		}
	}
}
