package index

// C07: the default search (newest first, with a page limit) returns a different stream after the index files
// were merged when two streams have the same first packet time.

import (
	"context"
	"fmt"
	"net"
	"path/filepath"
	"testing"
	"time"

	"github.com/gopacket/gopacket"
	"github.com/gopacket/gopacket/reassembly"
	"github.com/spq/pkappa2/internal/index/streams"
	"github.com/spq/pkappa2/internal/query"
	pcapmetadata "github.com/spq/pkappa2/internal/tools/pcapMetadata"
)

// one index file with one TCP stream: SYN, one request, one response
func zzHuntTieIndex(t *testing.T, fn string, id uint64, client string, cport uint16, first time.Time, pcap string) *Reader {
	pi := &pcapmetadata.PcapInfo{Filename: pcap}
	s := streams.Stream{
		ClientAddr: net.ParseIP(client).To4(),
		ServerAddr: net.ParseIP("10.0.1.1").To4(),
		ClientPort: cport,
		ServerPort: 80,
		Flags:      streams.StreamFlagsProtocolTCP,
	}
	for i, dir := range []reassembly.TCPFlowDirection{reassembly.TCPDirClientToServer, reassembly.TCPDirClientToServer, reassembly.TCPDirServerToClient} {
		ci := gopacket.CaptureInfo{Timestamp: first.Add(time.Duration(i) * time.Second), CaptureLength: 100, Length: 100}
		pcapmetadata.AddPcapMetadata(&ci, pi, uint64(i))
		s.Packets = append(s.Packets, ci)
		s.PacketDirections = append(s.PacketDirections, dir)
	}
	s.Data = []streams.StreamData{
		{Bytes: []byte("GET / HTTP/1.1\r\n\r\n"), PacketIndex: 1},
		{Bytes: []byte("HTTP/1.1 200 OK\r\n\r\n"), PacketIndex: 2},
	}
	w, err := NewWriter(fn)
	if err != nil {
		t.Fatal(err)
	}
	if ok, err := w.AddStream(&s, id); err != nil || !ok {
		t.Fatalf("AddStream: %v %v", ok, err)
	}
	r, err := w.Finalize()
	if err != nil {
		t.Fatal(err)
	}
	return r
}

func zzHuntTieSearch(t *testing.T, indexes []*Reader, qs string, page uint) []uint64 {
	q, err := query.Parse(qs)
	if err != nil {
		t.Fatalf("Parse(%q): %v", qs, err)
	}
	limit := uint(0)
	if q.Limit != nil {
		limit = *q.Limit
	}
	res, _, _, err := SearchStreams(context.Background(), indexes, nil, q.ReferenceTime, q.Conditions, q.Grouping, q.Sorting, limit, page*limit, nil, nil, false)
	if err != nil {
		t.Fatalf("SearchStreams(%q): %v", qs, err)
	}
	ids := []uint64{}
	for _, s := range res {
		ids = append(ids, s.ID())
	}
	return ids
}

func TestZZHuntMergeTie(t *testing.T) {
	dir := t.TempDir()
	ts := time.Date(2020, 1, 1, 13, 0, 0, 123456000, time.UTC)
	// two imports, each saw one connection; the first packets of both carry the same capture time stamp
	// (microsecond resolution, two SYNs in the same microsecond)
	older := zzHuntTieIndex(t, filepath.Join(dir, "2020-01-01_130100.000.0.idx"), 0, "10.0.0.1", 1000, ts, "a.pcap")
	newer := zzHuntTieIndex(t, filepath.Join(dir, "2020-01-01_130200.000.0.idx"), 1, "10.0.0.2", 2000, ts, "b.pcap")
	before := []*Reader{older, newer}
	merged, err := Merge(dir, before)
	if err != nil {
		t.Fatal(err)
	}
	if len(merged) != 1 {
		t.Fatalf("%d merged files", len(merged))
	}
	failed := false
	for _, c := range []struct {
		q    string
		page uint
	}{
		{"limit:1", 0},             // the default order of the stream list: newest first
		{"limit:1", 1},             // and its second page
		{"sort:-ftime limit:1", 0}, // the same, spelled out
		{"sort:-ltime limit:1", 0}, // last packet times are equal as well
		{"sport:80 limit:1", 0},    // with a filter
		{"sort:-ftime", 0},         // without a limit nothing changes
		{"sort:ftime limit:1", 0},  // ascending: nothing changes
	} {
		b := zzHuntTieSearch(t, before, c.q, c.page)
		a := zzHuntTieSearch(t, merged, c.q, c.page)
		verdict := "same"
		if fmt.Sprint(a) != fmt.Sprint(b) {
			verdict = "VIOLATION"
			failed = true
		}
		t.Logf("%-9s query %-22q page %d: before merge %v, after merge %v", verdict, c.q, c.page, b, a)
	}
	if failed {
		t.Errorf("VIOLATION C07: merging the index files changed search results")
	}
}
