package index

// Probe for a defect found by a round-9 hunt agent (C02): copy into internal/index of a scratch worktree and run
//   go test -count=1 -vet=off -run TestZZHuntTwoSubQueries ./internal/index/
// ConditionsSet.SubQueries kept the resolution of only one of the sub-queries the main query needs; conditions on the
// other were skipped: @a:id:0 @b:id:1 cport:@a:cport@ sport:@b:sport@ returned [1 2] instead of [2].
