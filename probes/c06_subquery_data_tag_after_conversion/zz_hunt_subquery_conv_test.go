package manager

// C06: a tag whose query searches stream data in a SUB QUERY ("streams to the same server port as a stream whose data
// contains X") depends, for every stream, on the data of other streams. When a converter produces output for stream A
// (converter job or on-demand conversion), only stream A is marked as pending for the tags with data filters. The
// membership of all other streams in such a tag stays decided with the old value: silently and permanently stale.
// (After an import the same kind of tag is marked pending for all streams, invalidateTags knows the rule.)

import (
	"context"
	"fmt"
	"io"
	"log"
	"os"
	"path"
	"sort"
	"testing"
	"time"

	"github.com/spq/pkappa2/internal/query"
)

const huntUpperConverter = `#!/usr/bin/env python3
import base64, json, sys
while True:
    meta = sys.stdin.readline()
    if meta == "":
        break
    chunks = []
    while True:
        line = sys.stdin.readline().strip()
        if line == "":
            break
        chunks.append(json.loads(line))
    for c in chunks:
        c["Content"] = base64.b64encode(base64.b64decode(c["Content"]).upper()).decode()
        print(json.dumps(c))
    print()
    print("{}", flush=True)
`

func huntSubIDs(t *testing.T, mgr *Manager, q string) []uint64 {
	pq, err := query.Parse(q)
	if err != nil {
		t.Fatalf("Parse(%q): %v", q, err)
	}
	v := mgr.GetView()
	defer v.Release()
	ids := []uint64{}
	if _, _, _, err := v.SearchStreams(context.Background(), pq, func(sc StreamContext) error {
		ids = append(ids, sc.Stream().ID())
		return nil
	}); err != nil {
		t.Fatalf("SearchStreams(%q): %v", q, err)
	}
	sort.Slice(ids, func(i, j int) bool { return ids[i] < ids[j] })
	return ids
}

func huntSubWaitIdle(t *testing.T, mgr *Manager) {
	for i := 0; ; i++ {
		st := mgr.Status()
		pending := false
		for _, ti := range mgr.ListTags() {
			pending = pending || ti.UncertainCount != 0
		}
		if !st.TaggingJobRunning && !st.ConverterJobRunning && !pending && st.ImportJobCount == 0 {
			st = mgr.Status()
			if !st.TaggingJobRunning && !st.ConverterJobRunning {
				return
			}
		}
		if i > 20000 {
			t.Fatalf("service does not become idle: %+v %+v", st, mgr.ListTags())
		}
		time.Sleep(time.Millisecond)
	}
}

func huntSubCheck(t *testing.T, mgr *Manager, what, tagName, definition string) {
	huntSubWaitIdle(t, mgr)
	byDefinition := huntSubIDs(t, mgr, definition)
	byTag := huntSubIDs(t, mgr, "tag:"+tagName)
	info := TagInfo{}
	for _, ti := range mgr.ListTags() {
		if ti.Name == "tag/"+tagName {
			info = ti
		}
	}
	t.Logf("%s: the definition %s finds %v, tag:%s finds %v (MatchingCount %d, UncertainCount %d)", what, definition, byDefinition, tagName, byTag, info.MatchingCount, info.UncertainCount)
	if info.UncertainCount == 0 && fmt.Sprint(byDefinition) != fmt.Sprint(byTag) {
		t.Errorf("VIOLATION (%s): tag/%s is decided for all streams, tag:%s finds %v, its definition %s finds %v; the service is idle, nothing will correct this", what, tagName, tagName, byTag, definition, byDefinition)
	}
}

func TestHuntSubQueryDataTagAfterConversion(t *testing.T) {
	if os.Getenv("HUNT_LOG") == "" {
		log.SetOutput(io.Discard)
	}
	dirs := makeTempdirs(t)
	if err := os.WriteFile(path.Join(dirs.converter, "up"), []byte(huntUpperConverter), 0775); err != nil {
		t.Fatal(err)
	}
	mgr := makeManager(t, dirs)
	defer mgr.Close()
	// streams 0..3 with the client data foo, bar, baz, qux, all to server port 4321
	importSomePackets(t, mgr, t1, "pcapProcessed")

	// "streams to the same server port as a stream whose client data contains FOO / BAR", only the output
	// of the converter (the data in upper case) contains FOO or BAR
	const defFoo = `sport:@s:sport@ @s:cdata:"FOO"`
	const defBar = `sport:@s:sport@ @s:cdata:"BAR"`
	if err := mgr.AddTag("tag/likefoo", "red", defFoo); err != nil {
		t.Fatal(err)
	}
	if err := mgr.AddTag("tag/likebar", "red", defBar); err != nil {
		t.Fatal(err)
	}
	huntSubCheck(t, mgr, "before any conversion", "likefoo", defFoo)

	// 1. stream 0 is converted on demand (what GET /api/stream/0.json?converter=converter:up does)
	v := mgr.GetView()
	sc, err := v.Stream(0)
	if err != nil {
		t.Fatal(err)
	}
	data, err := sc.Data("up")
	v.Release()
	if err != nil || len(data) != 1 || string(data[0].Content) != "FOO" {
		t.Fatalf("Data(up) = %v, %v", data, err)
	}
	huntSubCheck(t, mgr, "after stream 0 was converted on demand", "likefoo", defFoo)

	// 2. stream 1 is converted by a converter job
	if err := mgr.AddTag("service/one", "red", "id:1"); err != nil {
		t.Fatal(err)
	}
	huntSubWaitIdle(t, mgr)
	if err := mgr.UpdateTag("service/one", UpdateTagOperationSetConverter([]string{"up"})); err != nil {
		t.Fatal(err)
	}
	huntSubCheck(t, mgr, "after stream 1 was converted by a converter job", "likebar", defBar)
}
