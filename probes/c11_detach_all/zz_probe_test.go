package manager

// Probe for defect D11 (C11): copy into internal/index/manager of a scratch worktree and run
//   go test -count=1 -vet=off -run TestProbeDetachAll ./internal/index/manager/
// A tag with three converters; SetConverter(nil) must detach all of them. Before the repair the loop over
// tag.converters called detachConverterFromTag, which removed the element in place, so every other converter stayed.

import "testing"

func TestProbeDetachAll(t *testing.T) {
	dirs := makeTempdirs(t)
	for _, n := range []string{"a", "b", "c"} {
		addConverter(dirs, n)
	}
	mgr := makeManager(t, dirs)
	defer mgr.Close()
	if err := mgr.AddTag("tag/x", "red", ""); err != nil {
		t.Fatalf("AddTag: %v", err)
	}
	if err := mgr.UpdateTag("tag/x", UpdateTagOperationSetConverter([]string{"a", "b", "c"})); err != nil {
		t.Fatalf("attach: %v", err)
	}
	if got := mgr.ListTags(); len(got) != 1 || len(got[0].Converters) != 3 {
		t.Fatalf("after attach: %+v", got)
	}
	if err := mgr.UpdateTag("tag/x", UpdateTagOperationSetConverter(nil)); err != nil {
		t.Fatalf("detach: %v", err)
	}
	if got := mgr.ListTags(); len(got) != 1 || len(got[0].Converters) != 0 {
		t.Fatalf("SetConverter(nil) reported success but left %v attached", got[0].Converters)
	}
	// and DelTag of a tag with several converters detaches all of them as well
	if err := mgr.UpdateTag("tag/x", UpdateTagOperationSetConverter([]string{"a", "b", "c"})); err != nil {
		t.Fatalf("attach: %v", err)
	}
	if err := mgr.DelTag("tag/x"); err != nil {
		t.Fatalf("DelTag: %v", err)
	}
}
