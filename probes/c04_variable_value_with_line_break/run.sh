#!/bin/bash
# usage: demo.sh <project root>
# exit 1 iff the violation shows, 0 otherwise (also when the test could not run)
root="${1:?usage: demo.sh <project root>}"
here="$(cd "$(dirname "$0")" && pwd)"
export GOFLAGS=-mod=mod GOPROXY=off
unset GOWORK
test_file=zz_hunt_varnewline_test.go
dst="$root/internal/index/$test_file"
cp "$here/$test_file" "$dst" || exit 0
trap 'rm -f "$dst"' EXIT
out="$(cd "$root" && timeout 170 go test -vet=off -count=1 -run '^TestZZHuntVariableWithNewline$' -v ./internal/index/ 2>&1)"
echo "$out" | grep -v '^=== RUN' | tail -30
if echo "$out" | grep -q 'VIOLATION'; then
	exit 1
fi
exit 0
