package index

// Demonstration: a variable bound by a capture whose value contains a line break. The filter
// that uses the variable is first tried with ".*" in place of the variable (a pre-check before
// the expression with the real value is built); "." does not match "\n", the pre-check fails
// and the stream is dropped although the expression with the value matches.

import (
	"context"
	"fmt"
	"net/netip"
	"slices"
	"testing"
	"time"

	"github.com/gopacket/gopacket"
	"github.com/gopacket/gopacket/reassembly"
	"github.com/spq/pkappa2/internal/index/streams"
	"github.com/spq/pkappa2/internal/query"
	"github.com/spq/pkappa2/internal/tools"
	pcapmetadata "github.com/spq/pkappa2/internal/tools/pcapMetadata"
	"rsc.io/binaryregexp"
)

// chunks alternate client, server, client, ...
func zzHuntStream1(port uint16, t time.Time, chunks []string) *streams.Stream {
	client := netip.MustParseAddrPort(fmt.Sprintf("10.0.0.1:%d", port))
	server := netip.MustParseAddrPort("10.0.0.2:80")
	pcapinfo := &pcapmetadata.PcapInfo{
		Filename:           fmt.Sprintf("zz_%d.pcap", port),
		Filesize:           123,
		PacketTimestampMin: t,
		PacketTimestampMax: t.Add(time.Minute),
		ParseTime:          t.Add(time.Hour),
		PacketCount:        uint(len(chunks)) + 2,
	}
	s := &streams.Stream{
		ClientAddr: client.Addr().AsSlice(),
		ServerAddr: server.Addr().AsSlice(),
		ClientPort: client.Port(),
		ServerPort: server.Port(),
		Flags:      streams.StreamFlagsComplete | streams.StreamFlagsProtocolTCP,
	}
	add := func(dir reassembly.TCPFlowDirection, d string) {
		idx := len(s.Packets)
		ci := gopacket.CaptureInfo{Timestamp: t.Add(time.Second * time.Duration(idx)), CaptureLength: 100, Length: 100}
		pcapmetadata.AddPcapMetadata(&ci, pcapinfo, uint64(idx))
		s.Packets = append(s.Packets, ci)
		s.PacketDirections = append(s.PacketDirections, dir)
		if d != "" {
			s.Data = append(s.Data, streams.StreamData{Bytes: []byte(d), PacketIndex: uint64(idx)})
		}
	}
	add(reassembly.TCPDirClientToServer, "")
	for i, c := range chunks {
		dir := reassembly.TCPDirClientToServer
		if i%2 == 1 {
			dir = reassembly.TCPDirServerToClient
		}
		add(dir, c)
	}
	add(reassembly.TCPDirClientToServer, "")
	return s
}

func TestZZHuntVariableWithNewline(t *testing.T) {
	t0 := time.Date(2020, 1, 1, 12, 0, 0, 0, time.UTC)
	raw := map[uint64][]string{
		1: {"data=hello;", "got hello;"},     // the value is on one line
		2: {"data=hel\nlo;", "got hel\nlo;"}, // the value has a line break
		3: {"data=hel\nlo;", "got other;"},   // the server does not echo the value
	}
	w, err := NewWriter(tools.MakeFilename(t.TempDir(), "idx"))
	if err != nil {
		t.Fatal(err)
	}
	for id := uint64(1); id <= 3; id++ {
		if ok, err := w.AddStream(zzHuntStream1(uint16(1000+id), t0.Add(time.Duration(id)*time.Minute), raw[id]), id); err != nil || !ok {
			t.Fatalf("AddStream: %v %v", ok, err)
		}
	}
	r, err := w.Finalize()
	if err != nil {
		t.Fatal(err)
	}
	defer r.Close()

	search := func(q string) []uint64 {
		t.Helper()
		pq, err := query.Parse(q)
		if err != nil {
			t.Fatalf("parse %q: %v", q, err)
		}
		res, _, _, err := SearchStreams(context.Background(), []*Reader{r}, nil, pq.ReferenceTime, pq.Conditions, nil, []query.Sorting{{Key: query.SortingKeyID, Dir: query.SortingDirAscending}}, 100, 0, nil, map[string]ConverterAccess{}, false)
		if err != nil {
			t.Fatalf("search %q: %v", q, err)
		}
		ids := []uint64{}
		for _, s := range res {
			ids = append(ids, s.StreamID)
		}
		t.Logf("%-80s -> %v", q, ids)
		return ids
	}

	// plain scan: the value the first filter captures, put into the second expression
	capture := binaryregexp.MustCompile(`data=(?P<v>[^;]+);`)
	want := []uint64{}
	for id := uint64(1); id <= 3; id++ {
		m := capture.FindSubmatch([]byte(raw[id][0]))
		if m == nil {
			continue
		}
		second := binaryregexp.MustCompile(`got (?:` + binaryregexp.QuoteMeta(string(m[1])) + `);`)
		if second.Match([]byte(raw[id][1])) {
			want = append(want, id)
		}
	}
	t.Logf("plain regular-expression scan selects %v", want)

	// sanity: the expression with the value written out finds the stream with the line break
	if got := search(`cdata:"data=(?P<v>[^;]+);" then sdata:"got hel\nlo;"`); !slices.Equal(got, []uint64{2}) {
		t.Fatalf("unexpected result with the value written out: %v", got)
	}
	if got := search(`cdata:"data=(?P<v>[^;]+);" then sdata:"got @v@;"`); !slices.Equal(got, want) {
		t.Errorf("VIOLATION: the filter with the variable selects %v, the plain scan selects %v", got, want)
	}
	// the same negated: stream 2 echoes the value, it must not be selected
	if got := search(`cdata:"data=(?P<v>[^;]+);" then -sdata:"got @v@;"`); !slices.Equal(got, []uint64{3}) {
		t.Errorf("VIOLATION: the negated filter with the variable selects %v, expected [3]", got)
	}
}
