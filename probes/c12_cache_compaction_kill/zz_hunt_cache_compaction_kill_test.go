package converters

// C12: the converter cache file is compacted IN PLACE (cacheFile.truncateFile): the live records behind
// the first dead one are copied towards the front of the same file and the file is shortened at the very
// end. NewCacheFile does this on every start when the file contains invalidated records (the manager
// invalidates records on every import that changes a converted stream), setData does it when half of the
// file is dead. A process kill while the copy is running leaves a file whose front is compacted and whose
// rest still has the old layout. The next start parses that file without complaint: the record the copy
// was in the middle of is accepted with a content that is partly shifted, and is served as the converter
// output of its stream from then on (nothing ever converts a stream again that the cache "contains").
//
// The test builds a cache file through the regular API, invalidates its first record, lets a child process
// open it (= start-up compaction) and kills the child with SIGKILL as soon as the first bytes have been
// moved. Then it opens the file again like the next start would and compares every record it serves with
// what was stored.

import (
	"bytes"
	"fmt"
	"io"
	"os"
	"os/exec"
	"path/filepath"
	"testing"
	"time"

	"github.com/spq/pkappa2/internal/index"
	"github.com/spq/pkappa2/internal/tools/bitmask"
)

const (
	huntStreams   = 48
	huntChunkSize = 768 * 1024
)

var huntStreamTime = time.Date(2020, 1, 1, 12, 0, 0, 0, time.UTC)

// huntContent is the deterministic "converter output" of a stream: text lines, two chunks.
func huntContent(streamID uint64) []index.Data {
	res := []index.Data{}
	for c, dir := range []index.Direction{index.DirectionClientToServer, index.DirectionServerToClient} {
		b := bytes.Buffer{}
		size := huntChunkSize + int(streamID)*4099 + c*977
		for n := 0; b.Len() < size; n++ {
			fmt.Fprintf(&b, "stream %d chunk %d line %d of the converted output\n", streamID, c, n)
		}
		res = append(res, index.Data{
			Direction: dir,
			Content:   b.Bytes()[:size],
			Time:      huntStreamTime.Add(time.Duration(c+1) * time.Second),
		})
	}
	return res
}

func TestHuntCompactionChild(t *testing.T) {
	path := os.Getenv("HUNT_CACHE_CHILD")
	if path == "" {
		t.Skip("helper of TestHuntCacheCompactionKilled")
	}
	// what every start of the manager does for each converter
	cf, err := NewCacheFile(path)
	if err != nil {
		t.Fatalf("NewCacheFile failed: %v", err)
	}
	cf.Close()
}

// huntBusyWait lets the child copy a little further before it is killed.
func huntBusyWait() {
	for start := time.Now(); time.Since(start) < 3*time.Millisecond; {
	}
}

func huntCopyFile(t *testing.T, from, to string) {
	t.Helper()
	in, err := os.Open(from)
	if err != nil {
		t.Fatal(err)
	}
	defer in.Close()
	out, err := os.Create(to)
	if err != nil {
		t.Fatal(err)
	}
	if _, err := io.Copy(out, in); err != nil {
		t.Fatal(err)
	}
	if err := out.Close(); err != nil {
		t.Fatal(err)
	}
}

func TestHuntCacheCompactionKilled(t *testing.T) {
	dir := t.TempDir()
	master := filepath.Join(dir, "master.cidx")

	// a cache with the output of 48 streams, then stream 0 is invalidated like an import that extends it does
	cf, err := NewCacheFile(master)
	if err != nil {
		t.Fatalf("INCONCLUSIVE: NewCacheFile failed: %v", err)
	}
	for id := uint64(0); id < huntStreams; id++ {
		if err := cf.setData(id, huntStreamTime, huntContent(id)); err != nil {
			t.Fatalf("INCONCLUSIVE: setData failed: %v", err)
		}
	}
	changed := bitmask.LongBitmask{}
	changed.Set(0)
	if inv := cf.InvalidateChangedStreams(&changed); !inv.IsSet(0) {
		t.Fatalf("INCONCLUSIVE: stream 0 was not invalidated")
	}
	if err := cf.Close(); err != nil {
		t.Fatalf("INCONCLUSIVE: Close failed: %v", err)
	}
	masterInfo, err := os.Stat(master)
	if err != nil {
		t.Fatal(err)
	}
	tombstone := bytes.Repeat([]byte{0xff}, int(streamHeaderSize))

	// control: a start that is not interrupted keeps every other record intact
	{
		ctl := filepath.Join(dir, "control.cidx")
		huntCopyFile(t, master, ctl)
		c1, err := NewCacheFile(ctl)
		if err != nil {
			t.Fatalf("INCONCLUSIVE: control: NewCacheFile failed: %v", err)
		}
		for id := uint64(1); id < huntStreams; id++ {
			got, _, _, err := c1.data(id, huntStreamTime)
			want := huntContent(id)
			if err != nil || len(got) != len(want) || !bytes.Equal(got[0].Content, want[0].Content) || !bytes.Equal(got[1].Content, want[1].Content) {
				t.Fatalf("INCONCLUSIVE: control: record of stream %d is wrong after an uninterrupted start (err %v)", id, err)
			}
		}
		c1.Close()
	}

	killedFile := ""
	for attempt := 0; attempt < 20 && killedFile == ""; attempt++ {
		victim := filepath.Join(dir, fmt.Sprintf("victim%d.cidx", attempt))
		huntCopyFile(t, master, victim)
		probe, err := os.Open(victim)
		if err != nil {
			t.Fatal(err)
		}
		cmd := exec.Command(os.Args[0], "-test.run=^TestHuntCompactionChild$")
		cmd.Env = append(os.Environ(), "HUNT_CACHE_CHILD="+victim)
		if err := cmd.Start(); err != nil {
			t.Fatalf("INCONCLUSIVE: cannot start the child: %v", err)
		}
		exited := make(chan struct{})
		go func() { _ = cmd.Wait(); close(exited) }()
		buf := make([]byte, streamHeaderSize)
	poll:
		for {
			select {
			case <-exited:
				break poll
			default:
			}
			// the dead record of stream 0 starts right behind the file header, the compaction overwrites it first
			if _, err := probe.ReadAt(buf, cacheFileHeaderSize); err == nil && !bytes.Equal(buf, tombstone) {
				huntBusyWait()
				_ = cmd.Process.Kill() // SIGKILL
				break poll
			}
		}
		<-exited
		probe.Close()
		info, err := os.Stat(victim)
		if err != nil {
			t.Fatal(err)
		}
		if info.Size() == masterInfo.Size() {
			// the compaction had started and the file was not shortened yet: killed in the middle
			killedFile = victim
		} else {
			t.Logf("attempt %d: the child finished before it could be killed, trying again", attempt)
		}
	}
	if killedFile == "" {
		t.Fatalf("INCONCLUSIVE: never managed to kill the child during the compaction")
	}

	// the next start
	cf2, err := NewCacheFile(killedFile)
	if err != nil {
		t.Fatalf("VIOLATION C12: after a kill during the compaction the cache file cannot be opened any more (the converter is not loaded and the tags lose it): %v", err)
	}
	defer cf2.Close()
	kept, dropped, bad := 0, 0, []string{}
	for id := uint64(0); id < huntStreams; id++ {
		got, _, _, err := cf2.data(id, huntStreamTime)
		if err != nil {
			bad = append(bad, fmt.Sprintf("stream %d: cached record cannot be read: %v", id, err))
			continue
		}
		if got == nil {
			dropped++ // not in the cache any more, it would be converted again: fine
			continue
		}
		want := huntContent(id)
		ok := len(got) == len(want)
		for i := 0; ok && i < len(want); i++ {
			ok = got[i].Direction == want[i].Direction && bytes.Equal(got[i].Content, want[i].Content)
		}
		if ok {
			kept++
			continue
		}
		desc := fmt.Sprintf("stream %d: %d chunks", id, len(got))
		for i := 0; i < len(got) && i < len(want); i++ {
			if !bytes.Equal(got[i].Content, want[i].Content) {
				n := 0
				for n < len(got[i].Content) && n < len(want[i].Content) && got[i].Content[n] == want[i].Content[n] {
					n++
				}
				end := n + 60
				if end > len(got[i].Content) {
					end = len(got[i].Content)
				}
				wend := n + 60
				if wend > len(want[i].Content) {
					wend = len(want[i].Content)
				}
				desc += fmt.Sprintf(", chunk %d differs from byte %d on: serves %q, stored was %q", i, n, got[i].Content[n:end], want[i].Content[n:wend])
				break
			}
		}
		bad = append(bad, desc)
	}
	t.Logf("after the kill and the next start: %d records intact, %d dropped (would be converted again), %d wrong, cache claims to contain %d streams", kept, dropped, len(bad), cf2.StreamCount())
	if len(bad) != 0 {
		t.Fatalf("VIOLATION C12: a kill during the in-place compaction of the converter cache leaves records that the next start loads and serves with wrong content:\n  %s", bad[0])
	}
}
