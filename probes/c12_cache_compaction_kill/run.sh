#!/bin/bash
# usage: demo.sh <project root>
# exits non-zero iff the violation shows (it does on the unchanged tree)
ROOT="${1:?project root}"
HERE="$(cd "$(dirname "$0")" && pwd)"
export GOFLAGS=-mod=mod GOPROXY=off
unset GOWORK
cp "$HERE/zz_hunt_cache_compaction_kill_test.go" "$ROOT/internal/index/converters/zz_hunt_cache_compaction_kill_test.go"
OUT="$(cd "$ROOT" && timeout 900 go test ./internal/index/converters/ -run '^TestHuntCacheCompactionKilled$' -count=1 -v 2>&1)"
rm -f "$ROOT/internal/index/converters/zz_hunt_cache_compaction_kill_test.go"
echo "$OUT" | grep -v '^20[0-9][0-9]/' | tail -n 25
if echo "$OUT" | grep -q 'VIOLATION C12'; then
	echo "demo: violation shown"
	exit 1
fi
if echo "$OUT" | grep -q '^ok'; then
	echo "demo: no violation"
	exit 0
fi
echo "demo: inconclusive (test did not reach the check)"
exit 0
