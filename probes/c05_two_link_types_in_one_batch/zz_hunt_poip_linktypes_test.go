package manager

import (
	"context"
	"fmt"
	"net"
	"os"
	"path/filepath"
	"strings"
	"testing"
	"time"

	"github.com/gopacket/gopacket"
	"github.com/gopacket/gopacket/layers"
	"github.com/gopacket/gopacket/pcap"
	"github.com/gopacket/gopacket/pcapgo"
)

// zzHuntUDP builds one UDP datagram 10.0.0.<host>:40000 -> 10.0.1.1:53 with the
// given payload, framed for the given link type (Ethernet or raw IP).
func zzHuntUDP(t *testing.T, lt layers.LinkType, host byte, payload string) []byte {
	t.Helper()
	ip := &layers.IPv4{Version: 4, IHL: 5, TTL: 64, Protocol: layers.IPProtocolUDP,
		SrcIP: net.IP{10, 0, 0, host}, DstIP: net.IP{10, 0, 1, 1}}
	udp := &layers.UDP{SrcPort: 40000, DstPort: 53}
	if err := udp.SetNetworkLayerForChecksum(ip); err != nil {
		t.Fatal(err)
	}
	ls := []gopacket.SerializableLayer{}
	if lt == layers.LinkTypeEthernet {
		ls = append(ls, &layers.Ethernet{SrcMAC: net.HardwareAddr{2, 0, 0, 0, 0, 1}, DstMAC: net.HardwareAddr{2, 0, 0, 0, 0, 2}, EthernetType: layers.EthernetTypeIPv4})
	}
	ls = append(ls, ip, udp, gopacket.Payload(payload))
	buf := gopacket.NewSerializeBuffer()
	if err := gopacket.SerializeLayers(buf, gopacket.SerializeOptions{FixLengths: true, ComputeChecksums: true}, ls...); err != nil {
		t.Fatal(err)
	}
	return append([]byte(nil), buf.Bytes()...)
}

// TestZZHuntPcapOverIPLinkTypes: packets of two PCAP-over-IP endpoints with
// different link types (an Ethernet interface and a raw-IP / tun interface) that
// sit in the same batch must each be written to exactly one capture file.
func TestZZHuntPcapOverIPLinkTypes(t *testing.T) {
	dir := t.TempDir()
	base := time.Date(2024, 1, 1, 12, 0, 0, 0, time.UTC)
	type sent struct {
		lt      layers.LinkType
		payload string
	}
	batch := []pcapOverIPPacket(nil)
	want := map[string]int{}
	// endpoint E (ethernet) and endpoint R (raw ip) deliver alternately: E R E R E R
	for i := 0; i < 6; i++ {
		lt := layers.LinkTypeEthernet
		host := byte(1)
		if i%2 == 1 {
			lt = layers.LinkTypeRaw
			host = 2
		}
		payload := fmt.Sprintf("%s-datagram-%d", lt, i)
		data := zzHuntUDP(t, lt, host, payload)
		batch = append(batch, pcapOverIPPacket{
			linkType: lt,
			data:     data,
			ci:       gopacket.CaptureInfo{Timestamp: base.Add(time.Duration(i) * time.Millisecond), CaptureLength: len(data), Length: len(data)},
		})
		want[string(data)] = 1
	}
	filenames, err := writePcaps(dir, batch)
	if err != nil {
		t.Fatalf("writePcaps: %v", err)
	}
	got := map[string]int{}
	total := 0
	for _, fn := range filenames {
		h, err := pcap.OpenOffline(filepath.Join(dir, fn))
		if err != nil {
			t.Fatalf("open %s: %v", fn, err)
		}
		n := 0
		for {
			data, _, err := h.ReadPacketData()
			if err != nil {
				break
			}
			got[string(data)]++
			n++
		}
		t.Logf("capture file %s: link type %s, %d packets", fn, h.LinkType(), n)
		total += n
		h.Close()
	}
	t.Logf("batch of %d packets was written as %d packets in %d capture files", len(batch), total, len(filenames))
	bad := false
	for _, p := range batch {
		if n := got[string(p.data)]; n != 1 {
			bad = true
			t.Errorf("VIOLATION: the %s packet of %s was written %d times (want once)", p.linkType, p.ci.Timestamp.Format("15:04:05.000"), n)
		}
	}
	if !bad && total != len(batch) {
		t.Errorf("VIOLATION: %d packets written, want %d", total, len(batch))
	}
}

// ---- end to end: two PCAP-over-IP endpoints, one manager ----

type zzHuntFeed struct {
	ln   net.Listener
	lt   layers.LinkType
	send chan pcapOverIPPacket
}

// zzHuntServe is a PCAP-over-IP endpoint: it sends a pcap file header with the
// link type and then every packet handed to it as a pcap record.
func zzHuntServe(t *testing.T, lt layers.LinkType) *zzHuntFeed {
	ln, err := net.Listen("tcp", "127.0.0.1:0")
	if err != nil {
		t.Fatal(err)
	}
	f := &zzHuntFeed{ln: ln, lt: lt, send: make(chan pcapOverIPPacket)}
	go func() {
		c, err := ln.Accept()
		if err != nil {
			return
		}
		defer c.Close()
		w := pcapgo.NewWriter(c)
		if err := w.WriteFileHeader(65535, lt); err != nil {
			return
		}
		for p := range f.send {
			if err := w.WritePacket(p.ci, p.data); err != nil {
				return
			}
		}
	}()
	return f
}

func zzHuntWaitIdle(t *testing.T, mgr *Manager, wantPcaps int) {
	t.Helper()
	deadline := time.Now().Add(90 * time.Second)
	for time.Now().Before(deadline) {
		st := mgr.Status()
		if st.ImportJobCount == 0 && st.PcapCount >= wantPcaps {
			return
		}
		time.Sleep(50 * time.Millisecond)
	}
	t.Fatalf("manager did not become idle: %+v", mgr.Status())
}

// TestZZHuntPcapOverIPTwoEndpoints: an Ethernet endpoint and a raw-IP endpoint
// deliver one UDP flow each while an import is running (so their packets share a
// batch). Every datagram must appear exactly once in its stream.
func TestZZHuntPcapOverIPTwoEndpoints(t *testing.T) {
	base := t.TempDir()
	mk := func(n string) string {
		p := filepath.Join(base, n) + "/"
		if err := os.Mkdir(p, 0755); err != nil {
			t.Fatal(err)
		}
		return p
	}
	pcapDir := mk("pcap")
	mgr, err := New(pcapDir, mk("index"), mk("snapshot"), mk("state"), mk("converter"), "")
	if err != nil {
		t.Fatal(err)
	}
	defer mgr.Close()

	// a large capture keeps the importer busy while the endpoints deliver
	t0 := time.Date(2024, 1, 1, 11, 0, 0, 0, time.UTC)
	{
		f, err := os.Create(filepath.Join(pcapDir, "big.pcap"))
		if err != nil {
			t.Fatal(err)
		}
		w := pcapgo.NewWriter(f)
		if err := w.WriteFileHeader(65535, layers.LinkTypeRaw); err != nil {
			t.Fatal(err)
		}
		for i := 0; i < 400000; i++ {
			data := zzHuntUDP(t, layers.LinkTypeRaw, byte(100+i%50), "x")
			if err := w.WritePacket(gopacket.CaptureInfo{Timestamp: t0.Add(time.Duration(i) * time.Millisecond), CaptureLength: len(data), Length: len(data)}, data); err != nil {
				t.Fatal(err)
			}
		}
		if err := f.Close(); err != nil {
			t.Fatal(err)
		}
	}
	mgr.ImportPcaps([]string{"big.pcap"})

	eth := zzHuntServe(t, layers.LinkTypeEthernet)
	raw := zzHuntServe(t, layers.LinkTypeRaw)
	defer eth.ln.Close()
	defer raw.ln.Close()
	for _, f := range []*zzHuntFeed{eth, raw} {
		if err := mgr.AddPcapOverIPEndpoint(f.ln.Addr().String()); err != nil {
			t.Fatal(err)
		}
	}
	ts := time.Date(2024, 1, 1, 12, 0, 0, 0, time.UTC)
	want := map[string][]string{} // client ip -> datagrams
	n := 0
	deliver := func(f *zzHuntFeed, host byte) {
		payload := fmt.Sprintf("[%s datagram %d]", f.lt, n)
		data := zzHuntUDP(t, f.lt, host, payload)
		f.send <- pcapOverIPPacket{f.lt, data, gopacket.CaptureInfo{Timestamp: ts.Add(time.Duration(n) * time.Second), CaptureLength: len(data), Length: len(data)}}
		ip := net.IP{10, 0, 0, host}.String()
		want[ip] = append(want[ip], payload)
		n++
		time.Sleep(40 * time.Millisecond)
	}
	deliver(eth, 1) // the first packet starts a batch of its own
	for i := 0; i < 3; i++ {
		deliver(eth, 1)
		deliver(raw, 2)
	}
	if st := mgr.Status(); st.ImportJobCount == 0 {
		t.Skipf("INCONCLUSIVE: the import of the large capture finished before the endpoints delivered: %+v", st)
	}
	close(eth.send)
	close(raw.send)
	zzHuntWaitIdle(t, mgr, 3)
	time.Sleep(300 * time.Millisecond)
	zzHuntWaitIdle(t, mgr, 3)

	v := mgr.GetView()
	defer v.Release()
	seen := map[string]int{}
	err = v.AllStreams(context.Background(), func(sc StreamContext) error {
		s := sc.Stream()
		w, ok := want[s.ClientHostIP()]
		if !ok {
			return nil
		}
		seen[s.ClientHostIP()]++
		data, err := sc.Data("")
		if err != nil {
			return err
		}
		got := []string{}
		for _, d := range data {
			got = append(got, string(d.Content))
		}
		t.Logf("stream %d %s:%d -> %s:%d\n   sent by the endpoint: %q\n   indexed:              %q", s.ID(), s.ClientHostIP(), s.ClientPort, s.ServerHostIP(), s.ServerPort, w, got)
		if strings.Join(got, "") != strings.Join(w, "") {
			t.Errorf("VIOLATION: stream %d (%s): indexed payload differs from what the endpoint delivered", s.ID(), s.ClientHostIP())
		}
		return nil
	})
	if err != nil {
		t.Fatal(err)
	}
	for ip := range want {
		if seen[ip] != 1 {
			t.Errorf("VIOLATION: flow of %s is visible as %d streams, want 1", ip, seen[ip])
		}
	}
}
