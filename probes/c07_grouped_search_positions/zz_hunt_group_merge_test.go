package index

import (
	"context"
	"fmt"
	"testing"
	"time"

	"github.com/spq/pkappa2/internal/query"
)

// C07: replacing index files by their merge must not change the result of a search.
//
// Two index files, as two imports leave them behind: the older one holds two
// streams, the newer one a new stream and a stream that started earlier than
// the ones of the first file (e.g. a long-lived connection that was continued
// by the second capture). A grouped search with the default order and a limit
// (the web UI always sends one) returns another stream for the group
// "sport 443" before the merge than after it.
func TestHuntGroupedSearchChangesWithMerge(t *testing.T) {
	dir := t.TempDir()
	older := map[uint64]streamInfo{
		0: makeStream("10.0.0.1:1000", "10.0.0.9:22", t1.Add(7*time.Hour), []string{"a"}),
		1: makeStream("10.0.0.1:1001", "10.0.0.9:443", t1.Add(6*time.Hour), []string{"b"}),
	}
	newer := map[uint64]streamInfo{
		2: makeStream("10.0.0.1:1002", "10.0.0.9:80", t1.Add(10*time.Hour), []string{"c"}),
		3: makeStream("10.0.0.1:1003", "10.0.0.9:443", t1.Add(5*time.Hour), []string{"d"}),
	}
	idxOlder, err := makeIndex(dir, older, nil)
	if err != nil {
		t.Fatal(err)
	}
	idxNewer, err := makeIndex(dir, newer, nil)
	if err != nil {
		t.Fatal(err)
	}
	search := func(indexes []*Reader, qs string) []uint64 {
		q, err := query.Parse(qs)
		if err != nil {
			t.Fatalf("Parse(%q): %v", qs, err)
		}
		limit := uint(100) // default page size of the web UI
		if q.Limit != nil {
			limit = *q.Limit
		}
		res, _, _, err := SearchStreams(context.Background(), indexes, nil, q.ReferenceTime, q.Conditions, q.Grouping, q.Sorting, limit, 0, nil, nil, false)
		if err != nil {
			t.Fatalf("SearchStreams(%q): %v", qs, err)
		}
		ids := []uint64{}
		for _, s := range res {
			ids = append(ids, s.ID())
		}
		return ids
	}
	stack := []*Reader{idxOlder, idxNewer}
	const qs = `protocol:tcp group:"@sport@"`
	// sanity: ungrouped, both stacks agree; newest first: 2 (10h), 0 (7h), 1 (6h), 3 (5h)
	plainBefore := search(stack, `protocol:tcp`)
	groupedBefore := search(stack, qs)

	merged, err := Merge(dir, stack)
	if err != nil {
		t.Fatalf("Merge: %v", err)
	}
	plainAfter := search(merged, `protocol:tcp`)
	groupedAfter := search(merged, qs)
	for _, r := range merged {
		r.Close()
	}
	t.Logf("ungrouped before merge %v, after merge %v", plainBefore, plainAfter)
	t.Logf("grouped   before merge %v, after merge %v", groupedBefore, groupedAfter)
	if fmt.Sprint(plainBefore) != fmt.Sprint(plainAfter) {
		t.Errorf("ungrouped search changed with the merge: %v -> %v", plainBefore, plainAfter)
	}
	// one stream per server port, the newest of each group: 2 (port 80), 0 (port 22), 1 (port 443)
	want := []uint64{2, 0, 1}
	if fmt.Sprint(groupedBefore) != fmt.Sprint(groupedAfter) {
		t.Errorf("search %q changed with the merge: before %v, after %v (expected %v both times)", qs, groupedBefore, groupedAfter, want)
	}
}
