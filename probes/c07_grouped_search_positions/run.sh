#!/bin/sh
# usage: demo.sh <project root>; exits non-zero iff the violation shows
ROOT="$1"
HERE="$(cd "$(dirname "$0")" && pwd)"
export GOFLAGS=-mod=mod GOPROXY=off
unset GOWORK
cp "$HERE/zz_hunt_group_merge_test.go" "$ROOT/internal/index/zz_hunt_group_merge_test.go" || exit 0
cd "$ROOT" || exit 0
go test ./internal/index -run 'TestHuntGroupedSearchChangesWithMerge$' -count=1 -v
rc=$?
rm -f "$ROOT/internal/index/zz_hunt_group_merge_test.go"
exit $rc
