package manager

// Probe for a defect reported by a round-7 agent (C06): copy into internal/index/manager of a scratch worktree and run
//   go test -count=1 -vet=off -run TestProbeMarkClearsPending ./internal/index/manager/
// The mark-add/-del path of UpdateTag raises the changed streams in the tag's Uncertain mask only to push them to the
// tags that reference it, and then clears the WHOLE mask. Streams that were pending for another reason — an import added
// them while no tagging job could run — are declared decided without having been evaluated: mark/m = id:1: never gets
// stream 2.

import (
	"slices"
	"testing"
	"time"
)

func TestProbeMarkClearsPending(t *testing.T) {
	dirs := makeTempdirs(t)
	mgr := makeManager(t, dirs)
	defer mgr.Close()
	importOne := func(i int) {
		pcaps, err := writePcaps(mgr.PcapDir, []pcapOverIPPacket{makeUDPPacket("9.0.0.1:1", "2.3.4.5:9001", t1.Add(time.Duration(i)*time.Hour), "x")})
		if err != nil {
			t.Fatalf("writePcaps: %v", err)
		}
		events, eventCloser := mgr.Listen()
		mgr.ImportPcaps(pcaps)
		waitForEvent(t, events, eventCloser, "pcapProcessed")
	}
	settle := func() {
		deadline := time.Now().Add(10 * time.Second)
		for {
			busy := mgr.Status().TaggingJobRunning
			for _, ti := range mgr.ListTags() {
				if ti.UncertainCount != 0 {
					busy = true
				}
			}
			if !busy {
				return
			}
			if time.Now().After(deadline) {
				t.Fatalf("tagging did not settle")
			}
			time.Sleep(20 * time.Millisecond)
		}
	}
	importOne(0)
	importOne(1)
	if err := mgr.AddTag("mark/m", "red", "id:1:"); err != nil {
		t.Fatalf("AddTag: %v", err)
	}
	settle()
	// no tagging job can start for a while (as if one for another tag were running)
	hold := make(chan struct{})
	mgr.jobs <- func() { mgr.taggingJobRunning = true; close(hold) }
	<-hold
	importOne(2) // stream 2 is pending for mark/m now
	if err := mgr.UpdateTag("mark/m", UpdateTagOperationMarkAddStream([]uint64{0})); err != nil {
		t.Fatalf("mark add: %v", err)
	}
	done := make(chan struct{})
	mgr.jobs <- func() { mgr.taggingJobRunning = false; mgr.startTaggingJobIfNeeded(); close(done) }
	<-done
	settle()
	matches := []uint{}
	got := make(chan struct{})
	mgr.jobs <- func() {
		tg := mgr.tags["mark/m"]
		for i := uint(0); tg.Matches.Next(&i); i++ {
			matches = append(matches, i)
		}
		close(got)
	}
	<-got
	def := ""
	for _, ti := range mgr.ListTags() {
		if ti.Name == "mark/m" {
			def = ti.Definition
		}
	}
	if !slices.Equal(matches, []uint{0, 1, 2}) {
		t.Fatalf("mark/m = %q is decided with matches %v, its definition selects [0 1 2]", def, matches)
	}
}
