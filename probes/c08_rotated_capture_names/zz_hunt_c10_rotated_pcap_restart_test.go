package manager

import (
	"context"
	"fmt"
	"os"
	"path/filepath"
	"testing"
	"time"
)

// tcpdump -w dump.pcap -C 100 names its files dump.pcap, dump.pcap1, dump.pcap2, ...
// The watch directory picks all of them up (extension starts with ".pcap"), they are
// imported and reported processed. After a restart the service only remembers the
// captures whose name ends in ".pcap" or ".pcapng".
func zzHuntDropIntoWatchDir(t *testing.T, mgr *Manager, name string, packets []pcapOverIPPacket) {
	t.Helper()
	tmp := t.TempDir()
	fns, err := writePcaps(tmp, packets)
	if err != nil || len(fns) != 1 {
		t.Fatalf("writePcaps failed: %v %v", fns, err)
	}
	events, closer := mgr.Listen()
	if err := os.Rename(filepath.Join(tmp, fns[0]), filepath.Join(mgr.WatchDir, name)); err != nil {
		t.Fatalf("Rename failed: %v", err)
	}
	timeout := time.After(20 * time.Second)
	for {
		select {
		case e := <-events:
			if e.Type == "pcapProcessed" {
				go closer()
				for range events {
				}
				return
			}
		case <-timeout:
			t.Fatalf("capture %q dropped into the watch directory was not processed", name)
		}
	}
}

type zzHuntOutcome struct {
	statusAfterFirst, statusBeforeSecond Statistics
	streams                              []string
}

func zzHuntRotatedCaptures(t *testing.T, restart bool) zzHuntOutcome {
	dirs := makeTempdirs(t)
	mgr := makeManager(t, dirs)
	res := zzHuntOutcome{}
	zzHuntDropIntoWatchDir(t, mgr, "dump.pcap1", []pcapOverIPPacket{
		makeUDPPacket("1.2.3.4:1111", "4.3.2.1:53", t1.Add(0*time.Second), "one"),
		makeUDPPacket("1.2.3.4:1111", "4.3.2.1:53", t1.Add(1*time.Second), "two"),
	})
	res.statusAfterFirst = mgr.Status()
	if restart {
		mgr.Close()
		mgr = makeManager(t, dirs)
	}
	defer mgr.Close()
	res.statusBeforeSecond = mgr.Status()
	// the next file of the rotation continues the same flow two seconds later
	zzHuntDropIntoWatchDir(t, mgr, "dump.pcap2", []pcapOverIPPacket{
		makeUDPPacket("1.2.3.4:1111", "4.3.2.1:53", t1.Add(2*time.Second), "three"),
	})
	view := mgr.GetView()
	defer view.Release()
	if err := view.AllStreams(context.Background(), func(sc StreamContext) error {
		s := sc.Stream()
		data, err := s.Data()
		if err != nil {
			return err
		}
		content := ""
		for _, d := range data {
			content += string(d.Content)
		}
		res.streams = append(res.streams, fmt.Sprintf("id=%d %s:%d->%s:%d %q", s.ID(), s.ClientHostIP(), s.ClientPort, s.ServerHostIP(), s.ServerPort, content))
		return nil
	}); err != nil {
		t.Fatalf("AllStreams failed: %v", err)
	}
	return res
}

func TestZZHuntC10RotatedCaptureForgottenByRestart(t *testing.T) {
	plain := zzHuntRotatedCaptures(t, false)
	restarted := zzHuntRotatedCaptures(t, true)
	t.Logf("without restart: status %+v, streams %q", plain.statusBeforeSecond, plain.streams)
	t.Logf("with restart:    status %+v, streams %q", restarted.statusBeforeSecond, restarted.streams)

	if got, want := plain.statusAfterFirst.PcapCount, 1; got != want {
		t.Fatalf("control: PcapCount after the first capture = %d, want %d", got, want)
	}
	if len(plain.streams) != 1 {
		t.Fatalf("control: %d streams without restart, want 1: %q", len(plain.streams), plain.streams)
	}
	a, b := restarted.statusAfterFirst, restarted.statusBeforeSecond
	if a.PcapCount != b.PcapCount || a.PacketCount != b.PacketCount {
		t.Errorf("VIOLATION: restart changed the counts of processed captures: PcapCount %d -> %d, PacketCount %d -> %d", a.PcapCount, b.PcapCount, a.PacketCount, b.PacketCount)
	}
	if len(restarted.streams) != len(plain.streams) || (len(plain.streams) == 1 && restarted.streams[0] != plain.streams[0]) {
		t.Errorf("VIOLATION: the same two captures give %q when the service was restarted between them, %q otherwise", restarted.streams, plain.streams)
	}
}
