package manager

import (
	"context"
	"sync"
	"testing"
	"time"

	"github.com/spq/pkappa2/internal/query"
)

// Two API requests, each with its own view, ask for the tags of the streams they list
// (that is what every search request of the web UI does) while a tag with a host filter
// still has undecided streams. Both views got the tag's parsed conditions from the manager,
// evaluating the undecided tag cleans these conditions, and cleaning a host condition
// masks the bytes of the shared address in place.
func TestZZHuntC20TagConditionsSharedBetweenViews(t *testing.T) {
	dirs := makeTempdirs(t)
	mgr := makeManager(t, dirs)
	defer mgr.Close()
	importSomePackets(t, mgr, t1, "pcapProcessed")

	// a tagging job of some other tag is still running: tags that become
	// undecided now have to wait (only one tagging job runs at a time)
	done := make(chan struct{})
	mgr.jobs <- func() {
		mgr.taggingJobRunning = true
		close(done)
	}
	<-done
	if err := mgr.AddTag("tag/host", "red", "chost:1.2.3.4"); err != nil {
		t.Fatalf("AddTag failed: %v", err)
	}

	q, err := query.Parse("")
	if err != nil {
		t.Fatalf("Parse failed: %v", err)
	}
	for round := 0; round < 20; round++ {
		// both requests have opened their view, then they search
		opened := sync.WaitGroup{}
		opened.Add(2)
		wg := sync.WaitGroup{}
		for g := 0; g < 2; g++ {
			wg.Add(1)
			go func() {
				defer wg.Done()
				view := mgr.GetView()
				defer view.Release()
				_, err := view.ReferenceTime()
				opened.Done()
				if err != nil {
					t.Errorf("ReferenceTime failed: %v", err)
					return
				}
				opened.Wait()
				n := 0
				if _, _, _, err := view.SearchStreams(context.Background(), q, func(sc StreamContext) error {
					if ok, err := sc.HasTag("tag/host"); err != nil {
						return err
					} else if ok {
						n++
					}
					return nil
				}, PrefetchAllTags(), Limit(100, 0)); err != nil {
					t.Errorf("SearchStreams failed: %v", err)
					return
				}
				if n != 4 {
					t.Errorf("%d streams have tag/host, want 4", n)
				}
			}()
		}
		wg.Wait()
	}

	// let the held back tagging job go
	done = make(chan struct{})
	mgr.jobs <- func() {
		mgr.taggingJobRunning = false
		mgr.startTaggingJobIfNeeded()
		close(done)
	}
	<-done
	for i := 0; i < 100; i++ {
		if !mgr.Status().TaggingJobRunning {
			break
		}
		time.Sleep(10 * time.Millisecond)
	}
}
