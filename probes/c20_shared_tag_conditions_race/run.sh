#!/bin/sh
# usage: demo.sh <project root>
# exits 1 iff the race detector reports the unsynchronised access to the shared tag conditions
root=${1:?usage: demo.sh <project root>}
here=$(cd "$(dirname "$0")" && pwd)
export GOFLAGS=-mod=mod GOPROXY=off
unset GOWORK
dst="$root/internal/index/manager"
f=zz_hunt_c20_tagcond_race_test.go
cp "$here/$f" "$dst/$f" || exit 0
out=$(cd "$root" && go test -race -count=1 -run 'TestZZHuntC20TagConditionsSharedBetweenViews' ./internal/index/manager/ 2>&1)
rc=$?
rm -f "$dst/$f"
printf '%s\n' "$out" | grep -v '^20[0-9][0-9]/' | head -n 60
if printf '%s\n' "$out" | grep -q 'WARNING: DATA RACE'; then
	echo "VIOLATION: data race reported"
	exit 1
fi
if [ $rc -ne 0 ]; then
	echo "INCONCLUSIVE: go test failed for another reason (rc=$rc)" >&2
fi
exit 0
