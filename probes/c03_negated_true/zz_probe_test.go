package query

// Probe for defects D6/D7 (C03): copy into internal/query of a scratch worktree and run
//   go test -count=1 -vet=off -run TestProbeNegatedTrue ./internal/query/
// In the result of Parse a nil ConditionsSet matches nothing and {{}} matches everything.
// D6: the negation of an always-true conjunct was the empty set, which And/Parse read as "no restriction":
//     -id:: matched everything, -(id:: or sport:80) became -sport:80.
// D7: protocol:tcp,@protocol@ dropped its always-true element and meant protocol:tcp; -protocol:@protocol@ matched all.

import "testing"

func TestProbeNegatedTrue(t *testing.T) {
	all, none := "(())", "()"
	for q, want := range map[string]string{
		"id::":                    all,
		"-id::":                   none,
		"--id::":                  all,
		"-(id:: or sport:80)":     none,
		"sport:80 -id::":          none,
		"protocol:@protocol@":     all,
		"protocol:tcp,@protocol@": all,
		"-protocol:@protocol@":    none,
	} {
		p, err := Parse(q)
		if err != nil {
			t.Errorf("%q: %v", q, err)
			continue
		}
		if got := p.Conditions.String(); got != want {
			t.Errorf("%q normalises to %s, want %s", q, got, want)
		}
	}
	p, _ := Parse("sport:80 or -id::")
	q, _ := Parse("sport:80")
	if p.Conditions.String() != q.Conditions.String() {
		t.Errorf("sport:80 or -id:: normalises to %s, want %s", p.Conditions.String(), q.Conditions.String())
	}
}
