#!/bin/bash
# usage: demo.sh <project root>
# exits 1 iff the violation shows (unmarking one stream wipes the tag), 0 otherwise
ROOT="${1:?usage: demo.sh <project root>}"
HERE="$(cd "$(dirname "$0")" && pwd)"
TESTFILE=zz_hunt_markdel_pending_test.go
PKGDIR="$ROOT/internal/index/manager"
export GOFLAGS=-mod=mod GOPROXY=off
unset GOWORK
if [ ! -d "$PKGDIR" ]; then
	echo "no such package directory: $PKGDIR"
	exit 0
fi
cp "$HERE/$TESTFILE" "$PKGDIR/$TESTFILE" || exit 0
OUT="$(cd "$ROOT" && timeout 170 go test -vet=off -count=1 -run 'TestZZHuntMarkDelWhilePending$' ./internal/index/manager/ 2>&1)"
rm -f "$PKGDIR/$TESTFILE"
echo "$OUT" | tail -40
if echo "$OUT" | grep -q "VIOLATION:"; then
	exit 1
fi
exit 0
