package manager

// Unmarking one stream of a mark/generated tag while the tag is still pending after its list was replaced
// (method change_query) wipes the whole tag: the new definition is rebuilt from the matches that are known
// so far - none, the tagging job for the replaced list has not run yet - instead of from the list itself.

import (
	"context"
	"fmt"
	"io"
	"log"
	"sort"
	"testing"
	"time"

	"github.com/spq/pkappa2/internal/query"
)

func zzMarkSearch(t *testing.T, mgr *Manager, qs string) []int {
	q, err := query.Parse(qs)
	if err != nil {
		t.Fatalf("Parse(%q): %v", qs, err)
	}
	v := mgr.GetView()
	defer v.Release()
	res := []int{}
	if _, _, _, err := v.SearchStreams(context.Background(), q, func(sc StreamContext) error {
		res = append(res, int(sc.Stream().ID()))
		return nil
	}); err != nil {
		t.Fatalf("SearchStreams(%q): %v", qs, err)
	}
	sort.Ints(res)
	return res
}

func zzMarkSettle(t *testing.T, mgr *Manager) {
	for i := 0; i < 60000; i++ {
		st := mgr.Status()
		if st.ImportJobCount == 0 && !st.TaggingJobRunning && !st.ConverterJobRunning && !st.MergeJobRunning {
			ok := true
			for _, ti := range mgr.ListTags() {
				ok = ok && ti.UncertainCount == 0
			}
			if ok {
				return
			}
		}
		time.Sleep(500 * time.Microsecond)
	}
	t.Fatalf("manager does not settle")
}

func TestZZHuntMarkDelWhilePending(t *testing.T) {
	log.SetOutput(io.Discard)
	dirs := makeTempdirs(t)
	mgr := makeManager(t, dirs)
	defer mgr.Close()

	// some traffic and the usual set of service tags
	port := 1
	importStreams := func(n int) {
		pkts := []pcapOverIPPacket{}
		for i := 0; i < n; i++ {
			pkts = append(pkts, makeUDPPacket(fmt.Sprintf("1.2.3.4:%d", port), fmt.Sprintf("4.3.2.1:%d", 4000+port%20), t1.Add(time.Millisecond*time.Duration(port)), "hello"))
			port++
		}
		pcaps, err := writePcaps(mgr.PcapDir, pkts)
		if err != nil {
			t.Fatalf("writePcaps: %v", err)
		}
		mgr.ImportPcaps(pcaps)
		for mgr.Status().ImportJobCount != 0 {
			time.Sleep(200 * time.Microsecond)
		}
	}
	importStreams(300)
	for i := 0; i < 20; i++ {
		if err := mgr.AddTag(fmt.Sprintf("service/s%d", i), "blue", fmt.Sprintf("sport:%d", 4000+i)); err != nil {
			t.Fatalf("AddTag: %v", err)
		}
	}
	if err := mgr.AddTag("generated/flagout", "red", "id:7"); err != nil {
		t.Fatalf("AddTag: %v", err)
	}
	zzMarkSettle(t, mgr)

	wiped := 0
	const rounds = 10
	for i := 0; i < rounds; i++ {
		// new traffic arrives all the time, the tags are busy with it
		importStreams(5)
		// a script replaces the list of the generated tag ...
		if err := mgr.UpdateTag("generated/flagout", UpdateTagOperationUpdateQuery("id:10,11,12,13")); err != nil {
			t.Fatalf("change_query: %v", err)
		}
		// ... and a user unmarks one of the streams
		if err := mgr.UpdateTag("generated/flagout", UpdateTagOperationMarkDelStream([]uint64{11})); err != nil {
			t.Fatalf("mark_del: %v", err)
		}
		zzMarkSettle(t, mgr)
		got := zzMarkSearch(t, mgr, "generated:flagout")
		count := uint(0)
		for _, ti := range mgr.ListTags() {
			if ti.Name == "generated/flagout" {
				count = ti.MatchingCount
			}
		}
		if want := []int{10, 12, 13}; fmt.Sprint(got) != fmt.Sprint(want) {
			wiped++
			t.Logf("round %d: after change_query id:10,11,12,13 and mark_del 11: search generated:flagout = %v (MatchingCount %d), want %v", i, got, count, want)
		}
	}
	if wiped != 0 {
		t.Errorf("VIOLATION: in %d of %d rounds the unmarking of one stream removed all streams from the tag", wiped, rounds)
	}
}
