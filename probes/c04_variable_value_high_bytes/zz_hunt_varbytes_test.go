package index

// Demonstration: the value of a variable is put into the expression of a payload filter
// with binaryregexp.QuoteMeta, which leaves bytes >= 0x80 alone; the parser then reads
// the expression as UTF-8. A value with such bytes either makes the whole search fail
// ("invalid UTF-8") or is searched for as different bytes (C3 A9 becomes the single byte E9).

import (
	"context"
	"slices"
	"testing"
	"time"

	"github.com/spq/pkappa2/internal/query"
)

func TestZZHuntVarBytes(t *testing.T) {
	for _, tc := range []struct {
		name    string
		streams []streamInfo
		q       string
		want    []uint64
	}{
		{
			// control: the same history with an ASCII value
			"sub query variable, ASCII value (control)", []streamInfo{
				makeStream("192.168.0.100:123", "192.168.0.1:80", t1.Add(time.Hour*1), []string{"token=ee;"}),
				makeStream("192.168.0.100:123", "192.168.0.1:80", t1.Add(time.Hour*2), []string{"leak ee end"}),
				makeStream("192.168.0.100:123", "192.168.0.1:80", t1.Add(time.Hour*3), []string{"leak \xe9\xe9 end"}),
			}, "@sub:id:0 @sub:cdata:\"token=(?P<var>[^;]+);\" cdata:@sub:var@ id:1,2", []uint64{1},
		},
		{
			// the token is the UTF-8 text "éé" (c3 a9 c3 a9); stream 1 contains it, stream 2 contains the two bytes e9 e9
			"sub query variable, UTF-8 text value", []streamInfo{
				makeStream("192.168.0.100:123", "192.168.0.1:80", t1.Add(time.Hour*1), []string{"token=\xc3\xa9\xc3\xa9;"}),
				makeStream("192.168.0.100:123", "192.168.0.1:80", t1.Add(time.Hour*2), []string{"leak \xc3\xa9\xc3\xa9 end"}),
				makeStream("192.168.0.100:123", "192.168.0.1:80", t1.Add(time.Hour*3), []string{"leak \xe9\xe9 end"}),
			}, "@sub:id:0 @sub:cdata:\"token=(?P<var>[^;]+);\" cdata:@sub:var@ id:1,2", []uint64{1},
		},
		{
			"sub query variable, binary value", []streamInfo{
				makeStream("192.168.0.100:123", "192.168.0.1:80", t1.Add(time.Hour*1), []string{"token=\xff\xfe\x01;"}),
				makeStream("192.168.0.100:123", "192.168.0.1:80", t1.Add(time.Hour*2), []string{"leak \xff\xfe\x01 end"}),
				makeStream("192.168.0.100:123", "192.168.0.1:80", t1.Add(time.Hour*3), []string{"leak nothing end"}),
			}, "@sub:id:0 @sub:cdata:\"token=(?P<var>[^;]+);\" cdata:@sub:var@ id:1,2", []uint64{1},
		},
		{
			// one stream with a binary token makes the search fail for all streams
			"variable of the same stream, binary value in one stream", []streamInfo{
				makeStream("192.168.0.100:123", "192.168.0.1:80", t1.Add(time.Hour*1), []string{"token=\xff\xfe\x01;", "echo \xff\xfe\x01"}),
				makeStream("192.168.0.100:123", "192.168.0.1:80", t1.Add(time.Hour*2), []string{"token=abc;", "echo abc"}),
				makeStream("192.168.0.100:123", "192.168.0.1:80", t1.Add(time.Hour*3), []string{"token=abc;", "echo xyz"}),
			}, "cdata:\"token=(?P<var>[^;]+);\" then sdata:\"echo @var@\"", []uint64{0, 1},
		},
	} {
		converters := map[string]ConverterAccess{}
		sm := map[uint64]streamInfo{}
		for i, s := range tc.streams {
			sm[uint64(i)] = s
		}
		r, err := makeIndex(t.TempDir(), sm, &converters)
		if err != nil {
			t.Fatal(err)
		}
		q, err := query.Parse(tc.q)
		if err != nil {
			t.Fatal(err)
		}
		results, _, _, err := SearchStreams(context.Background(), []*Reader{r}, nil, q.ReferenceTime, q.Conditions, q.Grouping, q.Sorting, 100, 0, nil, converters, false)
		ids := []uint64{}
		for _, s := range results {
			ids = append(ids, s.StreamID)
		}
		slices.Sort(ids)
		if err != nil || !slices.Equal(ids, tc.want) {
			t.Errorf("VIOLATION: %s: query %s: streams %v, error %v; a plain scan for the value finds %v", tc.name, tc.q, ids, err, tc.want)
		} else {
			t.Logf("ok: %s: streams %v", tc.name, ids)
		}
		r.Close()
	}
}
