package manager

// Probe for defect D16 (C10): copy into internal/index/manager of a scratch worktree and run
//   go test -count=1 -vet=off -run TestProbeViewOnEmptyManager ./internal/index/manager/
// View.fetch took "no index files yet" for "not fetched yet": a view that was first used while the manager had no
// index files fetched again on every later use, so its answers changed when captures were imported during its lifetime.

import (
	"context"
	"testing"
)

func TestProbeViewOnEmptyManager(t *testing.T) {
	dirs := makeTempdirs(t)
	mgr := makeManager(t, dirs)
	defer mgr.Close()
	v := mgr.GetView()
	defer v.Release()
	count := func() int {
		n := 0
		if err := v.AllStreams(context.Background(), func(StreamContext) error { n++; return nil }); err != nil {
			t.Fatal(err)
		}
		return n
	}
	if n := count(); n != 0 {
		t.Fatalf("setup: %d streams on an empty manager", n)
	}
	importSomePackets(t, mgr, t1, "pcapProcessed")
	if n := count(); n != 0 {
		t.Errorf("the view was used before the import, but now shows %d streams: it is not a stable snapshot", n)
	}
}
