package index

import (
	"context"
	"slices"
	"testing"
	"time"

	"github.com/spq/pkappa2/internal/query"
)

// A query "A or B" in which both alternatives use the sub query @a with a capture of their own returns a stream
// that neither A nor B returns: the value that @a captured for B's variable is searched for by A's data filter.
func TestZZHuntVariableLeaksBetweenAlternatives(t *testing.T) {
	conv := map[string]ConverterAccess{}
	r, err := makeIndex(t.TempDir(), map[uint64]streamInfo{
		// the service answers a login with a session key (client data "A1", server data "B2")
		0: makeStream("10.0.0.1:1000", "10.0.0.2:80", t1.Add(1*time.Hour), []string{"A1", "B2"}),
		// a later stream that sends B2 as client data
		1: makeStream("10.0.0.3:1000", "10.0.0.2:80", t1.Add(2*time.Hour), []string{"B2", "zz"}),
		// a later stream that sends A1 as client data
		2: makeStream("10.0.0.3:1000", "10.0.0.2:80", t1.Add(3*time.Hour), []string{"A1", "zz"}),
	}, &conv)
	if err != nil {
		t.Fatal(err)
	}
	defer r.Close()
	search := func(qs string) []uint64 {
		q, err := query.Parse(qs)
		if err != nil {
			t.Fatalf("parse %q: %v", qs, err)
		}
		res, _, _, err := SearchStreams(context.Background(), []*Reader{r}, nil, q.ReferenceTime, q.Conditions, nil, []query.Sorting{{Key: query.SortingKeyID, Dir: query.SortingDirAscending}}, 0, 0, nil, conv, false)
		if err != nil {
			t.Fatalf("search %q: %v", qs, err)
		}
		ids := []uint64{}
		for _, s := range res {
			ids = append(ids, s.StreamID)
		}
		return ids
	}
	// A: streams whose client data contains what stream 0 sent as client data
	a := `@a:id:0 @a:cdata.none:"(?P<x>A[0-9])" cdata.none:"@a:x@"`
	// B: streams to port 9999 (there are none) whose client data contains what stream 0 got as server data
	b := `@a:id:0 @a:sdata.none:"(?P<y>B[0-9])" cdata.none:"@a:y@" sport:9999`
	gotA, gotB := search(a), search(b)
	gotAorB := search("(" + a + ") or (" + b + ")")
	t.Logf("A        = %s -> %v", a, gotA)
	t.Logf("B        = %s -> %v", b, gotB)
	t.Logf("(A) or (B) -> %v", gotAorB)
	want := slices.Clone(gotA)
	for _, id := range gotB {
		if !slices.Contains(want, id) {
			want = append(want, id)
		}
	}
	slices.Sort(want)
	if !slices.Equal(gotA, []uint64{0, 2}) || len(gotB) != 0 {
		t.Fatalf("unexpected results of the single alternatives: A=%v (want [0 2]) B=%v (want [])", gotA, gotB)
	}
	if !slices.Equal(gotAorB, want) {
		t.Errorf("VIOLATION: (A) or (B) returned %v, the union of A and B is %v: stream 1 has no \"A1\" in its client data and is not a stream to port 9999", gotAorB, want)
	}
}
