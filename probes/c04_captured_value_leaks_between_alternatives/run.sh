#!/bin/bash
# usage: demo.sh <project root>
# exit 1 if and only if the violation shows, 0 otherwise (also when the test could not run)
root="${1:?usage: demo.sh <project root>}"
here="$(cd "$(dirname "$0")" && pwd)"
test_file="zz_hunt_varleak_test.go"
pkg_dir="$root/internal/index"
export GOFLAGS=-mod=mod GOPROXY=off
unset GOWORK
if [ ! -d "$pkg_dir" ]; then
	echo "no such package directory: $pkg_dir"
	exit 0
fi
cp "$here/$test_file" "$pkg_dir/$test_file" || exit 0
out="$(cd "$root" && timeout 170 go test -vet=off -count=1 -run '^TestZZHuntVariableLeaksBetweenAlternatives$' -v ./internal/index/ 2>&1)"
rm -f "$pkg_dir/$test_file"
echo "$out"
if echo "$out" | grep -q "VIOLATION:"; then
	exit 1
fi
exit 0
