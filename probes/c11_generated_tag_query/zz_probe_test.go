package manager

// Probe for defect D12/D28 (C11, C12): copy into internal/index/manager of a scratch worktree and run
//   go test -count=1 -vet=off -run TestProbeGeneratedTagQuery ./internal/index/manager/
// AddTag and the state loader restrict mark/ AND generated/ tags to id filters; the query path of UpdateTag tested only
// mark/. A generated/ tag could be given `tag:a`; the next mark operation rewrote its definition to "tag:a,0", and a
// restart rejected the whole state file (all tags gone).

import "testing"

func TestProbeGeneratedTagQuery(t *testing.T) {
	dirs := makeTempdirs(t)
	mgr := makeManager(t, dirs)
	importSomePackets(t, mgr, t1, "pcapProcessed")
	if err := mgr.AddTag("tag/a", "red", "id:0"); err != nil {
		t.Fatal(err)
	}
	if err := mgr.AddTag("generated/g", "red", "id:1"); err != nil {
		t.Fatal(err)
	}
	if err := mgr.AddTag("generated/h", "red", "tag:a"); err == nil {
		t.Fatalf("setup: AddTag accepts a non-id query for a generated/ tag")
	}
	err := mgr.UpdateTag("generated/g", UpdateTagOperationUpdateQuery("tag:a"))
	if err == nil {
		t.Errorf("UpdateTag accepted the query tag:a for a generated/ tag although AddTag refuses it")
		_ = mgr.UpdateTag("generated/g", UpdateTagOperationMarkAddStream([]uint64{0}))
	}
	mgr.Close()
	mgr2 := makeManager(t, dirs)
	defer mgr2.Close()
	if got := len(mgr2.ListTags()); got != 2 {
		t.Errorf("after a restart %d of 2 tags are left", got)
	}
}
