package manager

// Probe for a defect found by a round-9 hunt agent (C06): copy into internal/index/manager of a scratch worktree and run
//   go test -count=1 -vet=off -run TestHuntOnDemandConversionLeavesDataTagStale ./internal/index/manager/
// Converting a stream on demand through a view stored the output without re-opening the tags that search converter
// output: tag/d = data:StreamID stayed decided with no matches while the search data:StreamID found the stream.
