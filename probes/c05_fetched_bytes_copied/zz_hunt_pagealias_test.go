package builder

// The payload of a TCP stream that was delivered from the reassembly buffer (data behind a hole in the capture,
// pushed out after the 5 minute timeout) is stored as a slice into a recycled buffer page. The next out-of-order
// segment of ANY connection handled by the same assembler overwrites it: the index file then shows the bytes of
// another connection as payload of this stream.

import (
	"bytes"
	"net"
	"os"
	"path/filepath"
	"testing"
	"time"

	"github.com/gopacket/gopacket"
	"github.com/gopacket/gopacket/layers"
	"github.com/gopacket/gopacket/pcapgo"
)

type zzHuntPkt struct {
	ts   time.Time
	data []byte
}

func zzHuntTCP(t *testing.T, src, dst net.IP, sport, dport uint16, seq, ack uint32, syn, ackf bool, payload string) []byte {
	ip := &layers.IPv4{Version: 4, TTL: 64, Protocol: layers.IPProtocolTCP, SrcIP: src, DstIP: dst}
	tcp := &layers.TCP{SrcPort: layers.TCPPort(sport), DstPort: layers.TCPPort(dport), Seq: seq, Ack: ack, SYN: syn, ACK: ackf, PSH: payload != "", Window: 65535}
	if err := tcp.SetNetworkLayerForChecksum(ip); err != nil {
		t.Fatal(err)
	}
	buf := gopacket.NewSerializeBuffer()
	if err := gopacket.SerializeLayers(buf, gopacket.SerializeOptions{ComputeChecksums: true, FixLengths: true}, ip, tcp, gopacket.Payload(payload)); err != nil {
		t.Fatal(err)
	}
	return append([]byte(nil), buf.Bytes()...)
}

func TestZZHuntPageAlias(t *testing.T) {
	base := t.TempDir()
	pcapDir, indexDir, snapDir := filepath.Join(base, "pcap"), filepath.Join(base, "index"), filepath.Join(base, "snap")
	for _, d := range []string{pcapDir, indexDir, snapDir} {
		if err := os.Mkdir(d, 0755); err != nil {
			t.Fatal(err)
		}
	}
	server := net.IP{10, 1, 0, 1}
	clientA, clientB := net.IP{10, 0, 0, 1}, net.IP{10, 0, 0, 2}
	// both connections are handled by the same one of the 256 assemblers (the port bits fold to the same value)
	portA, portB := uint16(40000), uint16(40000^0x0101)
	secretA := "user=alice&password=correct-horse-battery-staple"
	otherB := "GET /index.html HTTP/1.1 -- sent by connection B -- padding padding"[:len(secretA)]
	ts := t1
	pkts := []zzHuntPkt{}
	add := func(d time.Duration, data []byte) {
		ts = ts.Add(d)
		pkts = append(pkts, zzHuntPkt{ts, data})
	}
	// connection A: handshake, the first data segment (100 bytes) is missing in the capture, the second one is there
	add(0, zzHuntTCP(t, clientA, server, portA, 80, 1000, 0, true, false, ""))
	add(time.Millisecond, zzHuntTCP(t, server, clientA, 80, portA, 5000, 1001, true, true, ""))
	add(time.Millisecond, zzHuntTCP(t, clientA, server, portA, 80, 1001, 5001, false, true, ""))
	add(time.Second, zzHuntTCP(t, clientA, server, portA, 80, 1001+100, 5001, false, true, secretA))
	// six minutes later connection B: handshake and a segment behind a hole as well
	add(6*time.Minute, zzHuntTCP(t, clientB, server, portB, 80, 7000, 0, true, false, ""))
	add(time.Millisecond, zzHuntTCP(t, server, clientB, 80, portB, 9000, 7001, true, true, ""))
	add(time.Millisecond, zzHuntTCP(t, clientB, server, portB, 80, 7001, 9001, false, true, ""))
	add(time.Second, zzHuntTCP(t, clientB, server, portB, 80, 7001+100, 9001, false, true, otherB))

	f, err := os.Create(filepath.Join(pcapDir, "a.pcap"))
	if err != nil {
		t.Fatal(err)
	}
	w, err := pcapgo.NewNgWriter(f, layers.LinkTypeIPv4)
	if err != nil {
		t.Fatal(err)
	}
	for _, p := range pkts {
		if err := w.WritePacket(gopacket.CaptureInfo{Timestamp: p.ts, CaptureLength: len(p.data), Length: len(p.data)}, p.data); err != nil {
			t.Fatal(err)
		}
	}
	if err := w.Flush(); err != nil {
		t.Fatal(err)
	}
	f.Close()

	b, err := New(pcapDir, indexDir, snapDir, nil)
	if err != nil {
		t.Fatal(err)
	}
	_, _, indexes, _, _, _, err := b.FromPcap(pcapDir, []string{"a.pcap"}, nil)
	if err != nil {
		t.Fatal(err)
	}
	if len(indexes) != 1 {
		t.Fatalf("%d index files", len(indexes))
	}
	s, err := indexes[0].StreamByID(0)
	if err != nil || s == nil {
		t.Fatalf("stream 0: %v", err)
	}
	t.Logf("stream 0: %s:%d -> %s:%d, %d client bytes", s.ClientHostIP(), s.ClientPort, s.ServerHostIP(), s.ServerPort, s.ClientBytes)
	if s.ClientHostIP() != clientA.String() || s.ClientPort != portA {
		t.Fatalf("stream 0 is not connection A")
	}
	data, err := s.Data()
	if err != nil {
		t.Fatal(err)
	}
	got := []byte{}
	for _, d := range data {
		if d.Direction == 0 {
			got = append(got, d.Content...)
		}
	}
	t.Logf("client payload of connection A in the capture: %q", secretA)
	t.Logf("client payload of connection A in the index:   %q", got)
	if len(got) == 0 {
		t.Skip("the buffered data of connection A was not delivered, the demonstration does not apply")
	}
	if !bytes.Equal(got, []byte(secretA)) {
		t.Errorf("VIOLATION: stream %d (connection A, %s:%d) is stored with payload that connection A never sent; it is the payload of connection B (%s:%d)", s.ID(), clientA, portA, clientB, portB)
	}
}
