#!/bin/bash
# usage: demo.sh <project root>
# exit 1 iff the violation shows (the index stores another connection's bytes as payload of a stream), 0 otherwise
root="${1:?usage: demo.sh <project root>}"
here="$(cd "$(dirname "$0")" && pwd)"
export GOFLAGS=-mod=mod GOPROXY=off
unset GOWORK
pkg="$root/internal/index/builder"
tf="$pkg/zz_hunt_pagealias_test.go"
if [ ! -d "$pkg" ]; then echo "no $pkg"; exit 0; fi
cp "$here/zz_hunt_pagealias_test.go" "$tf" || exit 0
out="$(cd "$root" && timeout 170 go test -vet=off -count=1 -run '^TestZZHuntPageAlias$' -v ./internal/index/builder/ 2>&1)"
rm -f "$tf"
echo "$out" | grep -v '^20[0-9][0-9]/' | grep -E 'VIOLATION|payload|stream 0|^(---|ok|FAIL|PASS)|panic|cannot|error' | head -40
if echo "$out" | grep -q 'VIOLATION:'; then
	exit 1
fi
exit 0
