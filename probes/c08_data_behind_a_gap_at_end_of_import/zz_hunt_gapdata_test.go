package manager

// C10: a TCP stream whose capture misses one segment keeps the stale, truncated version for ever.
//
// The data behind the missing segment waits in the reassembler until the 5 minute inactivity
// flush. An import that comes later replays the old packets, the flush then delivers the data,
// but the stream has no packet of the new capture and is not written again. The view shows the
// stream without the data; the same captures imported in one batch show it.

import (
	"context"
	"fmt"
	"net"
	"os"
	"path"
	"testing"
	"time"

	"github.com/gopacket/gopacket"
	"github.com/gopacket/gopacket/layers"
	"github.com/gopacket/gopacket/pcapgo"
	"github.com/spq/pkappa2/internal/query"
)

type zzGapPkt struct {
	ts   time.Time
	data []byte
}

func zzGapTCP(src, dst net.IP, sport, dport uint16, seq, ack uint32, syn, ackf, fin bool, payload string) []byte {
	ip := layers.IPv4{Version: 4, TTL: 64, SrcIP: src, DstIP: dst, Protocol: layers.IPProtocolTCP}
	tcp := layers.TCP{SrcPort: layers.TCPPort(sport), DstPort: layers.TCPPort(dport), Seq: seq, Ack: ack, SYN: syn, ACK: ackf, FIN: fin, Window: 65535}
	_ = tcp.SetNetworkLayerForChecksum(&ip)
	buf := gopacket.NewSerializeBuffer()
	if err := gopacket.SerializeLayers(buf, gopacket.SerializeOptions{ComputeChecksums: true, FixLengths: true}, &ip, &tcp, gopacket.Payload([]byte(payload))); err != nil {
		panic(err)
	}
	return append([]byte(nil), buf.Bytes()...)
}

// a complete connection, the segments listed in lost are not captured
func zzGapConn(start time.Time, client, server net.IP, cport, sport uint16, c2s []string, lost map[int]bool) []zzGapPkt {
	ts := start
	next := func() time.Time { ts = ts.Add(20 * time.Millisecond); return ts }
	cseq, sseq := uint32(1000), uint32(5000)
	pkts := []zzGapPkt{
		{next(), zzGapTCP(client, server, cport, sport, cseq, 0, true, false, false, "")},
		{next(), zzGapTCP(server, client, sport, cport, sseq, cseq+1, true, true, false, "")},
		{next(), zzGapTCP(client, server, cport, sport, cseq+1, sseq+1, false, true, false, "")},
	}
	cseq++
	sseq++
	for i, d := range c2s {
		p := zzGapPkt{next(), zzGapTCP(client, server, cport, sport, cseq, sseq, false, true, false, d)}
		cseq += uint32(len(d))
		ack := zzGapPkt{next(), zzGapTCP(server, client, sport, cport, sseq, cseq, false, true, false, "")}
		if lost[i] {
			continue
		}
		pkts = append(pkts, p, ack)
	}
	pkts = append(pkts,
		zzGapPkt{next(), zzGapTCP(client, server, cport, sport, cseq, sseq, false, true, true, "")},
		zzGapPkt{next(), zzGapTCP(server, client, sport, cport, sseq, cseq+1, false, true, true, "")},
		zzGapPkt{next(), zzGapTCP(client, server, cport, sport, cseq+1, sseq+1, false, true, false, "")},
	)
	return pkts
}

func zzGapWritePcap(t *testing.T, fn string, pkts []zzGapPkt) {
	f, err := os.Create(fn)
	if err != nil {
		t.Fatal(err)
	}
	w := pcapgo.NewWriter(f)
	if err := w.WriteFileHeader(65535, layers.LinkTypeIPv4); err != nil {
		t.Fatal(err)
	}
	for _, p := range pkts {
		if err := w.WritePacket(gopacket.CaptureInfo{Timestamp: p.ts, CaptureLength: len(p.data), Length: len(p.data)}, p.data); err != nil {
			t.Fatal(err)
		}
	}
	if err := f.Close(); err != nil {
		t.Fatal(err)
	}
}

func zzGapManager(t *testing.T) (*Manager, string) {
	base := t.TempDir()
	ds := map[string]string{}
	for _, n := range []string{"pcap", "index", "snapshot", "state", "converter"} {
		ds[n] = path.Join(base, n) + "/"
		if err := os.Mkdir(ds[n], 0755); err != nil {
			t.Fatal(err)
		}
	}
	mgr, err := New(ds["pcap"], ds["index"], ds["snapshot"], ds["state"], ds["converter"], "")
	if err != nil {
		t.Fatal(err)
	}
	return mgr, ds["pcap"]
}

func zzGapIdle(t *testing.T, mgr *Manager) {
	for deadline := time.Now().Add(60 * time.Second); ; time.Sleep(5 * time.Millisecond) {
		s := mgr.Status()
		if s.ImportJobCount == 0 && !s.MergeJobRunning && !s.TaggingJobRunning && !s.ConverterJobRunning {
			time.Sleep(20 * time.Millisecond)
			s = mgr.Status()
			if s.ImportJobCount == 0 && !s.MergeJobRunning && !s.TaggingJobRunning && !s.ConverterJobRunning {
				return
			}
		}
		if time.Now().After(deadline) {
			t.Fatalf("manager does not become idle: %+v", s)
		}
	}
}

// the client data of the stream from client port 40000, as a fresh view shows it, and the ids a data search finds
func zzGapLook(t *testing.T, mgr *Manager) (string, []uint64) {
	v := mgr.GetView()
	defer v.Release()
	c2s := "<stream not found>"
	q, err := query.Parse("cport:40000")
	if err != nil {
		t.Fatal(err)
	}
	if _, _, _, err := v.SearchStreams(context.Background(), q, func(sc StreamContext) error {
		ds, err := sc.Stream().Data()
		if err != nil {
			return err
		}
		c2s = ""
		for _, d := range ds {
			if d.Direction == 0 {
				c2s += string(d.Content)
			}
		}
		return nil
	}); err != nil {
		t.Fatal(err)
	}
	q, err = query.Parse(`cdata:"WORLD"`)
	if err != nil {
		t.Fatal(err)
	}
	ids := []uint64{}
	if _, _, _, err := v.SearchStreams(context.Background(), q, func(sc StreamContext) error {
		ids = append(ids, sc.Stream().ID())
		return nil
	}); err != nil {
		t.Fatal(err)
	}
	return c2s, ids
}

func TestZZHuntGapDataStaysLost(t *testing.T) {
	t0 := time.Date(2024, 1, 1, 12, 0, 0, 0, time.UTC)
	server := net.IPv4(10, 0, 1, 1).To4()
	// capture 1: one connection, its second data segment was not captured (packet loss of the sniffer)
	first := zzGapConn(t0, net.IPv4(10, 0, 0, 1).To4(), server, 40000, 80, []string{"HELLO-", "LOST--", "WORLD!"}, map[int]bool{1: true})
	// capture 2, ten minutes later: 300 ordinary connections of other clients
	second := []zzGapPkt(nil)
	for i := 0; i < 300; i++ {
		second = append(second, zzGapConn(t0.Add(10*time.Minute+time.Duration(i)*time.Second/10), net.IPv4(10, 0, 0, 2).To4(), server, uint16(41000+i), 80, []string{"GET /\r\n"}, nil)...)
	}

	mgr, pcapDir := zzGapManager(t)
	defer mgr.Close()
	zzGapWritePcap(t, pcapDir+"first.pcap", first)
	mgr.ImportPcaps([]string{"first.pcap"})
	zzGapIdle(t, mgr)
	afterFirst, _ := zzGapLook(t, mgr)
	zzGapWritePcap(t, pcapDir+"second.pcap", second)
	mgr.ImportPcaps([]string{"second.pcap"})
	zzGapIdle(t, mgr)
	incremental, incrementalIDs := zzGapLook(t, mgr)

	// the same two captures, processed in one import job
	ref, refPcapDir := zzGapManager(t)
	defer ref.Close()
	zzGapWritePcap(t, refPcapDir+"first.pcap", first)
	zzGapWritePcap(t, refPcapDir+"second.pcap", second)
	ref.ImportPcaps([]string{"first.pcap", "second.pcap"})
	zzGapIdle(t, ref)
	batch, batchIDs := zzGapLook(t, ref)

	fmt.Printf("ZZRESULT client data after first.pcap:                  %q\n", afterFirst)
	fmt.Printf("ZZRESULT client data after first.pcap, then second.pcap: %q  (search cdata:\"WORLD\" finds %v)\n", incremental, incrementalIDs)
	fmt.Printf("ZZRESULT client data, both captures in one import:       %q  (search cdata:\"WORLD\" finds %v)\n", batch, batchIDs)
	if incremental != batch || len(incrementalIDs) != len(batchIDs) {
		t.Fatalf("VIOLATION: all captures are processed, but the view shows the stale version %q of the stream, its newest version is %q", incremental, batch)
	}
}
