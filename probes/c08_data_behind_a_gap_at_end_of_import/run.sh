#!/bin/bash
# usage: demo.sh <project root>
# exit 1 if and only if the violation shows, 0 otherwise (also if the test could not run)
root="${1:?usage: demo.sh <project root>}"
here="$(cd "$(dirname "$0")" && pwd)"
testfile=zz_hunt_gapdata_test.go
pkgdir="$root/internal/index/manager"
if [ ! -d "$pkgdir" ]; then echo "no such package directory: $pkgdir"; exit 0; fi
export GOFLAGS=-mod=mod GOPROXY=off
unset GOWORK
cp "$here/$testfile" "$pkgdir/$testfile" || exit 0
out="$(cd "$root" && timeout 170 go test -vet=off -count=1 -run '^TestZZHuntGapDataStaysLost$' ./internal/index/manager/ 2>&1)"
rm -f "$pkgdir/$testfile"
echo "$out" | grep -E 'ZZRESULT|VIOLATION|^(ok|FAIL|---|panic)|cannot|error:' | cut -c1-600
if echo "$out" | grep -q 'VIOLATION:'; then
	exit 1
fi
exit 0
