package manager

import (
	"context"
	"slices"
	"testing"

	"github.com/spq/pkappa2/internal/query"
)

// A tag whose query matches nothing (for example an empty mark, "id:-1") has no
// conditions at all. While such a tag is still undecided for some streams (every
// import makes it undecided for the new streams until its tagging job ran),
// ConditionsSet.InlineTagFilters replaces "-mark:seen" by the certain part only:
// the negation of "no alternative" is taken to be "no alternative" again, so the
// undecided streams, which all fail the tag, are missing from the result.
func TestZZHuntNegatedEmptyTagWhileUndecided(t *testing.T) {
	dirs := makeTempdirs(t)
	mgr := makeManager(t, dirs)
	defer mgr.Close()

	if err := mgr.AddTag("mark/seen", "red", "id:-1"); err != nil {
		t.Fatalf("AddTag: %v", err)
	}
	onService := func(f func()) {
		c := make(chan struct{})
		mgr.jobs <- func() {
			f()
			close(c)
		}
		<-c
	}
	// hold tagging jobs back, as if the job of another tag were still running
	onService(func() { mgr.taggingJobRunning = true })
	defer onService(func() {
		mgr.taggingJobRunning = false
		mgr.startTaggingJobIfNeeded()
	})

	importSomePackets(t, mgr, t1, "pcapProcessed")

	for _, ti := range mgr.ListTags() {
		t.Logf("tag %s: definition %q matching %d undecided %d", ti.Name, ti.Definition, ti.MatchingCount, ti.UncertainCount)
	}

	search := func(qs string) []uint64 {
		q, err := query.Parse(qs)
		if err != nil {
			t.Fatalf("Parse(%q): %v", qs, err)
		}
		v := mgr.GetView()
		defer v.Release()
		ids := []uint64(nil)
		if _, _, _, err := v.SearchStreams(context.Background(), q, func(c StreamContext) error {
			ids = append(ids, c.Stream().ID())
			return nil
		}, Limit(100, 0)); err != nil {
			t.Fatalf("SearchStreams(%q): %v", qs, err)
		}
		slices.Sort(ids)
		return ids
	}
	all := search("")
	marked := search("mark:seen")
	unmarked := search("-mark:seen")
	t.Logf("all streams %v, mark:seen %v, -mark:seen %v", all, marked, unmarked)
	if len(all) != 4 {
		t.Fatalf("expected 4 imported streams, got %v", all)
	}
	if len(marked) != 0 {
		t.Fatalf("mark:seen = %v, want none", marked)
	}
	if !slices.Equal(unmarked, all) {
		t.Fatalf("VIOLATION: no stream carries mark/seen, but -mark:seen returns %v instead of all streams %v", unmarked, all)
	}
}
