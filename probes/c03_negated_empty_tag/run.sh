#!/bin/bash
# usage: demo.sh <project root>; exits non-zero iff the violation shows
root="$1"
export GOFLAGS=-mod=mod GOPROXY=off; unset GOWORK
here="$(cd "$(dirname "$0")" && pwd)"
dst="$root/internal/index/manager/zz_hunt_emptytag_test.go"
cp "$here/zz_hunt_emptytag_test.go" "$dst"
(cd "$root" && go test ./internal/index/manager/ -run 'TestZZHuntNegatedEmptyTagWhileUndecided' -count=1 -v)
rc=$?
rm -f "$dst"
exit $rc
