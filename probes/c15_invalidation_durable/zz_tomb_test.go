package converters

import (
	"fmt"
	"testing"
	"time"

	"github.com/spq/pkappa2/internal/index"
	"github.com/spq/pkappa2/internal/tools/bitmask"
)

func TestProbeInvalidationSurvivesReopen(t *testing.T) {
	path := fmt.Sprintf("%s/test.cache", t.TempDir())
	cf, err := NewCacheFile(path)
	if err != nil {
		t.Fatal(err)
	}
	t1 := time.Date(2025, 1, 1, 0, 0, 0, 0, time.UTC)
	mk := func(s string) []index.Data {
		return []index.Data{{Direction: index.DirectionClientToServer, Content: []byte(s), Time: t1}, {Direction: index.DirectionServerToClient, Content: []byte(s + s), Time: t1}}
	}
	for id := uint64(1); id <= 3; id++ {
		if err := cf.setData(id, t1, mk(fmt.Sprintf("v1-%d", id))); err != nil {
			t.Fatal(err)
		}
	}
	bm := bitmask.LongBitmask{}
	bm.Set(2)
	inv := cf.InvalidateChangedStreams(&bm)
	if !inv.IsSet(2) || cf.Contains(2) {
		t.Fatalf("invalidate did not work in memory")
	}
	cf.Close()
	cf, err = NewCacheFile(path)
	if err != nil {
		t.Fatal(err)
	}
	if cf.Contains(2) {
		t.Errorf("stream 2 is served from the cache again after a reopen although it was invalidated")
	}
	for _, id := range []uint64{1, 3} {
		d, _, _, err := cf.data(id, t1)
		if err != nil || len(d) != 2 || string(d[0].Content) != fmt.Sprintf("v1-%d", id) {
			t.Errorf("stream %d after reopen: %v %v", id, d, err)
		}
	}
	// new version, then reopen again: latest wins, nothing else disturbed
	if err := cf.setData(2, t1, mk("v2-2")); err != nil {
		t.Fatal(err)
	}
	cf.Close()
	cf, err = NewCacheFile(path)
	if err != nil {
		t.Fatal(err)
	}
	defer cf.Close()
	d, _, _, err := cf.data(2, t1)
	if err != nil || len(d) != 2 || string(d[0].Content) != "v2-2" {
		t.Errorf("stream 2 after re-conversion and reopen: %v %v", d, err)
	}
}
