package manager

import (
	"context"
	"fmt"
	"os"
	"path"
	"strings"
	"testing"
	"time"
)

// A converter that follows the pkappa2 converter protocol and answers with one chunk
// "CONV[<payload of all packets it was given>]". Before it answers it waits as long as the
// file <base>/gate/hold_<client port> exists, so that the test can decide when a conversion ends.
const huntGatedConverter = `#!/usr/bin/python3
import base64, json, os, sys, time
gate = os.path.join(os.path.dirname(os.path.abspath(sys.argv[0])), "..", "gate")
lines = []
while 1:
    line = sys.stdin.readline()
    if line == "":
        sys.exit(0)
    line = line.strip()
    if line != "":
        lines.append(json.loads(line))
        continue
    hold = os.path.join(gate, "hold_%d" % lines[0]["ClientPort"])
    while os.path.exists(hold):
        time.sleep(0.02)
    payload = b"".join(base64.b64decode(p["Content"]) for p in lines[1:])
    print(json.dumps({
        "Direction": "client-to-server",
        "Content": base64.b64encode(b"CONV[" + payload + b"]").decode(),
        "Time": lines[1]["Time"],
    }))
    print()
    print("{}", flush=True)
    lines = []
`

func huntWaitFor(t *testing.T, what string, cond func() bool) {
	t.Helper()
	deadline := time.Now().Add(30 * time.Second)
	for !cond() {
		if time.Now().After(deadline) {
			t.Fatalf("timeout waiting for %s", what)
		}
		time.Sleep(20 * time.Millisecond)
	}
}

func huntIdle(mgr *Manager) bool {
	for i := 0; i < 3; i++ {
		s := mgr.Status()
		if s.ImportJobCount != 0 || s.TaggingJobRunning || s.ConverterJobRunning || s.MergeJobRunning {
			return false
		}
		time.Sleep(100 * time.Millisecond)
	}
	return true
}

func huntCachedCount(mgr *Manager, name string) uint64 {
	for _, c := range mgr.ListConverters() {
		if c.Name == name {
			return c.CachedStreamCount
		}
	}
	return 0
}

// huntOutputs returns, for the stream of the given client port, the plain payload and the converter output.
func huntOutputs(t *testing.T, mgr *Manager, clientPort uint16, converter string) (plain, converted string) {
	t.Helper()
	view := mgr.GetView()
	defer view.Release()
	found := false
	if err := view.AllStreams(context.Background(), func(sc StreamContext) error {
		if sc.Stream().ClientPort != clientPort {
			return nil
		}
		found = true
		d, err := sc.Data("")
		if err != nil {
			return err
		}
		for _, c := range d {
			plain += string(c.Content)
		}
		d, err = sc.Data(converter)
		if err != nil {
			return err
		}
		for _, c := range d {
			converted += string(c.Content)
		}
		return nil
	}); err != nil {
		t.Fatalf("AllStreams failed: %v", err)
	}
	if !found {
		t.Fatalf("stream with client port %d not found", clientPort)
	}
	return plain, converted
}

func huntImport(t *testing.T, mgr *Manager, packets []pcapOverIPPacket) {
	t.Helper()
	pcaps, err := writePcaps(mgr.PcapDir, packets)
	if err != nil {
		t.Fatalf("writePcaps failed: %v", err)
	}
	events, closer := mgr.Listen()
	mgr.ImportPcaps(pcaps)
	waitForEvent(t, events, closer, "pcapProcessed")
}

// History: a converter job is running (one conversion of it takes long), an import extends stream A,
// the job converts A from the index snapshot it was started with, pkappa2 is shut down properly
// (SIGTERM -> Manager.Close) before the job has ended, and started again.
func huntRestartScenario(t *testing.T, restart bool) (plain, converted string) {
	dirs := makeTempdirs(t)
	gate := path.Join(dirs.base, "gate")
	if err := os.Mkdir(gate, 0755); err != nil {
		t.Fatal(err)
	}
	if err := os.WriteFile(path.Join(dirs.converter, "conv"), []byte(huntGatedConverter), 0775); err != nil {
		t.Fatal(err)
	}
	hold := func(port int) string { return path.Join(gate, fmt.Sprintf("hold_%d", port)) }
	for _, p := range []int{1, 2} {
		if err := os.WriteFile(hold(p), nil, 0644); err != nil {
			t.Fatal(err)
		}
	}

	mgr := makeManager(t, dirs)
	closed := false
	defer func() {
		if !closed {
			mgr.Close()
		}
	}()

	// two streams: A (client port 1) and B (client port 2)
	huntImport(t, mgr, []pcapOverIPPacket{
		makeUDPPacket("1.2.3.4:1", "4.3.2.1:4321", t1.Add(time.Second*0), "first-half"),
		makeUDPPacket("1.2.3.4:2", "4.3.2.1:4321", t1.Add(time.Second*1), "other"),
	})
	if err := mgr.AddTag("tag/all", "red", ""); err != nil {
		t.Fatalf("AddTag failed: %v", err)
	}
	huntWaitFor(t, "tag evaluation", func() bool { return huntIdle(mgr) })
	if err := mgr.UpdateTag("tag/all", UpdateTagOperationSetConverter([]string{"conv"})); err != nil {
		t.Fatalf("UpdateTag failed: %v", err)
	}
	// the converter job runs now, its conversions of A and B are held back by the converter
	huntWaitFor(t, "converter job start", func() bool { return mgr.Status().ConverterJobRunning })

	// a later capture extends stream A while the converter job is running
	huntImport(t, mgr, []pcapOverIPPacket{
		makeUDPPacket("1.2.3.4:1", "4.3.2.1:4321", t1.Add(time.Second*10), "+SECOND-HALF"),
	})
	if !mgr.Status().ConverterJobRunning {
		t.Fatalf("scenario broken: converter job ended too early")
	}

	// the conversion of A ends (it was started with the old index snapshot), B still takes a while
	if err := os.Remove(hold(1)); err != nil {
		t.Fatal(err)
	}
	huntWaitFor(t, "conversion of A", func() bool { return huntCachedCount(mgr, "conv") == 1 })
	if p, c := huntOutputs(t, mgr, 1, "conv"); true {
		// only logged: until the converter job ends the output of the old payload is shown
		t.Logf("stream A while the converter job is still running: payload %q, converter output %q", p, c)
	}

	if restart {
		if !mgr.Status().ConverterJobRunning {
			t.Fatalf("scenario broken: converter job ended too early")
		}
		// proper shutdown, as done by main() on SIGTERM / SIGINT
		mgr.Close()
		closed = true
		if err := os.Remove(hold(2)); err != nil {
			t.Fatal(err)
		}
		mgr = makeManager(t, dirs)
		defer mgr.Close()
	} else {
		if err := os.Remove(hold(2)); err != nil {
			t.Fatal(err)
		}
	}
	// let everything settle: tags evaluated, converter jobs done, both streams have output
	huntWaitFor(t, "idle", func() bool { return huntIdle(mgr) && huntCachedCount(mgr, "conv") == 2 && huntIdle(mgr) })
	return huntOutputs(t, mgr, 1, "conv")
}

func TestHuntConverterOutputStaleAfterRestartDuringConverterJob(t *testing.T) {
	plain, converted := huntRestartScenario(t, true)
	t.Logf("stream A after restart: payload %q, converter output %q", plain, converted)
	if want := "first-half+SECOND-HALF"; plain != want {
		t.Fatalf("scenario broken: payload of A is %q, want %q", plain, want)
	}
	if want := "CONV[" + plain + "]"; converted != want {
		t.Errorf("converter output of stream A is %q, want %q (the output for its current payload)", converted, want)
	}
	if !strings.Contains(converted, "SECOND-HALF") {
		t.Errorf("STALE: the converter output shown for stream A belongs to the payload A had before the last import")
	}
}

// control: the same history without the restart ends with the right output
func TestHuntControlNoRestart(t *testing.T) {
	plain, converted := huntRestartScenario(t, false)
	t.Logf("stream A without restart: payload %q, converter output %q", plain, converted)
	if want := "CONV[" + plain + "]"; converted != want || !strings.Contains(plain, "SECOND-HALF") {
		t.Errorf("control failed: converter output of stream A is %q, want %q", converted, want)
	}
}
