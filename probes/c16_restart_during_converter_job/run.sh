#!/bin/bash
# usage: demo.sh <project root>
# exits non-zero iff the violation shows (stale converter output after a restart during a converter job)
root="${1:?usage: demo.sh <project root>}"
here="$(cd "$(dirname "$0")" && pwd)"
export GOFLAGS=-mod=mod GOPROXY=off; unset GOWORK
dst="$root/internal/index/manager/zz_hunt_restart_stale_test.go"
cp "$here/zz_hunt_restart_stale_test.go" "$dst" || exit 0
out="$(cd "$root" && go test ./internal/index/manager/ -run 'TestHuntConverterOutputStaleAfterRestartDuringConverterJob$' -count=1 -v 2>&1)"
rc=$?
rm -f "$dst"
echo "$out" | grep -v 'event: ' | tail -n 40
if echo "$out" | grep -q 'STALE: the converter output shown for stream A'; then
	echo "VIOLATION: converter output of the extended stream is stale after the restart"
	exit 1
fi
if [ $rc -ne 0 ]; then
	echo "INCONCLUSIVE: go test failed for another reason (rc=$rc), see output above" >&2
fi
exit 0
