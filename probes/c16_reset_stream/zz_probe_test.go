package manager

// Probe for defect D23 (C16): copy into internal/index/manager of a scratch worktree and run
//   go test -count=1 -vet=off -run TestProbeResetStreamOutput ./internal/index/manager/
// A capture with a LATER packet of a flow is imported first and converted; then a capture with an EARLIER packet of the
// same flow arrives. The stream keeps its id, its payload changes ("reset" in FromPcap's classification). Before the
// repair only 'updated' streams were invalidated in the converter caches, so the old output stayed.

import (
	"os"
	"path"
	"strings"
	"testing"
	"time"
)

const probeC16Converter = `#!/usr/bin/python3
import base64, json, sys
while True:
    meta = sys.stdin.readline()
    if not meta:
        break
    chunks = []
    while True:
        line = sys.stdin.readline().strip()
        if line == "":
            break
        chunks.append(base64.b64decode(json.loads(line)["Content"]))
    print(json.dumps({
        "Direction": "client-to-server",
        "Content": base64.b64encode(b"OUT[" + b"|".join(chunks) + b"]").decode(),
        "Time": "2222-02-22T22:22:22.222222",
    }))
    print()
    print("{}", flush=True)
`

func TestProbeResetStreamOutput(t *testing.T) {
	dirs := makeTempdirs(t)
	if err := os.WriteFile(path.Join(dirs.converter, "echo"), []byte(probeC16Converter), 0775); err != nil {
		t.Fatal(err)
	}
	mgr := makeManager(t, dirs)
	defer mgr.Close()
	importPackets := func(packets []pcapOverIPPacket) {
		pcaps, err := writePcaps(mgr.PcapDir, packets)
		if err != nil {
			t.Fatalf("writePcaps: %v", err)
		}
		events, eventCloser := mgr.Listen()
		mgr.ImportPcaps(pcaps)
		waitForEvent(t, events, eventCloser, "pcapProcessed")
	}
	settle := func() {
		deadline := time.Now().Add(20 * time.Second)
		quiet := time.Time{}
		for time.Now().Before(deadline) {
			s := mgr.Status()
			if s.ConverterJobRunning || s.TaggingJobRunning || s.ImportJobCount != 0 {
				quiet = time.Time{}
			} else if quiet.IsZero() {
				quiet = time.Now()
			} else if time.Since(quiet) > 500*time.Millisecond {
				return
			}
			time.Sleep(20 * time.Millisecond)
		}
		t.Fatalf("not quiescent")
	}
	output := func() (bool, string) {
		type res struct {
			cached bool
			out    string
		}
		c := make(chan res)
		mgr.jobs <- func() {
			data, _, _, _, cached, err := mgr.converters["echo"].DataForSearch(0)
			if err != nil {
				c <- res{false, "error: " + err.Error()}
				return
			}
			c <- res{cached, string(data[0]) + string(data[1])}
		}
		r := <-c
		return r.cached, r.out
	}
	// the later packet first
	importPackets([]pcapOverIPPacket{makeUDPPacket("1.2.3.4:1", "4.3.2.1:4321", t1.Add(10*time.Second), "late")})
	if err := mgr.AddTag("tag/all", "red", ""); err != nil {
		t.Fatal(err)
	}
	if err := mgr.UpdateTag("tag/all", UpdateTagOperationSetConverter([]string{"echo"})); err != nil {
		t.Fatal(err)
	}
	settle()
	if cached, out := output(); !cached || !strings.Contains(out, "OUT[late]") {
		t.Fatalf("setup: output after the first import is cached=%v %q", cached, out)
	}
	// now the earlier packet of the same flow
	importPackets([]pcapOverIPPacket{makeUDPPacket("1.2.3.4:1", "4.3.2.1:4321", t1, "early")})
	if s := mgr.Status(); s.StreamCount != 1 {
		t.Fatalf("setup: the second import did not change stream 0 (StreamCount %d)", s.StreamCount)
	}
	settle()
	cached, out := output()
	if !cached || !strings.Contains(out, "OUT[early|late]") {
		t.Fatalf("stream 0 now has the payload early|late, but its converter output is cached=%v %q", cached, out)
	}
}
