package query

// Probe for a defect reported by a round-7 agent (C14): copy into internal/query of a scratch worktree and run
//   go test -count=1 -vet=off -run TestProbeRegexNesting ./internal/query/
// binaryregexp simplifies and compiles an expression recursively and has no nesting limit: a data filter with 3·10⁶
// nested groups ended the process with `fatal error: stack overflow` (the test binary dies: that is the failure).

import (
	"strings"
	"testing"
)

func TestProbeRegexNesting(t *testing.T) {
	for _, n := range []int{1000, 100000, 3000000} {
		q := `data:"` + strings.Repeat("(", n) + "a" + strings.Repeat(")", n) + `"`
		_, err := Parse(q)
		t.Logf("%d nested groups: error=%v", n, err != nil)
		if n == 1000 && err != nil {
			t.Errorf("1000 nested groups are refused: %v", err)
		}
		if n > 1000 && err == nil {
			t.Logf("accepted (no overflow at this depth)")
		}
	}
	// brackets in a character class and escaped brackets are not groups
	if _, err := Parse(`data:"` + strings.Repeat(`[(]\(`, 5000) + `"`); err != nil {
		t.Errorf("5000 literal brackets are refused: %v", err)
	}
}
