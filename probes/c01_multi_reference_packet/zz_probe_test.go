package index

// Probe for defect D1 (C01/C05): copy into internal/index of a scratch worktree and run
//   go test -count=1 -vet=off -run TestProbeMultiReferencePacket ./internal/index/
// A packet that was reassembled from two IP fragments carries two source-packet references. AddStream wrote the
// packet's payload size once PER REFERENCE, so the sizes of the packet records no longer added up to the payload and
// Data() split a later chunk of the same direction and stamped a part of it with the wrong time.

import (
	"testing"
	"time"

	"github.com/gopacket/gopacket"
	"github.com/gopacket/gopacket/reassembly"
	"github.com/spq/pkappa2/internal/index/streams"
	pcapmetadata "github.com/spq/pkappa2/internal/tools/pcapMetadata"
)

func TestProbeMultiReferencePacket(t *testing.T) {
	pi := &pcapmetadata.PcapInfo{Filename: "a.pcap"}
	t0 := time.Date(2024, 1, 1, 12, 0, 0, 0, time.UTC)
	mk := func(ts time.Time, idx ...uint64) gopacket.CaptureInfo {
		ci := gopacket.CaptureInfo{Timestamp: ts}
		for _, i := range idx {
			pcapmetadata.AddPcapMetadata(&ci, pi, i)
		}
		return ci
	}
	s := &streams.Stream{
		ClientAddr: []byte{10, 0, 0, 1}, ServerAddr: []byte{10, 0, 0, 2}, ClientPort: 1234, ServerPort: 80,
		Flags: streams.StreamFlagsProtocolUDP | streams.StreamFlagsComplete,
		Packets: []gopacket.CaptureInfo{
			mk(t0, 0, 1), // one datagram reassembled from the fragments 0 and 1
			mk(t0.Add(time.Second), 2),
			mk(t0.Add(2*time.Second), 3),
		},
		PacketDirections: []reassembly.TCPFlowDirection{reassembly.TCPDirClientToServer, reassembly.TCPDirClientToServer, reassembly.TCPDirServerToClient},
		Data: []streams.StreamData{
			{Bytes: []byte("hello "), PacketIndex: 0},
			{Bytes: []byte("world"), PacketIndex: 1},
			{Bytes: []byte("reply"), PacketIndex: 2},
		},
	}
	w, err := NewWriter(t.TempDir() + "/x.idx")
	if err != nil {
		t.Fatal(err)
	}
	if ok, err := w.AddStream(s, 0); err != nil || !ok {
		t.Fatalf("AddStream: %v %v", ok, err)
	}
	r, err := w.Finalize()
	if err != nil {
		t.Fatal(err)
	}
	defer r.Close()
	st, err := r.StreamByID(0)
	if err != nil || st == nil {
		t.Fatalf("StreamByID: %v", err)
	}
	data, err := st.Data()
	if err != nil {
		t.Fatalf("Data: %v", err)
	}
	type chunk struct {
		dir  Direction
		text string
		at   time.Duration
	}
	got := []chunk{}
	for _, d := range data {
		got = append(got, chunk{d.Direction, string(d.Content), d.Time.Sub(t0)})
	}
	want := []chunk{{DirectionClientToServer, "hello ", 0}, {DirectionClientToServer, "world", time.Second}, {DirectionServerToClient, "reply", 2 * time.Second}}
	if len(got) != len(want) {
		t.Fatalf("Data() = %v, want %v", got, want)
	}
	for i := range want {
		if got[i] != want[i] {
			t.Errorf("chunk %d = %v, want %v", i, got[i], want[i])
		}
	}
}
