package query

// Probe for defect D30 (C14): copy into internal/query of a scratch worktree and run
//   go test -count=1 -vet=off -run TestProbeNestingDepth ./internal/query/
// Before the repair Parse(strings.Repeat("-", 1000000)+"id:1") killed the process with a fatal stack overflow
// (the recursive-descent parser and the normaliser recurse once per negation / bracket; a fatal error cannot be
// recovered). Run the 'deep' case only on a repaired tree: it takes the test binary down otherwise.

import (
	"strings"
	"testing"
)

func TestProbeNestingDepth(t *testing.T) {
	for _, q := range []string{
		strings.Repeat("-", 1000000) + "id:1",
		strings.Repeat("(", 200000) + "id:1" + strings.Repeat(")", 200000),
		strings.Repeat("-(", 100000) + "id:1" + strings.Repeat(")", 100000),
	} {
		if _, err := Parse(q); err == nil {
			t.Errorf("a query nested %d levels deep was accepted", len(q)/2)
		}
	}
	// moderately nested queries are still answered
	for _, q := range []string{
		strings.Repeat("-", 100) + "id:1",
		strings.Repeat("(", 300) + "id:1" + strings.Repeat(")", 300),
		"-(id:1 or -(sport:80 -(cport:1)))",
		"id:1 " + strings.Repeat("-sport:80 ", 8),
	} {
		if _, err := Parse(q); err != nil {
			t.Errorf("%.40q…: %v", q, err)
		}
	}
}
