package index

// Probe for defects D3/D4 (C04): copy into internal/index of a scratch worktree and run
//   go test -count=1 -vet=off -run TestProbeC04 ./internal/index/
// D4: cdata:"(?P<x>a)?b" on payload "b": the optional named group does not take part in the match, its position is −1,
//     and the search panicked with 'slice bounds out of range [:-1]'.
// D3: cdata:"foo$" selected payloads "foo bar" and "xfoox": the constant-suffix shortcut cut the buffer behind the
//     suffix, so `$` matched there.

import (
	"context"
	"regexp"
	"slices"
	"testing"
	"time"

	"github.com/spq/pkappa2/internal/query"
)

func probeC04Run(t *testing.T, payloads []string, q string) []uint64 {
	t.Helper()
	converters := map[string]ConverterAccess{}
	streams := map[uint64]streamInfo{}
	for i, p := range payloads {
		streams[uint64(i)] = makeStream("192.168.0.100:123", "192.168.0.1:80", t1.Add(time.Duration(i+1)*time.Hour), []string{p})
	}
	r, err := makeIndex(t.TempDir(), streams, &converters)
	if err != nil {
		t.Fatal(err)
	}
	pq, err := query.Parse(q + " sort:id")
	if err != nil {
		t.Fatalf("parse %q: %v", q, err)
	}
	res, _, _, err := SearchStreams(context.Background(), []*Reader{r}, nil, pq.ReferenceTime, pq.Conditions, pq.Grouping, pq.Sorting, 100, 0, nil, converters, false)
	if err != nil {
		t.Fatalf("search %q: %v", q, err)
	}
	got := []uint64{}
	for _, s := range res {
		got = append(got, s.StreamID)
	}
	return got
}

func TestProbeC04OptionalCapture(t *testing.T) {
	if got := probeC04Run(t, []string{"b", "ab", "c"}, `cdata:"(?P<x>a)?b"`); !slices.Equal(got, []uint64{0, 1}) {
		t.Errorf("cdata:\"(?P<x>a)?b\" selected %v, a plain scan selects [0 1]", got)
	}
}

func TestProbeC04DollarSuffix(t *testing.T) {
	if got := probeC04Run(t, []string{"foo", "foo bar", "xfoox", "a foo"}, `cdata:"foo$"`); !slices.Equal(got, []uint64{0, 3}) {
		t.Errorf("cdata:\"foo$\" selected %v, a plain scan selects [0 3]", got)
	}
}

// differential: single-element filters with assertions against a plain scan of the whole payload
func TestProbeC04AssertionsDifferential(t *testing.T) {
	payloads := []string{"foo", "foo bar", "xfoox", "a foo", "foofoo", "bar\nfoo\nbaz", "food", "", "fo", "foo\n"}
	for _, expr := range []string{`foo$`, `foo\b`, `\bfoo`, `^foo`, `(?m)foo$`, `(?m)^foo`, `o\b`, `\Bfoo`, `foo\B`, `[a-z]oo$`, `^[a-z]oo$`} {
		re := regexp.MustCompile(expr)
		want := []uint64{}
		for i, p := range payloads {
			if re.MatchString(p) {
				want = append(want, uint64(i))
			}
		}
		if got := probeC04Run(t, payloads, `cdata:"`+expr+`"`); !slices.Equal(got, want) {
			t.Errorf("cdata:%q selected %v, a plain scan selects %v", expr, got, want)
		}
	}
}
