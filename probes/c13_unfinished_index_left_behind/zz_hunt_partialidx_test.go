package manager

// C13: a service that is stopped (SIGTERM handler of cmd/pkappa2/main.go: mgr.Close(); os.Exit(1),
// or a plain kill) while an import or a merge writes an index leaves the half written *.idx file in
// the index directory. The next start cannot load it ("wrong magic"), skips it, and nothing ever
// deletes it: at quiescence the index directory holds a file the service does not serve from.

import (
	"bytes"
	"fmt"
	"io"
	"log"
	"os"
	"os/exec"
	"os/signal"
	"path/filepath"
	"sort"
	"strings"
	"syscall"
	"testing"
	"time"
)

func huntPIDirs(base string) dirs {
	d := dirs{base: base}
	d.pcap = filepath.Join(base, "pcap") + "/"
	d.index = filepath.Join(base, "index") + "/"
	d.state = filepath.Join(base, "state") + "/"
	d.snapshot = filepath.Join(base, "snapshot") + "/"
	d.converter = filepath.Join(base, "converter") + "/"
	d.watch = filepath.Join(base, "watch") + "/"
	return d
}

// the child: a service that keeps importing captures, stopped by the parent
func TestHuntPartialIndexChild(t *testing.T) {
	base := os.Getenv("HUNT_CHILD_BASE")
	if base == "" {
		t.Skip("helper process of TestHuntPartialIndex")
	}
	log.SetOutput(io.Discard)
	d := huntPIDirs(base)
	mgr, err := New(d.pcap, d.index, d.snapshot, d.state, d.converter, d.watch)
	if err != nil {
		fmt.Println("child: New failed:", err)
		os.Exit(3)
	}
	// the signal handling of cmd/pkappa2/main.go
	signals := make(chan os.Signal, 1)
	signal.Notify(signals, os.Interrupt, syscall.SIGTERM)
	go func() {
		<-signals
		mgr.Close()
		os.Exit(1)
	}()
	const streamsPerPcap = 4000
	for i := 0; ; i++ {
		pkts := make([]pcapOverIPPacket, 0, streamsPerPcap)
		for j := 0; j < streamsPerPcap; j++ {
			pkts = append(pkts, makeUDPPacket(fmt.Sprintf("10.%d.%d.%d:%d", i%200, j/250, 1+j%250, 1000+j%50000), "10.200.0.1:53", t1.Add(time.Duration(i)*time.Hour+time.Duration(j)*time.Millisecond), "payload payload payload"))
		}
		names, err := writePcaps(mgr.PcapDir, pkts)
		if err != nil {
			fmt.Println("child: writePcaps failed:", err)
			os.Exit(3)
		}
		mgr.ImportPcaps(names)
		for {
			s := mgr.Status()
			if s.ImportJobCount == 0 {
				break
			}
			time.Sleep(time.Millisecond)
		}
	}
}

func huntIsPartial(fn string) bool {
	f, err := os.Open(fn)
	if err != nil {
		return false
	}
	defer f.Close()
	magic := make([]byte, 16)
	if _, err := io.ReadFull(f, magic); err != nil {
		return true
	}
	return bytes.Equal(magic, make([]byte, 16))
}

func huntPartialIndexRun(t *testing.T, sig syscall.Signal, wantMerge bool) {
	base := t.TempDir()
	d := huntPIDirs(base)
	for _, p := range []string{d.pcap, d.index, d.snapshot, d.state, d.converter, d.watch} {
		if err := os.Mkdir(p, 0755); err != nil {
			t.Fatal(err)
		}
	}
	cmd := exec.Command(os.Args[0], "-test.run=^TestHuntPartialIndexChild$", "-test.timeout=120s")
	cmd.Env = append(os.Environ(), "HUNT_CHILD_BASE="+base)
	out := &bytes.Buffer{}
	cmd.Stdout, cmd.Stderr = out, out
	if err := cmd.Start(); err != nil {
		t.Fatal(err)
	}
	exited := make(chan struct{})
	go func() { _ = cmd.Wait(); close(exited) }()

	// stop the service while it writes an index (of an import or of a merge)
	stoppedWhileWriting := ""
	deadline := time.Now().Add(60 * time.Second)
watch:
	for time.Now().Before(deadline) {
		select {
		case <-exited:
			t.Fatalf("child exited early:\n%s", out.String())
		default:
		}
		files, _ := filepath.Glob(filepath.Join(d.index, "*.idx"))
		complete := 0
		for _, f := range files {
			if !huntIsPartial(f) {
				complete++
			}
		}
		for _, f := range files {
			isMerge := strings.Contains(filepath.Base(f), ".m")
			if complete >= 2 && isMerge == wantMerge && huntIsPartial(f) {
				_ = cmd.Process.Signal(sig)
				stoppedWhileWriting = filepath.Base(f)
				break watch
			}
		}
		time.Sleep(200 * time.Microsecond)
	}
	if stoppedWhileWriting == "" {
		_ = cmd.Process.Kill()
		<-exited
		t.Skip("did not catch the service while it was writing an index")
	}
	<-exited
	t.Logf("service stopped with %v while it was writing %s", sig, stoppedWhileWriting)

	// the next start
	log.SetOutput(io.Discard)
	defer log.SetOutput(os.Stderr)
	mgr, err := New(d.pcap, d.index, d.snapshot, d.state, d.converter, d.watch)
	if err != nil {
		t.Fatalf("New: %v", err)
	}
	defer mgr.Close()
	// wait for quiescence: nothing queued, no job running, no tag pending; let merges finish
	calm := 0
	for start := time.Now(); calm < 5 && time.Since(start) < 90*time.Second; time.Sleep(50 * time.Millisecond) {
		s := mgr.Status()
		if s.ImportJobCount == 0 && !s.MergeJobRunning && !s.TaggingJobRunning && !s.ConverterJobRunning {
			calm++
		} else {
			calm = 0
		}
	}
	if calm < 5 {
		t.Fatalf("service did not settle after the restart")
	}
	served := map[string]bool{}
	c := make(chan struct{})
	mgr.jobs <- func() {
		for _, idx := range mgr.indexes {
			served[filepath.Base(idx.Filename())] = true
		}
		close(c)
	}
	<-c
	files, _ := filepath.Glob(filepath.Join(d.index, "*.idx"))
	sort.Strings(files)
	leaked := []string{}
	for _, f := range files {
		if !served[filepath.Base(f)] {
			st, _ := os.Stat(f)
			leaked = append(leaked, fmt.Sprintf("%s (%d bytes, partial=%v)", filepath.Base(f), st.Size(), huntIsPartial(f)))
		}
	}
	t.Logf("after restart and quiescence: %d index files on disk, %d served", len(files), len(served))
	if len(leaked) != 0 {
		t.Errorf("C13 VIOLATION: index directory holds files the service does not serve from, nothing will delete them: %v", leaked)
	}
}

func TestHuntPartialIndex(t *testing.T) {
	t.Run("SIGTERM_during_import", func(t *testing.T) { huntPartialIndexRun(t, syscall.SIGTERM, false) })
	t.Run("SIGKILL_during_merge", func(t *testing.T) { huntPartialIndexRun(t, syscall.SIGKILL, true) })
}
