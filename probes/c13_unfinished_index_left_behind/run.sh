#!/bin/bash
# usage: demo.sh <project root>
# exit 1 iff the violation shows (a half written *.idx stays in the index directory for ever), 0 otherwise
ROOT="${1:?usage: demo.sh <project root>}"
HERE="$(cd "$(dirname "$0")" && pwd)"
export GOFLAGS=-mod=mod GOPROXY=off
unset GOWORK
PKG="$ROOT/internal/index/manager"
TEST=zz_hunt_partialidx_test.go
cp "$HERE/$TEST" "$PKG/$TEST" || exit 0
OUT="$(cd "$ROOT" && timeout 170 go test -vet=off -count=1 -v -run '^TestHuntPartialIndex$' ./internal/index/manager/ 2>&1)"
rm -f "$PKG/$TEST"
echo "$OUT" | grep -v '^20[0-9][0-9]/' | tail -40
if echo "$OUT" | grep -q 'C13 VIOLATION'; then
	exit 1
fi
exit 0
