package query

// Probe for the C03 defect repaired in 806d883: copy into internal/query of a scratch worktree and run
//   go test -count=1 -vet=off -run TestProbeConverterName ./internal/query/
// Before the repair the first and fourth query normalise to the impossible condition "()" and the second loses its
// first conjunct; after it every conjunct survives.

import "testing"

func TestProbeConverterName(t *testing.T) {
	for q, want := range map[string]string{
		"cdata.c1:foo -cdata.c2:foo": `((cdata.c1:"foo") & (-cdata.c2:"foo"))`,
		"cdata.c1:foo cdata.c2:foo":  `((cdata.c1:"foo") & (cdata.c2:"foo"))`,
		"cdata.c1:foo -cdata:foo":    `((-cdata:"foo") & (cdata.c1:"foo"))`,
	} {
		p, err := Parse(q)
		if err != nil {
			t.Fatalf("%q: %v", q, err)
		}
		if got := p.Conditions.String(); got != want {
			t.Errorf("%q normalised to %s, want %s", q, got, want)
		}
	}
}
