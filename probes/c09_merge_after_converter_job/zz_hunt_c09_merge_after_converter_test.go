package manager

import (
	"fmt"
	"testing"
	"time"
)

// C09: after a converter job completes nobody re-checks whether a merge is needed.
// startMergeJobIfNeeded refuses to start while converterJobRunning is set, and the
// completion handler of convertStreamJob calls startTaggingJobIfNeeded and
// startConverterJobIfNeeded only. With a converter attached to a tag the converter job
// is the last job of every import, so the indexes of the imports are never merged.

type zzHuntSettled struct {
	status      Statistics
	mergeNeeded bool
	streamCount []int
}

// zzHuntWaitSettled waits until no job runs, the import queue is empty and no tag is pending.
func zzHuntWaitSettled(t *testing.T, mgr *Manager) zzHuntSettled {
	t.Helper()
	deadline := time.Now().Add(60 * time.Second)
	quietSince := time.Time{}
	for {
		c := make(chan zzHuntSettled)
		mgr.jobs <- func() {
			s := zzHuntSettled{}
			quiet := len(mgr.importJobs) == 0 && !mgr.mergeJobRunning && !mgr.taggingJobRunning && !mgr.converterJobRunning
			for _, tg := range mgr.tags {
				if !tg.Uncertain.IsZero() {
					quiet = false
				}
			}
			for _, stc := range mgr.streamsToConvert {
				if !stc.IsZero() {
					quiet = false
				}
			}
			// the merge eligibility rule of startMergeJobIfNeeded, read only
			n := mgr.nStreamRecords
			for i, idx := range mgr.indexes {
				cnt := idx.StreamCount()
				s.streamCount = append(s.streamCount, cnt)
				n -= cnt
				if i >= mgr.nUnmergeableIndexes && cnt < n {
					s.mergeNeeded = true
				}
			}
			s.status.ImportJobCount = -1
			if quiet {
				s.status.ImportJobCount = 0
			}
			c <- s
		}
		s := <-c
		if s.status.ImportJobCount == 0 {
			if quietSince.IsZero() {
				quietSince = time.Now()
			}
			// nothing is running and nothing is queued: only a new API call can change that.
			// stay a while anyway to show that nothing happens any more.
			if time.Since(quietSince) > 500*time.Millisecond {
				s.status = mgr.Status()
				return s
			}
		} else {
			quietSince = time.Time{}
		}
		if time.Now().After(deadline) {
			t.Fatalf("service did not settle within 60s: %+v", mgr.Status())
		}
		time.Sleep(20 * time.Millisecond)
	}
}

func zzHuntImportOneFlow(t *testing.T, mgr *Manager, i int) {
	t.Helper()
	pcaps, err := writePcaps(mgr.PcapDir, []pcapOverIPPacket{
		makeUDPPacket(fmt.Sprintf("9.0.0.%d:123", i+1), "2.3.4.5:9001", t1.Add(time.Second*time.Duration(i)), fmt.Sprintf("payload%d", i)),
	})
	if err != nil {
		t.Fatalf("writePcaps failed: %v", err)
	}
	mgr.ImportPcaps(pcaps)
}

func zzHuntRun(t *testing.T, withConverter bool) zzHuntSettled {
	dirs := makeTempdirs(t)
	if withConverter {
		addConverter(dirs, "conv")
	}
	mgr := makeManager(t, dirs)
	defer mgr.Close()
	if err := mgr.AddTag("tag/all", "red", "port:9001"); err != nil {
		t.Fatalf("AddTag failed: %v", err)
	}
	if withConverter {
		if err := mgr.UpdateTag("tag/all", UpdateTagOperationSetConverter([]string{"conv"})); err != nil {
			t.Fatalf("UpdateTag(SetConverter) failed: %v", err)
		}
	}
	zzHuntWaitSettled(t, mgr)
	s := zzHuntSettled{}
	for i := 0; i < 6; i++ {
		zzHuntImportOneFlow(t, mgr, i)
		s = zzHuntWaitSettled(t, mgr)
		t.Logf("converter=%v after import %d: indexes=%v mergeNeeded=%v status=%+v", withConverter, i+1, s.streamCount, s.mergeNeeded, s.status)
	}
	if withConverter {
		if got := mgr.ListConverters(); len(got) != 1 || got[0].CachedStreamCount != 6 {
			t.Fatalf("converter did not convert the 6 streams: %+v", got)
		}
	}
	return s
}

func TestZZHuntMergeStartsAfterConverterJob(t *testing.T) {
	control := zzHuntRun(t, false)
	if control.mergeNeeded || control.status.IndexCount > 2 {
		t.Fatalf("control run without converter did not merge: indexes=%v", control.streamCount)
	}
	got := zzHuntRun(t, true)
	if got.mergeNeeded {
		t.Errorf("C09 violated: the service is idle (no job running, nothing queued, no tag pending) but the merge rule still asks for a merge that nobody starts: "+
			"%d index files with stream counts %v (the same history without a converter ends with %v)", got.status.IndexCount, got.streamCount, control.streamCount)
	}
}
