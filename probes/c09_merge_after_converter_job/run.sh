#!/bin/sh
# usage: demo.sh <project root>; exits non-zero iff the violation shows
ROOT="${1:?project root}"
HERE="$(cd "$(dirname "$0")" && pwd)"
export GOFLAGS=-mod=mod GOPROXY=off
unset GOWORK
T=zz_hunt_c09_merge_after_converter_test.go
cp "$HERE/$T" "$ROOT/internal/index/manager/$T" || exit 0
cd "$ROOT" || exit 0
go test ./internal/index/manager/ -run 'TestZZHuntMergeStartsAfterConverterJob$' -count=1 -v 2>&1 | grep -v '^20[0-9][0-9]/' > /tmp/hunt_C09C13_f1.log
rm -f "$ROOT/internal/index/manager/$T"
tail -n 25 /tmp/hunt_C09C13_f1.log
if grep -q 'C09 violated' /tmp/hunt_C09C13_f1.log; then
  exit 1
fi
exit 0
