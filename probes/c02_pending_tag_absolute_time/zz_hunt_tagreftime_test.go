package index

import (
	"context"
	"testing"
	"time"

	"github.com/spq/pkappa2/internal/query"
)

// A tag whose query has an absolute time filter and that is not decided for a stream yet is searched for by its
// conditions (InlineTagFilters). The conditions are moved from the time the tag was parsed at to the time the
// search query was parsed at with time.Time.Sub, which uses the monotonic clock readings of the two time.Now()
// values, while the absolute times in the filters were converted with the wall clock. The two clocks never agree
// to the nanosecond (and disagree by the length of the pause when the machine was suspended or the wall clock
// was set in between): the filter of the tag moves, a stream on the boundary of the filter is decided wrongly.
func TestZZHuntPendingTagTimeFilterMoves(t *testing.T) {
	conv := map[string]ConverterAccess{}
	start := time.Date(2020, 1, 1, 13, 0, 0, 0, time.UTC)
	r, err := makeIndex(t.TempDir(), map[uint64]streamInfo{
		// a capture with timestamps of full seconds
		0: makeStream("10.0.0.1:1000", "10.0.0.2:80", start, []string{"hello", "world"}),
		1: makeStream("10.0.0.1:1001", "10.0.0.2:80", start.Add(time.Hour), []string{"hello", "world"}),
		2: makeStream("10.0.0.1:1002", "10.0.0.2:80", start.Add(-time.Hour), []string{"hello", "world"}),
	}, &conv)
	if err != nil {
		t.Fatal(err)
	}
	defer r.Close()
	tagQuery := `ftime:"` + start.Local().Format("2006-01-02 150405") + `:` + start.Add(time.Hour).Local().Format("2006-01-02 150405") + `"`
	ids := func(res []*Stream) []uint64 {
		l := []uint64{}
		for _, s := range res {
			l = append(l, s.StreamID)
		}
		return l
	}
	sorting := []query.Sorting{{Key: query.SortingKeyID, Dir: query.SortingDirAscending}}
	wrong, attempts := 0, 40
	for i := 0; i < attempts; i++ {
		// the tag is added ...
		tq, err := query.Parse(tagQuery)
		if err != nil {
			t.Fatal(err)
		}
		td := query.TagDetails{Conditions: tq.Conditions, ReferenceTime: tq.ReferenceTime}
		// ... it is not evaluated for the streams yet ...
		td.Uncertain.Set(0)
		td.Uncertain.Set(1)
		td.Uncertain.Set(2)
		tags := map[string]query.TagDetails{"tag/hour": td}
		time.Sleep(time.Duration(i%5) * time.Millisecond)
		// ... and somebody searches for it
		q, err := query.Parse("tag:hour")
		if err != nil {
			t.Fatal(err)
		}
		viaTag, _, _, err := SearchStreams(context.Background(), []*Reader{r}, nil, q.ReferenceTime, q.Conditions, nil, sorting, 0, 0, tags, conv, false)
		if err != nil {
			t.Fatal(err)
		}
		// the query of the tag itself
		dq, err := query.Parse(tagQuery)
		if err != nil {
			t.Fatal(err)
		}
		direct, _, _, err := SearchStreams(context.Background(), []*Reader{r}, nil, dq.ReferenceTime, dq.Conditions, nil, sorting, 0, 0, nil, conv, false)
		if err != nil {
			t.Fatal(err)
		}
		if len(direct) != 2 || direct[0].StreamID != 0 || direct[1].StreamID != 1 {
			t.Fatalf("the query %s returns %v, want [0 1]", tagQuery, ids(direct))
		}
		mono := q.ReferenceTime.Sub(tq.ReferenceTime)
		wall := q.ReferenceTime.Round(0).Sub(tq.ReferenceTime.Round(0))
		if len(viaTag) != 2 || viaTag[0].StreamID != 0 || viaTag[1].StreamID != 1 {
			wrong++
			if wrong <= 3 {
				t.Logf("attempt %d: tag/hour := %s is pending for all streams; the search tag:hour returns %v, the query of the tag returns %v (time between the two Parse calls: %v by the monotonic clock, %v by the wall clock)", i, tagQuery, ids(viaTag), ids(direct), mono, wall)
			}
		}
	}
	t.Logf("tag:hour missed stream 0 or 1 (first packet exactly at the lower / upper bound of the filter) in %d of %d attempts", wrong, attempts)
	if wrong != 0 {
		t.Errorf("VIOLATION: a search for a pending tag does not return the streams the query of the tag returns (%d of %d attempts)", wrong, attempts)
	}
}
