package converters

import (
	"runtime"
	"sync"
	"testing"
	"time"
)

// Probe: reserveProcess releases both locks before it waits on converter.signal, releaseProcess signals with a
// non-blocking send on the unbuffered channel: a waiter that has released the locks and has not reached the receive yet
// misses the signal. When that was the last release, the waiter waits for ever.
func TestProbeLostWakeupInReserveProcess(t *testing.T) {
	for round := 0; round < 20000; round++ {
		c := New("x", "/bin/cat")
		var wg sync.WaitGroup
		for g := 0; g < MAX_PROCESS_COUNT+4; g++ {
			wg.Add(1)
			go func() {
				defer wg.Done()
				for i := 0; i < 2; i++ {
					p, e := c.reserveProcess()
					for k := 0; k < i%7; k++ {
						runtime.Gosched()
					}
					c.releaseProcess(p, e)
				}
			}()
		}
		done := make(chan struct{})
		go func() { wg.Wait(); close(done) }()
		select {
		case <-done:
		case <-time.After(2 * time.Second):
			t.Fatalf("round %d: a goroutine waits for a converter process although all %d are available: the wakeup was lost", round, MAX_PROCESS_COUNT)
		}
		c.Reset()
	}
}
