package index

// Differential probe for C06-o/C02-s (#70; it also covers C06-m/C02-p, #68): a query that uses tag filters — in the main
// query and inside sub-queries, on tags that have sub-queries of their own — must give the same answer while the tags
// are pending for every stream (their conditions are inlined and evaluated on demand) as when they are decided.
// copy into internal/index

import (
	"context"
	"fmt"
	"math/rand"
	"testing"
	"time"

	"github.com/spq/pkappa2/internal/query"
)

func TestProbeAllTagsPendingVsDecided(t *testing.T) {
	t0 := time.Date(2020, 1, 1, 12, 0, 0, 0, time.UTC)
	failures := 0
	total, nonEmpty, skipped := 0, 0, map[string]int{}
	for seed := int64(0); seed < 600 && failures < 6; seed++ {
		rng := rand.New(rand.NewSource(seed))
		n := 3 + rng.Intn(5)
		streams := map[uint64]streamInfo{}
		for id := 0; id < n; id++ {
			cport := 1 + rng.Intn(4)
			sport := 80 + rng.Intn(3)
			chost := fmt.Sprintf("10.0.0.%d", 1+rng.Intn(3))
			shost := fmt.Sprintf("10.0.1.%d", 1+rng.Intn(2))
			data := []string{[]string{"aa", "ab", "b"}[rng.Intn(3)], []string{"x", "y", "xy"}[rng.Intn(3)]}
			streams[uint64(id)] = makeStream(fmt.Sprintf("%s:%d", chost, cport), fmt.Sprintf("%s:%d", shost, sport), t0.Add(time.Duration(id)*time.Hour), data)
		}
		converters := map[string]ConverterAccess{}
		r, err := makeIndex(t.TempDir(), streams, &converters)
		if err != nil {
			t.Fatal(err)
		}
		atom := func(pfx string) string {
			switch rng.Intn(7) {
			case 0:
				return fmt.Sprintf("%scport:%d", pfx, 1+rng.Intn(4))
			case 1:
				return fmt.Sprintf("%ssport:%d", pfx, 80+rng.Intn(3))
			case 2:
				return fmt.Sprintf("%schost:10.0.0.%d", pfx, 1+rng.Intn(3))
			case 3:
				return fmt.Sprintf("%sid:%d:%d", pfx, rng.Intn(n), rng.Intn(n)+2)
			case 4:
				return fmt.Sprintf("%scdata:\"%s\"", pfx, []string{"a", "b", "aa"}[rng.Intn(3)])
			case 5:
				return fmt.Sprintf("-%scport:%d", pfx, 1+rng.Intn(4))
			default:
				return fmt.Sprintf("%scbytes:%d:", pfx, 1+rng.Intn(2))
			}
		}
		link := func(a, b string) string { // relate stream a to stream b ("" = the stream itself)
			ref := func(sq, f string) string {
				if sq == "" {
					return "@" + f + "@"
				}
				return "@" + sq + ":" + f + "@"
			}
			pfx := ""
			if a != "" {
				pfx = "@" + a + ":"
			}
			switch rng.Intn(4) {
			case 0:
				return pfx + "sport:" + ref(b, "sport")
			case 1:
				return pfx + "cport:" + ref(b, "cport") + []string{"", "+1", "-1"}[rng.Intn(3)]
			case 2:
				return pfx + "chost:" + ref(b, "chost")
			default:
				return "-" + pfx + "cport:" + ref(b, "cport")
			}
		}
		// tag definitions: plain, or with a sub-query of their own
		tagDefs := map[string]string{}
		for i := 0; i < 2; i++ {
			def := atom("")
			switch rng.Intn(3) {
			case 0:
				def += " " + atom("")
			case 1:
				def = atom("@x:") + " " + link("", "x") + " " + def
			}
			if i == 1 {
				switch rng.Intn(4) {
				case 0:
					def += " tag:t0"
				case 1:
					def += " -tag:t0"
				}
			}
			tagDefs[fmt.Sprintf("tag/t%d", i)] = def
		}
		search := func(qs string, tags map[string]query.TagDetails) ([]uint64, error) {
			q, err := query.Parse(qs)
			if err != nil {
				return nil, fmt.Errorf("parse: %w", err)
			}
			res, _, _, err := SearchStreams(context.Background(), []*Reader{r}, nil, q.ReferenceTime, q.Conditions, nil, []query.Sorting{{Key: query.SortingKeyID, Dir: query.SortingDirAscending}}, 0, 0, tags, converters, false)
			if err != nil {
				return nil, err
			}
			ids := []uint64{}
			for _, s := range res {
				ids = append(ids, s.StreamID)
			}
			return ids, nil
		}
		decided, pending := map[string]query.TagDetails{}, map[string]query.TagDetails{}
		ok := true
		for _, name := range []string{"tag/t0", "tag/t1"} {
			def := tagDefs[name]
			q, err := query.Parse(def)
			if err != nil {
				skipped["tag parse"]++
				ok = false
				break
			}
			ids, err := search(def, decided)
			if err != nil {
				skipped["tag search: "+err.Error()]++
				ok = false
				break
			}
			d := query.TagDetails{Conditions: q.Conditions, ReferenceTime: q.ReferenceTime}
			p := query.TagDetails{Conditions: q.Conditions, ReferenceTime: q.ReferenceTime}
			for _, id := range ids {
				d.Matches.Set(uint(id))
			}
			for id := 0; id < n; id++ {
				p.Uncertain.Set(uint(id))
				if rng.Intn(2) == 0 {
					p.Matches.Set(uint(id)) // a stale answer, must not matter
				}
			}
			decided[name], pending[name] = d, p
		}
		if !ok {
			r.Close()
			continue
		}
		for qi := 0; qi < 12; qi++ {
			tn := fmt.Sprintf("t%d", rng.Intn(2))
			neg := []string{"", "-"}[rng.Intn(2)]
			var qs string
			switch rng.Intn(5) {
			case 0: // in the main query
				qs = neg + "tag:" + tn + " " + atom("")
			case 1: // in a sub-query the stream is related to
				qs = neg + "@s:tag:" + tn + " " + link("", "s")
			case 2: // with further conditions on the sub-query
				qs = neg + "@s:tag:" + tn + " " + atom("@s:") + " " + link("", "s")
			case 3: // a sub-query named like the tag's own sub-query
				qs = "@x:tag:" + tn + " " + link("", "x") + " " + atom("")
			default: // both tags, one in the main query, one in a sub-query
				qs = "tag:t0 @s:tag:t1 " + link("", "s")
			}
			want, err1 := search(qs, decided)
			got, err2 := search(qs, pending)
			if err1 != nil || err2 != nil {
				if (err1 == nil) != (err2 == nil) {
					skipped[fmt.Sprintf("one-sided error: decided=%v pending=%v", err1, err2)]++
				} else {
					skipped["search: "+err1.Error()]++
				}
				continue
			}
			total++
			if len(want) != 0 {
				nonEmpty++
			}
			if fmt.Sprint(got) != fmt.Sprint(want) {
				failures++
				t.Errorf("seed %d: %q with tags %v\n  decided: %v\n  pending: %v", seed, qs, tagDefs, want, got)
			}
		}
		r.Close()
	}
	t.Logf("%d queries compared, %d with a non-empty answer; skipped: %v", total, nonEmpty, skipped)
}
