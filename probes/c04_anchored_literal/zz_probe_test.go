package index

// Probe for reported defect E10 (C04): copy into internal/index of a scratch worktree and run
//   go test -count=1 -vet=off -run TestProbeC04AnchoredLiteral ./internal/index/
// binaryregexp reports "abc" as the COMPLETE literal prefix of ^abc$ (one-pass programs). The search then treated the
// expression as the plain literal: it looked for "abc" anywhere in the payload, cut the data to it and ran ^abc$ on
// the cut, so cdata:"^abc$" selected xxabcxx, abcxx and xxabc as well.

import (
	"context"
	"regexp"
	"slices"
	"testing"
	"time"

	"github.com/spq/pkappa2/internal/query"
)

func probeC04AnchoredRun(t *testing.T, payloads []string, q string) []uint64 {
	t.Helper()
	converters := map[string]ConverterAccess{}
	streams := map[uint64]streamInfo{}
	for i, p := range payloads {
		streams[uint64(i)] = makeStream("192.168.0.100:123", "192.168.0.1:80", t1.Add(time.Duration(i+1)*time.Hour), []string{p})
	}
	r, err := makeIndex(t.TempDir(), streams, &converters)
	if err != nil {
		t.Fatal(err)
	}
	pq, err := query.Parse(q + " sort:id")
	if err != nil {
		t.Fatalf("parse %q: %v", q, err)
	}
	res, _, _, err := SearchStreams(context.Background(), []*Reader{r}, nil, pq.ReferenceTime, pq.Conditions, pq.Grouping, pq.Sorting, 100, 0, nil, converters, false)
	if err != nil {
		t.Fatalf("search %q: %v", q, err)
	}
	got := []uint64{}
	for _, s := range res {
		got = append(got, s.StreamID)
	}
	return got
}

func TestProbeC04AnchoredLiteral(t *testing.T) {
	payloads := []string{"abc", "xxabcxx", "abcxx", "xxabc", "abcabc", "ab", ""}
	for _, expr := range []string{`^abc$`, `\Aabc\z`, `(?s)^abc$`, `^abc\z`, `^abc`, `abc$`, `abc`, `(?:abc)`, `^a\.c$`} {
		re := regexp.MustCompile(expr)
		want := []uint64{}
		for i, p := range payloads {
			if re.MatchString(p) {
				want = append(want, uint64(i))
			}
		}
		if got := probeC04AnchoredRun(t, payloads, `cdata:"`+expr+`"`); !slices.Equal(got, want) {
			t.Errorf("cdata:%q selected %v, a plain scan selects %v", expr, got, want)
		}
	}
	// the anchored literal as one step of a sequence and with a variable
	if got := probeC04AnchoredRun(t, []string{"abc", "xxabcxx"}, `cdata:"^abc$" then cdata:"^abc$"`); len(got) != 0 {
		t.Errorf("a sequence of two anchored literals on one chunk selected %v", got)
	}
}
