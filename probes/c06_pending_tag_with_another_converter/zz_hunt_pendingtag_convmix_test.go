package manager

// A search that combines a tag filter with a data filter works while the tag is decided, but fails with
// "all data conditions must have the same converter name" for as long as the tag is pending (right after
// every import, tag edit, converter run, ...) when the tag's own data filter names a converter:
// the pending tag is replaced by its definition and the two data filters end up in one alternative.

import (
	"context"
	"fmt"
	"io"
	"log"
	"sort"
	"strings"
	"testing"
	"time"

	"github.com/spq/pkappa2/internal/query"
)

func zzSearchIDs(v *View, qs string) ([]int, error) {
	q, err := query.Parse(qs)
	if err != nil {
		return nil, err
	}
	res := []int{}
	if _, _, _, err := v.SearchStreams(context.Background(), q, func(sc StreamContext) error {
		res = append(res, int(sc.Stream().ID()))
		return nil
	}); err != nil {
		return nil, err
	}
	sort.Ints(res)
	return res, nil
}

func zzSettle(t *testing.T, mgr *Manager) {
	for i := 0; i < 40000; i++ {
		st := mgr.Status()
		if st.ImportJobCount == 0 && !st.TaggingJobRunning && !st.ConverterJobRunning && !st.MergeJobRunning {
			ok := true
			for _, ti := range mgr.ListTags() {
				ok = ok && ti.UncertainCount == 0
			}
			if ok {
				return
			}
		}
		time.Sleep(500 * time.Microsecond)
	}
	t.Fatalf("manager does not settle")
}

func TestZZHuntPendingTagConverterMix(t *testing.T) {
	log.SetOutput(io.Discard)
	dirs := makeTempdirs(t)
	addConverter(dirs, "up")
	mgr := makeManager(t, dirs)
	defer mgr.Close()

	nextPort := 1
	importOne := func(payload string) {
		pcaps, err := writePcaps(mgr.PcapDir, []pcapOverIPPacket{
			makeUDPPacket(fmt.Sprintf("1.2.3.4:%d", nextPort), "4.3.2.1:4321", t1.Add(time.Second*time.Duration(nextPort)), payload),
		})
		nextPort++
		if err != nil {
			t.Fatalf("writePcaps: %v", err)
		}
		mgr.ImportPcaps(pcaps)
		for mgr.Status().ImportJobCount != 0 {
			time.Sleep(200 * time.Microsecond)
		}
	}
	importOne("foo")
	importOne("bar")

	// a tag that looks at the output of a converter, and the usual set of service tags
	if err := mgr.AddTag("tag/decoded", "red", "data.up:FLAG"); err != nil {
		t.Fatalf("AddTag: %v", err)
	}
	for i := 0; i < 20; i++ {
		if err := mgr.AddTag(fmt.Sprintf("service/s%d", i), "blue", fmt.Sprintf("sport:%d", 4300+i)); err != nil {
			t.Fatalf("AddTag: %v", err)
		}
	}
	zzSettle(t, mgr)

	const qs = "-tag:decoded cdata:foo"
	check := func(when string, wantIDs int) (failed bool) {
		v := mgr.GetView()
		defer v.Release()
		got, err := zzSearchIDs(&v, qs)
		pending := uint(0)
		for _, ti := range mgr.ListTags() {
			if ti.Name == "tag/decoded" {
				pending = ti.UncertainCount
			}
		}
		if err != nil {
			t.Errorf("%s (tag/decoded pending for %d streams afterwards): search %q failed: %v", when, pending, qs, err)
			return true
		}
		if len(got) != wantIDs {
			t.Errorf("%s: search %q = %v, want %d streams", when, qs, got, wantIDs)
			return true
		}
		return false
	}
	if check("all tags decided", 1) {
		t.Fatalf("the search does not even work while the tag is decided")
	}
	t.Logf("search %q works while tag/decoded is decided", qs)

	// the same search right after imports: the new streams are pending for the tags
	failures := 0
	for i := 0; i < 15; i++ {
		importOne("foo")
		if check(fmt.Sprintf("right after import %d", i), i+2) {
			failures++
		}
		zzSettle(t, mgr)
		if check(fmt.Sprintf("settled after import %d", i), i+2) {
			t.Fatalf("the search fails in the settled state")
		}
	}
	if failures != 0 {
		t.Errorf("VIOLATION: the search failed %d of 15 times while a tag was pending, and never when the tags were decided", failures)
	}
	_ = strings.Contains
}
