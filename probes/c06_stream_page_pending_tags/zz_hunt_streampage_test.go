package manager

// C06: the tags shown for a single stream (GET /api/stream/<id>.json: View.Stream(id), StreamContext.AllConverters(),
// StreamContext.AllTags() without prefetching, cmd/pkappa2/main.go) silently leave out every tag that is pending
// for the stream, while a search through the same view (POST /api/search.json: PrefetchAllTags) shows it.
// Tags are pending for all new streams after every import and for all streams after every restart.

import (
	"context"
	"fmt"
	"io"
	"log"
	"os"
	"testing"
	"time"

	"github.com/spq/pkappa2/internal/query"
)

func TestHuntStreamPageOmitsPendingTags(t *testing.T) {
	if os.Getenv("HUNT_LOG") == "" {
		log.SetOutput(io.Discard)
	}
	dirs := makeTempdirs(t)
	mgr := makeManager(t, dirs)
	defer mgr.Close()
	packets := []pcapOverIPPacket{}
	for i := 0; i < 400; i++ {
		packets = append(packets, makeUDPPacket(fmt.Sprintf("10.0.%d.%d:%d", i/200, 1+i%200, 2000+i), "10.1.0.1:4321", t1.Add(time.Duration(i)*time.Second), "hello"))
	}
	pcaps, err := writePcaps(mgr.PcapDir, packets)
	if err != nil {
		t.Fatal(err)
	}
	mgr.ImportPcaps(pcaps)
	for mgr.Status().ImportJobCount != 0 {
		time.Sleep(time.Millisecond)
	}
	q, err := query.Parse("id:7")
	if err != nil {
		t.Fatal(err)
	}
	for attempt := 0; attempt < 50; attempt++ {
		// a service tag, every stream matches it
		if err := mgr.AddTag("service/web", "red", "sport:4321"); err != nil {
			t.Fatal(err)
		}
		v := mgr.GetView()
		// what the handler of /api/stream/7.json does
		sc, err := v.Stream(7)
		if err != nil {
			t.Fatal(err)
		}
		pageTags, err := sc.AllTags()
		if err != nil {
			t.Fatal(err)
		}
		pending := v.tagDetails["service/web"].Uncertain.IsSet(7)
		// what the handler of /api/search.json does, same view
		searchTags := []string(nil)
		if _, _, _, err := v.SearchStreams(context.Background(), q, func(sc StreamContext) error {
			searchTags, err = sc.AllTags()
			return err
		}, Limit(100, 0), PrefetchAllTags()); err != nil {
			t.Fatal(err)
		}
		v.Release()
		if pending {
			t.Logf("attempt %d: service/web (sport:4321) is pending for stream 7 (server port 4321)", attempt)
			t.Logf("tags shown by the stream page: %v", pageTags)
			t.Logf("tags shown by a search for id:7 through the same view: %v", searchTags)
			if fmt.Sprint(pageTags) != fmt.Sprint(searchTags) {
				t.Errorf("VIOLATION: the stream page shows the tags %v for stream 7, the search result shows %v for the same stream in the same view; the definition sport:4321 matches the stream", pageTags, searchTags)
			}
			return
		}
		// the tagging job was faster than the request, again
		if err := mgr.DelTag("service/web"); err != nil {
			t.Fatal(err)
		}
	}
	t.Log("the tag was never pending when the stream was requested, nothing shown")
}
