package query

import (
	"testing"
	"time"
)

func TestProbeHang(t *testing.T) {
	for _, q := range []string{
		"-((data:ccc) (data:aaa then data:bbb then data:ccc))",
		"-(data:aaa then data:bbb then data:ccc then data:ddd)",
		"-((data:a or data:b) (data:c or data:d) (data:e or data:f))",
	} {
		done := make(chan struct{})
		start := time.Now()
		go func() {
			qq, err := Parse(q)
			if err == nil {
				t.Logf("%d conjuncts", len(qq.Conditions))
			}
			close(done)
		}()
		select {
		case <-done:
			t.Logf("ok %v  %s", time.Since(start), q)
		case <-time.After(10 * time.Second):
			t.Errorf("HANG %s", q)
		}
	}
}
