package index

import (
	"context"
	"fmt"
	"math/rand"
	"slices"
	"testing"
	"time"

	"github.com/spq/pkappa2/internal/query"
)

func TestProbeNegationFuzz2(t *testing.T) {
	tmpDir := t.TempDir()
	rng := rand.New(rand.NewSource(7))
	words := []string{"aaa", "bbb", "ccc", "ddd"}
	streamsMap := make(map[uint64]streamInfo)
	n := 40
	for i := 0; i < n; i++ {
		k := 1 + rng.Intn(5)
		var c []string
		for j := 0; j < k; j++ {
			c = append(c, words[rng.Intn(len(words))])
		}
		streamsMap[uint64(i)] = makeStream("192.168.0.100:123", "192.168.0.1:80", t1.Add(time.Hour), c)
	}
	converters := map[string]ConverterAccess{}
	r, err := makeIndex(tmpDir, streamsMap, &converters)
	if err != nil {
		t.Fatal(err)
	}
	run := func(qs string) ([]uint64, error) {
		q, err := query.Parse(qs)
		if err != nil {
			return nil, err
		}
		res, _, _, err := SearchStreams(context.Background(), []*Reader{r}, nil, q.ReferenceTime, q.Conditions, q.Grouping, q.Sorting, 1000, 0, nil, converters, false)
		if err != nil {
			return nil, err
		}
		got := []uint64{}
		for _, s := range res {
			got = append(got, s.StreamID)
		}
		slices.Sort(got)
		return got, nil
	}
	atom := func() string {
		k := 1 + rng.Intn(3)
		s := ""
		for j := 0; j < k; j++ {
			if j > 0 {
				s += " then "
			}
			neg := ""
			if j == k-1 && rng.Intn(3) == 0 {
				neg = "-"
			}
			s += fmt.Sprintf("%s%s:%s", neg, []string{"cdata", "sdata", "data"}[rng.Intn(3)], words[rng.Intn(len(words))])
		}
		return s
	}
	bad := 0
	for it := 0; it < 300; it++ {
		q := atom()
		switch rng.Intn(3) {
		case 1:
			q = "(" + q + ") (" + atom() + ")"
		case 2:
			q = "(" + q + ") or (" + atom() + ")"
		}
		t.Logf("q=%s", q)
		pos, err1 := run(q)
		neg, err2 := run("-(" + q + ")")
		if err1 != nil || err2 != nil {
			continue
		}
		seen := map[uint64]int{}
		for _, x := range pos {
			seen[x]++
		}
		for _, x := range neg {
			seen[x]++
		}
		ok := len(seen) == n
		for _, c := range seen {
			if c != 1 {
				ok = false
			}
		}
		if !ok {
			bad++
			if bad <= 5 {
				t.Errorf("q=%q: pos=%v neg=%v (together %d of %d)", q, pos, neg, len(seen), n)
			}
		}
	}
	t.Logf("bad=%d", bad)
}
