package manager

// C16: "detaching stops further runs".
//
// Part 1 (TestHuntDetachDuringJobKeepsRunning): a converter is detached from its only tag while the
// converter job is still working through the tag's streams. The job goes on and runs the converter for every
// remaining stream, the output lands in the cache that the detach has just emptied, and when a later
// capture extends one of these streams the converter is run for it once more.
//
// Part 2 (TestHuntDetachLeavesStreamsSubscribed): the converter stays attached to a second tag that matches
// only one stream. After detaching it from the tag that matched all streams, extending one of the other
// streams makes the converter run for that stream again.

import (
	"fmt"
	"os"
	"path"
	"strings"
	"testing"
	"time"
)

const huntDetachConverter = `#!/usr/bin/env python3
import sys, json, base64, os, time
CTL = "@CTL@"
while True:
    meta = sys.stdin.readline()
    if not meta:
        break
    meta = json.loads(meta)
    c = b""
    while True:
        line = sys.stdin.readline().strip()
        if not line:
            break
        ch = json.loads(line)
        c += base64.b64decode(ch["Content"])
    while os.path.exists(os.path.join(CTL, "gate")):
        time.sleep(0.005)
    with open(os.path.join(CTL, "log"), "a") as f:
        f.write("%d %s\n" % (meta["StreamID"], c.decode()))
    print(json.dumps({"Direction": "client-to-server", "Content": base64.b64encode(b"CONV[" + c + b"]").decode(), "Time": "2020-01-01T12:00:00"}))
    print()
    print("{}", flush=True)
`

func huntDetachSetup(t *testing.T) (dirs, string) {
	t.Helper()
	d := makeTempdirs(t)
	ctl := t.TempDir()
	script := strings.ReplaceAll(huntDetachConverter, "@CTL@", ctl)
	if err := os.WriteFile(path.Join(d.converter, "conv"), []byte(script), 0775); err != nil {
		t.Fatal(err)
	}
	return d, ctl
}

func huntDetachRuns(t *testing.T, ctl string) []string {
	t.Helper()
	b, err := os.ReadFile(path.Join(ctl, "log"))
	if err != nil {
		if os.IsNotExist(err) {
			return nil
		}
		t.Fatal(err)
	}
	return strings.Split(strings.TrimSpace(string(b)), "\n")
}

func huntDetachQuiet(t *testing.T, mgr *Manager) {
	t.Helper()
	deadline := time.Now().Add(60 * time.Second)
	for calm := 0; calm < 5; {
		if time.Now().After(deadline) {
			t.Fatalf("manager does not come to rest: %+v", mgr.Status())
		}
		st := mgr.Status()
		pending := false
		c := make(chan struct{})
		mgr.jobs <- func() {
			for _, s := range mgr.streamsToConvert {
				pending = pending || !s.IsZero()
			}
			for _, tg := range mgr.tags {
				pending = pending || !tg.Uncertain.IsZero()
			}
			close(c)
		}
		<-c
		if st.ImportJobCount == 0 && !st.ConverterJobRunning && !st.TaggingJobRunning && !st.MergeJobRunning && !pending {
			calm++
		} else {
			calm = 0
		}
		time.Sleep(20 * time.Millisecond)
	}
}

func huntDetachImport(t *testing.T, mgr *Manager, pkts []pcapOverIPPacket) {
	t.Helper()
	pcaps, err := writePcaps(mgr.PcapDir, pkts)
	if err != nil {
		t.Fatal(err)
	}
	events, closer := mgr.Listen()
	mgr.ImportPcaps(pcaps)
	waitForEvent(t, events, closer, "pcapProcessed")
}

func huntDetachCached(mgr *Manager) uint64 {
	for _, s := range mgr.ListConverters() {
		if s.Name == "conv" {
			return s.CachedStreamCount
		}
	}
	return 0
}

func TestHuntDetachDuringJobKeepsRunning(t *testing.T) {
	const nStreams = 40
	d, ctl := huntDetachSetup(t)
	mgr := makeManager(t, d)
	defer mgr.Close()
	if err := mgr.AddTag("tag/all", "red", ""); err != nil {
		t.Fatal(err)
	}
	pkts := []pcapOverIPPacket{}
	for i := 0; i < nStreams; i++ {
		pkts = append(pkts, makeUDPPacket(fmt.Sprintf("1.2.3.4:%d", 1000+i), "4.3.2.1:4321", t1.Add(time.Duration(i)*time.Second), fmt.Sprintf("payload-%d", i)))
	}
	huntDetachImport(t, mgr, pkts)
	huntDetachQuiet(t, mgr)

	// hold the converter processes so that the job stays at its first streams
	if err := os.WriteFile(path.Join(ctl, "gate"), nil, 0644); err != nil {
		t.Fatal(err)
	}
	if err := mgr.UpdateTag("tag/all", UpdateTagOperationSetConverter([]string{"conv"})); err != nil {
		t.Fatal(err)
	}
	for !mgr.Status().ConverterJobRunning {
		time.Sleep(5 * time.Millisecond)
	}
	time.Sleep(300 * time.Millisecond)
	// the user changes his mind
	if err := mgr.UpdateTag("tag/all", UpdateTagOperationSetConverter(nil)); err != nil {
		t.Fatal(err)
	}
	for _, ti := range mgr.ListTags() {
		if len(ti.Converters) != 0 {
			t.Fatalf("tag %s still has converters %v", ti.Name, ti.Converters)
		}
	}
	runsAtDetach := len(huntDetachRuns(t, ctl))
	t.Logf("detached: %d converter runs finished so far, %d streams cached, at most %d conversions are in flight", runsAtDetach, huntDetachCached(mgr), mgr.converters["conv"].MaxProcessCount())
	if err := os.Remove(path.Join(ctl, "gate")); err != nil {
		t.Fatal(err)
	}
	huntDetachQuiet(t, mgr)
	runs := huntDetachRuns(t, ctl)
	cached := huntDetachCached(mgr)
	t.Logf("after the job ended: %d converter runs, %d streams cached, converter attached to no tag", len(runs), cached)

	// a later capture extends a stream the job converted after the detach
	huntDetachImport(t, mgr, []pcapOverIPPacket{
		makeUDPPacket(fmt.Sprintf("1.2.3.4:%d", 1000+nStreams-1), "4.3.2.1:4321", t1.Add(time.Duration(nStreams)*time.Second), "+more"),
	})
	huntDetachQuiet(t, mgr)
	runs2 := huntDetachRuns(t, ctl)
	t.Logf("after extending stream %d: %d converter runs, last: %q", nStreams-1, len(runs2), runs2[len(runs2)-1])

	inFlight := mgr.converters["conv"].MaxProcessCount()
	if len(runs) > runsAtDetach+inFlight {
		t.Errorf("VIOLATION: the converter was detached after %d runs with at most %d more in flight, but it ran %d times: the job went on to convert every stream of the tag", runsAtDetach, inFlight, len(runs))
	}
	if cached != 0 {
		t.Errorf("VIOLATION: the converter is attached to no tag, yet %d streams have output cached", cached)
	}
	if len(runs2) > len(runs) {
		t.Errorf("VIOLATION: extending stream %d ran the detached converter again: %q", nStreams-1, runs2[len(runs):])
	}
}

func TestHuntDetachLeavesStreamsSubscribed(t *testing.T) {
	d, ctl := huntDetachSetup(t)
	mgr := makeManager(t, d)
	defer mgr.Close()
	if err := mgr.AddTag("tag/all", "red", ""); err != nil {
		t.Fatal(err)
	}
	if err := mgr.AddTag("tag/one", "red", "cport:1"); err != nil {
		t.Fatal(err)
	}
	huntDetachImport(t, mgr, []pcapOverIPPacket{
		makeUDPPacket("1.2.3.4:1", "4.3.2.1:4321", t1, "one"),
		makeUDPPacket("1.2.3.4:2", "4.3.2.1:4321", t1.Add(time.Second), "two"),
		makeUDPPacket("1.2.3.4:3", "4.3.2.1:4321", t1.Add(2*time.Second), "three"),
	})
	huntDetachQuiet(t, mgr)
	for _, tn := range []string{"tag/all", "tag/one"} {
		if err := mgr.UpdateTag(tn, UpdateTagOperationSetConverter([]string{"conv"})); err != nil {
			t.Fatal(err)
		}
	}
	huntDetachQuiet(t, mgr)
	if got := huntDetachCached(mgr); got != 3 {
		t.Fatalf("%d streams cached, want 3", got)
	}
	if err := mgr.UpdateTag("tag/all", UpdateTagOperationSetConverter(nil)); err != nil {
		t.Fatal(err)
	}
	huntDetachQuiet(t, mgr)
	runs := huntDetachRuns(t, ctl)
	t.Logf("conv is only attached to tag/one (cport:1, stream 0) now, runs so far: %q", runs)
	// stream 1 (cport 2) is extended, no tag with the converter matches it
	huntDetachImport(t, mgr, []pcapOverIPPacket{
		makeUDPPacket("1.2.3.4:2", "4.3.2.1:4321", t1.Add(3*time.Second), "+more"),
	})
	huntDetachQuiet(t, mgr)
	runs2 := huntDetachRuns(t, ctl)
	if len(runs2) > len(runs) {
		t.Errorf("VIOLATION: after detaching conv from tag/all, extending stream 1 (not matched by tag/one) ran the converter again: %q", runs2[len(runs):])
	}
}
