package index

// C03: a THEN chain whose left part contains a negated data filter next to a positive one
// is normalised to "matches nothing" as soon as the following operand is negated, although
// streams satisfy the query as written (and the same query with explicit brackets finds them).

import (
	"context"
	"slices"
	"testing"
	"time"

	"github.com/spq/pkappa2/internal/query"
)

func TestZZHuntThenNegationFirst(t *testing.T) {
	tmpDir := t.TempDir()
	converters := map[string]ConverterAccess{}
	streamsMap := map[uint64]streamInfo{
		// the client logs in once, the server never denies anything
		0: makeStream("192.168.0.100:1234", "192.168.0.1:80", t1.Add(time.Hour), []string{"login alice", "welcome", "get flag", "here it is"}),
		// the client logs in twice
		1: makeStream("192.168.0.101:1234", "192.168.0.1:80", t1.Add(2*time.Hour), []string{"login bob", "welcome", "login bob", "welcome"}),
		// the server denies
		2: makeStream("192.168.0.102:1234", "192.168.0.1:80", t1.Add(3*time.Hour), []string{"login eve", "denied"}),
	}
	r, err := makeIndex(tmpDir, streamsMap, &converters)
	if err != nil {
		t.Fatalf("makeIndex: %v", err)
	}
	defer r.Close()
	search := func(qs string) ([]uint64, *query.Query) {
		q, err := query.Parse(qs)
		if err != nil {
			t.Fatalf("Parse(%q): %v", qs, err)
		}
		res, _, _, err := SearchStreams(context.Background(), []*Reader{r}, nil, q.ReferenceTime, q.Conditions, nil, []query.Sorting{{Key: query.SortingKeyID, Dir: query.SortingDirAscending}}, 100, 0, nil, converters, false)
		if err != nil {
			t.Fatalf("SearchStreams(%q): %v", qs, err)
		}
		ids := []uint64{}
		for _, s := range res {
			ids = append(ids, s.StreamID)
		}
		return ids, q
	}
	want := []uint64{0}
	violated := false
	for _, qs := range []string{
		// reference spellings of the same meaning: they all find stream 0
		`-sdata:denied (cdata:login then -cdata:login)`,
		`-sdata:denied then (cdata:login then -cdata:login)`,
		// the spellings under test
		`-sdata:denied then cdata:login then -cdata:login`,
		`(-sdata:denied cdata:login) then -cdata:login`,
		`(cdata:login -sdata:denied) then -cdata:login`,
	} {
		got, q := search(qs)
		t.Logf("query %-55q normal form %-75s result %v", qs, q.Debug[1], got)
		if !slices.Equal(got, want) {
			violated = true
			t.Logf("VIOLATION: query %q returns %v, want %v (normal form %s, matches nothing: %v)", qs, got, want, q.Debug[1], len(q.Conditions) == 0)
		}
	}
	if violated {
		t.Fatalf("C03 violated: a satisfiable THEN chain is normalised to a query that matches nothing")
	}
}
