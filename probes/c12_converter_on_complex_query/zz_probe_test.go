package manager

// Probe for a defect reported by a round-7 agent (C11/C12): copy into internal/index/manager of a scratch worktree and run
//   go test -count=1 -vet=off -run TestProbeConverterOnComplexQuery ./internal/index/manager/
// A converter can only be attached to a tag whose query has no data filter and references no tag. The query-update path
// of UpdateTag carried the attachments over to the new definition without that test: `data:xyz` was accepted for a tag
// with a converter, the attachment stayed — and was gone after a restart, because the loader applies the test.

import (
	"slices"
	"testing"
)

func TestProbeConverterOnComplexQuery(t *testing.T) {
	dirs := makeTempdirs(t)
	addConverter(dirs, "foo")
	mgr := makeManager(t, dirs)
	closed := false
	defer func() {
		if !closed {
			mgr.Close()
		}
	}()
	if err := mgr.AddTag("tag/a", "red", "cport:123"); err != nil {
		t.Fatalf("AddTag: %v", err)
	}
	if err := mgr.UpdateTag("tag/a", UpdateTagOperationSetConverter([]string{"foo"})); err != nil {
		t.Fatalf("attach: %v", err)
	}
	convertersOf := func(m *Manager) (string, []string) {
		for _, ti := range m.ListTags() {
			if ti.Name == "tag/a" {
				return ti.Definition, ti.Converters
			}
		}
		t.Fatalf("tag/a is gone")
		return "", nil
	}
	for _, q := range []string{"data:xyz", "tag:b", "@s:cport@:123 cport:1"} {
		if q == "tag:b" {
			if err := mgr.AddTag("tag/b", "blue", "cport:1"); err != nil {
				t.Fatalf("AddTag b: %v", err)
			}
		}
		err := mgr.UpdateTag("tag/a", UpdateTagOperationUpdateQuery(q))
		def, conv := convertersOf(mgr)
		if err != nil {
			// refused: nothing may have changed
			if def != "cport:123" || !slices.Equal(conv, []string{"foo"}) {
				t.Fatalf("update to %q was refused (%v) but the tag is now %q with converters %v", q, err, def, conv)
			}
			continue
		}
		// accepted: the state has to survive a restart as it is
		mgr.Close()
		closed = true
		mgr2, err := New(dirs.pcap, dirs.index, dirs.snapshot, dirs.state, dirs.converter, dirs.watch)
		if err != nil {
			t.Fatalf("restart: %v", err)
		}
		def2, conv2 := convertersOf(mgr2)
		mgr2.Close()
		if def2 != def || !slices.Equal(conv2, conv) {
			t.Fatalf("update to %q was accepted: tag/a = %q with converters %v; after a restart it is %q with converters %v", q, def, conv, def2, conv2)
		}
		return
	}
}
