package query

// Probe for defect D8 (C03/C14): copy into internal/query of a scratch worktree and run
//   go test -count=1 -vet=off -run TestProbeSingleTimeValue ./internal/query/
// `ftime:"2020-01-01 1200"` stands for lower bound = upper bound = that absolute time. Before the repair the upper
// bound was copied without its ReferenceTimeFactor: Features() classified the filter as RELATIVE time, and
// UpdateReferenceTime moved only one of the two bounds.

import (
	"testing"
	"time"
)

func TestProbeSingleTimeValue(t *testing.T) {
	p, err := Parse(`ftime:"2020-01-01 1200"`)
	if err != nil {
		t.Fatal(err)
	}
	f := p.Conditions.Features()
	if f.MainFeatures&FeatureFilterTimeRelative != 0 {
		t.Errorf("an absolute time value is classified as a relative-time filter (features %b): %s", f.MainFeatures, p.Conditions.String())
	}
	for _, cs := range p.Conditions {
		for _, c := range cs {
			if tc, ok := c.(*TimeCondition); ok && tc.ReferenceTimeFactor == 0 {
				t.Errorf("bound %s of an absolute time value has no reference-time term", tc.String())
			}
		}
	}
	// moving the reference time must move both bounds
	r1, _ := Parse(`ftime:"2020-01-01 1200"`)
	before := r1.Conditions.String()
	_ = before
	// shifting the reference time by an hour must shift BOTH bounds by an hour: their sum stays what it was
	sum := func(cs ConditionsSet) time.Duration {
		d := time.Duration(0)
		for _, c := range cs[0] {
			d += c.(*TimeCondition).Duration
		}
		return d
	}
	s0 := sum(r1.Conditions)
	r1.Conditions.UpdateReferenceTime(r1.ReferenceTime, r1.ReferenceTime.Add(-time.Hour))
	if s1 := sum(r1.Conditions); s1 != s0 {
		t.Errorf("UpdateReferenceTime moved only one bound: lower+upper changed from %v to %v", s0, s1)
	}
}
