#!/bin/bash
# usage: demo.sh <project root>
# exits 1 if and only if the violation shows, 0 otherwise (also when the test could not run)
root="${1:?usage: demo.sh <project root>}"
here="$(cd "$(dirname "$0")" && pwd)"
export GOFLAGS=-mod=mod GOPROXY=off
unset GOWORK
test_file=zz_hunt_convjob_test.go
dst="$root/internal/index/manager/$test_file"
cp "$here/$test_file" "$dst" || exit 0
out="$(cd "$root" && timeout 170 go test -vet=off -count=1 -v -run '^TestHuntConverterJobWindow$' ./internal/index/manager/ 2>&1)"
rm -f "$dst"
echo "$out" | grep -v "event:" | tail -n 25
if echo "$out" | grep -q "VIOLATION:"; then
	exit 1
fi
exit 0
