package manager

// C06: while a converter job is running, the output of the streams it has already converted is visible to
// searches (data filters search the converter caches), but the tags with data filters are only marked as
// pending for these streams when the whole job ends. In between the service reports such a tag as decided
// (UncertainCount 0) with a membership that differs from what its definition gives in the same view.

import (
	"context"
	"fmt"
	"io"
	"log"
	"os"
	"path"
	"sort"
	"testing"
	"time"

	"github.com/spq/pkappa2/internal/query"
)

const huntGatedConverter = `#!/usr/bin/env python3
import base64, json, os, sys, time
gate = %q
lines = []
while 1:
    line = sys.stdin.readline()
    if line == "":
        break
    line = line.strip()
    if line != "":
        lines.append(json.loads(line))
        continue
    sid = lines[0]["StreamID"]
    if sid == 3:
        # the conversion of stream 3 takes long
        while not os.path.exists(gate):
            time.sleep(0.01)
    print(json.dumps({
        "Direction": "client-to-server",
        "Content": base64.b64encode(("CONVERTED %%d" %% sid).encode()).decode(),
        "Time": "2020-01-01T12:00:00.000000"
    }))
    print()
    print("{}", flush=True)
    lines = []
`

func huntSearchIDs(t *testing.T, v *View, q string) []uint64 {
	pq, err := query.Parse(q)
	if err != nil {
		t.Fatalf("Parse(%q): %v", q, err)
	}
	ids := []uint64{}
	if _, _, _, err := v.SearchStreams(context.Background(), pq, func(sc StreamContext) error {
		ids = append(ids, sc.Stream().ID())
		return nil
	}); err != nil {
		t.Fatalf("SearchStreams(%q): %v", q, err)
	}
	sort.Slice(ids, func(i, j int) bool { return ids[i] < ids[j] })
	return ids
}

func TestHuntConverterJobWindow(t *testing.T) {
	if os.Getenv("HUNT_LOG") == "" {
		log.SetOutput(io.Discard)
	}
	dirs := makeTempdirs(t)
	gate := path.Join(dirs.base, "release")
	if err := os.WriteFile(path.Join(dirs.converter, "conv"), []byte(fmt.Sprintf(huntGatedConverter, gate)), 0775); err != nil {
		t.Fatal(err)
	}
	mgr := makeManager(t, dirs)
	defer mgr.Close()
	defer os.WriteFile(gate, nil, 0644)

	importSomePackets(t, mgr, t1, "pcapProcessed") // streams 0..3
	if err := mgr.AddTag("service/all", "red", "sport:4321"); err != nil {
		t.Fatal(err)
	}
	// a tag that searches the data of the streams, the output of converters included
	if err := mgr.AddTag("tag/conv", "red", `data:"CONVERTED"`); err != nil {
		t.Fatal(err)
	}
	waitIdle := func(what string) {
		for i := 0; ; i++ {
			st := mgr.Status()
			pending := false
			for _, ti := range mgr.ListTags() {
				pending = pending || ti.UncertainCount != 0
			}
			if !st.TaggingJobRunning && !pending && st.ImportJobCount == 0 {
				return
			}
			if i > 10000 {
				t.Fatalf("%s: not idle: %+v", what, st)
			}
			time.Sleep(time.Millisecond)
		}
	}
	waitIdle("tagging")
	if err := mgr.UpdateTag("service/all", UpdateTagOperationSetConverter([]string{"conv"})); err != nil {
		t.Fatal(err)
	}
	// wait until the converter job has converted streams 0, 1, 2 and hangs in stream 3
	for i := 0; ; i++ {
		cached := uint64(0)
		for _, c := range mgr.ListConverters() {
			cached = c.CachedStreamCount
		}
		if cached == 3 {
			break
		}
		if i > 20000 {
			t.Fatalf("converter did not convert 3 streams, cached %d", cached)
		}
		time.Sleep(time.Millisecond)
	}
	st := mgr.Status()
	if !st.ConverterJobRunning {
		t.Fatalf("converter job is not running: %+v", st)
	}
	waitIdle("tagging while the converter job runs")

	// one view: the definition of the tag, searched directly, and the tag
	v := mgr.GetView()
	byDefinition := huntSearchIDs(t, &v, `data:"CONVERTED"`)
	byTag := huntSearchIDs(t, &v, `tag:conv`)
	uncertain := uint(0)
	for _, ti := range mgr.ListTags() {
		if ti.Name == "tag/conv" {
			uncertain = ti.UncertainCount
			t.Logf("ListTags: %+v", ti)
		}
	}
	shown := map[uint64][]string{}
	for _, id := range byDefinition {
		sc, err := v.Stream(id)
		if err != nil {
			t.Fatal(err)
		}
		tags, _ := sc.AllTags()
		shown[id] = tags
	}
	v.Release()
	t.Logf("while the converter job runs: data:\"CONVERTED\" finds %v, tag:conv finds %v, tag/conv pending streams: %d, tags shown: %v", byDefinition, byTag, uncertain, shown)
	violated := false
	if uncertain == 0 && fmt.Sprint(byDefinition) != fmt.Sprint(byTag) {
		violated = true
		t.Errorf("VIOLATION: tag/conv is reported as decided for all streams (UncertainCount 0) but tag:conv finds %v while its definition data:\"CONVERTED\" finds %v in the same view", byTag, byDefinition)
	}

	// after the job everything is fine again
	if err := os.WriteFile(gate, nil, 0644); err != nil {
		t.Fatal(err)
	}
	for i := 0; mgr.Status().ConverterJobRunning; i++ {
		if i > 20000 {
			t.Fatalf("converter job does not end")
		}
		time.Sleep(time.Millisecond)
	}
	waitIdle("tagging after the converter job")
	v2 := mgr.GetView()
	defer v2.Release()
	t.Logf("after the converter job: data:\"CONVERTED\" finds %v, tag:conv finds %v", huntSearchIDs(t, &v2, `data:"CONVERTED"`), huntSearchIDs(t, &v2, `tag:conv`))
	_ = violated
}
