package manager

// Probe for a defect found by a round-9 hunt agent (C11/C12): copy into internal/index/manager of a scratch worktree and run
//   go test -count=1 -vet=off -run TestHuntMarkAddMakesDefinitionUnparseable ./internal/index/manager/
// Mark-add appends ",<ids>" to the TEXT of the definition; for accepted definitions that are not written as a plain id
// list (a trailing newline, id:"1", id:1 limit:10) the result did not parse: after a restart every tag was gone.
