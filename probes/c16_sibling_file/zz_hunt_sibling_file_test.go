package manager

import (
	"os"
	"path"
	"testing"
	"time"
)

func huntWaitFor2(t *testing.T, what string, cond func() bool) {
	t.Helper()
	deadline := time.Now().Add(30 * time.Second)
	for !cond() {
		if time.Now().After(deadline) {
			t.Fatalf("timeout waiting for %s", what)
		}
		time.Sleep(20 * time.Millisecond)
	}
}

func huntIdle2(mgr *Manager) bool {
	for i := 0; i < 3; i++ {
		s := mgr.Status()
		if s.ImportJobCount != 0 || s.TaggingJobRunning || s.ConverterJobRunning || s.MergeJobRunning {
			return false
		}
		time.Sleep(100 * time.Millisecond)
	}
	return true
}

// History: converter "foo" (executable foo.py) is attached to a tag and has produced output.
// A file that merely shares the stem (notes "foo.txt"; an editor backup "foo.py~" behaves the same)
// is created next to it and deleted again. Nobody detached or removed the converter.
func TestHuntDeletingSiblingFileRemovesAttachedConverter(t *testing.T) {
	huntSiblingScenario(t, "foo.txt")
}

// the same with the name of an editor backup file, only run on request
func TestHuntDeletingBackupFileRemovesAttachedConverter(t *testing.T) {
	huntSiblingScenario(t, "foo.py~")
}

func huntSiblingScenario(t *testing.T, siblingName string) {
	dirs := makeTempdirs(t)
	if err := os.WriteFile(path.Join(dirs.converter, "foo.py"), converterScript, 0775); err != nil {
		t.Fatal(err)
	}
	mgr := makeManager(t, dirs)
	defer mgr.Close()

	importSomePackets(t, mgr, t1, "pcapProcessed")
	if err := mgr.AddTag("tag/all", "red", ""); err != nil {
		t.Fatalf("AddTag failed: %v", err)
	}
	huntWaitFor2(t, "tag evaluation", func() bool { return huntIdle2(mgr) })
	if err := mgr.UpdateTag("tag/all", UpdateTagOperationSetConverter([]string{"foo"})); err != nil {
		t.Fatalf("UpdateTag failed: %v", err)
	}
	cached := func() (uint64, bool) {
		for _, c := range mgr.ListConverters() {
			if c.Name == "foo" {
				return c.CachedStreamCount, true
			}
		}
		return 0, false
	}
	huntWaitFor2(t, "conversion of the 4 streams", func() bool { n, _ := cached(); return n == 4 && huntIdle2(mgr) })

	// an unrelated, not executable file next to the converter comes and goes
	sibling := path.Join(dirs.converter, siblingName)
	if err := os.WriteFile(sibling, []byte("notes about foo\n"), 0644); err != nil {
		t.Fatal(err)
	}
	time.Sleep(1500 * time.Millisecond) // the watcher debounces for 500ms
	if err := os.Remove(sibling); err != nil {
		t.Fatal(err)
	}
	time.Sleep(1500 * time.Millisecond)
	huntWaitFor2(t, "idle", func() bool { return huntIdle2(mgr) })

	if _, err := os.Stat(path.Join(dirs.converter, "foo.py")); err != nil {
		t.Fatalf("scenario broken: converter executable is gone: %v", err)
	}

	// four more streams that match the tag arrive
	importSomePackets(t, mgr, t1.Add(time.Hour), "pcapProcessed")
	time.Sleep(500 * time.Millisecond)
	huntWaitFor2(t, "idle", func() bool { return huntIdle2(mgr) })

	n, known := cached()
	tags := mgr.ListTags()
	t.Logf("converter foo known: %v, cached streams: %d, tag converters: %v", known, n, tags[0].Converters)
	if !known {
		t.Errorf("VIOLATION: converter foo is not listed any more although foo.py is still there and nobody removed it")
	}
	if len(tags) != 1 || len(tags[0].Converters) != 1 {
		t.Errorf("tag/all lost its attached converter: Converters = %v, want [foo]", tags[0].Converters)
	}
	if n != 8 {
		t.Errorf("%d streams have output of foo, want 8 (every stream matching tag/all)", n)
	}
	// what a user sees for one of the old streams
	view := mgr.GetView()
	defer view.Release()
	sc, err := view.Stream(0)
	if err != nil {
		t.Fatalf("view.Stream failed: %v", err)
	}
	if cs, err := sc.AllConverters(); err != nil || len(cs) != 1 {
		t.Errorf("stream 0: AllConverters() = %v, %v, want [foo]", cs, err)
	}
	if _, err := sc.Data("foo"); err != nil {
		t.Errorf("stream 0: Data(\"foo\") failed: %v", err)
	}
}
