package index

// C03: in a THEN chain "a then -b then c then -d" the last negated filter is also applied
// right behind a (the position of the earlier negated filter) and not only behind c, so
// streams that satisfy the query as written are rejected.

import (
	"context"
	"slices"
	"testing"
	"time"

	"github.com/spq/pkappa2/internal/query"
)

func TestZZHuntThenStaleAnchor(t *testing.T) {
	tmpDir := t.TempDir()
	converters := map[string]ConverterAccess{}
	streamsMap := map[uint64]streamInfo{
		// login, (no denial), a second login, logout, nothing behind the logout
		0: makeStream("192.168.0.100:1234", "192.168.0.1:80", t1.Add(time.Hour), []string{"login alice", "welcome", "login alice", "welcome", "logout", "bye"}),
		// login, logout, and a login behind the logout
		1: makeStream("192.168.0.101:1234", "192.168.0.1:80", t1.Add(2*time.Hour), []string{"login bob", "welcome", "logout", "bye", "login bob", "welcome"}),
		// the login is denied
		2: makeStream("192.168.0.102:1234", "192.168.0.1:80", t1.Add(3*time.Hour), []string{"login eve", "denied", "logout", "bye"}),
		// one login, logout
		3: makeStream("192.168.0.103:1234", "192.168.0.1:80", t1.Add(4*time.Hour), []string{"login dave", "welcome", "logout", "bye"}),
	}
	r, err := makeIndex(tmpDir, streamsMap, &converters)
	if err != nil {
		t.Fatalf("makeIndex: %v", err)
	}
	defer r.Close()
	search := func(qs string) ([]uint64, *query.Query) {
		q, err := query.Parse(qs)
		if err != nil {
			t.Fatalf("Parse(%q): %v", qs, err)
		}
		res, _, _, err := SearchStreams(context.Background(), []*Reader{r}, nil, q.ReferenceTime, q.Conditions, nil, []query.Sorting{{Key: query.SortingKeyID, Dir: query.SortingDirAscending}}, 100, 0, nil, converters, false)
		if err != nil {
			t.Fatalf("SearchStreams(%q): %v", qs, err)
		}
		ids := []uint64{}
		for _, s := range res {
			ids = append(ids, s.StreamID)
		}
		return ids, q
	}
	// "the client logs in, the server does not deny behind that, the client logs out, no login behind the logout"
	want := []uint64{0, 3}
	violated := false
	for _, qs := range []string{
		// reference spelling: the two facts about the position of the login and the fact about the position of the logout
		`(cdata:login then -sdata:denied) (cdata:login then cdata:logout then -cdata:login)`,
		// the chain under test
		`cdata:login then -sdata:denied then cdata:logout then -cdata:login`,
	} {
		got, q := search(qs)
		t.Logf("query %q\n        normal form %s\n        result %v", qs, q.Debug[1], got)
		if !slices.Equal(got, want) {
			violated = true
			t.Logf("VIOLATION: query %q returns %v, want %v", qs, got, want)
		}
	}
	if violated {
		t.Fatalf("C03 violated: the negated filter at the end of a THEN chain is applied behind an earlier element of the chain as well")
	}
}
