#!/bin/bash
# usage: demo.sh <project root>
root="${1:?usage: demo.sh <project root>}"
here="$(cd "$(dirname "$0")" && pwd)"
export GOFLAGS=-mod=mod GOPROXY=off
unset GOWORK
f=zz_hunt_then_stale_anchor_test.go
dst="$root/internal/index/$f"
cp "$here/$f" "$dst" || exit 0
out="$(cd "$root" && timeout 170 go test -vet=off -count=1 -run '^TestZZHuntThenStaleAnchor$' -v ./internal/index/ 2>&1)"
rm -f "$dst"
echo "$out" | grep -E 'query |normal form|result|VIOLATION|C03 violated|^(--- |ok|FAIL|PASS)|panic|cannot|error' | cut -c1-400
if echo "$out" | grep -q 'C03 violated'; then
	exit 1
fi
exit 0
