#!/bin/bash
# usage: demo.sh <project root>
# exit 1 if and only if the violation shows, 0 otherwise (also when the test could not run)
ROOT="${1:?usage: demo.sh <project root>}"
HERE="$(cd "$(dirname "$0")" && pwd)"
TESTFILE=zz_hunt_fdclose_test.go
PKGDIR="$ROOT/internal/index/manager"
export GOFLAGS=-mod=mod GOPROXY=off
unset GOWORK
export ZZ_SECONDS="${ZZ_SECONDS:-140}" ZZ_ENDPOINTS="${ZZ_ENDPOINTS:-4}"
if [ ! -d "$PKGDIR" ]; then
	echo "package directory $PKGDIR not found"
	exit 0
fi
cp "$HERE/$TESTFILE" "$PKGDIR/$TESTFILE" || exit 0
OUT="$(cd "$ROOT" && timeout 175 go test -vet=off -count=1 -v -run '^TestZZHuntPcapOverIPDisconnectClosesForeignFile$' ./internal/index/manager/ 2>&1)"
rm -f "$PKGDIR/$TESTFILE"
echo "$OUT" | grep -v '^20[0-9][0-9]/' | grep -v '^goroutine \|^\s\+/\|^created by\|^github.com\|^runtime\|^testing\|^os\.\|^io\.\|^encoding\|^internal/' | cut -c1-600 | tail -n 30
if echo "$OUT" | grep -q 'VIOLATION'; then
	echo "RESULT: violation shown"
	exit 1
fi
if echo "$OUT" | grep -q '^ok'; then
	echo "RESULT: no violation"
else
	echo "RESULT: test could not run or did not finish"
fi
exit 0
