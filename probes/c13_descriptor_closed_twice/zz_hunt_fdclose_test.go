package manager

import (
	"bytes"
	"context"
	"encoding/binary"
	"fmt"
	"net"
	"os"
	"path/filepath"
	"strconv"
	"strings"
	"sync"
	"sync/atomic"
	"testing"
	"time"

	"github.com/gopacket/gopacket/layers"
	"github.com/gopacket/gopacket/pcapgo"
	"github.com/spq/pkappa2/internal/index"
)

// A PCAP-over-IP source that accepts a connection, sends the pcap file header and one packet and closes the
// connection again (a broker that is restarted, a flapping link). The service connects again after a second.
func zzFdServePcapOverIP(t *testing.T, l net.Listener, connections *atomic.Int64) {
	for {
		c, err := l.Accept()
		if err != nil {
			return
		}
		buf := bytes.Buffer{}
		w := pcapgo.NewWriter(&buf)
		_ = w.WriteFileHeader(0xffff, layers.LinkTypeIPv4)
		p := makeUDPPacket("10.9.9.9:999", "10.8.8.8:53", t1.Add(time.Hour), "x")
		ci := p.ci
		ci.Length = ci.CaptureLength
		_ = w.WritePacket(ci, p.data)
		_, _ = c.Write(buf.Bytes())
		time.Sleep(20 * time.Millisecond)
		c.Close()
		connections.Add(1)
	}
}

func TestZZHuntPcapOverIPDisconnectClosesForeignFile(t *testing.T) {
	endpoints := 4
	if v, err := strconv.Atoi(os.Getenv("ZZ_ENDPOINTS")); err == nil {
		endpoints = v
	}
	duration := 60 * time.Second
	if v, err := strconv.Atoi(os.Getenv("ZZ_SECONDS")); err == nil {
		duration = time.Duration(v) * time.Second
	}
	dirs := makeTempdirs(t)
	mgr := makeManager(t, dirs)
	defer mgr.Close()

	// an index file with a few streams, written by a normal import
	pkts := []pcapOverIPPacket{}
	for i := 0; i < 20; i++ {
		pkts = append(pkts, makeUDPPacket(fmt.Sprintf("10.0.0.%d:4000", 1+i), "10.0.1.1:53", t1.Add(time.Duration(i)*time.Second), fmt.Sprintf("payload-%02d", i)))
	}
	buf := bytes.Buffer{}
	w := pcapgo.NewWriter(&buf)
	if err := w.WriteFileHeader(0xffff, layers.LinkTypeIPv4); err != nil {
		t.Fatal(err)
	}
	for _, p := range pkts {
		ci := p.ci
		ci.Length = ci.CaptureLength
		if err := w.WritePacket(ci, p.data); err != nil {
			t.Fatal(err)
		}
	}
	if err := os.WriteFile(filepath.Join(dirs.pcap, "a.pcap"), buf.Bytes(), 0o644); err != nil {
		t.Fatal(err)
	}
	mgr.ImportPcaps([]string{"a.pcap"})
	for deadline := time.Now().Add(20 * time.Second); ; time.Sleep(10 * time.Millisecond) {
		if s := mgr.Status(); s.ImportJobCount == 0 && s.IndexCount == 1 {
			break
		}
		if time.Now().After(deadline) {
			t.Fatal("import did not finish")
		}
	}
	idxFiles, _ := filepath.Glob(filepath.Join(dirs.index, "*.idx"))
	if len(idxFiles) != 1 {
		t.Fatalf("want one index file, got %v", idxFiles)
	}

	// readers of that index file, this is what every import, merge, view and start-up does with index files:
	// open it (index.NewReader), read streams from it, close it.
	stop := make(chan struct{})
	var failures atomic.Int64
	var reads atomic.Int64
	var firstFailure atomic.Value
	fail := func(format string, args ...interface{}) {
		msg := fmt.Sprintf(format, args...)
		if failures.Add(1) == 1 {
			firstFailure.Store(msg)
		}
	}
	wg := sync.WaitGroup{}
	for g := 0; g < 4; g++ {
		wg.Add(1)
		go func() {
			defer wg.Done()
			for {
				select {
				case <-stop:
					return
				default:
				}
				r, err := index.NewReader(idxFiles[0])
				if err != nil {
					fail("index.NewReader: %v", err)
					continue
				}
				n := 0
				err = r.AllStreams(func(s *index.Stream) error {
					d, err := s.Data()
					if err != nil {
						return err
					}
					if len(d) != 1 || !strings.HasPrefix(string(d[0].Content), "payload-") {
						return fmt.Errorf("stream %d reads %q", s.ID(), d)
					}
					n++
					return nil
				})
				if err != nil {
					fail("reading the index: %v", err)
				} else if n != 20 {
					fail("index has %d streams, want 20", n)
				}
				if err := r.Close(); err != nil {
					fail("closing the index: %v", err)
				}
				reads.Add(1)
			}
		}()
	}

	// the flapping PCAP-over-IP sources
	var connections atomic.Int64
	for i := 0; i < endpoints; i++ {
		l, err := net.Listen("tcp", "127.0.0.1:0")
		if err != nil {
			t.Fatal(err)
		}
		defer l.Close()
		go zzFdServePcapOverIP(t, l, &connections)
		if err := mgr.AddPcapOverIPEndpoint(l.Addr().String()); err != nil {
			t.Fatal(err)
		}
	}
	start := time.Now()
	for time.Since(start) < duration && failures.Load() == 0 {
		time.Sleep(50 * time.Millisecond)
	}
	close(stop)
	wg.Wait()
	t.Logf("%d endpoint(s), %d connections were closed by the source, %d times the index was read, %d failures in %s", endpoints, connections.Load(), reads.Load(), failures.Load(), time.Since(start).Round(time.Millisecond))
	if failures.Load() != 0 {
		t.Errorf("VIOLATION: a reader of an index file was disturbed while a PCAP-over-IP connection ended: %v", firstFailure.Load())
	}
	_ = context.Background
	_ = binary.LittleEndian
}
