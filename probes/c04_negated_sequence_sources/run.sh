#!/bin/sh
# usage: demo.sh <project root>
# exits non-zero iff the violation shows (test TestZZHuntNegatedSequenceAndDataSources fails)
ROOT="${1:?usage: demo.sh <project root>}"
HERE="$(cd "$(dirname "$0")" && pwd)"
export GOFLAGS=-mod=mod GOPROXY=off
unset GOWORK
DST="$ROOT/internal/index/zz_hunt_negated_sequence_sources_test.go"
cp "$HERE/zz_hunt_negated_sequence_sources_test.go" "$DST" || exit 0
OUT="$(cd "$ROOT" && go test ./internal/index/ -run '^TestZZHuntNegatedSequenceAndDataSources$' -count=1 -v 2>&1)"
rm -f "$DST"
echo "$OUT"
if echo "$OUT" | grep -q -- '--- FAIL: TestZZHuntNegatedSequenceAndDataSources'; then
	echo "VIOLATION SHOWN"
	exit 1
fi
if echo "$OUT" | grep -q -- '--- PASS: TestZZHuntNegatedSequenceAndDataSources'; then
	echo "no violation"
	exit 0
fi
echo "test did not run (build or environment problem)"
exit 0
