package index

import (
	"context"
	"fmt"
	"testing"
	"time"

	"github.com/spq/pkappa2/internal/query"
)

// A data filter without a converter name searches the raw payload and the cached
// output of every converter. Q = cdata:"login" then sdata:"ok" selects a stream when
// one of these representations contains login followed by ok, -(Q) selects the others.
//
//	stream 0: raw  client "login" server "denied"    converter c0: client "hello" server "world"
//	stream 1: raw  client "login" server "denied"    (no converter output)
//	stream 2: raw  client "login" server "ok"        (no converter output)
//
// No representation of stream 0 and 1 contains login followed by ok.
func TestZZHuntNegatedSequenceAndDataSources(t *testing.T) {
	converters := map[string]ConverterAccess{}
	r, err := makeIndex(t.TempDir(), map[uint64]streamInfo{
		0: makeStream("10.0.0.1:1000", "10.0.0.2:80", t1.Add(1*time.Hour), []string{"login", "denied"}, []string{"hello", "world"}),
		1: makeStream("10.0.0.1:1001", "10.0.0.2:80", t1.Add(2*time.Hour), []string{"login", "denied"}),
		2: makeStream("10.0.0.1:1002", "10.0.0.2:80", t1.Add(3*time.Hour), []string{"login", "ok"}),
	}, &converters)
	if err != nil {
		t.Fatal(err)
	}
	defer r.Close()
	if _, ok := converters["c0"]; !ok {
		t.Fatal("converter c0 missing")
	}

	search := func(qs string) string {
		q, err := query.Parse(qs)
		if err != nil {
			t.Fatalf("parse %q: %v", qs, err)
		}
		res, _, _, err := SearchStreams(context.Background(), []*Reader{r}, nil, q.ReferenceTime, q.Conditions, nil, []query.Sorting{{Key: query.SortingKeyID, Dir: query.SortingDirAscending}}, 100, 0, nil, converters, false)
		if err != nil {
			t.Fatalf("search %q: %v", qs, err)
		}
		ids := []uint64{}
		for _, s := range res {
			ids = append(ids, s.StreamID)
		}
		return fmt.Sprint(ids)
	}

	// the sequence itself is found where it is
	if got := search(`cdata:"login" then sdata:"ok"`); got != "[2]" {
		t.Errorf(`cdata:"login" then sdata:"ok": got %s, want [2]`, got)
	}
	// ... so its negation has to select the two other streams
	if got := search(`-(cdata:"login" then sdata:"ok")`); got != "[0 1]" {
		t.Errorf(`-(cdata:"login" then sdata:"ok"): got %s, want [0 1] (stream 0 is selected neither by the filter nor by its negation)`, got)
	}

	// Restricted to the output of converter c0: only stream 0 has such output, and it does not contain login.
	// "login, not followed by ok" can't be true for a stream in whose c0 output login does not occur at all.
	if got := search(`cdata.c0:"login" then -sdata.c0:"ok"`); got != "[]" {
		t.Errorf(`cdata.c0:"login" then -sdata.c0:"ok": got %s, want [] (no stream has login in its c0 output)`, got)
	}
	if got := search(`cdata.c0:"hello" then -sdata.c0:"ok"`); got != "[0]" {
		t.Errorf(`cdata.c0:"hello" then -sdata.c0:"ok": got %s, want [0]`, got)
	}
}
