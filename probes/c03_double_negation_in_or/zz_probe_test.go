package query

// Probe for two defects reported by a round-7 agent (C03): copy into internal/query of a scratch worktree and run
//   go test -count=1 -vet=off -run TestProbeDoubleNegationInOr ./internal/query/
// The negation of the impossible condition was returned as an EMPTY ConditionsSet. And/then read the empty set as
// "no restriction", Or (a concatenation) as "no alternative": `sport:80 or --protocol:@protocol@` normalised to
// `sport:80` although it is always true, and `-(-protocol:@protocol@ then cdata:x)` to `-cdata:"x"`.

import "testing"

func TestProbeDoubleNegationInOr(t *testing.T) {
	norm := func(q string) string {
		pq, err := Parse(q)
		if err != nil {
			t.Fatalf("parse %q: %v", q, err)
		}
		return pq.Conditions.String()
	}
	all := norm(`protocol:@protocol@`)
	for _, q := range []string{
		`--protocol:@protocol@`,
		`sport:80 or --protocol:@protocol@`,
		`--protocol:@protocol@ or sport:80`,
		`sport:80 or -(-protocol:@protocol@)`,
		`-(-protocol:@protocol@ then cdata:x)`,
		`-(-chost:@chost@ then cdata:x)`,
	} {
		if got := norm(q); got != all {
			t.Errorf("%-45s normalises to %s, it is always true: %s", q, got, all)
		}
	}
	// and the other way round: nothing else changes
	if got, want := norm(`sport:80 --protocol:@protocol@`), norm(`sport:80`); got != want {
		t.Errorf("sport:80 --protocol:@protocol@ normalises to %s, want %s", got, want)
	}
	if got := norm(`-protocol:@protocol@ or sport:80`); got != norm(`sport:80`) {
		t.Errorf("-protocol:@protocol@ or sport:80 normalises to %s", got)
	}
}
