package manager

// Probe for defects D9/D10 (C11): copy into internal/index/manager of a scratch worktree and run
//   go test -count=1 -vet=off -run TestProbeMarkIDs ./internal/index/manager/
// D10: MarkAddStream([0]) returned nil and changed nothing (0 doubled as the 'no mark operation' sentinel).
// D9:  MarkAddStream([MaxUint64, 1]) crashed the service: s+1 wrapped to 0 and bypassed the stream-id check.

import (
	"math"
	"testing"
)

func TestProbeMarkIDs(t *testing.T) {
	dirs := makeTempdirs(t)
	mgr := makeManager(t, dirs)
	defer mgr.Close()
	importSomePackets(t, mgr, t1, "pcapProcessed")
	if err := mgr.AddTag("mark/m", "red", "id:-1"); err != nil {
		t.Fatalf("AddTag: %v", err)
	}
	if err := mgr.UpdateTag("mark/m", UpdateTagOperationMarkAddStream([]uint64{0})); err != nil {
		t.Fatalf("MarkAddStream([0]): %v", err)
	}
	found := false
	for _, ti := range mgr.ListTags() {
		if ti.Name == "mark/m" {
			found = true
			if ti.MatchingCount+ti.UncertainCount != 1 {
				t.Errorf("MarkAddStream([0]) reported success but the tag has %d matching and %d pending streams", ti.MatchingCount, ti.UncertainCount)
			}
		}
	}
	if !found {
		t.Fatal("tag vanished")
	}
	if err := mgr.UpdateTag("mark/m", UpdateTagOperationMarkAddStream([]uint64{math.MaxUint64, 1})); err == nil {
		t.Errorf("MarkAddStream([MaxUint64, 1]) was accepted")
	}
	if len(mgr.ListTags()) != 1 {
		t.Errorf("service does not answer any more")
	}
}
